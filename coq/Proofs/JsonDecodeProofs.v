(* Lemmas about the JSON decode provider (Model/JsonDecode.v). *)
From Coq Require Import List Arith Bool Lia.
From PV Require Import Model.JsonDecode.
Import ListNotations.

(* ---- part A ---- *)

(* on the tree the noted-error flag stays clear while data is handed out *)
Lemma jd_tree_rerr : forall eofwl (r : list (list jitem)),
  false || (jv_record_with_data jd_tree && eofwl && jd_is_last r) = false.
Proof. reflexivity. Qed.

Lemma jd_scan_app : forall limit rerr b1 b2 d,
  jd_scan limit rerr (b1 ++ b2) d =
  match jd_scan limit rerr b1 d with
  | (Some res, d') => (Some res, d')
  | (None, d') => jd_scan limit rerr b2 d'
  end.
Proof.
  induction b1 as [|i r IH]; intros b2 d; cbn [app jd_scan].
  - reflexivity.
  - destruct i.
    + destruct (jd_lim_reached limit (S d)); [reflexivity|apply IH].
    + apply IH.
    + reflexivity.
Qed.

(* how the source cuts the data into reads, and whether its last read carries io.EOF, does not matter on the tree *)
Lemma jd_pass_tree_chunking : forall chunks limit eofwl d,
  jd_pass jd_tree limit eofwl chunks false d =
  match jd_scan limit false (concat chunks) d with
  | (Some res, d') => (res, d')
  | (None, d') => (JdNil, d')
  end.
Proof.
  induction chunks as [|c r IH]; intros limit eofwl d.
  - reflexivity.
  - cbn [jd_pass concat]. rewrite jd_tree_rerr. rewrite jd_scan_app.
    destruct (jd_scan limit false c d) as [[res|] d']; [reflexivity|]. apply IH.
Qed.

Lemma jd_scan_bad : forall l d,
  existsb ji_bad l = true -> jd_scan 0 false l d = (Some JdFail, d + jd_ammo_before_bad l).
Proof.
  induction l as [|i r IH]; intros d Hb; cbn in Hb; [discriminate|].
  destruct i; cbn [jd_scan jd_ammo_before_bad jd_lim_reached Nat.ltb Nat.leb andb].
  - cbn. rewrite IH by exact Hb. f_equal. lia.
  - apply IH, Hb.
  - f_equal. lia.
Qed.

Lemma jd_scan_healthy : forall l d,
  existsb ji_bad l = false -> jd_scan 0 false l d = (None, d + jd_count_ammo l).
Proof.
  induction l as [|i r IH]; intros d Hb.
  - cbn. f_equal. lia.
  - destruct i; cbn in Hb; try discriminate.
    + cbn [jd_scan]. cbn. rewrite IH by exact Hb. unfold jd_count_ammo. f_equal. lia.
    + cbn [jd_scan]. rewrite IH by exact Hb. reflexivity.
Qed.

(* no limit: the provider fails exactly when something in the data does not decode, having handed out the ammo before it;
   otherwise it ends with nil having handed out everything *)
Lemma jd_pass_tree_spec : forall chunks eofwl d,
  jd_pass jd_tree 0 eofwl chunks false d =
  if jd_spec_fails (concat chunks) then (JdFail, d + jd_ammo_before_bad (concat chunks))
  else (JdNil, d + jd_count_ammo (concat chunks)).
Proof.
  intros chunks eofwl d. rewrite jd_pass_tree_chunking. unfold jd_spec_fails.
  destruct (existsb ji_bad (concat chunks)) eqn:Hb.
  - rewrite jd_scan_bad by exact Hb. reflexivity.
  - rewrite jd_scan_healthy by exact Hb. reflexivity.
Qed.

(* any limit: a nil result means the limit was reached or nothing in the data is broken -- never swallowed *)
Lemma jd_scan_nil_honest : forall limit l d res d',
  jd_scan limit false l d = (res, d') ->
  res <> Some JdFail -> jd_lim_reached limit d' = true \/ existsb ji_bad l = false.
Proof.
  induction l as [|i r IH]; intros d res d' H Hn.
  - right. reflexivity.
  - destruct i; cbn [jd_scan] in H.
    + destruct (jd_lim_reached limit (S d)) eqn:Hl.
      * inversion H; subst. left. exact Hl.
      * cbn [existsb ji_bad orb]. eapply IH; eauto.
    + cbn [existsb ji_bad orb]. eapply IH; eauto.
    + inversion H; subst. contradiction Hn. reflexivity.
Qed.

Lemma jd_pass_tree_nil_honest : forall chunks limit eofwl d n,
  jd_pass jd_tree limit eofwl chunks false d = (JdNil, n) ->
  jd_lim_reached limit n = true \/ jd_spec_fails (concat chunks) = false.
Proof.
  intros chunks limit eofwl d n H. rewrite jd_pass_tree_chunking in H.
  destruct (jd_scan limit false (concat chunks) d) as [[res|] d'] eqn:Hs.
  - inversion H; subst. eapply jd_scan_nil_honest; [exact Hs|discriminate].
  - inversion H; subst. eapply jd_scan_nil_honest; [exact Hs|discriminate].
Qed.

(* the edit "note the error also when it came with data": once io.EOF is noted nothing is reported any more *)
Lemma jd_scan_noted_never_fails : forall limit l d, fst (jd_scan limit true l d) <> Some JdFail.
Proof.
  induction l as [|i r IH]; intros d; cbn [jd_scan].
  - discriminate.
  - destruct i.
    + destruct (jd_lim_reached limit (S d)); [discriminate|apply IH].
    + apply IH.
    + discriminate.
Qed.

Lemma jd_pass_noting_swallows : forall l limit d,
  fst (jd_pass jd_notes_error_with_data limit true [l] false d) <> JdFail.
Proof.
  intros l limit d. cbn [jd_pass jd_is_last jd_notes_error_with_data jv_record_with_data andb orb].
  pose proof (jd_scan_noted_never_fails limit l d) as H.
  destruct (jd_scan limit true l d) as [[res|] d']; cbn in *.
  - intros ->. apply H. reflexivity.
  - discriminate.
Qed.

(* ---- part B ---- *)

(* a source that holds no ammo (empty, or white space only): with the guard installed the provider ends after ONE pass,
   whatever passes / limit say *)
Lemma jd_passes_no_ammo_ends : forall v passes limit pend nonempty fuel,
  jv_guard v passes = true ->
  jd_passes (S fuel) v passes limit 0 pend nonempty 0 0 0 = (JdNil, 0).
Proof.
  intros v passes limit pend nonempty fuel Hg. cbn [jd_passes Nat.add Nat.sub].
  replace (jd_lim_reached limit 0) with false
    by (unfold jd_lim_reached; destruct limit; reflexivity).
  destruct nonempty; cbn [negb]; [|reflexivity].
  rewrite Hg. cbn. destruct passes as [|[|p]]; reflexivity.
Qed.

(* the edit "install the guard only for passes > 1": with passes = 0 (unlimited) a source of white space only is
   rewound for ever -- whatever the fuel, it is used up; the queue is never closed *)
Lemma jd_passes_guardless_never_ends : forall fuel limit pend pc db,
  jd_passes fuel jd_guard_for_several_passes 0 limit 0 pend true pc 0 db = (JdOutOfFuel, 0).
Proof.
  induction fuel as [|f IH]; intros limit pend pc db; [reflexivity|].
  cbn [jd_passes Nat.add Nat.sub].
  replace (jd_lim_reached limit 0) with false
    by (unfold jd_lim_reached; destruct limit; reflexivity).
  cbn. apply IH.
Qed.

(* a source with ammo, passes > 0, no limit, and either the guard keeps an io.EOF that comes with data back or the
   source reports its end on a read of its own: the guard never refuses a rewind, the provider ends after `passes` passes
   having handed out passes * a ammo *)
Lemma jd_passes_counts : forall v a pend,
  jv_defers_eof v = true \/ pend = 0 ->
  forall passes n pc d db fuel,
  0 < a -> 0 < n -> pc + n = passes -> db <= d -> n <= fuel ->
  jd_passes fuel v passes 0 a pend true pc d db = (JdNil, d + n * a).
Proof.
  intros v a pend Hd passes n.
  assert (Hs : (if jv_defers_eof v then 0 else pend) = 0)
    by (destruct Hd as [Hd | Hd]; rewrite Hd; [reflexivity | destruct (jv_defers_eof v); reflexivity]).
  revert passes. induction n as [|n IH]; intros passes pc d db fuel Ha Hn Hp Hdb Hf; [lia|].
  destruct fuel as [|f]; [lia|]. cbn [jd_passes negb]. rewrite Hs, Nat.sub_0_r.
  replace (jd_lim_reached 0 (d + a)) with false by reflexivity.
  destruct n as [|n'].
  - replace (passes =? 0) with false by (symmetry; apply Nat.eqb_neq; lia).
    replace (S pc <? passes) with false by (symmetry; apply Nat.ltb_ge; lia).
    cbn. f_equal. lia.
  - replace (S pc <? passes) with true by (symmetry; apply Nat.ltb_lt; lia).
    rewrite orb_true_r.
    replace (d + a =? db) with false by (symmetry; apply Nat.eqb_neq; lia).
    rewrite andb_false_r.
    rewrite (IH passes (S pc) (d + a) (d + a) f) by lia. f_equal. lia.
Qed.

(* with a limit the provider ends whatever passes says (also passes = 0), within limit + 1 passes *)
Lemma jd_passes_limit_ends : forall v a passes limit pend fuel pc d db,
  0 < a -> 0 < limit -> limit <= d + fuel ->
  fst (jd_passes (S fuel) v passes limit a pend true pc d db) = JdNil.
Proof.
  intros v a passes limit pend fuel. induction fuel as [|f IH]; intros pc d db Ha Hl Hf.
  - cbn [jd_passes]. unfold jd_lim_reached.
    replace (0 <? limit) with true by (symmetry; apply Nat.ltb_lt; lia).
    replace (limit <=? d + a) with true by (symmetry; apply Nat.leb_le; lia). reflexivity.
  - cbn [jd_passes negb]. destruct (jd_lim_reached limit (d + a)); [reflexivity|].
    destruct ((passes =? 0) || (S pc <? passes)); [|reflexivity].
    match goal with |- context [jv_guard v passes && ?c] => destruct (jv_guard v passes && c) end; [reflexivity|].
    apply IH; lia.
Qed.

(* sensitivity: WITHOUT the guard's own Read the statement "passes passes hand out passes * a ammo" is false of a source
   that can be sought and hands all its data out in one read together with io.EOF: the guard, asked to rewind inside that
   read, sees that nothing was decoded yet and refuses -- one pass only, whatever passes says (0 = unlimited included) *)
Lemma jd_passes_eof_with_data_one_pass : forall v a passes fuel,
  jv_defers_eof v = false ->
  0 < a -> passes <> 1 -> jv_guard v passes = true ->
  jd_passes (S fuel) v passes 0 a a true 0 0 0 = (JdNil, a).
Proof.
  intros v a passes fuel Hd Ha Hp Hg. cbn [jd_passes negb Nat.add].
  replace (jd_lim_reached 0 a) with false by reflexivity.
  rewrite Hg, Hd, Nat.sub_diag. cbn [Nat.eqb andb].
  destruct passes as [|[|p]]; [reflexivity|contradiction Hp; reflexivity|reflexivity].
Qed.
