(* Lemmas for property C17, round 7:
   (1) relations between options of a component's config that its constructor enforces (TCtorRel: `uris` and `file`
       of the http providers exclude each other, one of them is needed, `uris` only with the uri decoder);
   (2) the environment behind ${env:NAME}: a list of NAME=value entries looked up by the exact name. *)
From Coq Require Import List NArith ZArith Bool QArith Lia.
From PV Require Import Model.ConfigDecode Proofs.ConfigDecodeProofs Proofs.ConfigDepthProofs.
Import ListNotations.
Local Open Scope N_scope.

(* ---------------------------------------------------------------- (2) the environment *)
Definition other_name (name : str) (kv : str * str) : bool := negb (str_eqb (fst kv) name).

(* the first entry named exactly NAME answers ... *)
Theorem env_of_list_hit : forall pre name v post,
  forallb (other_name name) pre = true -> env_of_list (pre ++ (name, v) :: post) name = Some v.
Proof.
  induction pre as [|[k x] pre IH]; intros name v post H; cbn in *.
  - rewrite str_eqb_refl. reflexivity.
  - apply andb_true_iff in H. destruct H as [Hk Hp]. unfold other_name in Hk. cbn in Hk.
    apply negb_true_iff in Hk. rewrite Hk. apply IH. exact Hp.
Qed.

(* ... and nothing else does: the variable is unset exactly when NO entry carries exactly that name *)
Theorem env_of_list_miss : forall l name,
  env_of_list l name = None <-> forallb (other_name name) l = true.
Proof.
  induction l as [|[k x] l IH]; intro name; cbn.
  - split; reflexivity.
  - unfold other_name at 1. cbn. destruct (str_eqb k name); cbn.
    + split; discriminate.
    + apply IH.
Qed.

Theorem env_of_list_some : forall l name v,
  env_of_list l name = Some v ->
  exists pre post, l = pre ++ (name, v) :: post /\ forallb (other_name name) pre = true.
Proof.
  induction l as [|[k x] l IH]; intros name v H; cbn in H; [discriminate|].
  destruct (str_eqb k name) eqn:E.
  - inversion H; subst. apply str_eqb_eq in E. subst. exists [], l. split; reflexivity.
  - destruct (IH _ _ H) as [pre [post [-> Hp]]]. exists ((k, x) :: pre), post. split; [reflexivity|].
    cbn. unfold other_name at 1. cbn. rewrite E. exact Hp.
Qed.

(* near misses are other names: a different spelling (letter case included), a proper extension, a proper prefix *)
Lemma other_name_neq : forall name k v, k <> name -> other_name name (k, v) = true.
Proof.
  intros name k v H. unfold other_name. cbn. apply negb_true_iff.
  destruct (str_eqb k name) eqn:E; [apply str_eqb_eq in E; congruence|reflexivity].
Qed.

Lemma app_cons_neq : forall (name : str) c r, name ++ c :: r <> name.
Proof.
  intros name c r H. apply (f_equal (@length N)) in H. rewrite app_length in H. cbn in H. lia.
Qed.

Theorem near_miss_other : forall name v,
  (forall k, lower k = lower name -> k <> name -> other_name name (k, v) = true)
  /\ (forall c r, other_name name (name ++ c :: r, v) = true)
  /\ (forall c r, other_name (name ++ c :: r) (name, v) = true)
  /\ (forall c r, other_name name (c :: r ++ name, v) = true).
Proof.
  intros name v. split; [intros k _ H; apply other_name_neq; exact H|].
  split; [intros c r; apply other_name_neq, app_cons_neq|].
  split; [intros c r; apply other_name_neq; intro H; symmetry in H; exact (app_cons_neq _ _ _ H)|].
  intros c r. apply other_name_neq. intro H. apply (f_equal (@length N)) in H. cbn in H.
  rewrite app_length in H. lia.
Qed.

(* ---------------------------------------------------------------- (1) relations between options *)
Fixpoint opt_idx (k : str) (ffs : list fld) : option nat :=
  match ffs with
  | [] => None
  | f :: r => if str_eqb (f_key f) k then Some O else option_map S (opt_idx k r)
  end.

Lemma opt_idx_nth : forall k ffs i, opt_idx k ffs = Some i ->
  exists f, nth_error ffs i = Some f /\ f_key f = k.
Proof.
  intros k. induction ffs as [|f r IH]; intros i H; cbn in H; [discriminate|].
  destruct (str_eqb (f_key f) k) eqn:E.
  - inversion H; subst. exists f. split; [reflexivity|apply str_eqb_eq; exact E].
  - destruct (opt_idx k r) as [j|] eqn:Ej; cbn in H; [|discriminate]. inversion H; subst.
    destruct (IH j eq_refl) as [f' [H1 H2]]. exists f'. split; assumption.
Qed.

Lemma opt_val_idx : forall k ffs cs i r,
  opt_idx k ffs = Some i -> nth_error cs i = Some r -> opt_val k ffs cs = Some r.
Proof.
  intros k. induction ffs as [|f ffs IH]; intros cs i r H Hr; cbn in H; [discriminate|].
  destruct cs as [|c cs]; [destruct i; discriminate|]. cbn [opt_val].
  destruct (str_eqb (f_key f) k) eqn:E.
  - inversion H; subst. cbn in Hr. exact Hr.
  - destruct (opt_idx k ffs) as [j|] eqn:Ej; cbn in H; [|discriminate]. inversion H; subst.
    cbn in Hr. eapply IH; eauto.
Qed.

Section Rel.
Variable env : str -> option str.
Variable prop : str -> str -> option str.
Variable orc : okind -> str -> option Z.
Variable orcq : str -> option Q.
Variable reg : list entry.
Variable lz : bool.
Variable uq : bool.

Notation D := (decode env prop orc orcq reg lz).
Notation sec kvs := (filter (fun kv => negb (is_type_key kv)) kvs).

(* what the options of the filled config are: the option with key k is the decoding of what the section writes
   under that key onto the registered default, and the registered default itself when the section does not write it *)
Theorem rel_option : forall F nl fs d conf rs k i,
  D (S F) (SStruct nl fs) d (VMap conf) = Ok (CStruct rs) ->
  opt_idx k (flat_fields (SStruct nl fs)) = Some i ->
  exists f r, nth_error (flat_fields (SStruct nl fs)) i = Some f /\ f_key f = k /\
    opt_val k (flat_fields (SStruct nl fs)) rs = Some r /\
    match find_key k conf with
    | None => r = cur_at (struct_cur (SStruct nl fs) d) i f
    | Some (_, x) => D F (f_schema f) (cur_at (struct_cur (SStruct nl fs) d) i f) x = Ok r
    end.
Proof.
  intros F nl fs d conf rs k i E Hi. rewrite D_struct in E.
  destruct (dec_struct_ok _ _ _ _ _ E) as [rs' [Heq Hd]]. inversion Heq; subst rs'.
  destruct (opt_idx_nth _ _ _ Hi) as [f [Hf Hk]].
  destruct (dec_fields_nth _ _ _ _ _ _ _ Hd Hf) as [r [Hr Hx]].
  exists f, r. split; [exact Hf|]. split; [exact Hk|]. split; [eapply opt_val_idx; eauto|].
  rewrite Hk in Hx. exact Hx.
Qed.

(* a component whose filled config violates a relation its constructor enforces: the plugin node is refused ... *)
Theorem rel_plugin : forall iface fk kvs e nl fs d f0 pre post,
  plugin_entry reg iface kvs = Some e -> e_conf e = Some (SStruct nl fs, d) -> entry_lazy lz fk e = false ->
  In f0 (flat_fields (SStruct nl fs)) -> In (TCtorRel pre post) (f_tags f0) ->
  (forall F' rs, D F' (SStruct nl fs) d (VMap (sec kvs)) = Ok (CStruct rs) ->
     ocond_b (flat_fields (SStruct nl fs)) rs pre = true /\ ocond_b (flat_fields (SStruct nl fs)) rs post = false) ->
  forall F c, notok (D F (SPlugin iface fk) c (VMap kvs)).
Proof.
  intros iface fk kvs e nl fs d f0 pre post Hp Hc Hl Hf Ht Hv [|F] c; [exact I|].
  rewrite D_plugin. unfold dec_plugin.
  destruct (plugin_entry_inv _ _ _ _ Hp) as [k1 [name [H1 H2]]]. rewrite H1, H2, Hc.
  unfold entry_lazy in Hl. rewrite Hl.
  destruct (D F (SStruct nl fs) d (VMap (sec kvs))) as [r| |] eqn:E; try exact I.
  assert (Hrs : exists rs, r = CStruct rs).
  { destruct F as [|F]; [cbn in E; discriminate|]. rewrite D_struct in E.
    destruct (dec_struct_ok _ _ _ _ _ E) as [rs [-> _]]. eauto. }
  destruct Hrs as [rs ->].
  destruct (validate orc (CStruct rs) (SStruct nl fs)); [|exact I].
  destruct (ctor_ok (SStruct nl fs) (CStruct rs)) eqn:Hct; [|exact I].
  cbn [ctor_ok] in Hct. apply andb_true_iff in Hct. destruct Hct as [_ Hct].
  unfold ctor_rels in Hct. rewrite forallb_forall in Hct. specialize (Hct _ Hf).
  rewrite forallb_forall in Hct. specialize (Hct _ Ht). cbn [rel_tag_ok] in Hct.
  destruct (Hv _ _ E) as [Ha Hb]. rewrite Ha, Hb in Hct. discriminate.
Qed.

(* ... and so is the whole configuration, wherever the component sits *)
Theorem rel_at : forall p s cur v iface fk tags d0 kvs e nl fs d f0 pre post,
  reach reg lz uq p [] s cur v = Some (SPlugin iface fk, tags, d0, VMap kvs) ->
  plugin_entry reg iface kvs = Some e -> e_conf e = Some (SStruct nl fs, d) -> entry_lazy lz fk e = false ->
  In f0 (flat_fields (SStruct nl fs)) -> In (TCtorRel pre post) (f_tags f0) ->
  (forall F' rs, D F' (SStruct nl fs) d (VMap (sec kvs)) = Ok (CStruct rs) ->
     ocond_b (flat_fields (SStruct nl fs)) rs pre = true /\ ocond_b (flat_fields (SStruct nl fs)) rs post = false) ->
  forall F c, notok (D F s c v).
Proof.
  intros. eapply propagate; eauto. intros F' c'. eapply rel_plugin; eauto.
Qed.

(* whether the option with key k "holds something" in the filled config, from the section alone:
   written -> every decoding of the written value holds something; this is what the hypotheses below say *)
Definition written_set (nl : bool) (fs : list (str * bool * list vtag * schema)) (d : cval) (conf : list (str * value)) (k : str) : Prop :=
  exists i, opt_idx k (flat_fields (SStruct nl fs)) = Some i /\
  exists k' x, find_key k conf = Some (k', x) /\
  forall F f r, nth_error (flat_fields (SStruct nl fs)) i = Some f ->
    D F (f_schema f) (cur_at (struct_cur (SStruct nl fs) d) i f) x = Ok r -> opt_set r = true.

Lemma written_set_holds : forall nl fs d conf k F rs,
  written_set nl fs d conf k ->
  D F (SStruct nl fs) d (VMap conf) = Ok (CStruct rs) ->
  ocond_b (flat_fields (SStruct nl fs)) rs (OSet k) = true.
Proof.
  intros nl fs d conf k F rs [i [Hi [k' [x [Hk Hs]]]]] E.
  destruct F as [|F]; [cbn in E; discriminate|].
  destruct (rel_option _ _ _ _ _ _ _ _ E Hi) as [f [r [Hf [_ [Hv Hx]]]]].
  rewrite Hk in Hx. cbn [ocond_b]. rewrite Hv. eapply Hs; eauto.
Qed.

(* two options that exclude each other, both written with values that hold something *)
Theorem rel_exclusive_at : forall p s cur v iface fk tags d0 kvs e nl fs d f0 k1 k2,
  reach reg lz uq p [] s cur v = Some (SPlugin iface fk, tags, d0, VMap kvs) ->
  plugin_entry reg iface kvs = Some e -> e_conf e = Some (SStruct nl fs, d) -> entry_lazy lz fk e = false ->
  In f0 (flat_fields (SStruct nl fs)) -> In (TCtorRel (OSet k1) (ONot (OSet k2))) (f_tags f0) ->
  written_set nl fs d (sec kvs) k1 -> written_set nl fs d (sec kvs) k2 ->
  forall F c, notok (D F s c v).
Proof.
  intros p s cur v iface fk tags d0 kvs e nl fs d f0 k1 k2 Hr Hp Hc Hl Hf Ht H1 H2.
  eapply rel_at; eauto. intros F' rs E. split.
  - eapply written_set_holds; eauto.
  - change (negb (ocond_b (flat_fields (SStruct nl fs)) rs (OSet k2)) = false).
    rewrite (written_set_holds _ _ _ _ _ _ _ H2 E). reflexivity.
Qed.

(* an option the component does not take at all (`uris` of a provider whose decoder is not the uri one) *)
Theorem rel_forbidden_at : forall p s cur v iface fk tags d0 kvs e nl fs d f0 k1,
  reach reg lz uq p [] s cur v = Some (SPlugin iface fk, tags, d0, VMap kvs) ->
  plugin_entry reg iface kvs = Some e -> e_conf e = Some (SStruct nl fs, d) -> entry_lazy lz fk e = false ->
  In f0 (flat_fields (SStruct nl fs)) -> In (TCtorRel (OSet k1) OFalse) (f_tags f0) ->
  written_set nl fs d (sec kvs) k1 ->
  forall F c, notok (D F s c v).
Proof.
  intros p s cur v iface fk tags d0 kvs e nl fs d f0 k1 Hr Hp Hc Hl Hf Ht H1.
  eapply rel_at; eauto. intros F' rs E. split; [eapply written_set_holds; eauto|reflexivity].
Qed.

(* one of two options is needed: neither written, neither default holds something *)
Theorem rel_one_of_at : forall p s cur v iface fk tags d0 kvs e nl fs d f0 k1 k2 i1 i2 f1 f2,
  reach reg lz uq p [] s cur v = Some (SPlugin iface fk, tags, d0, VMap kvs) ->
  plugin_entry reg iface kvs = Some e -> e_conf e = Some (SStruct nl fs, d) -> entry_lazy lz fk e = false ->
  In f0 (flat_fields (SStruct nl fs)) -> In (TCtorRel (ONot (OSet k1)) (OSet k2)) (f_tags f0) ->
  opt_idx k1 (flat_fields (SStruct nl fs)) = Some i1 -> opt_idx k2 (flat_fields (SStruct nl fs)) = Some i2 ->
  nth_error (flat_fields (SStruct nl fs)) i1 = Some f1 -> nth_error (flat_fields (SStruct nl fs)) i2 = Some f2 ->
  find_key k1 (sec kvs) = None -> find_key k2 (sec kvs) = None ->
  opt_set (cur_at (struct_cur (SStruct nl fs) d) i1 f1) = false ->
  opt_set (cur_at (struct_cur (SStruct nl fs) d) i2 f2) = false ->
  forall F c, notok (D F s c v).
Proof.
  intros p s cur v iface fk tags d0 kvs e nl fs d f0 k1 k2 i1 i2 f1 f2 Hr Hp Hc Hl Hf Ht Hi1 Hi2 Hf1 Hf2 Hk1 Hk2 Hs1 Hs2.
  eapply rel_at; eauto. intros F' rs E.
  destruct F' as [|F']; [cbn in E; discriminate|].
  destruct (rel_option _ _ _ _ _ _ _ _ E Hi1) as [g1 [r1 [Hg1 [_ [Hv1 Hx1]]]]].
  destruct (rel_option _ _ _ _ _ _ _ _ E Hi2) as [g2 [r2 [Hg2 [_ [Hv2 Hx2]]]]].
  rewrite Hk1 in Hx1. rewrite Hk2 in Hx2. rewrite Hf1 in Hg1. rewrite Hf2 in Hg2.
  inversion Hg1; inversion Hg2; subst g1 g2 r1 r2.
  cbn [ocond_b]. rewrite Hv1, Hv2, Hs1, Hs2. split; reflexivity.
Qed.

(* ---------------------------------------------------------------- (3) placeholders that can never be right *)
Lemma split_hash_none : forall var acc, no_hash var = true -> split_hash acc var = None.
Proof.
  induction var as [|c var IH]; intros acc H; [reflexivity|].
  cbn in H. apply andb_true_iff in H. destruct H as [Hc H]. apply negb_true_iff in Hc.
  cbn [split_hash]. rewrite Hc. apply IH. exact H.
Qed.

(* ${property:FILE} without "#KEY" names no property: an error wherever the decoder reaches it *)
Theorem placeholder_prop_nokey_at : forall p s cur v s' tags d var,
  reach reg lz uq p [] s cur v = Some (s', tags, d, VStr (ph_tagged s_property var)) ->
  simple_name var = true -> no_hash var = true ->
  forall F c, notok (D F s c v).
Proof.
  intros. eapply hook_error_at; eauto; [discriminate|].
  apply hooks_tagged_err; [reflexivity|assumption|].
  unfold resolve. change (lower s_property) with s_property.
  change (str_eqb s_property [] || str_eqb s_property s_env) with false.
  change (str_eqb s_property s_property) with true. cbn match.
  rewrite split_hash_none by assumption. reflexivity.
Qed.

(* a placeholder that is the whole value of a position that is not a scalar (a struct, a list, a map, a component):
   whatever the variable holds, it is an error wherever the decoder reaches it *)
Definition non_scalar (s : schema) : bool :=
  match s with SScalar _ => false | _ => true end.

Theorem placeholder_non_scalar_at : forall p s cur v s' tags d name,
  reach reg lz uq p [] s cur v = Some (s', tags, d, VStr (ph_env name)) ->
  simple_name name = true -> non_scalar s' = true ->
  forall F c, notok (D F s c v).
Proof.
  intros p s cur v s' tags d name Hr Hn Hs.
  destruct (env name) as [t|] eqn:He.
  - eapply hook_error_at; eauto; [discriminate|].
    unfold hooks. change (ph_env name) with (ph_tagged s_env name).
    rewrite (inject_tagged_val env prop orc orcq s_env name s' t); [|reflexivity|assumption|].
    + unfold cast_text. destruct s' as [ | | |k| | | ]; try reflexivity. discriminate.
    + unfold resolve. change (lower s_env) with s_env.
      change (str_eqb s_env [] || str_eqb s_env s_env) with true. cbn match. rewrite He. reflexivity.
  - eapply placeholder_unset_at; eauto.
Qed.

End Rel.
