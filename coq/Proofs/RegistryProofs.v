(* The three parts of property C18 for the registry model: every case, every oracle, every
   start state, every number of calls. *)
From Coq Require Import List Arith Bool NArith Lia.
From PV Require Import Model.Registry Proofs.RegistryFacts.
Import ListNotations.

(* ---------- the three properties, for every case, oracle, start state and call count ---------- *)

Lemma factory_split sh we named hf o s0 :
  forall s1 cev cr, reg_new_factory sh we named hf o s0 = (s1, cev, cr) ->
  creation_facts sh hf o cev cr /\
  match cr with
  | CrErr _ => True
  | CrOk f =>
      forall s,
      match sh_ret sh with
      | RPlugin => step_facts sh hf (if is_nocfg (sh_cfg sh) then false else hf) o we false s (step_call sh we hf o f s)
      | RFactory => fcall_facts sh hf o we cev s (step_call sh we hf o f s)
      end
  end.
Proof.
  intros s1 cev cr E. split.
  - pose proof (factory_facts sh we named hf o s0 st0) as H. unfold factory_facts_stmt in H. rewrite E in H. apply H.
  - destruct cr as [f|e]; [|exact I]. intros s.
    pose proof (factory_facts sh we named hf o s0 s) as H. unfold factory_facts_stmt in H. rewrite E in H. apply H.
Qed.

Ltac step_fact H s' :=
  let s1 := fresh "s1" in let ev := fresh "ev" in let out := fresh "out" in
  specialize (H s'); unfold step_facts, fcall_facts in H;
  match type of H with context [match ?r with _ => _ end] => destruct r as [s1 [ev out]] end;
  cbn [fst snd].

Theorem configured_holds c o s : configured_b c o (run_case_from c o s) = true.
Proof.
  unfold run_case_from. destruct (reg_register (cs_shape c)); cbn [negb]; [|reflexivity].
  destruct (cs_req c) as [|we named].
  - cbn [configured_b]. rewrite run_news_run. apply run_forallb. intros s'.
    pose proof (new_step_facts (cs_shape c) (cs_hf c) o) as H. step_fact H s'. apply H.
  - destruct (reg_new_factory (cs_shape c) we named (cs_hf c) o s) as [[s1 cev] cr] eqn:E.
    destruct (factory_split _ _ _ _ _ _ _ _ _ E) as [Hc Hs].
    destruct Hc as [_ [Hca _]].
    destruct cr as [f|e]; cbn [configured_b forallb]; rewrite Hca; cbn [andb]; [|reflexivity].
    rewrite run_calls_run. apply run_forallb. intros s'. unfold factory_cevs.
    destruct (sh_ret (cs_shape c)); step_fact Hs s'; apply Hs.
Qed.

Theorem errors_hold c o s : errors_b c o (run_case_from c o s) = true.
Proof.
  unfold run_case_from. destruct (reg_register (cs_shape c)) eqn:R; cbn [negb].
  2:{ cbn [errors_b]. rewrite R. reflexivity. }
  destruct (cs_req c) as [|we named] eqn:Q.
  - cbn [errors_b]. rewrite R, Q. cbn [andb]. rewrite run_news_run. apply run_forallb. intros s'.
    pose proof (new_step_facts (cs_shape c) (cs_hf c) o) as H. step_fact H s'. apply H.
  - destruct (reg_new_factory (cs_shape c) we named (cs_hf c) o s) as [[s1 cev] cr] eqn:E.
    destruct (factory_split _ _ _ _ _ _ _ _ _ E) as [Hc Hs].
    destruct Hc as [Hstop [_ [Herr _]]].
    destruct cr as [f|e]; cbn [errors_b]; rewrite R, Q, Hstop, Herr; cbn [andb].
    + rewrite run_calls_run. apply run_forallb. intros s'.
      destruct (sh_ret (cs_shape c)); step_fact Hs s'; apply Hs.
    + rewrite err_eqb_refl. reflexivity.
Qed.

Lemma rounds_fresh_run sh hf hfr o we wp (step : st -> st * op) :
  (forall s, step_facts sh hf hfr o we wp s (step s)) ->
  forall k s, rounds_fresh sh hfr o wp (run step s k) = true.
Proof.
  intros H k s. unfold rounds_fresh.
  rewrite (run_forallb step); [|intros s'; step_fact H s'; destruct H as (_ & _ & H1 & H2 & H3 & _); rewrite H1, H2, H3; reflexivity].
  cbn [andb].
  destruct (run_nodup step s_alloc (fun x => round_id (fst x))) with (k := k) (s := s) as [N1 _].
  { intros s'. step_fact H s'. destruct H as (_ & _ & _ & _ & _ & H6 & _ & H8 & _ & H10 & _). auto. }
  destruct (run_nodup step s_ctor (fun x => ctor_idx (fst x))) with (k := k) (s := s) as [N2 _].
  { intros s'. step_fact H s'. destruct H as (_ & _ & _ & _ & _ & _ & H7 & _ & H9 & _ & H11). auto. }
  apply andb_true_intro; split; [exact N1|exact N2].
Qed.

Theorem fresh_holds c o s : fresh_b c o (run_case_from c o s) = true.
Proof.
  unfold run_case_from. destruct (reg_register (cs_shape c)) eqn:R; cbn [negb]; [|reflexivity].
  destruct (cs_req c) as [|we named] eqn:Q.
  - cbn [fresh_b]. rewrite run_news_run.
    apply rounds_fresh_run with (hf := cs_hf c) (we := true). apply new_step_facts.
  - destruct (reg_new_factory (cs_shape c) we named (cs_hf c) o s) as [[s1 cev] cr] eqn:E.
    destruct (factory_split _ _ _ _ _ _ _ _ _ E) as [Hc Hs].
    destruct Hc as [_ [_ [_ Hc]]].
    destruct (sh_ret (cs_shape c)) eqn:Rt.
    + destruct Hc as [C1 [C2 C3]].
      destruct cr as [f|e]; cbn [fresh_b]; rewrite Rt, C1, C2; cbn [andb].
      * rewrite run_calls_run.
        destruct (is_nocfg (sh_cfg (cs_shape c))) eqn:Nc.
        -- rewrite (C3 eq_refl). cbn [andb].
           apply rounds_fresh_run with (hf := cs_hf c) (we := we). exact Hs.
        -- apply rounds_fresh_run with (hf := cs_hf c) (we := we). exact Hs.
      * destruct (is_nocfg (sh_cfg (cs_shape c))) eqn:Nc; [rewrite (C3 eq_refl)|]; reflexivity.
    + destruct Hc as [C1 [C2 C3]].
      destruct cr as [f|e]; cbn [fresh_b]; rewrite Rt, C1, C2, C3; cbn [andb]; [|reflexivity].
      rewrite run_calls_run.
      rewrite (run_forallb (step_call (cs_shape c) we (cs_hf c) o f)).
      2:{ intros s'. step_fact Hs s'. destruct Hs as (_ & _ & H3 & _). exact H3. }
      cbn [andb].
      destruct (run_nodup (step_call (cs_shape c) we (cs_hf c) o f) s_prod (fun x => prod_idx (fst x))) with (k := cs_k c) (s := s1) as [N _]; [|exact N].
      intros s'. step_fact Hs s'. destruct Hs as (_ & _ & _ & H4 & H5 & H6). auto.
Qed.

Theorem spec_holds c o s : spec_b c o (run_case_from c o s) = true.
Proof. unfold spec_b. rewrite configured_holds, errors_hold, fresh_holds. reflexivity. Qed.

(* ---------- the same, read functionally: which config a product is built from ---------- *)

Lemma new_product_arg_m sh hf o s :
  match reg_new sh hf o s with
  | (_, _, OOk p) => p_arg p = expected_arg sh hf o s
  | _ => True
  end.
Proof.
  destruct s as [a d f c p]. destruct sh as [[] [] cerr perr [] rt nm]; destruct hf; norm; ranges.
Qed.

Lemma new_product_arg sh hf o s s1 ev p :
  reg_new sh hf o s = (s1, ev, OOk p) -> p_arg p = expected_arg sh hf o s.
Proof. intros H. pose proof (new_product_arg_m sh hf o s) as M. rewrite H in M. exact M. Qed.

Lemma factory_product_arg_m sh we named hf o s0 s :
  match reg_new_factory sh we named hf o s0 with
  | (_, _, CrOk f) =>
      match call_factory sh we hf o s f with
      | (_, _, OOk p) =>
          p_arg p = expected_arg sh hf o (match sh_ret sh with RPlugin => s | RFactory => s0 end)
      | _ => True
      end
  | _ => True
  end.
Proof.
  destruct s0 as [a0 d0 f0 c0 p0]. destruct s as [a d f c p].
  destruct sh as [[] [] [] [] [] [] nm]; destruct hf, we; norm; ranges.
Qed.

(* plugin constructor behind a factory: the product of a call is built from a config made
   DURING that call (allocation, default and fill counters as they stand at the call) *)
Lemma plugin_factory_product_arg sh we named hf o s0 s1 cev f s s2 ev p :
  sh_ret sh = RPlugin ->
  reg_new_factory sh we named hf o s0 = (s1, cev, CrOk f) ->
  call_factory sh we hf o s f = (s2, ev, OOk p) ->
  p_arg p = expected_arg sh hf o s.
Proof.
  intros R C K. pose proof (factory_product_arg_m sh we named hf o s0 s) as M.
  rewrite C, K, R in M. exact M.
Qed.

(* factory constructor: every product is built from the one config made at creation *)
Lemma factory_factory_product_arg sh we named hf o s0 s1 cev f s s2 ev p :
  sh_ret sh = RFactory ->
  reg_new_factory sh we named hf o s0 = (s1, cev, CrOk f) ->
  call_factory sh we hf o s f = (s2, ev, OOk p) ->
  p_arg p = expected_arg sh hf o s0.
Proof.
  intros R C K. pose proof (factory_product_arg_m sh we named hf o s0 s) as M.
  rewrite C, K, R in M. exact M.
Qed.

(* allocation identities only grow, so configs made in different calls are different objects *)
Lemma call_alloc_mono sh we hf o s f :
  s_alloc s <= s_alloc (fst (fst (call_factory sh we hf o s f))).
Proof.
  destruct s as [a d f0 c p].
  destruct f as [|gc|n a'|n a']; destruct sh as [rt' [] cerr perr [] rt nm]; destruct hf; try destruct gc; norm; ranges.
Qed.

Lemma fresh_ids_nodup c o s calls :
  run_case_from c o s = ObsNew calls \/ (exists cev e, run_case_from c o s = ObsFactory cev e calls /\ sh_ret (cs_shape c) = RPlugin) ->
  NoDup (flat_map (fun x => round_id (fst x)) calls).
Proof.
  intros H. pose proof (fresh_holds c o s) as F.
  apply nat_nodup_b_sound.
  destruct H as [H|[cev [e [H R]]]]; rewrite H in F; cbn [fresh_b] in F.
  - unfold rounds_fresh in F. apply andb_prop in F. destruct F as [F _]. apply andb_prop in F. apply F.
  - rewrite R in F. apply andb_prop in F. destruct F as [_ F].
    destruct (is_nocfg (sh_cfg (cs_shape c))).
    + apply andb_prop in F. destruct F as [_ F]. unfold rounds_fresh in F.
      apply andb_prop in F. destruct F as [F _]. apply andb_prop in F. apply F.
    + unfold rounds_fresh in F. apply andb_prop in F. destruct F as [F _]. apply andb_prop in F. apply F.
Qed.

(* the factory handed out has exactly the requested Go type (named or not): it is the
   registered function itself only when the types are identical, a MakeFunc of the requested
   type otherwise *)
Lemma factory_type_m sh we named hf o s0 :
  match reg_new_factory sh we named hf o s0 with
  | (_, _, CrOk f) => factory_named sh named f = named
  | _ => True
  end.
Proof.
  destruct s0 as [a0 d0 f0 c0 p0].
  destruct sh as [[] [] [] [] [] [] nm]; destruct hf, we, nm, named;
    unfold reg_new_factory, same_type_name; norm; ranges.
Qed.

Lemma factory_type sh we named hf o s0 s1 cev f :
  reg_new_factory sh we named hf o s0 = (s1, cev, CrOk f) -> factory_named sh named f = named.
Proof. intros H. pose proof (factory_type_m sh we named hf o s0) as M. rewrite H in M. exact M. Qed.
