(* Proofs about Model/RobustRedirect.v: the redirect loop of the client ends for EVERY target graph under any policy
   that refuses at some length (the default one at 10), its result keeps the client contract (no error => a response),
   the guns over a Do result are the guns of Model/Robust.v on the response Do ended with, and a policy that always
   allows never comes back from a target that always redirects. *)
From Coq Require Import List ZArith Bool Lia.
From PV Require Import Model.Robust Model.RobustRedirect Proofs.RobustProofs.
Import ListNotations.
Local Open Scope Z_scope.

(* ---------- the loop ends ---------- *)
Lemma client_loop_total : forall check L tgt, check L = false ->
  forall fuel via cur, (L <= length via + fuel)%nat -> (length via < L)%nat ->
  exists d, client_loop check tgt fuel via cur = Some d /\
            (length (dr_trace d) <= L)%nat /\ (length via < length (dr_trace d))%nat.
Proof.
  intros check L tgt HL. induction fuel as [|f IH]; intros via cur Hf Hv; [lia|].
  cbn [client_loop].
  assert (Hlen : length (via ++ [cur]) = S (length via)) by (rewrite app_length; cbn; lia).
  destruct (negb (conn_ok (rs_conn (hp_resp (tgt cur))))).
  { eexists; split; [reflexivity|]. cbn [dr_trace]. lia. }
  destruct (negb (should_redirect (rs_status (hp_resp (tgt cur))))).
  { eexists; split; [reflexivity|]. cbn [dr_trace]. lia. }
  destruct (hp_loc (tgt cur)) as [| | |j].
  - eexists; split; [reflexivity|]. cbn [dr_trace]. lia.
  - eexists; split; [reflexivity|]. cbn [dr_trace]. lia.
  - destruct (check (length (via ++ [cur]))); (eexists; split; [reflexivity|]; cbn [dr_trace]; lia).
  - destruct (check (length (via ++ [cur]))) eqn:Ec.
    + assert (length (via ++ [cur]) <> L) by (intro E; rewrite E in Ec; congruence).
      destruct (IH (via ++ [cur]) j) as (d & Hd & Hl & Hg); [lia|lia|].
      exists d. split; [exact Hd|]. lia.
    + eexists; split; [reflexivity|]. cbn [dr_trace]. lia.
Qed.

Lemma default_check_limit : default_check redirect_limit = false.
Proof. reflexivity. Qed.

Lemma client_do_total : forall redirect tgt cur,
  exists d, client_do redirect tgt cur = Some d /\ (1 <= length (dr_trace d) <= redirect_limit)%nat.
Proof.
  intros [|] tgt cur; unfold client_do.
  - destruct (client_loop_total default_check redirect_limit tgt default_check_limit client_fuel [] cur) as (d & Hd & Hl & Hg);
      [unfold client_fuel, redirect_limit; cbn; lia|unfold redirect_limit; cbn; lia|].
    exists d. split; [exact Hd|]. cbn [length] in Hg. lia.
  - eexists; split; [reflexivity|]. unfold redirect_limit. cbn. lia.
Qed.

(* ---------- the client contract: no error => a response ---------- *)
Definition do_ok (d : do_result) : Prop := conn_ok (rs_conn (dr_resp d)) = true -> dr_present d = true.

Lemma client_loop_contract : forall check tgt fuel via cur d, client_loop check tgt fuel via cur = Some d -> do_ok d.
Proof.
  intros check tgt. induction fuel as [|f IH]; intros via cur d; cbn [client_loop]; [discriminate|].
  destruct (negb (conn_ok (rs_conn (hp_resp (tgt cur))))) eqn:E1.
  { intros [= <-]. unfold do_ok. cbn [dr_resp dr_present]. apply negb_true_iff in E1. congruence. }
  destruct (negb (should_redirect (rs_status (hp_resp (tgt cur))))).
  { intros [= <-]. unfold do_ok. reflexivity. }
  destruct (hp_loc (tgt cur)) as [| | |j].
  - intros [= <-]. unfold do_ok. reflexivity.
  - intros [= <-]. unfold do_ok. cbn. discriminate.
  - destruct (check _); intros [= <-]; unfold do_ok; cbn; try discriminate; reflexivity.
  - destruct (check _); [apply IH|]. intros [= <-]. unfold do_ok. reflexivity.
Qed.

Lemma client_do_contract : forall redirect tgt cur d, client_do redirect tgt cur = Some d -> do_ok d.
Proof.
  intros [|] tgt cur d; unfold client_do; [apply client_loop_contract|].
  intros [= <-]. unfold do_ok, single_trip. cbn. tauto.
Qed.

(* the response Do ends with is what some step of the target answered, or the error made of it *)
Lemma client_loop_h2 : forall check tgt fuel via cur d, client_loop check tgt fuel via cur = Some d ->
  exists j, rs_h2 (dr_resp d) = rs_h2 (hp_resp (tgt j)).
Proof.
  intros check tgt. induction fuel as [|f IH]; intros via cur d; cbn [client_loop]; [discriminate|].
  destruct (negb (conn_ok (rs_conn (hp_resp (tgt cur))))); [intros [= <-]; exists cur; reflexivity|].
  destruct (negb (should_redirect (rs_status (hp_resp (tgt cur))))); [intros [= <-]; exists cur; reflexivity|].
  destruct (hp_loc (tgt cur)) as [| | |j]; try (intros [= <-]; exists cur; reflexivity).
  - destruct (check _); intros [= <-]; exists cur; reflexivity.
  - destruct (check _); [apply IH|]. intros [= <-]; exists cur; reflexivity.
Qed.

(* ---------- the branches after Do ---------- *)
Lemma side_branches_do_refines : forall o present r,
  (conn_ok (rs_conn r) = true -> present = true) -> side_branches_do o present r = side_branches o r.
Proof.
  intros o present r H. unfold side_branches_do, side_branches.
  destruct (conn_ok (rs_conn r)) eqn:E.
  - rewrite (H eq_refl). reflexivity.
  - cbn [negb]. rewrite andb_false_r. destruct present; [|rewrite andb_false_r; reflexivity].
    destruct (go_dump o); reflexivity.
Qed.

Lemma base_shoot_do_refines : forall c inv d, do_ok d -> base_shoot_do c inv d = base_shoot c inv (dr_resp d).
Proof.
  intros c inv d H. unfold base_shoot_do, base_shoot. rewrite (side_branches_do_refines _ _ _ H). reflexivity.
Qed.

Definition step_with_resp (s : step_in) (r : response) : step_in :=
  {| si_opts := si_opts s; si_pre := si_pre s; si_tmpl_ok := si_tmpl_ok s; si_prep_ok := si_prep_ok s;
     si_resp := r; si_pps := si_pps s |}.

Lemma shoot_step_do_refines : forall s d, do_ok d -> shoot_step_do s d = shoot_step (step_with_resp s (dr_resp d)).
Proof.
  intros s d H. unfold shoot_step_do, shoot_step, step_with_resp. cbn [si_opts si_pre si_tmpl_ok si_prep_ok si_resp si_pps].
  rewrite (side_branches_do_refines _ _ _ H). reflexivity.
Qed.

(* ---------- one shot at a redirecting target ---------- *)
Lemma redir_gun_total : forall c redirect tgt cur,
  bc_bound c = true -> bc_connect c <> Some false -> (bc_http2 c = true -> forall j, rs_h2 (hp_resp (tgt j)) = true) ->
  exists d sm, client_do redirect tgt cur = Some d /\
    (1 <= length (dr_trace d) <= redirect_limit)%nat /\
    base_shoot_redir c redirect tgt cur = Some (Returned [sm]) /\
    (clean (dr_resp d) = true -> sm = {| sm_code := rs_status (dr_resp d); sm_err := false |}) /\
    (clean (dr_resp d) = false -> sm_err sm = true).
Proof.
  intros c redirect tgt cur Hb Hc Hh.
  destruct (client_do_total redirect tgt cur) as (d & Hd & Hl).
  assert (H2 : bc_http2 c = true -> rs_h2 (dr_resp d) = true).
  { intro E. destruct redirect; unfold client_do in Hd.
    - destruct (client_loop_h2 _ _ _ _ _ _ Hd) as (j & ->). apply Hh, E.
    - injection Hd as <-. apply Hh, E. }
  destruct (base_shoot_total c (dr_resp d) Hb Hc H2) as (sm & Hs & A & B & _).
  exists d, sm. split; [exact Hd|]. split; [exact Hl|]. split; [|split; assumption].
  unfold base_shoot_redir. rewrite Hd, (base_shoot_do_refines _ _ _ (client_do_contract _ _ _ _ Hd)), Hs. reflexivity.
Qed.

(* what Do ended with, as a total function (client_do_total: the default never applies) *)
Definition do_of (redirect : bool) (tgt : target) (cur : nat) : do_result :=
  match client_do redirect tgt cur with Some d => d | None => single_trip tgt cur end.

Lemma base_shoot_redir_eq : forall c redirect tgt cur,
  base_shoot_redir c redirect tgt cur = Some (base_shoot c false (dr_resp (do_of redirect tgt cur))).
Proof.
  intros c redirect tgt cur. unfold base_shoot_redir, do_of.
  destruct (client_do_total redirect tgt cur) as (d & Hd & _). rewrite Hd.
  rewrite (base_shoot_do_refines _ _ _ (client_do_contract _ _ _ _ Hd)). reflexivity.
Qed.

(* an instance with an http gun over any list of ammo against any redirecting target *)
Lemma instance_redirect_survives : forall c redirect tgt ammo,
  bc_bound c = true -> bc_connect c <> Some false -> bc_http2 c = false ->
  exists shots, map (base_shoot_redir c redirect tgt) ammo = map Some shots /\
    snd (instance_run shots) = false /\ length (fst (instance_run shots)) = length ammo /\
    Forall (fun cur => (length (dr_trace (do_of redirect tgt cur)) <= redirect_limit)%nat) ammo.
Proof.
  intros c redirect tgt ammo Hb Hc H2.
  exists (map (base_shoot c false) (map (fun cur => dr_resp (do_of redirect tgt cur)) ammo)).
  split; [|split; [|split]].
  - rewrite !map_map. apply map_ext. intro cur. apply base_shoot_redir_eq.
  - apply (instance_http_survives c _ Hb Hc H2).
  - rewrite (proj2 (instance_http_survives c _ Hb Hc H2)), map_length. reflexivity.
  - apply Forall_forall. intros cur _. unfold do_of.
    destruct (client_do_total redirect tgt cur) as (d & -> & Hl). lia.
Qed.

(* ---------- the contrast: a policy that always allows ---------- *)
Definition always_redirects (tgt : target) : Prop :=
  forall j, conn_ok (rs_conn (hp_resp (tgt j))) = true /\ should_redirect (rs_status (hp_resp (tgt j))) = true /\
            exists k, hp_loc (tgt j) = LocStep k.

Lemma always_allow_never_returns : forall tgt, always_redirects tgt ->
  forall fuel via cur, client_loop always_check tgt fuel via cur = None.
Proof.
  intros tgt H. induction fuel as [|f IH]; intros via cur; [reflexivity|].
  cbn [client_loop]. destruct (H cur) as (A & B & k & C). rewrite A, B, C. cbn [negb always_check]. apply IH.
Qed.

Definition self_loop : target :=
  fun _ => {| hp_resp := {| rs_conn := ConnOk; rs_status := 302; rs_body_ok := true; rs_h2 := false |}; hp_loc := LocStep 0 |}.

Lemma self_loop_always_redirects : always_redirects self_loop.
Proof. intro j. repeat split. exists 0%nat. reflexivity. Qed.

(* ---------- the policy of a Client literal ---------- *)
Lemma policy_default_bounded : forall fields, policy_of_fields fields = PolicyDefault ->
  forall tgt cur, exists d, client_loop (check_of (policy_of_fields fields)) tgt client_fuel [] cur = Some d /\
                            do_ok d /\ (1 <= length (dr_trace d) <= redirect_limit)%nat.
Proof.
  intros fields -> tgt cur. cbn [check_of].
  destruct (client_do_total true tgt cur) as (d & Hd & Hl). exists d. unfold client_do in Hd.
  split; [exact Hd|]. split; [exact (client_loop_contract _ _ _ _ _ _ Hd)|exact Hl].
Qed.
