(* Lemmas about the factory the plugin registry builds from a registered constructor (Model/PlugFactory.v). *)
From Coq Require Import List Arith Bool Lia.
From PV Require Import Model.Pool Proofs.PoolProofs Model.GrpcWarmUp Proofs.GrpcWarmUpProofs Model.PlugFactory.
Import ListNotations.

Definition valid_call (numOut : nat) (direct : bool) (out : list pval) : Prop :=
  (numOut = 1 \/ numOut = 2) /\ (if direct then wf_direct numOut out = true else wf_out out = true).

Definition eff_conf (direct : bool) (conf : option nat) : option nat := if direct then None else conf.

(* for every shape of registered constructor and both factory types: a call of the factory gives exactly what the
   specification asks for *)
Lemma factory_call_is_spec : forall numOut direct conf out,
  valid_call numOut direct out ->
  factory_call tree_cvprog numOut direct conf out = factory_spec numOut (eff_conf direct conf) out.
Proof.
  intros numOut direct conf out [[-> | ->] Hw]; destruct direct; cbn [eff_conf] in *;
    destruct out as [|v1 [|v2 [|v3 r]]]; try discriminate Hw;
    destruct v1; try discriminate Hw; try destruct v2; try discriminate Hw;
    destruct conf; try reflexivity;
    try (match goal with e : option nat |- _ => destruct e end; reflexivity).
Qed.

Lemma creation_error_never_swallowed : forall numOut direct conf out e,
  valid_call numOut direct out -> creation_error (eff_conf direct conf) out = Some e ->
  factory_call tree_cvprog numOut direct conf out = if numOut =? 2 then FrErr e else FrPanic e.
Proof.
  intros numOut direct conf out e Hv He. rewrite (factory_call_is_spec _ _ _ _ Hv). unfold factory_spec. rewrite He. reflexivity.
Qed.

Lemma factory_ok_means_created : forall numOut direct conf out n,
  valid_call numOut direct out -> factory_call tree_cvprog numOut direct conf out = FrOk n ->
  creation_error (eff_conf direct conf) out = None /\ n = ctor_objnil out.
Proof.
  intros numOut direct conf out n Hv H. rewrite (factory_call_is_spec _ _ _ _ Hv) in H. unfold factory_spec in H.
  destruct (creation_error (eff_conf direct conf) out).
  - destruct (numOut =? 2); discriminate.
  - inversion H. split; reflexivity.
Qed.

(* the first guarded statement as a parameter: the factory is right for every constructor iff the converted value
   replaces out[0] in place *)
Definition prog_with (s1 : cvstep) : cvprog :=
  [(GFirstNotPlugin, s1); (GLenLtNumOut, CvAppendNilErr); (GNumOutLtLen, CvTrimOrPanic)].

Lemma first_step_right_iff : forall s1,
  (forall numOut conf out, valid_call numOut false out ->
     factory_call (prog_with s1) numOut false conf out = factory_spec numOut conf out) <-> s1 = CvWrapFirst.
Proof.
  intros s1. split.
  - intros H. destruct s1; [reflexivity| | |].
    + specialize (H 2 None [VImpl false; VErr (Some 0)] (conj (or_intror eq_refl) eq_refl)). discriminate H.
    + specialize (H 2 None [VImpl false; VErr (Some 0)] (conj (or_intror eq_refl) eq_refl)). discriminate H.
    + specialize (H 1 None [VImpl false] (conj (or_introl eq_refl) eq_refl)). discriminate H.
  - intros -> numOut conf out Hv. exact (factory_call_is_spec numOut false conf out Hv).
Qed.

Definition rebuild_cvprog : cvprog := prog_with CvRebuild.

Lemma rebuild_drops_the_constructor_error :
  valid_call 2 false [VImpl false; VErr (Some 7)] /\
  creation_error None [VImpl false; VErr (Some 7)] = Some 7 /\
  factory_call rebuild_cvprog 2 false None [VImpl false; VErr (Some 7)] = FrOk false /\
  factory_call tree_cvprog 2 false None [VImpl false; VErr (Some 7)] = FrErr 7.
Proof. repeat split; try reflexivity. right. reflexivity. Qed.

(* ---- the engine: the gun factory of a pool is such a factory ---- *)

(* warmUpGun: gun, err := p.NewGun(); if err != nil { "can't initiate a gun" } *)
Definition pf_pre_outcome (r : fres) : pre_outcome := if fres_failed r then PreGunFail else PreOk.

Lemma gstep_gunfail_prefailed : forall v cfg g g' p,
  gstep v cfg g (GvPool p (PvPre PreGunFail)) = Some g' -> pool_prefailed g' p.
Proof.
  intros v cfg g g' p H. cbn [gstep] in H.
  destruct (nth_error (pools g) p) as [s|] eqn:Es; [|discriminate]. destruct (nth_error cfg p); [|discriminate].
  cbn [pstep] in H. destruct (ph s); try discriminate. inversion H. subst g'. unfold pool_prefailed. cbn [pools].
  eexists. split; [eapply nth_error_upd_eq; exact Es|reflexivity].
Qed.

(* In EVERY history of the engine in which the first call of a pool's gun factory -- built by the registry from a
   constructor of any shape -- is a creation that failed, Engine.Run does not return nil. *)
Lemma failed_gun_creation_never_a_successful_run : forall cfg tr g er p direct conf out e,
  grun fixed cfg (ginit cfg) tr = Some g -> eng g = Some er ->
  valid_call 2 direct out -> creation_error (eff_conf direct conf) out = Some e ->
  In (GvPool p (PvPre (pf_pre_outcome (factory_call tree_cvprog 2 direct conf out)))) tr ->
  er_res er <> RNil.
Proof.
  intros cfg tr g er p direct conf out e Hrun Heng Hv He Hin Hnil.
  rewrite (creation_error_never_swallowed _ _ _ _ _ Hv He) in Hin. cbn in Hin.
  destruct (in_split _ _ Hin) as [tr1 [tr2 ->]].
  destruct (grun_split _ _ _ _ _ _ Hrun) as [g1 [H1 H2]]. cbn [grun] in H2.
  destruct (gstep fixed cfg g1 (GvPool p (PvPre PreGunFail))) as [g2|] eqn:E; [|discriminate].
  pose proof (grun_prefailed_stays _ _ _ _ _ p H2 (gstep_gunfail_prefailed _ _ _ _ _ E)) as [s [Hs Hp]].
  assert (Hreach : reachable cfg g) by (eexists; exact Hrun).
  destruct (outcome_nil_complete cfg g er Hreach Heng Hnil) as [Hall _].
  assert (Hlen : p < length cfg).
  { cbn [gstep] in E. destruct (nth_error (pools g1) p); [|discriminate].
    destruct (nth_error cfg p) eqn:En; [|discriminate]. apply nth_error_Some. congruence. }
  destruct (nth_error cfg p) as [n|] eqn:En; [|apply nth_error_None in En; lia].
  destruct (Hall p s n Hs En) as [_ [Hd _]]. congruence.
Qed.
