(* Proofs about Model/StartFire.v: "out of ammo" as a cancel source of instance start is grounded
   in the provider's answers; an instance keeps firing until then. *)
From Coq Require Import List ZArith Bool Arith Lia Permutation.
From PV Require Import Model.StartLoop Model.StartAsync Model.StartFire Proofs.StartLoopProofs Proofs.StartAsyncProofs.
Import ListNotations.
Local Open Scope Z_scope.

Notation cnt := (count_occ Nat.eq_dec).

(* ------------------------------------------------------------------------------------ *)
(* projection to the asynchronous start model: every theorem about it lifts *)

Lemma fstep_proj r x f f' : fstep r x f = Some f' -> arun (fproj x) (fa f) = Some (fa f').
Proof.
  destruct x as [y|id|id|id]; cbn [fstep fproj arun].
  - destruct (is_free_ammo_label y); [discriminate|].
    destruct (astep y (fa f)) as [a'|]; [|discriminate]. intros H; inversion H; subst; reflexivity.
  - destruct (mem_nat id (firing f)); [|discriminate].
    destruct (items f); destruct (is_out r _ _); intros H; inversion H; subst; reflexivity.
  - destruct (mem_nat id (firing f)); [|discriminate]. intros H; inversion H; subst; reflexivity.
  - destruct (mem_nat id (outq f)); [|discriminate].
    cbn [sstep]. intros H; inversion H; subst; clear H. cbn [fa arun astep sstep started].
    assert (T : (length (started (base (fa f))) =? S (length (started (base (fa f)))))%nat = false)
      by (apply Nat.eqb_neq; lia).
    rewrite T. reflexivity.
Qed.

Lemma arun_app l1 : forall l2 a a1 a2,
  arun l1 a = Some a1 -> arun l2 a1 = Some a2 -> arun (l1 ++ l2) a = Some a2.
Proof.
  induction l1 as [|x r IH]; cbn [arun app]; intros l2 a a1 a2 H1 H2.
  - inversion H1; subst; exact H2.
  - destruct (astep x a) as [a'|]; [|discriminate]. eapply IH; eauto.
Qed.

Lemma frun_proj r l : forall f f', frun r l f = Some f' -> arun (flat_map fproj l) (fa f) = Some (fa f').
Proof.
  induction l as [|x t IH]; cbn [frun flat_map]; intros f f' H.
  - inversion H; subst; reflexivity.
  - destruct (fstep r x f) as [f1|] eqn:E; [|discriminate].
    eapply arun_app; [eapply fstep_proj; eauto|eapply IH; eauto].
Qed.

(* where a member of the projected trace comes from *)
Lemma in_fproj y l : In y (flat_map fproj l) ->
  In (FBase y) l \/ (y = ABase (SCancel OutOfAmmo) /\ exists id, In (FAwaitOut id) l).
Proof.
  induction l as [|x t IH]; cbn [flat_map]; intros H; [destruct H|].
  apply in_app_or in H. destruct H as [H|H].
  - destruct x as [z|id|id|id]; cbn in H.
    + destruct H as [H|[]]. subst. left; left; reflexivity.
    + destruct H.
    + destruct H.
    + destruct H as [H|[]]. subst. right. split; [reflexivity|]. exists id. left; reflexivity.
  - destruct (IH H) as [A|(E & id & A)]; [left; right; exact A|].
    right. split; [exact E|]. exists id. right; exact A.
Qed.

(* ------------------------------------------------------------------------------------ *)
(* one step of the asynchronous model: the start context's cause, the instances that exist *)

Lemma astep_cancelled x a a' c : astep x a = Some a' -> cancelled (base a') = Some c ->
  cancelled (base a) = Some c \/ x = ABase (SCancel c) \/ (c = InstanceFailed /\ exists id, x = AAwait id).
Proof.
  intros H C. pose proof (astep_proj _ _ _ H) as P.
  destruct (cancel_source_gen _ _ _ c P C) as [D|I]; [left; exact D|right].
  destruct x as [b|id ok|id]; cbn in I.
  - destruct I as [I|[]]. subst. left; reflexivity.
  - destruct I.
  - destruct I as [I|[]]. inversion I; subst. right. split; [reflexivity|]. exists id; reflexivity.
Qed.

Lemma astep_live x a a' : astep x a = Some a' ->
  live a' = live a \/ exists id c, live a' = (id, c) :: live a.
Proof.
  destruct x as [b|id ok|id]; cbn [astep].
  - destruct (sstep b (base a)) as [s'|]; [|discriminate].
    destruct (length (started s') =? S (length (started (base a))))%nat.
    + destruct (length (started (base a)) =? 0)%nat; intros H; inversion H; subst; cbn [live]; [right; eauto|left; reflexivity].
    + intros H; inversion H; subst; left; reflexivity.
  - destruct (mem_nat id (pend a)); [|discriminate].
    destruct ok; intros H; inversion H; subst; cbn [live]; [right; eauto|left; reflexivity].
  - destruct (mem_nat id (failq a)); [|discriminate].
    destruct (sstep (SCancel InstanceFailed) (base a)); [|discriminate].
    intros H; inversion H; subst; left; reflexivity.
Qed.

Lemma cnt_remove_in x l y : mem_nat x l = true ->
  cnt l y = (cnt (remove_nat x l) y + (if Nat.eq_dec x y then 1 else 0))%nat.
Proof. intros M. apply cnt_remove. apply mem_nat_In. exact M. Qed.

(* ------------------------------------------------------------------------------------ *)
(* invariant of the code's rule *)

Section Fire.
Variable its : list ammo_val.

Definition finv (f : fstate) : Prop :=
  (forall id, In id (outq f) -> said_no f = true)
  /\ (forall id, In (id, LvAmmo) (gone f) -> said_no f = true)
  /\ (cancelled (base (fa f)) = Some OutOfAmmo -> exists id, In (id, LvAmmo) (gone f))
  /\ (said_no f = true -> items f = [])
  /\ (length (shots f) + length (items f) = length its)%nat
  /\ (forall x, cnt (live_ids (fa f)) x = (cnt (firing f) x + cnt (outq f) x + cnt (map fst (gone f)) x)%nat).

Lemma finv_init toks t0 : finv (finit toks t0 its).
Proof.
  unfold finv, finit; cbn. repeat split; try (intros; contradiction); try discriminate; auto.
Qed.

Lemma finv_step x f f' : finv f -> fstep OnlyNotOk x f = Some f' -> finv f'.
Proof.
  intros (I1 & I2 & I3 & I4 & I5 & I6) H.
  destruct x as [y|id|id|id]; cbn [fstep] in H.
  - destruct (is_free_ammo_label y) eqn:FL; [discriminate|].
    destruct (astep y (fa f)) as [a'|] eqn:E; [|discriminate].
    inversion H; subst; clear H. unfold finv; cbn [fa items said_no firing outq gone shots].
    split; [exact I1|split; [exact I2|split; [|split; [exact I4|split; [exact I5|]]]]].
    + intros C. destruct (astep_cancelled _ _ _ _ E C) as [D|[D|(D & _)]]; [apply I3; exact D| |discriminate].
      subst y. cbn in FL. discriminate.
    + intros x. unfold live_ids in *.
      destruct (astep_live _ _ _ E) as [L|(id & c & L)]; rewrite L.
      * assert (FR : forall (lv : list (nat * Z)) (fr : list nat), (length lv =? S (length lv))%nat = false ->
            match lv with
            | (i, _) :: _ => if (length lv =? S (length lv))%nat then i :: fr else fr
            | [] => fr
            end = fr).
        { intros lv fr T. destruct lv as [|[i c] t]; [reflexivity|]. rewrite T. reflexivity. }
        rewrite FR by (apply Nat.eqb_neq; lia). apply I6.
      * cbn [length]. rewrite Nat.eqb_refl. cbn [map fst count_occ]. specialize (I6 x).
        destruct (Nat.eq_dec id x); lia.
  - destruct (mem_nat id (firing f)) eqn:M; [|discriminate].
    destruct (items f) as [|v rest] eqn:IT; cbn [is_out negb] in H; inversion H; subst; clear H;
      unfold finv; cbn [fa items said_no firing outq gone shots].
    + split; [reflexivity|split; [reflexivity|split; [exact I3|split; [reflexivity|split; [exact I5|]]]]].
      intros x. specialize (I6 x). rewrite (cnt_remove_in id (firing f) x M) in I6.
      cbn [count_occ]. destruct (Nat.eq_dec id x); lia.
    + split; [exact I1|split; [exact I2|split; [exact I3|split; [|split; [|exact I6]]]]].
      * intros S. specialize (I4 S). discriminate.
      * cbn [length] in *. lia.
  - destruct (mem_nat id (firing f)) eqn:M; [|discriminate].
    inversion H; subst; clear H. unfold finv; cbn [fa items said_no firing outq gone shots].
    split; [exact I1|split; [|split; [|split; [exact I4|split; [exact I5|]]]]].
    + intros i [X|X]; [discriminate|apply (I2 i X)].
    + intros C. destruct (I3 C) as (i & X). exists i. right; exact X.
    + intros x. specialize (I6 x). rewrite (cnt_remove_in id (firing f) x M) in I6.
      cbn [map fst count_occ]. destruct (Nat.eq_dec id x); lia.
  - destruct (mem_nat id (outq f)) eqn:M; [|discriminate].
    destruct (sstep (SCancel OutOfAmmo) (base (fa f))) as [s'|] eqn:E; [|discriminate].
    inversion H; subst; clear H. unfold finv; cbn [fa items said_no firing outq gone shots set_base base live].
    assert (S : said_no f = true) by (apply (I1 id); apply mem_nat_In; exact M).
    split; [intros _ _; exact S|split; [intros _ _; exact S|split; [|split; [exact I4|split; [exact I5|]]]]].
    + intros _. exists id. left; reflexivity.
    + intros x. specialize (I6 x). rewrite (cnt_remove_in id (outq f) x M) in I6.
      unfold live_ids, set_base in *. cbn [live map fst count_occ]. destruct (Nat.eq_dec id x); lia.
Qed.

Lemma frun_inv l : forall f f', finv f -> frun OnlyNotOk l f = Some f' -> finv f'.
Proof.
  induction l as [|x t IH]; cbn [frun]; intros f f' I H.
  - inversion H; subst; exact I.
  - destruct (fstep OnlyNotOk x f) as [f1|] eqn:E; [|discriminate].
    eapply IH; [eapply finv_step; eauto|exact H].
Qed.

(* instance start was cut by "out of ammo" only if the provider has really answered !ok, with
   nothing left *)
Theorem fire_out_of_ammo_grounded toks l t0 f :
  frun OnlyNotOk l (finit toks t0 its) = Some f ->
  cancelled (base (fa f)) = Some OutOfAmmo -> said_no f = true /\ items f = [].
Proof.
  intros H C. destruct (frun_inv l _ _ (finv_init toks t0) H) as (_ & I2 & I3 & I4 & _).
  destruct (I3 C) as (id & G). pose proof (I2 id G) as S. split; [exact S|apply I4; exact S].
Qed.

(* every instance that exists is in its shooting loop, or has left it: by outOfAmmoErr only after
   the provider answered !ok (and then nothing was left), otherwise by a labelled end; every item
   handed out so far was shot *)
Theorem fire_keeps_firing toks l t0 f :
  frun OnlyNotOk l (finit toks t0 its) = Some f ->
  Permutation (live_ids (fa f)) (firing f ++ outq f ++ map fst (gone f))
  /\ (forall id, In id (outq f) \/ In (id, LvAmmo) (gone f) -> said_no f = true /\ items f = [])
  /\ (length (shots f) + length (items f) = length its)%nat.
Proof.
  intros H. destruct (frun_inv l _ _ (finv_init toks t0) H) as (I1 & I2 & _ & I4 & I5 & I6).
  split; [|split; [|exact I5]].
  - apply (Permutation_count_occ Nat.eq_dec). intros x. rewrite !count_occ_app. rewrite I6. lia.
  - intros id [X|X]; [pose proof (I1 id X) as S|pose proof (I2 id X) as S]; (split; [exact S|apply I4; exact S]).
Qed.

(* fewer instances than startup tokens at the end: the provider really ran out, or another
   labelled cancel source / a failed creation is in the trace, or the first instance could not be
   created *)
Theorem fire_all_tokens toks l t0 f e :
  frun OnlyNotOk l (finit toks t0 its) = Some f ->
  spc (base (fa f)) = LEnd e -> quiescent (fa f) = true ->
  (length (live (fa f)) < length toks)%nat ->
  (said_no f = true /\ items f = [])
  \/ (exists c, c <> OutOfAmmo /\ In (FBase (ABase (SCancel c))) l)
  \/ (exists id, In (FBase (AAwait id)) l)
  \/ e = EFirstCreateFailed.
Proof.
  intros H E Q L. pose proof (frun_proj _ _ _ _ H) as P. cbn [finit fa] in P.
  destruct (async_all_tokens toks _ t0 _ e P E Q) as (_ & _ & A).
  destruct (A L) as [(c & Ec & Cc & Src)|[(Ef & _)|(_ & _ & _ & id & _ & Src)]].
  - destruct c.
    + left. apply (fire_out_of_ammo_grounded toks l t0 f H Cc).
    + destruct Src as [Src|(D & _)]; [|discriminate].
      destruct (in_fproj _ _ Src) as [B|(D & _)]; [|discriminate].
      right; left. exists RpsFinished. split; [discriminate|exact B].
    + destruct Src as [Src|(D & _)]; [|discriminate].
      destruct (in_fproj _ _ Src) as [B|(D & _)]; [|discriminate].
      right; left. exists RunCancelled. split; [discriminate|exact B].
    + destruct Src as [Src|(_ & id & Src)].
      * destruct (in_fproj _ _ Src) as [B|(D & _)]; [|discriminate].
        right; left. exists InstanceFailed. split; [discriminate|exact B].
      * destruct (in_fproj _ _ Src) as [B|(D & _)]; [|discriminate].
        right; right; left. exists id; exact B.
  - right; right; right. exact Ef.
  - destruct (in_fproj _ _ Src) as [B|(D & _)]; [|discriminate].
    right; right; left. exists id; exact B.
Qed.

End Fire.
