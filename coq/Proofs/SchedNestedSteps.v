(* C02, nested composites under concurrency: one step of [nsec] (Model/SchedNested.v), at any
   nesting depth, by induction on the pc of the stepping thread.

   [Jq lo c q]  the thread-local invariant of a pc, level by level: a thread that holds the read
                lock of c (QIn) is working on the head of c, which is a non-empty composite; a
                thread waiting for the write lock of the composite it has reached carries the
                flat invariant Jn / Jl of SchedConcSections.v about THAT composite.
   [nsec_S]     a step in a started tree: it never panics; every composite on the path keeps its
                finish time and evolves as the flat proof needs ([sevol]); the pcs of all other
                threads stay valid (for a thread holding a read lock because the write sections
                above it are disabled: [depth_in q2 <= others]); the step is a pop / a Left /
                a stutter of the stream of the composite, and the new pc is valid.
   [nsec_F]     the same in a tree that has not been started (all pcs are QIn^j QIdle). *)
From Coq Require Import List ZArith Bool Arith Lia.
From PV Require Import Model.SchedTree Model.SchedConc Model.SchedNested
  Proofs.SchedTreeProofs Proofs.SchedTreeSeq Proofs.SchedTreeRun Proofs.SchedConcSections
  Proofs.SchedConcProofs Proofs.SchedNestedSections.
Import ListNotations.
Local Open Scope Z_scope.

Fixpoint Jq (lo : Z) (c : sched) (q : npc) {struct q} : Prop :=
  match q with
  | QIdle => True
  | QN1 tx k => started c /\ Jn lo c tx k
  | QL1 k => started c /\ Jl lo c k
  | QIn q1 => match c with Comp (h :: _) _ _ => comp_len h <> 0%nat /\ Jq lo h q1 | _ => False end
  end.

Fixpoint idle_pc (q : npc) : Prop :=
  match q with QIdle => True | QIn q1 => idle_pc q1 | _ => False end.

Lemma Jq_evol lo now c c' q :
  depth_in q = 0%nat -> evol lo now c c' -> started c' -> Jq lo c q -> Jq now c' q.
Proof.
  intros D EV S' J. destruct q as [|tx k|k|q1]; cbn [Jq] in *; [exact I| | |cbn in D; lia].
  - destruct J as [_ J]. split; [exact S'|]. exact (evol_J lo now c c' (N1 tx k) EV J).
  - destruct J as [_ J]. split; [exact S'|]. exact (evol_J lo now c c' (L1 k) EV J).
Qed.

Lemma Jq_mono : forall q lo now c, lo <= now -> Jq lo c q -> Jq now c q.
Proof.
  induction q as [|tx k|k|q1 IH]; intros lo now c L J; cbn [Jq] in *; [exact I| | |].
  - destruct J as [S J]. split; [exact S|]. exact (evol_J lo now c c (N1 tx k) (evol_refl lo now c L) J).
  - destruct J as [S J]. split; [exact S|]. exact (evol_J lo now c c (L1 k) (evol_refl lo now c L) J).
  - destruct c as [| |[|h r] la cs]; try contradiction. destruct J as [NZ J]. split; [exact NZ|]. eapply IH; eauto.
Qed.

Lemma Jq_leafhead lo h r la cs q :
  is_comp h = false -> Jq lo (Comp (h :: r) la cs) q -> depth_in q = 0%nat.
Proof.
  intros IC J. destruct q as [| | |q1]; try reflexivity. cbn [Jq] in J. destruct J as [NZ _].
  rewrite (not_comp_len h IC) in NZ. congruence.
Qed.

Lemma fresh_idle : forall q lo c, fresh c -> Jq lo c q -> idle_pc q.
Proof.
  induction q as [|tx k|k|q1 IH]; intros lo c F J; cbn [Jq idle_pc] in *; [exact I| | |].
  - destruct J as [S _]. exact (fresh_not_started _ F S).
  - destruct J as [S _]. exact (fresh_not_started _ F S).
  - destruct c as [| |[|h r] la cs]; try contradiction. destruct J as [_ J].
    destruct (fresh_comp_inv _ _ _ F) as (h0 & r0 & E0 & _ & _ & Fh & _). inversion E0; subst. eapply IH; eauto.
Qed.

Lemma Jq_idle_indep : forall q lo now c, idle_pc q -> Jq lo c q -> Jq now c q.
Proof.
  induction q as [|tx k|k|q1 IH]; intros lo now c Id J; cbn [Jq idle_pc] in *; try contradiction; [exact I|].
  destruct c as [| |[|h r] la cs]; try contradiction. destruct J as [NZ J]. split; [exact NZ|]. eapply IH; eauto.
Qed.

(* the pcs of the other threads, seen from the parent of the node that changed *)
Lemma stab_in lo now h h' r la la' cs others :
  started (Comp (h' :: r) la' true) -> sevol lo now h h' -> comp_len h' <> 0%nat ->
  (forall q2, (depth_in q2 <= pred others)%nat -> Jq lo h q2 -> Jq now h' q2) ->
  forall q2, (depth_in q2 <= others)%nat -> Jq lo (Comp (h :: r) la cs) q2 -> Jq now (Comp (h' :: r) la' true) q2.
Proof.
  intros S' SE NZ' Stab q2 D J.
  destruct q2 as [|tx k|k|q21]; cbn [Jq depth_in] in *; [exact I| | |].
  - destruct J as [_ J]. split; [exact S'|].
    exact (evol_J lo now _ _ (N1 tx k) (evol_head lo now h h' r la la' cs true SE) J).
  - destruct J as [_ J]. split; [exact S'|].
    exact (evol_J lo now _ _ (L1 k) (evol_head lo now h h' r la la' cs true SE) J).
  - destruct J as [_ J]. split; [exact NZ'|]. apply Stab; [lia|exact J].
Qed.

Lemma stab_in_F lo now h h' r la la' cs' others :
  fresh (Comp (h :: r) la false) -> comp_len h' <> 0%nat ->
  (forall q2, (depth_in q2 <= pred others)%nat -> Jq lo h q2 -> Jq now h' q2) ->
  forall q2, (depth_in q2 <= others)%nat -> Jq lo (Comp (h :: r) la false) q2 -> Jq now (Comp (h' :: r) la' cs') q2.
Proof.
  intros F NZ' Stab q2 D J.
  destruct q2 as [|tx k|k|q21]; cbn [Jq depth_in] in *; [exact I| | |].
  - destruct J as [S _]. destruct (fresh_not_started _ F S).
  - destruct J as [S _]. destruct (fresh_not_started _ F S).
  - destruct J as [_ J]. split; [exact NZ'|]. apply Stab; [lia|exact J].
Qed.

Lemma relS_self lo c : wf c -> started c -> relS lo c (absp 0 c).
Proof. intros W S. repeat split; auto. Qed.

(* ---------------------------------------------------------------- started trees *)
Lemma nsec_S fuel : forall q c lo now o others r0,
  wf c -> started c -> comp_len c <> 0%nat -> (size c <= S fuel)%nat -> lo <= now ->
  Jq lo c q ->
  nsec fuel now o others q c = Some r0 ->
  exists c' out, r0 = Ok (c', out) /\ wf c' /\ started c' /\ comp_len c' <> 0%nat /\ (size c' <= size c)%nat /\
    sevol lo now c c' /\
    (forall q2, (depth_in q2 <= others)%nat -> Jq lo c q2 -> Jq now c' q2) /\
    match out with
    | NRetN t ok => o = ONext /\ exists its', abs_next now (afin 0 c) (absp 0 c) = (its', t, ok) /\
                                             drop_closed now its' = drop_closed now (absp 0 c')
    | NRetL v => o = OLeft /\ v = abs_left now (absp 0 c) /\
                 drop_closed now (absp 0 c') = drop_closed now (absp 0 c)
    | NGoto q' => drop_closed now (absp 0 c') = drop_closed now (absp 0 c) /\ Jq now c' q'
    end.
Proof.
  induction q as [|tx k|k|q1 IH]; intros c lo now o others r0 W St NZ Sz L J E;
    destruct (comp_len_inv c NZ) as (h & r & la & cs & ->);
    destruct (wf_comp_inv _ _ _ W) as (h0 & rr & E0 & ->); inversion E0; subst h0 rr; clear E0;
    destruct (started_cs _ _ _ _ St) as [-> Sh];
    set (c := Comp (h :: r) (la_of (h :: r)) true) in *.
  - (* QIdle *)
    assert (Wh : wf h) by (inversion W; auto).
    assert (Entry : is_comp h = true ->
      exists c' out, Ok (c, NGoto (QIn QIdle)) = Ok (c', out) /\ wf c' /\ started c' /\ comp_len c' <> 0%nat /\
        (size c' <= size c)%nat /\ sevol lo now c c' /\
        (forall q2, (depth_in q2 <= others)%nat -> Jq lo c q2 -> Jq now c' q2) /\
        match out with
        | NRetN t ok => o = ONext /\ exists its', abs_next now (afin 0 c) (absp 0 c) = (its', t, ok) /\
                                                 drop_closed now its' = drop_closed now (absp 0 c')
        | NRetL v => o = OLeft /\ v = abs_left now (absp 0 c) /\
                     drop_closed now (absp 0 c') = drop_closed now (absp 0 c)
        | NGoto q' => drop_closed now (absp 0 c') = drop_closed now (absp 0 c) /\ Jq now c' q'
        end).
    { intros IC. exists c, (NGoto (QIn QIdle)). split; [reflexivity|]. split; [exact W|]. split; [exact St|].
      split; [exact NZ|]. split; [lia|]. split; [apply sevol_refl; exact L|].
      split; [intros q2 _ J2; eapply Jq_mono; eauto|]. split; [reflexivity|].
      unfold c. cbn [Jq]. split; [apply is_comp_len; assumption|exact I]. }
    assert (Flat : forall sec, is_comp h = false ->
      (exists c' out, sec = Ok (c', out) /\ comp_len c' <> 0%nat /\ (size c' <= size c)%nat /\ evol lo now c c' /\
         afin 0 c' = afin 0 c /\ wf c' /\ started c' /\
         match out with
         | RetN t ok => o = ONext /\ exists its', abs_next now (afin 0 c) (absp 0 c) = (its', t, ok) /\
                                                  drop_closed now its' = drop_closed now (absp 0 c')
         | RetL v => o = OLeft /\ v = abs_left now (absp 0 c) /\
                     drop_closed now (absp 0 c') = drop_closed now (absp 0 c)
         | Goto p' => drop_closed now (absp 0 c') = drop_closed now (absp 0 c) /\ Jpc now c' p'
         end) ->
      exists c' out, lift_res sec = Ok (c', out) /\ wf c' /\ started c' /\ comp_len c' <> 0%nat /\
        (size c' <= size c)%nat /\ sevol lo now c c' /\
        (forall q2, (depth_in q2 <= others)%nat -> Jq lo c q2 -> Jq now c' q2) /\
        match out with
        | NRetN t ok => o = ONext /\ exists its', abs_next now (afin 0 c) (absp 0 c) = (its', t, ok) /\
                                                 drop_closed now its' = drop_closed now (absp 0 c')
        | NRetL v => o = OLeft /\ v = abs_left now (absp 0 c) /\
                     drop_closed now (absp 0 c') = drop_closed now (absp 0 c)
        | NGoto q' => drop_closed now (absp 0 c') = drop_closed now (absp 0 c) /\ Jq now c' q'
        end).
    { intros sec IC (c' & out & -> & NZ' & Sz' & EV & Fc & W' & S' & M).
      exists c', (lift_out out). split; [reflexivity|]. split; [exact W'|]. split; [exact S'|].
      split; [exact NZ'|]. split; [exact Sz'|].
      assert (SE : sevol lo now c c').
      { destruct out as [p'|t ok|v].
        - destruct M as [D _]. apply sevol_of_dc; auto.
        - destruct M as (_ & its' & AN & D). eapply sevol_of_pop; eauto.
        - destruct M as (_ & _ & D). apply sevol_of_dc; auto. }
      split; [exact SE|]. split.
      - intros q2 _ J2. eapply Jq_evol; eauto. eapply Jq_leafhead; eauto.
      - destruct out as [p'|t ok|v]; cbn [lift_out]; try exact M.
        destruct M as [D Jp]. split; [exact D|].
        destruct p' as [|tx k|k]; cbn [lift_pc Jq Jpc] in *; auto. }
    cbn [nsec] in E. unfold c in E. cbn [la_of] in E. fold c in E.
    change (Comp (h :: r) (statl (flatl r) :: la_of r) true) with c in E.
    destruct o as [t| |]; [discriminate| |].
    + destruct (is_comp h) eqn:IC; inversion E; subst r0; clear E; [apply Entry; reflexivity|].
      apply Flat; [reflexivity|].
      destruct (sec_next0_S fuel lo now c (absp 0 c) (relS_self lo c W St) L Sz NZ) as (c' & out & E1 & Sz1 & EV & Fc & M).
      exists c', out. split; [exact E1|]. split; [eapply sec_next0_len; eauto|]. split; [exact Sz1|].
      split; [exact EV|]. split; [exact Fc|].
      destruct out as [[|tx k|k]|t ok|v]; try contradiction.
      * destruct M as [(W' & S' & D) Jn']. split; [exact W'|]. split; [exact S'|]. split; [symmetry; exact D|exact Jn'].
      * destruct M as (its' & AN & (W' & S' & D)). split; [exact W'|]. split; [exact S'|]. split; [reflexivity|].
        exists its'. split; assumption.
    + destruct (is_comp h) eqn:IC; inversion E; subst r0; clear E; [apply Entry; reflexivity|].
      apply Flat; [reflexivity|].
      destruct (sec_left0_S fuel lo now c (absp 0 c) (relS_self lo c W St) L Sz NZ) as (c' & out & E1 & Sz1 & EV & Fc & M).
      exists c', out. split; [exact E1|]. split; [eapply sec_left0_len; eauto|]. split; [exact Sz1|].
      split; [exact EV|]. split; [exact Fc|].
      destruct out as [[|tx k|k]|t ok|v]; try contradiction.
      * destruct M as [(W' & S' & D) Jl']. split; [exact W'|]. split; [exact S'|]. split; [symmetry; exact D|exact Jl'].
      * destruct M as (Ev & (W' & S' & D)). split; [exact W'|]. split; [exact S'|]. split; [reflexivity|].
        split; [exact Ev|symmetry; exact D].
  - (* QN1: the write section of Next *)
    cbn [nsec] in E. fold c in E. destruct o as [t| |]; try discriminate.
    destruct (others =? 0)%nat eqn:EO; [|discriminate]. apply Nat.eqb_eq in EO. inversion E; subst r0; clear E.
    cbn [Jq] in J. destruct J as [_ J].
    destruct (sec_next1_S fuel lo now c (absp 0 c) tx k (relS_self lo c W St) J L Sz NZ) as (c' & out & E1 & Sz1 & EV & Fc & M).
    rewrite E1. cbn [lift_res]. exists c', (lift_out out). split; [reflexivity|].
    assert (WS : wf c' /\ started c').
    { destruct out as [[|tx' k'|k']|t ok|v]; try contradiction.
      - destruct M as (W' & S' & _); auto.
      - destruct M as (its' & _ & (W' & S' & _)); auto. }
    destruct WS as [W' S']. split; [exact W'|]. split; [exact S'|].
    split; [eapply sec_next1_len; eauto|]. split; [exact Sz1|].
    assert (SE : sevol lo now c c').
    { destruct out as [[|tx' k'|k']|t ok|v]; try contradiction.
      - destruct M as (_ & _ & D). apply sevol_of_dc; auto.
      - destruct M as (its' & AN & (_ & _ & D)). eapply sevol_of_pop; eauto. }
    split; [exact SE|]. split.
    + intros q2 D2 J2. eapply Jq_evol; eauto. lia.
    + destruct out as [[|tx' k'|k']|t ok|v]; try contradiction; cbn [lift_out lift_pc].
      * destruct M as (_ & _ & D). split; [symmetry; exact D|exact I].
      * destruct M as (its' & AN & (_ & _ & D)). split; [reflexivity|]. exists its'. split; assumption.
  - (* QL1: the write section of Left *)
    cbn [nsec] in E. fold c in E. destruct o as [t| |]; try discriminate.
    destruct (others =? 0)%nat eqn:EO; [|discriminate]. apply Nat.eqb_eq in EO. inversion E; subst r0; clear E.
    cbn [Jq] in J. destruct J as [_ J].
    destruct (sec_left1_S fuel lo now c (absp 0 c) k (relS_self lo c W St) J L Sz NZ) as (c' & E1 & Sz1 & EV & Fc & (W' & S' & D)).
    rewrite E1. cbn [lift_res lift_out lift_pc]. exists c', (NGoto QIdle). split; [reflexivity|].
    split; [exact W'|]. split; [exact S'|]. split; [eapply sec_left1_len; eauto|]. split; [exact Sz1|].
    split; [apply sevol_of_dc; auto|]. split.
    + intros q2 D2 J2. eapply Jq_evol; eauto. lia.
    + split; [symmetry; exact D|exact I].
  - (* QIn: a step of the child operation, then possibly the rest of the read section *)
    unfold c in E. cbn [nsec] in E. unfold c in J. cbn [Jq] in J. destruct J as [NZh Jh].
    assert (Wh : wf h) by (inversion W; auto).
    assert (Szh : (size h <= S fuel)%nat) by (unfold c in Sz; rewrite size_comp, sizel_cons in Sz; lia).
    destruct (nsec fuel now o (pred others) q1 h) as [r1|] eqn:E1; [|discriminate].
    destruct (IH h lo now o (pred others) r1 Wh Sh NZh Szh L Jh E1)
      as (h' & out1 & -> & Wh' & Sh' & NZh' & Szh' & SEh & Stab & M).
    set (c' := Comp (h' :: r) (la_of (h :: r)) true).
    assert (Szc : (size c' <= size c)%nat) by (unfold c, c'; rewrite !size_comp, !sizel_cons; lia).
    assert (NZ' : comp_len c' <> 0%nat) by (cbn; discriminate).
    destruct out1 as [q1'|tx ok|lft].
    + destruct M as [Dh Jh']. cbn [orb] in E. inversion E; subst r0; clear E.
      destruct (goto_lift now 0 h r true h' W Wh' Sh' (proj1 SEh) Dh) as (W' & S' & Fc & Dc). fold c c' in W', S', Fc, Dc.
      exists c', (NGoto (QIn q1')). split; [reflexivity|]. split; [exact W'|]. split; [exact S'|].
      split; [exact NZ'|]. split; [exact Szc|]. split; [apply sevol_of_dc; auto|].
      split; [apply stab_in; auto|]. split; [exact Dc|]. unfold c'. cbn [Jq]. split; assumption.
    + destruct M as (-> & its' & AN & D).
      assert (NP : next_post now 0 h h' tx ok).
      { split; [exact Wh'|]. split; [exact Sh'|]. split; [exact (proj1 SEh)|]. exists its'. split; assumption. }
      destruct (next0_exit_S lo now h r h' tx ok W St L NP Szh') as (out & Ex & W' & S' & _ & EV & Fc & Mo).
      fold c c' in Ex, W', S', EV, Fc, Mo. rewrite Ex in E. inversion E; subst r0; clear E.
      exists c', out. split; [reflexivity|]. split; [exact W'|]. split; [exact S'|].
      split; [exact NZ'|]. split; [exact Szc|].
      destruct out as [[|tx' k'|k'|q']|t ok'|v]; try contradiction.
      * destruct Mo as [D3 Jn']. split; [apply sevol_of_dc; auto|]. split; [apply stab_in; auto|].
        split; [exact D3|]. cbn [Jq]. split; assumption.
      * destruct Mo as (its2 & AN2 & D2). split; [eapply sevol_of_pop; eauto|]. split; [apply stab_in; auto|].
        split; [reflexivity|]. exists its2. split; assumption.
    + destruct M as (-> & Kh & Dh).
      assert (LP : left_post now 0 h h' lft).
      { split; [exact Wh'|]. split; [exact Sh'|]. split; [exact (proj1 SEh)|]. split; assumption. }
      destruct (left0_exit_S lo now h r h' lft W St L LP Szh') as (out & Ex & W' & S' & _ & EV & Fc & Dc & Mo).
      fold c c' in Ex, W', S', EV, Fc, Dc, Mo. rewrite Ex in E. inversion E; subst r0; clear E.
      exists c', out. split; [reflexivity|]. split; [exact W'|]. split; [exact S'|].
      split; [exact NZ'|]. split; [exact Szc|]. split; [apply sevol_of_dc; auto|]. split; [apply stab_in; auto|].
      destruct out as [[|tx' k'|k'|q']|t ok'|v]; try contradiction.
      * split; [exact Dc|]. cbn [Jq]. split; assumption.
      * split; [reflexivity|]. split; assumption.
Qed.

(* ---------------------------------------------------------------- trees that have not been started *)
Lemma started_param c p : started c -> absp p c = absp 0 c /\ afin p c = afin 0 c.
Proof. intros S. unfold absp, afin. rewrite (absp_param c p 0 S). split; reflexivity. Qed.

Lemma nsec_F fuel : forall q c lo now o others r0,
  fresh c -> comp_len c <> 0%nat -> (size c <= S fuel)%nat ->
  Jq lo c q ->
  nsec fuel now o others q c = Some r0 ->
  exists c' out, r0 = Ok (c', out) /\ wf c' /\ comp_len c' <> 0%nat /\ (size c' <= size c)%nat /\
    (forall q2, (depth_in q2 <= others)%nat -> Jq lo c q2 -> Jq now c' q2) /\
    match out with
    | NRetN t ok => o = ONext /\ started c' /\ afin 0 c' = afin now c /\
        exists its', abs_next now (afin now c) (absp now c) = (its', t, ok) /\
                     drop_closed now its' = drop_closed now (absp 0 c')
    | NRetL v => o = OLeft /\ c' = c /\ v = statl (flatten c)
    | NGoto q' => Jq now c' q' /\
        (c' = c \/
         (o = ONext /\ started c' /\ afin 0 c' = afin now c /\ drop_closed now (absp 0 c') = drop_closed now (absp now c)))
    end.
Proof.
  induction q as [|tx k|k|q1 IH]; intros c lo now o others r0 F NZ Sz J E;
    destruct (comp_len_inv c NZ) as (h & r & la & cs & ->);
    destruct (fresh_comp_inv _ _ _ F) as (h0 & rr & E0 & -> & -> & Fh & Fr); inversion E0; subst h0 rr; clear E0;
    pose proof (fresh_wf _ F) as W;
    set (c := Comp (h :: r) (la_of (h :: r)) false) in *.
  - (* QIdle *)
    assert (Stab0 : forall c', is_comp h = false ->
              forall q2, (depth_in q2 <= others)%nat -> Jq lo c q2 -> Jq now c' q2).
    { intros c' IC q2 _ J2. pose proof (Jq_leafhead _ _ _ _ _ _ IC J2) as D0.
      pose proof (fresh_idle _ _ _ F J2) as Id. destruct q2; cbn in *; try contradiction; try lia; auto. }
    assert (Entry : is_comp h = true ->
      exists c' out, Ok (c, NGoto (QIn QIdle)) = Ok (c', out) /\ wf c' /\ comp_len c' <> 0%nat /\ (size c' <= size c)%nat /\
        (forall q2, (depth_in q2 <= others)%nat -> Jq lo c q2 -> Jq now c' q2) /\
        match out with
        | NRetN t ok => o = ONext /\ started c' /\ afin 0 c' = afin now c /\
            exists its', abs_next now (afin now c) (absp now c) = (its', t, ok) /\
                         drop_closed now its' = drop_closed now (absp 0 c')
        | NRetL v => o = OLeft /\ c' = c /\ v = statl (flatten c)
        | NGoto q' => Jq now c' q' /\
            (c' = c \/
             (o = ONext /\ started c' /\ afin 0 c' = afin now c /\ drop_closed now (absp 0 c') = drop_closed now (absp now c)))
        end).
    { intros IC. exists c, (NGoto (QIn QIdle)). split; [reflexivity|]. split; [exact W|]. split; [exact NZ|].
      split; [lia|]. split.
      - intros q2 _ J2. eapply Jq_idle_indep; [eapply fresh_idle; eauto|exact J2].
      - split; [|left; reflexivity]. unfold c. cbn [Jq]. split; [apply is_comp_len; [apply fresh_wf; exact Fh|exact IC]|exact I]. }
    unfold c in E. cbn [nsec la_of] in E.
    change (Comp (h :: r) (statl (flatl r) :: la_of r) false) with c in E.
    destruct o as [t| |]; [discriminate| |].
    + destruct (is_comp h) eqn:IC;
        [assert (Er : r0 = Ok (c, NGoto (QIn QIdle))) by congruence; subst r0; apply Entry; reflexivity|].
      assert (Er : r0 = lift_res (sec_next0 fuel now c)) by congruence. subst r0. clear E.
      destruct (sec_next0_F fuel now c F NZ Sz) as (c' & out & E1 & Sz1 & Ff & M).
      rewrite E1. cbn [lift_res]. exists c', (lift_out out). split; [reflexivity|].
      assert (W' : wf c').
      { destruct out as [[|tx k|k]|t ok|v]; try contradiction.
        - destruct M as [(W' & _) _]. exact W'.
        - destruct M as (its' & _ & (W' & _)). exact W'. }
      split; [exact W'|]. split; [eapply sec_next0_len; eauto|]. split; [exact Sz1|].
      split; [apply Stab0; reflexivity|].
      destruct out as [[|tx k|k]|t ok|v]; try contradiction; cbn [lift_out lift_pc].
      * destruct M as [(_ & S' & D) Jn']. split; [cbn [Jq]; split; assumption|]. right. split; [reflexivity|].
        split; [exact S'|]. split; [exact Ff|]. symmetry. exact D.
      * destruct M as (its' & AN & (_ & S' & D)). split; [reflexivity|]. split; [exact S'|]. split; [exact Ff|].
        exists its'. split; assumption.
    + destruct (is_comp h) eqn:IC;
        [assert (Er : r0 = Ok (c, NGoto (QIn QIdle))) by congruence; subst r0; apply Entry; reflexivity|].
      assert (Er : r0 = lift_res (sec_left0 fuel now c)) by congruence. subst r0. clear E.
      rewrite (sec_left0_F fuel now c F NZ Sz). cbn [lift_res lift_out].
      exists c, (NRetL (statl (flatten c))). split; [reflexivity|]. split; [exact W|]. split; [exact NZ|].
      split; [lia|]. split; [apply Stab0; reflexivity|]. repeat split.
  - cbn [Jq] in J. destruct J as [S _]. destruct (fresh_not_started _ F S).
  - cbn [Jq] in J. destruct J as [S _]. destruct (fresh_not_started _ F S).
  - (* QIn *)
    unfold c in E. cbn [nsec] in E. unfold c in J. cbn [Jq] in J. destruct J as [NZh Jh].
    assert (Szh : (size h <= S fuel)%nat) by (unfold c in Sz; rewrite size_comp, sizel_cons in Sz; lia).
    destruct (nsec fuel now o (pred others) q1 h) as [r1|] eqn:E1; [|discriminate].
    destruct (IH h lo now o (pred others) r1 Fh NZh Szh Jh E1)
      as (h' & out1 & -> & Wh' & NZh' & Szh' & Stab & M).
    destruct out1 as [q1'|tx ok|lft].
    + destruct M as [Jh' [->|(Eo & Sh' & Fh' & Dh)]].
      * rewrite (fresh_sflag h Fh) in E. cbn [orb] in E. fold c in E. inversion E; subst r0; clear E.
        exists c, (NGoto (QIn q1')). split; [reflexivity|]. split; [exact W|]. split; [exact NZ|]. split; [lia|].
        split; [unfold c; eapply stab_in_F; eauto|]. split; [|left; reflexivity].
        unfold c. cbn [Jq]. split; assumption.
      * rewrite (started_sflag h' Sh') in E. cbn [orb] in E. inversion E; subst r0; clear E.
        set (c' := Comp (h' :: r) (la_of (h :: r)) true).
        destruct (started_param h' now Sh') as [PA PF].
        destruct (goto_lift now now h r false h' W Wh' Sh') as (W' & S' & Fc & Dc).
        { rewrite PF. exact Fh'. } { rewrite PA. exact Dh. }
        fold c c' in W', S', Fc, Dc. destruct (started_param c' now S') as [PA' PF'].
        exists c', (NGoto (QIn q1')). split; [reflexivity|]. split; [exact W'|]. split; [cbn; discriminate|].
        split; [unfold c, c'; rewrite !size_comp, !sizel_cons; lia|].
        split; [unfold c, c'; eapply stab_in_F; eauto|]. split; [unfold c'; cbn [Jq]; split; assumption|].
        right. split; [exact Eo|]. split; [exact S'|]. split; [rewrite <- PF'; exact Fc|]. rewrite <- PA'. exact Dc.
    + destruct M as (-> & Sh' & Fh' & its' & AN & D).
      destruct (started_param h' now Sh') as [PA PF].
      assert (NP : next_post now now h h' tx ok).
      { split; [exact Wh'|]. split; [exact Sh'|]. split; [rewrite PF; exact Fh'|]. exists its'.
        split; [exact AN|]. rewrite PA. exact D. }
      destruct (next0_exit_F now h r h' tx ok F NP Szh') as (out & Ex & W' & S' & Szc & Fc & Mo).
      fold c in Ex, Szc, Fc, Mo. rewrite Ex in E. inversion E; subst r0; clear E.
      set (c' := Comp (h' :: r) (la_of (h :: r)) true) in *.
      exists c', out. split; [reflexivity|]. split; [exact W'|]. split; [cbn; discriminate|]. split; [exact Szc|].
      split; [unfold c, c'; eapply stab_in_F; eauto|].
      destruct out as [[|tx' k'|k'|q']|t ok'|v]; try contradiction.
      * destruct Mo as [D3 Jn']. split; [cbn [Jq]; split; assumption|]. right. split; [reflexivity|]. split; [exact S'|]. split; assumption.
      * split; [reflexivity|]. split; [exact S'|]. split; [exact Fc|]. exact Mo.
    + destruct M as (-> & -> & ->).
      rewrite (left0_exit_F fuel h r F Sz) in E. fold c in E. inversion E; subst r0; clear E.
      exists c, (NRetL (statl (flatten c))). split; [reflexivity|]. split; [exact W|]. split; [exact NZ|]. split; [lia|].
      split; [unfold c; eapply stab_in_F; eauto|]. repeat split.
Qed.
