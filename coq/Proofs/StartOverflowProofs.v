(* Proofs about Model/StartOverflow.v: the code's start loop does not look at discard_overflow, so every
   theorem about the loop holds for either setting of the flag and for any lateness of the loop. *)
From Coq Require Import List ZArith Bool Arith Lia.
From PV Require Import Model.StartLoop Model.StartOverflow Proofs.StartLoopProofs.
Import ListNotations.
Local Open Scope Z_scope.

Lemma ostep_code discard a s : ostep NeverSkip discard a s = sstep a s.
Proof. reflexivity. Qed.

Lemma orun_code discard : forall l s, orun NeverSkip discard l s = srun l s.
Proof.
  induction l as [|a t IH]; intros s; [reflexivity|]. cbn [orun srun]. rewrite ostep_code.
  destruct (sstep a s) as [s'|]; [apply IH|reflexivity].
Qed.

Theorem overflow_all_tokens discard toks l t0 s e :
  orun NeverSkip discard l (sinit toks t0) = Some s -> spc s = LEnd e ->
  (e = EExhausted -> length (started s) = length toks)
  /\ ((length (started s) < length toks)%nat ->
      (exists c, e = ECancelled c /\ cancelled s = Some c /\ In (SCancel c) l)
      \/ (e = EFirstCreateFailed /\ started s = [])).
Proof.
  rewrite orun_code. intros H E. destruct (all_tokens toks l t0 s e H E) as [A B]. split; [exact A|].
  intros Hlt. destruct (B Hlt) as [(c & Ec & Cc)|F]; [left|right; exact F].
  exists c. repeat split; auto. eapply cancel_source; eauto.
Qed.

(* and nothing else about the loop changes either: ids, not ahead of the profile *)
Theorem overflow_ids discard toks l t0 s :
  orun NeverSkip discard l (sinit toks t0) = Some s ->
  map fst (creations s) = seq 0 (length (creations s)) /\ NoDup (map fst (creations s)).
Proof. rewrite orun_code. apply ids_consecutive. Qed.
