From Coq Require Import List NArith ZArith Bool.
From PV Require Import Model.Scenario Model.ScenarioClient.
Import ListNotations.

Lemma client_no_follow target fuel k path :
  client_do target false fuel k path = ([path], DoAnswer (target k path), S k).
Proof. destruct fuel; reflexivity. Qed.

(* a client that does not follow redirects: exactly the listed requests, every answer (3xx included)
   handed to the step that asked *)
Theorem steps_no_follow target paths : forall k,
  run_steps target false k paths = spec_steps target k paths.
Proof.
  induction paths as [|p ps IH]; intros k; [reflexivity|].
  cbn [run_steps spec_steps]. rewrite client_no_follow, IH.
  destruct (spec_steps target (S k) ps). reflexivity.
Qed.

Lemma spec_steps_arrivals target paths : forall k, fst (spec_steps target k paths) = paths.
Proof.
  induction paths as [|p ps IH]; intros k; [reflexivity|].
  cbn [spec_steps]. specialize (IH (S k)). destruct (spec_steps target (S k) ps). cbn [fst] in *. f_equal. exact IH.
Qed.

Lemma spec_steps_answers target paths : forall k i p,
  nth_error paths i = Some p ->
  nth_error (snd (spec_steps target k paths)) i = Some (DoAnswer (target (k + i) p)).
Proof.
  induction paths as [|q ps IH]; intros k i p H; [destruct i; discriminate|].
  cbn [spec_steps]. specialize (IH (S k)). destruct (spec_steps target (S k) ps) as [a r]. cbn [snd] in *.
  destruct i as [|i]; cbn [nth_error] in *.
  - injection H as ->. rewrite PeanoNat.Nat.add_0_r. reflexivity.
  - rewrite (IH i p H). rewrite PeanoNat.Nat.add_succ_r. reflexivity.
Qed.

(* also with a following client, as long as the target never answers 3xx + Location *)
Theorem steps_follow_no_redirect target paths :
  (forall k p, is_redirect (an_status (target k p)) = false \/ an_location (target k p) = None) ->
  forall k, run_steps target true k paths = spec_steps target k paths.
Proof.
  intros H. induction paths as [|p ps IH]; intros k; [reflexivity|].
  cbn [run_steps spec_steps].
  assert (E : client_do target true go_redirect_limit k p = ([p], DoAnswer (target k p), S k)).
  { unfold go_redirect_limit. cbn [client_do andb]. destruct (H k p) as [-> | ->]; [reflexivity|].
    destruct (is_redirect _); reflexivity. }
  rewrite E, IH. destruct (spec_steps target (S k) ps). reflexivity.
Qed.
