(* C13 for the http ammo decoders: for ALL byte strings no Scan panics, every Scan terminates
   within its fuel (linear in the input length), allocations are bounded by the data present. *)
From Coq Require Import List NArith ZArith Bool Lia.
From PV Require Import Lib.AmmoBytes Lib.AmmoDecimal Lib.AmmoLines Model.AmmoCommon Model.AmmoUri
  Model.AmmoUripost Model.AmmoRaw Model.AmmoJson
  Proofs.AmmoBytesProofs Proofs.AmmoLinesProofs.
Import ListNotations.
Local Open Scope N_scope.

Definition bad {E} (r : sres E) : bool :=
  match r with SPanic | SOutOfFuel => true | _ => false end.

(* ---------- readBody ---------- *)
Lemma alloc_read_no_panic size rest : alloc_read size rest <> APanic.
Proof.
  unfold alloc_read. destruct (Z.ltb size 0); [discriminate|].
  destruct (read_full (Z.to_N size) rest) as [[b r]|]; discriminate.
Qed.

Definition alloc_ok (a : option (N * N)) : Prop :=
  match a with Some (n, avail) => n <= N.max max_prealloc avail | None => True end.

Lemma alloc_of_bound n avail : alloc_of n avail <= N.max max_prealloc avail.
Proof. unfold alloc_of. lia. Qed.

Lemma alloc_read_bound size rest :
  match alloc_read size rest with
  | AOk _ _ a | AShort a => a <= N.max max_prealloc (nlen rest)
  | _ => True
  end.
Proof.
  unfold alloc_read. destruct (Z.ltb size 0); [exact I|].
  destruct (read_full (Z.to_N size) rest) as [[b r]|]; apply alloc_of_bound.
Qed.

(* a successful read never hands out more bytes than the input holds *)
Lemma alloc_read_ok_len size rest buf r a :
  alloc_read size rest = AOk buf r a -> rest = buf ++ r.
Proof.
  unfold alloc_read. destruct (Z.ltb size 0); [discriminate|].
  destruct (read_full (Z.to_N size) rest) as [[b r']|] eqn:E; [|discriminate].
  intros H. inversion H; subst. apply read_full_some in E. apply E.
Qed.

(* ---------- uripost ---------- *)
Section Uripost.
  Variable url_parse : bytes -> option (bytes * bytes).

  Ltac break_match :=
    repeat match goal with
           | |- context [match ?x with _ => _ end] => destruct x eqn:?
           | |- context [if ?x then _ else _] => destruct x eqn:?
           end.

  Lemma read_block_cases rest h :
    match read_block url_parse rest h with
    | BPanic => False
    | BSkip r _ => (length r < length rest)%nat
    | BFound _ r _ a => (length r < length rest)%nat /\ alloc_ok (Some a)
    | BErr _ a => alloc_ok a
    | BEof => True
    end.
  Proof.
    unfold read_block.
    destruct (read_string rest) as [[data rest1] ok] eqn:Ers.
    destruct (read_string_split _ _ _ _ Ers) as [Hsplit Hok].
    assert (Hlen : (negb ok && is_nil data)%bool = false -> (length rest1 < length rest)%nat).
    { intros Hc. subst rest. rewrite app_length.
      destruct ok.
      - specialize (Hok eq_refl). destruct data; [contradiction|cbn; lia].
      - cbn in Hc. destruct data; [discriminate|cbn; lia]. }
    destruct (negb ok && is_nil data)%bool eqn:Ec; [exact I|].
    specialize (Hlen eq_refl).
    destruct (trim data) as [|c d'] eqn:Et; [exact Hlen|].
    destruct (N.eqb c LBR).
    - destruct (decode_header (c :: d')) as [[k v]|e]; [exact Hlen|exact I].
    - destruct (decode_uri (c :: d')) as [[[size uri] tag]|e]; [|exact I].
      destruct (negb (url_ok url_parse uri)); [exact I|].
      pose proof (alloc_read_bound size rest1) as Hb.
      destruct (alloc_read size rest1) as [buf r a|a|e|] eqn:Ea.
      + pose proof (alloc_read_ok_len _ _ _ _ _ Ea) as Hr.
        destruct (setup url_parse POST uri buf h tag); cbn [alloc_ok]; [|exact Hb].
        split; [|exact Hb]. subst rest1. rewrite app_length in Hlen. lia.
      + exact Hb.
      + exact I.
      + exfalso. exact (alloc_read_no_panic _ _ Ea).
  Qed.

  Lemma up_inner_safe fuel : forall rest h,
    (length rest < fuel)%nat ->
    match up_inner url_parse fuel rest h with
    | IPanic | IOutOfFuel => False
    | IFound _ _ _ a => alloc_ok (Some a)
    | IErr _ a => alloc_ok a
    | IEof => True
    end.
  Proof.
    induction fuel as [|f IH]; intros rest h Hf; [lia|].
    cbn [up_inner]. pose proof (read_block_cases rest h) as Hc.
    destruct (read_block url_parse rest h) as [r h'|e r h' a| |e a|]; try exact Hc.
    - apply IH. lia.
    - apply Hc.
  Qed.

  Lemma up_outer_safe i c s :
    let '(r, _, a) := up_outer url_parse i c s in bad r = false /\ alloc_ok a.
  Proof.
    revert s; induction i as [|i IH]; intros s; [cbn; auto|].
    cbn [up_outer].
    pose proof (up_inner_safe (S (length (p_rest s))) (p_rest s) (p_hdr s) (Nat.lt_succ_diag_r _)) as Hs.
    destruct (up_inner url_parse (S (length (p_rest s))) (p_rest s) (p_hdr s)) as [e r h a| |e a| |];
      try contradiction; try (cbn; auto; fail).
    destruct (passes_hit c (N.succ (p_pass s))); [cbn; auto|].
    destruct (N.eqb (p_ammo s) 0); [cbn; auto|]. apply IH.
  Qed.

  Lemma up_scan_safe c s :
    let '(r, _, a) := up_scan url_parse c s in bad r = false /\ alloc_ok a.
  Proof.
    unfold up_scan. destruct (limit_hit c (p_ammo s)); [cbn; auto|]. apply up_outer_safe.
  Qed.

  Theorem up_run_safe k : forall c s,
    Forall (fun ra => bad (fst ra) = false /\ alloc_ok (snd ra)) (up_run url_parse k c s).
  Proof.
    induction k as [|k IH]; intros c s; [constructor|].
    cbn [up_run]. pose proof (up_scan_safe c s) as H.
    destruct (up_scan url_parse c s) as [[r s'] a]. destruct H as [H1 H2].
    destruct r; try (constructor; [split; assumption|constructor]).
    constructor; [split; assumption|apply IH].
  Qed.
End Uripost.

(* ---------- raw ---------- *)
Lemma raw_block_cases rest :
  match raw_block rest with
  | RPanic => False
  | RSkip r => (length r < length rest)%nat
  | RFound _ r a => (length r < length rest)%nat /\ alloc_ok a
  | RErr _ a => alloc_ok a
  | REof => True
  end.
Proof.
  unfold raw_block.
  destruct (read_string rest) as [[data rest1] ok] eqn:Ers.
  destruct (read_string_split _ _ _ _ Ers) as [Hsplit Hok].
  assert (Hlen' : (negb ok && is_nil data)%bool = false -> (length rest1 < length rest)%nat).
  { intros Hc. subst rest. rewrite app_length.
    destruct ok.
    - specialize (Hok eq_refl). destruct data; [contradiction|cbn; lia].
    - cbn in Hc. destruct data; [discriminate|cbn; lia]. }
  destruct (negb ok && is_nil data)%bool eqn:Ec; [exact I|].
  pose proof (Hlen' eq_refl) as Hlen.
  destruct (trim data) as [|c d'] eqn:Et; [exact Hlen|].
  destruct (raw_decode_header (c :: d')) as [[size tag]|]; [|exact I].
  destruct (Z.eqb size 0); [split; [exact Hlen|exact I]|].
  pose proof (alloc_read_bound size rest1) as Hb.
  destruct (alloc_read size rest1) as [buf r a|a|e|] eqn:Ea.
  - pose proof (alloc_read_ok_len _ _ _ _ _ Ea) as Hr.
    split; [|exact Hb]. subst rest1. rewrite app_length in Hlen. lia.
  - exact Hb.
  - exact I.
  - exfalso. exact (alloc_read_no_panic _ _ Ea).
Qed.

Lemma raw_inner_safe fuel : forall rest,
  (length rest < fuel)%nat ->
  match raw_inner fuel rest with
  | RIPanic | RIOutOfFuel => False
  | RIFound _ _ a => alloc_ok a
  | RIErr _ a => alloc_ok a
  | RIEof => True
  end.
Proof.
  induction fuel as [|f IH]; intros rest Hf; [lia|].
  cbn [raw_inner]. pose proof (raw_block_cases rest) as Hc.
  destruct (raw_block rest) as [r|e r a| |e a|]; try exact Hc.
  - apply IH. lia.
  - apply Hc.
Qed.

(* the first Scan ever is the one that decides whether the file holds an entry: once ammoNum
   is positive, a pass from the start of the file never runs into io.EOF again *)
Definition raw_inv (s : rstate) : Prop :=
  (r_ammo s = 0 -> r_rest s = r_file s) /\
  (r_ammo s <> 0 -> raw_inner (S (length (r_file s))) (r_file s) <> RIEof).

Lemma raw_scan_safe c s :
  raw_inv s ->
  let '(r, s', a) := raw_scan c s in
  bad r = false /\ alloc_ok a /\ (is_deliver r = true -> raw_inv s' /\ r_file s' = r_file s).
Proof.
  intros [J1 J2]. unfold raw_scan.
  destruct (limit_hit c (r_ammo s)); [cbn; split; [reflexivity|split; [exact I|discriminate]]|].
  cbn [raw_outer].
  pose proof (raw_inner_safe (S (length (r_rest s))) (r_rest s) (Nat.lt_succ_diag_r _)) as Hs.
  destruct (raw_inner (S (length (r_rest s))) (r_rest s)) as [e r a| |e a| |] eqn:Ei; try contradiction.
  - split; [reflexivity|]. split; [exact Hs|]. intros _. split; [|reflexivity].
    split; cbn [r_ammo r_rest r_file]; [intros Hz; lia|]. intros _.
    destruct (N.eqb_spec (r_ammo s) 0) as [Hz|Hnz].
    + rewrite <- (J1 Hz). rewrite Ei. discriminate.
    + apply J2. exact Hnz.
  - destruct (passes_hit c (N.succ (r_pass s))); [cbn; split; [reflexivity|split; [exact I|discriminate]]|].
    destruct (N.eqb_spec (r_ammo s) 0) as [Hz|Hnz]; [cbn; split; [reflexivity|split; [exact I|discriminate]]|].
    cbn [r_rest r_file r_ammo r_pass].
    pose proof (raw_inner_safe (S (length (r_file s))) (r_file s) (Nat.lt_succ_diag_r _)) as Hs2.
    specialize (J2 Hnz).
    destruct (raw_inner (S (length (r_file s))) (r_file s)) as [e r a| |e a| |] eqn:Ei2; try contradiction.
    + split; [reflexivity|]. split; [exact Hs2|]. intros _. split; [|reflexivity].
      split; cbn [r_ammo r_rest r_file]; [intros Hz; lia|]. intros _. rewrite Ei2. discriminate.
    + split; [reflexivity|]. split; [exact Hs2|]. discriminate.
  - split; [reflexivity|]. split; [exact Hs|]. discriminate.
Qed.

Lemma raw_run_safe k : forall c s,
  raw_inv s ->
  Forall (fun ra => bad (fst ra) = false /\ alloc_ok (snd ra)) (raw_run k c s).
Proof.
  induction k as [|k IH]; intros c s J; [constructor|].
  cbn [raw_run]. pose proof (raw_scan_safe c s J) as H.
  destruct (raw_scan c s) as [[r s'] a]. destruct H as [H1 [H2 H3]].
  destruct r; try (constructor; [split; assumption|constructor]).
  constructor; [split; assumption|]. apply IH. apply H3. reflexivity.
Qed.

Theorem raw_decode_safe k c file :
  Forall (fun ra => bad (fst ra) = false /\ alloc_ok (snd ra)) (raw_run k c (raw_init file)).
Proof. apply raw_run_safe. split; [reflexivity|]. cbn. intros H. contradiction. Qed.

(* ---------- uri ---------- *)
Section Uri.
  Variable url_parse : bytes -> option (bytes * bytes).

  Definition is_found (p : pass_res) : bool := match p with PFound _ _ _ => true | _ => false end.

  Definition uri_inv (s : ustate) : Prop :=
    (u_ammo s = 0 -> u_lines s = u_all s /\ u_hdr s = []) /\
    (u_ammo s <> 0 -> is_found (uri_pass url_parse (u_all s) []) = true).

  Lemma uri_scan_safe c s :
    uri_inv s ->
    let '(r, s') := uri_scan url_parse c s in
    bad r = false /\ (is_deliver r = true -> uri_inv s' /\ u_all s' = u_all s).
  Proof.
    intros [J1 J2]. unfold uri_scan.
    destruct (limit_hit c (u_ammo s)); [cbn; split; [reflexivity|discriminate]|].
    cbn [uri_loop].
    destruct (uri_pass url_parse (u_lines s) (u_hdr s)) as [e rest h| e|] eqn:Ep.
    - split; [reflexivity|]. intros _. split; [|reflexivity].
      split; cbn [u_ammo u_lines u_all u_hdr]; [intros Hz; lia|]. intros _.
      destruct (N.eqb_spec (u_ammo s) 0) as [Hz|Hnz].
      + destruct (J1 Hz) as [E1 E2]. rewrite <- E1, <- E2, Ep. reflexivity.
      + apply J2. exact Hnz.
    - split; [reflexivity|discriminate].
    - destruct (u_end s); [|split; [reflexivity|discriminate]].
      destruct (passes_hit c (N.succ (u_pass s))); [split; [reflexivity|discriminate]|].
      destruct (N.eqb_spec (u_ammo s) 0) as [Hz|Hnz]; [split; [reflexivity|discriminate]|].
      cbn [u_lines u_hdr u_all].
      specialize (J2 Hnz).
      destruct (uri_pass url_parse (u_all s) []) as [e rest h|e|] eqn:Ep2; [|discriminate|discriminate].
      split; [reflexivity|]. intros _. split; [|reflexivity].
      split; cbn [u_ammo u_lines u_all u_hdr]; [intros Hz; lia|]. intros _. rewrite Ep2. reflexivity.
  Qed.

  Lemma uri_run_safe k : forall c s,
    uri_inv s -> Forall (fun r => bad r = false) (uri_run url_parse k c s).
  Proof.
    induction k as [|k IH]; intros c s J; [constructor|].
    cbn [uri_run]. pose proof (uri_scan_safe c s J) as H.
    destruct (uri_scan url_parse c s) as [r s']. destruct H as [H1 H2].
    destruct r; try (constructor; [assumption|constructor]).
    constructor; [assumption|]. apply IH. apply H2. reflexivity.
  Qed.

  Theorem uri_decode_safe maxtok c k file :
    Forall (fun r => bad r = false) (uri_decode url_parse maxtok c k file).
  Proof.
    unfold uri_decode, uri_init. destruct (scan_lines maxtok file) as [ls e].
    apply uri_run_safe. split; cbn; [auto|]. intros H. contradiction.
  Qed.
End Uri.

(* ---------- http/json (entity level) ---------- *)
Section Json.
  Variable url_parse : bytes -> option (bytes * bytes).

  Definition json_inv (s : jstate) : Prop :=
    (js_ammo s = 0 -> js_left s = js_all s) /\ (js_ammo s <> 0 -> js_all s <> []).

  Lemma json_scan_safe c s :
    json_inv s ->
    let '(r, s') := json_scan url_parse c s in
    bad r = false /\ (is_deliver r = true -> json_inv s').
  Proof.
    intros [J1 J2]. unfold json_scan.
    destruct (limit_hit c (js_ammo s)); [split; [reflexivity|discriminate]|].
    cbn [json_loop].
    destruct (passes_hit c (js_pass s)); [split; [reflexivity|discriminate]|].
    destruct (js_left s) as [|d r] eqn:El.
    - destruct (js_end s); [|split; [reflexivity|discriminate]].
      destruct (N.eqb_spec (js_ammo s) 0) as [Hz|Hnz]; [split; [reflexivity|discriminate]|].
      cbn [js_pass js_left js_all js_end js_ammo].
      destruct (passes_hit c (N.succ (js_pass s))); [split; [reflexivity|discriminate]|].
      specialize (J2 Hnz). destruct (js_all s) as [|d r] eqn:Ea; [contradiction|].
      destruct (entity_entry url_parse d); (split; [reflexivity|]); [|discriminate].
      intros _. split; cbn [js_ammo js_left js_all]; [intros Hz; lia|]. intros _. discriminate.
    - destruct (entity_entry url_parse d); (split; [reflexivity|]); [|discriminate].
      intros _. split; cbn [js_ammo js_left js_all]; [intros Hz; lia|]. intros _.
      destruct (N.eqb_spec (js_ammo s) 0) as [Hz|Hnz].
      + rewrite <- (J1 Hz). discriminate.
      + apply J2. exact Hnz.
  Qed.

  Lemma json_run_safe k : forall c s,
    json_inv s -> Forall (fun r => bad r = false) (json_run url_parse k c s).
  Proof.
    induction k as [|k IH]; intros c s J; [constructor|].
    cbn [json_run]. pose proof (json_scan_safe c s J) as H.
    destruct (json_scan url_parse c s) as [r s']. destruct H as [H1 H2].
    destruct r; try (constructor; [assumption|constructor]).
    constructor; [assumption|]. apply IH. apply H2. reflexivity.
  Qed.

  Theorem json_stream_safe c k ents e :
    Forall (fun r => bad r = false) (json_stream_decode url_parse c k ents e).
  Proof.
    unfold json_stream_decode, json_init. apply json_run_safe.
    split; cbn; [auto|]. intros H. contradiction.
  Qed.

  Lemma array_run_safe k : forall c es a p,
    Forall (fun r => bad r = false) (array_run k c es a p).
  Proof.
    induction k as [|k IH]; intros c es a p; [constructor|].
    cbn [array_run]. destruct (limit_hit c a); [repeat constructor|].
    unfold scan_ammos. destruct es as [|e0 es']; [repeat constructor|].
    destruct (passes_hit c p); [repeat constructor|].
    constructor; [reflexivity|apply IH].
  Qed.
End Json.
