(* Link L1 (C01 -> C02): the token tables of the real const / line / once / step profiles
   (Model/Sched.v, proved correct by property C01) satisfy the leaf hypotheses under which the
   schedule-tree model (Model/SchedTree.v, property C02) is ordered, and the sequential composite
   semantics C01 uses for `step` ([comp_tokens]) is the abstract token stream of the C02 tree.

   The two models represent a DoAt leaf differently:
     C01  Sched.leaf      { l_n : Z; l_dur : Z; l_at : Z -> option Z }   (None = NaN instant)
     C02  SchedTree.DoAt  (n : nat) (dur : Z) (at_ : nat -> Z) ...
   [leaf_cfg] / [leaf_sched] translate the former into the latter; where the C01 table has no
   instant the translation puts 0, and [good_leaf] (proved for every valid profile from the C01
   theorems) says that this never happens for an index below the count. *)
From Coq Require Import ZArith QArith Qround Lia List Bool Arith.
From PV Require Import Model.Sched Model.SchedTree Proofs.SchedArith Proofs.SchedQ Proofs.SchedProofs Proofs.SchedStep
  Proofs.SchedTreeProofs Proofs.SchedTreeSeq Proofs.SchedTreeRun Proofs.SchedTreeSpec.
Import ListNotations.
Local Open Scope Z_scope.

(* ---------------------------------------------------------------- translation *)
Definition at_nat (l : leaf) (k : nat) : Z :=
  match l_at l (Z.of_nat k) with Some x => x | None => 0 end.
Definition leaf_cfg (l : leaf) : cfg := CDoAt (Z.to_nat (l_n l)) (l_dur l) (at_nat l).
Definition leaf_sched (l : leaf) : sched := DoAt (Z.to_nat (l_n l)) (l_dur l) (at_nat l) 0 None.

(* the configuration the constructors are given for a profile: const / line / once are one
   DoAt schedule, step is NewComposite of its const levels (NewComposite of one part is the part) *)
Definition profile_cfg (p : profile) : option cfg :=
  option_map (fun ls => CComp (map leaf_cfg ls)) (leaves p).

(* what C02 needs of a C01 leaf *)
Definition good_leaf (l : leaf) : Prop :=
  0 <= l_n l /\ 0 <= l_dur l /\
  (forall k, 0 <= k < l_n l -> exists x, l_at l k = Some x /\ 0 <= x <= l_dur l) /\
  (forall j k x y, 0 <= j -> j <= k -> k < l_n l -> l_at l j = Some x -> l_at l k = Some y -> x <= y).

Lemma good_leaf_ok l : good_leaf l -> leaf_ok (leaf_sched l) /\ unstarted (leaf_sched l).
Proof.
  intros (Hn & Hd & Hr & Hm). split; [|reflexivity].
  cbn [leaf_sched leaf_ok]. split; [exact Hd|]. split.
  - intros k Hk. destruct (Hr (Z.of_nat k)) as (x & Hx & Hb); [lia|].
    unfold at_nat. rewrite Hx. exact Hb.
  - intros j k Hjk Hk.
    destruct (Hr (Z.of_nat j)) as (x & Hx & _); [lia|].
    destruct (Hr (Z.of_nat k)) as (y & Hy & _); [lia|].
    unfold at_nat. rewrite Hx, Hy. apply (Hm (Z.of_nat j) (Z.of_nat k)); try assumption; lia.
Qed.

(* ---------------------------------------------------------------- C01 discharges good_leaf *)
Lemma cum_at_0 p : (cum p 0 == 0)%Q.
Proof.
  destruct p as [ops D|f t D|f t st D|n]; unfold cum, cum_const, cum_line; try reflexivity;
    change (qz (0 * 0)) with 0%Q; change (qz 0) with 0%Q; unfold Qdiv; ring.
Qed.

Lemma count_nonneg p : valid p -> is_rate p = true -> 0 <= count p.
Proof.
  intros Hv Hr. rewrite (count_spec p Hv Hr). apply Zle_Qfloor.
  change (qz 0) with 0%Q. rewrite <- (cum_at_0 p).
  assert (HD : 0 <= dur p).
  { rewrite (dur_rate p Hr). destruct p; cbn [is_rate] in Hr; try discriminate; cbn [valid] in Hv; unfold min_dur in Hv; lia. }
  apply cum_mono; try assumption; lia.
Qed.

Lemma rate_good p : valid p -> is_rate p = true -> good_leaf (the_leaf p).
Proof.
  intros Hv Hr. split; [exact (count_nonneg p Hv Hr)|]. split.
  - change (0 <= dur p). rewrite (dur_rate p Hr).
    destruct p; cbn [is_rate] in Hr; try discriminate; cbn [valid] in Hv; unfold min_dur in Hv; lia.
  - split.
    + intros k Hk. exact (at_range p k Hv Hr Hk).
    + intros j k x y Hj Hjk Hk Hx Hy. exact (at_mono p j k x y Hv Hr Hj Hjk Hk Hx Hy).
Qed.

Lemma once_good n : 0 <= n -> good_leaf (leaf_once n).
Proof.
  intros Hn. split; [exact Hn|]. split; [cbn; lia|]. split.
  - intros k _. exists 0. split; [reflexivity|cbn; lia].
  - intros j k x y _ _ _ Hx Hy. cbn in Hx, Hy. inversion Hx; inversion Hy; lia.
Qed.

Lemma const_good r D : (0 <= r)%Q -> min_dur <= D -> good_leaf (leaf_const r D).
Proof. intros Hr HD. apply (rate_good (PConst r D)); [split; assumption|reflexivity]. Qed.

Lemma step_levels_nonneg f t st lv : (0 <= f)%Q -> 1 <= st -> step_levels f t st = Some lv ->
  Forall (fun r => (0 <= r)%Q) lv.
Proof.
  intros Hf Hst E. destruct (step_levels_spec f t st Hst) as (lv' & E' & F2).
  rewrite E in E'. inversion E'; subst lv'.
  eapply Forall2_Qeq_nonneg; [exact F2|]. apply spec_levels_nonneg; assumption.
Qed.

(* every valid profile has its leaves, and every one of them is a good leaf *)
Lemma leaves_good p : valid p -> exists ls, leaves p = Some ls /\ Forall good_leaf ls.
Proof.
  destruct p as [ops D|f t D|f t st D|n]; intros Hv.
  - exists [leaf_const ops D]. split; [reflexivity|]. constructor; [|constructor].
    apply (rate_good (PConst ops D) Hv eq_refl).
  - exists [leaf_line f t D]. split; [reflexivity|]. constructor; [|constructor].
    apply (rate_good (PLine f t D) Hv eq_refl).
  - destruct Hv as (Hf & Ht & Hst & HD).
    destruct (step_levels_spec f t st Hst) as (lv & E & _).
    exists (map (fun r => leaf_const r D) lv). split; [cbn [leaves]; rewrite E; reflexivity|].
    pose proof (step_levels_nonneg f t st lv Hf Hst E) as Hnn.
    apply Forall_forall. intros l Hin. apply in_map_iff in Hin. destruct Hin as (r & <- & Hin).
    rewrite Forall_forall in Hnn. apply const_good; [apply Hnn; exact Hin|exact HD].
  - exists [leaf_once n]. split; [reflexivity|]. constructor; [|constructor].
    apply once_good. cbn [valid] in Hv. lia.
Qed.

(* ---------------------------------------------------------------- the stream *)
(* C01's sequential composite ([comp_tokens], [comp_finish], [comp_left]) is C02's abstract
   token stream of the translated leaves, started at any instant s0 *)
Lemma comp_items ls : Forall good_leaf ls -> forall s0 s, exists xs,
  comp_tokens ls s = map Some xs /\
  items_from (s0 + s) (map leaf_sched ls) = (map (fun x => IT (s0 + x)) xs, s0 + comp_finish ls s) /\
  Z.of_nat (length xs) = comp_left ls.
Proof.
  induction 1 as [|l r Hl Hr IH]; intros s0 s.
  - exists []. repeat split.
  - destruct (IH s0 (s + l_dur l)) as (xs' & E1 & E2 & E3).
    destruct Hl as (Hn & Hd & Hrange & _).
    exists (map (fun k => s + at_nat l k) (seq 0 (Z.to_nat (l_n l))) ++ xs'). split; [|split].
    + cbn [comp_tokens]. rewrite map_app, E1. f_equal.
      unfold leaf_tokens. rewrite !map_map. apply map_ext_in. intros k Hk. apply in_seq in Hk.
      destruct (Hrange (Z.of_nat k)) as (x & Hx & _); [lia|].
      unfold at_nat. rewrite Hx. reflexivity.
    + cbn [map]. unfold leaf_sched at 1. rewrite items_chain_doat.
      replace (s0 + s + l_dur l) with (s0 + (s + l_dur l)) by lia. rewrite E2. cbn [fst snd comp_finish].
      rewrite map_app, map_map. f_equal. f_equal. apply map_ext. intros k. f_equal. lia.
    + rewrite app_length, map_length, seq_length, Nat2Z.inj_add, E3. cbn [comp_left].
      unfold leaf_left. rewrite Z2Nat.id by exact Hn. lia.
Qed.

Lemma flatten_leaf_cfgs ls : flat_map flatten_cfg (map leaf_cfg ls) = map leaf_sched ls.
Proof. induction ls as [|l r IH]; [reflexivity|]. cbn [map flat_map flatten_cfg leaf_cfg app]. rewrite IH. reflexivity. Qed.

Lemma flatten_profile ls : ls <> [] -> flatten_cfg (CComp (map leaf_cfg ls)) = map leaf_sched ls.
Proof.
  destruct ls as [|l r]; [congruence|]. intros _.
  change (flatten_cfg (CComp (map leaf_cfg (l :: r)))) with (flat_map flatten_cfg (map leaf_cfg (l :: r))).
  apply flatten_leaf_cfgs.
Qed.

Lemma leaf_scheds_ok ls : Forall good_leaf ls ->
  Forall leaf_ok (map leaf_sched ls) /\ Forall unstarted (map leaf_sched ls) /\
  existsb unknown_part (map leaf_sched ls) = false /\ Forall is_leaf (map leaf_sched ls) /\
  Forall fresh (map leaf_sched ls).
Proof.
  induction 1 as [|l r Hl Hr (A & B & C & D & E)]; [repeat split; constructor|].
  destruct (good_leaf_ok l Hl) as [Ok Un].
  cbn [map]. split; [constructor; assumption|]. split; [constructor; assumption|].
  split; [exact C|]. split; constructor; try assumption; try exact I. constructor.
Qed.

(* The profile as a C02 configuration: its flattened leaves are well behaved, there is no
   unknown-length part, and its abstract stream from any start instant s is exactly the drained
   tokens of C01 shifted by s, finishing at s + the C01 finish offset; the static count is
   C01's Left(). *)
Theorem profile_stream p : valid p ->
  exists c d xs, profile_cfg p = Some c /\ drain p = Some d /\
    d_tokens d = map Some xs /\ Z.of_nat (length xs) = d_left d /\
    Forall leaf_ok (flatten_cfg c) /\ Forall unstarted (flatten_cfg c) /\
    existsb unknown_part (flatten_cfg c) = false /\
    forall s, items_from s (flatten_cfg c) = (map (fun x => IT (s + x)) xs, s + d_finish d).
Proof.
  intros Hv. destruct (leaves_good p Hv) as (ls & El & Hg).
  unfold profile_cfg, drain. rewrite El. cbn [option_map].
  destruct ls as [|l r].
  - (* a step profile without levels: NewComposite() = NewOnce(0) *)
    eexists. eexists. exists []. split; [reflexivity|]. split; [reflexivity|].
    cbn [d_tokens d_left d_finish comp_tokens comp_left comp_finish map length].
    split; [reflexivity|]. split; [reflexivity|].
    cbn [flatten_cfg]. split.
    { constructor; [|constructor]. cbn. split; [lia|]. split; intros; lia. }
    split; [constructor; [reflexivity|constructor]|].
    split; [reflexivity|]. intros s. reflexivity.
  - destruct (leaf_scheds_ok (l :: r) Hg) as (A & B & C & _).
    destruct (comp_items (l :: r) Hg 0 0) as (xs & E1 & _ & E3).
    eexists. eexists. exists xs. split; [reflexivity|]. split; [reflexivity|].
    cbn [d_tokens d_left d_finish]. split; [exact E1|]. split; [exact E3|].
    rewrite flatten_profile by discriminate. split; [exact A|]. split; [exact B|]. split; [exact C|].
    intros s. destruct (comp_items (l :: r) Hg s 0) as (xs' & E1' & E2' & _).
    rewrite E1 in E1'. assert (xs' = xs) as ->.
    { clear -E1'. revert xs' E1'. induction xs as [|x q IH]; intros [|y q'] E; try discriminate; [reflexivity|].
      cbn in E. inversion E; subst. f_equal. apply IH. assumption. }
    rewrite Z.add_0_r in E2'. exact E2'.
Qed.

(* what the drained stream of a const / line profile is, in terms of the C01 formulas *)
Lemma rate_drain p : valid p -> is_rate p = true ->
  drain p = Some {| d_left := count p;
                    d_tokens := map (fun k => at_ p (Z.of_nat k)) (seq 0 (Z.to_nat (count p)));
                    d_finish := dur p |}.
Proof.
  intros Hv Hr. pose proof (count_nonneg p Hv Hr) as Hc.
  assert (E : leaves p = Some [the_leaf p]) by (destruct p; cbn [is_rate] in Hr; try discriminate; reflexivity).
  unfold drain. rewrite E. f_equal. cbn [comp_left comp_tokens comp_finish]. f_equal.
  - unfold leaf_left. fold (count p). lia.
  - rewrite app_nil_r. unfold leaf_tokens. rewrite map_map. fold (count p). apply map_ext. intros k.
    unfold at_. destruct (l_at (the_leaf p) (Z.of_nat k)); reflexivity.
Qed.

(* ---------------------------------------------------------------- runs of the real tree *)
Definition next_ops (nows : list Z) : list (Z * op) := map (fun n => (n, ONext)) nows.
Definition next_obs (l : list (Z * bool)) : list obs := map (fun x => RNext (fst x) (snd x)) l.

Lemma run_abs_nexts_started fl : forall nows its f,
  run_abs {| a_started := true; a_items := its; a_fin := f; a_flat := fl |} (next_ops nows) =
  next_obs (nexts nows f its).
Proof.
  induction nows as [|now r IH]; intros its f; [reflexivity|].
  cbn [next_ops map run_abs a_started a_fin a_items a_flat nexts].
  destruct (abs_next now f its) as [[its' t] ok]. cbn [next_obs map fst snd]. f_equal. apply IH.
Qed.

(* Start(t0) followed by any number of Next calls (any non-decreasing clock) on the tree the
   real constructors build for a valid profile: exactly the C01 tokens, each once, in order,
   shifted by t0, then the finish instant for ever. *)
Theorem profile_run p : valid p ->
  exists c d xs, profile_cfg p = Some c /\ drain p = Some d /\ d_tokens d = map Some xs /\
    forall fuel now0, (size_cfg c <= fuel)%nat ->
    exists s, build fuel now0 c = Ok s /\
      forall lo t0 nows, clock_ok lo ((lo, OStart t0) :: next_ops nows) ->
        run_tree fuel s ((lo, OStart t0) :: next_ops nows) =
        RStart :: next_obs (firstn (length nows) (map (fun x => (t0 + x, true)) xs) ++
                            repeat (t0 + d_finish d, false) (length nows - length xs)).
Proof.
  intros Hv. destruct (profile_stream p Hv) as (c & d & xs & Ec & Ed & Et & _ & _ & _ & Hw & Hs).
  exists c, d, xs. split; [exact Ec|]. split; [exact Ed|]. split; [exact Et|].
  intros fuel now0 Hsz. destruct (seq_refines c fuel now0 Hsz) as (s & Eb & Href).
  exists s. split; [exact Eb|]. intros lo t0 nows Hck.
  rewrite (Href lo _ Hck). cbn [run_abs a_init a_started]. f_equal.
  unfold a_start. cbn [a_flat]. rewrite Hs.
  rewrite run_abs_nexts_started. f_equal.
  rewrite nexts_tokens.
  - rewrite map_map, map_length. cbn [tok_time]. reflexivity.
  - clear. induction xs; cbn; auto.
Qed.

(* ---------------------------------------------------------------- the built composite *)
Lemma build_leaf_cfgs fuel now ls :
  (fix go (l : list cfg) : res (list sched) :=
     match l with
     | [] => Ok []
     | x :: r => do x' <- build fuel now x ;; do r' <- go r ;; Ok (x' :: r')
     end) (map leaf_cfg ls) = Ok (map leaf_sched ls).
Proof. induction ls as [|l r IH]; [reflexivity|]. cbn [map leaf_cfg build bind]. rewrite IH. reflexivity. Qed.

(* a profile with at least two leaves (a step profile with two or more levels) is built into a
   fresh composite whose children are exactly the translated leaves *)
Lemma build_profile_comp fuel now ls : (2 <= length ls)%nat -> (1 <= fuel)%nat ->
  build fuel now (CComp (map leaf_cfg ls)) =
  Ok (Comp (map leaf_sched ls) (la_of (map leaf_sched ls)) false).
Proof.
  intros Hlen Hfuel. cbn [build]. rewrite build_leaf_cfgs. cbn [bind].
  destruct ls as [|l1 [|l2 r]]; cbn [length] in Hlen; try lia.
  unfold new_composite. cbn [map].
  change (leaf_sched l1 :: leaf_sched l2 :: map leaf_sched r) with (map leaf_sched (l1 :: l2 :: r)).
  rewrite nc_loop_fresh.
  - reflexivity.
  - apply Forall_forall. intros x Hx. apply in_map_iff in Hx. destruct Hx as (l & <- & _). constructor.
  - apply Forall_forall. intros x Hx. apply in_map_iff in Hx. destruct Hx as (l & <- & _). cbn. exact Hfuel.
Qed.

(* ---------------------------------------------------------------- statements for Properties/Links.v *)
(* const / line / once: the single DoAt leaf, in C02's representation, with C01's count, duration
   and instants, satisfies C02's leaf hypotheses *)
Theorem the_leaf_link p : valid p -> (is_rate p = true \/ exists n, p = POnce n) ->
  let l := the_leaf p in
  leaf_ok (leaf_sched l) /\ unstarted (leaf_sched l) /\
  leaf_sched l = DoAt (Z.to_nat (count p)) (dur p) (at_nat l) 0 None /\
  Z.of_nat (Z.to_nat (count p)) = count p /\
  (forall k, (k < Z.to_nat (count p))%nat -> at_ p (Z.of_nat k) = Some (at_nat l k)).
Proof.
  intros Hv Hk l.
  assert (Hg : good_leaf l).
  { destruct Hk as [Hr|[n ->]]; [apply rate_good; assumption|].
    apply once_good. cbn [valid] in Hv. lia. }
  destruct (good_leaf_ok l Hg) as [A B]. destruct Hg as (Hn & _ & Hr & _).
  split; [exact A|]. split; [exact B|]. split; [reflexivity|].
  split; [apply Z2Nat.id; exact Hn|].
  intros k Hlt. destruct (Hr (Z.of_nat k)) as (x & Hx & _); [unfold count in Hlt; fold l in Hlt; lia|].
  unfold at_, at_nat. fold l. rewrite Hx. reflexivity.
Qed.

(* step: the C02 composite of the const levels is the level-by-level stream of C01_step *)
Theorem step_stream f t st D : valid (PStep f t st D) ->
  let lv := spec_levels f t st in
  exists c xs, profile_cfg (PStep f t st D) = Some c /\
    map Some xs = flat_map (level_tokens D 0) (combine (seq 0 (length lv)) lv) /\
    Z.of_nat (length xs) = fold_right Z.add 0 (map (fun r => count (PConst r D)) lv) /\
    Forall leaf_ok (flatten_cfg c) /\ Forall unstarted (flatten_cfg c) /\
    forall s, items_from s (flatten_cfg c) = (map (fun x => IT (s + x)) xs, s + Z.of_nat (length lv) * D).
Proof.
  intros Hv lv.
  destruct (profile_stream _ Hv) as (c & d & xs & Ec & Ed & Et & El & Hok & Hun & _ & Hs).
  destruct (step_drain f t st D Hv) as (d' & Ed' & T1 & T2 & T3 & _). rewrite Ed in Ed'. inversion Ed'; subst d'.
  exists c, xs. split; [exact Ec|]. split; [rewrite <- Et; exact T1|]. split; [rewrite El; exact T3|].
  split; [exact Hok|]. split; [exact Hun|]. intros s. rewrite (Hs s), T2. reflexivity.
Qed.

(* a load profile as configured in pandora: a list of profiles run one after another (the nested
   composite NewComposite(schedule(p1), schedule(p2), ...), a step profile being itself a
   composite).  All its leaves are well-behaved C01 leaves, nothing is of unknown length, hence
   (C02_stream_ordered, C02_mono_finite) the stream is ordered and successive Next calls never
   return decreasing times, whatever the clock. *)
Theorem profiles_composite ps cs : Forall valid ps -> Forall2 (fun p c => profile_cfg p = Some c) ps cs ->
  let fl := flatten_cfg (CComp cs) in
  Forall leaf_ok fl /\ Forall unstarted fl /\ existsb unknown_part fl = false /\
  forall s m nows, ordered s m (fst (items_from s fl)) (snd (items_from s fl)) /\
                   nondecr s (nexts nows (snd (items_from s fl)) (fst (items_from s fl))).
Proof.
  intros Hv H2 fl.
  assert (A : Forall leaf_ok fl /\ Forall unstarted fl /\ existsb unknown_part fl = false).
  { subst fl. destruct H2 as [|p c ps' cs' Hc H2'].
    - cbn [flatten_cfg]. split; [constructor; [|constructor]; cbn; split; [lia|split; intros; lia]|].
      split; [constructor; [reflexivity|constructor]|reflexivity].
    - change (flatten_cfg (CComp (c :: cs'))) with (flat_map flatten_cfg (c :: cs')).
      assert (G : forall ps cs, Forall valid ps -> Forall2 (fun p c => profile_cfg p = Some c) ps cs ->
                  Forall leaf_ok (flat_map flatten_cfg cs) /\ Forall unstarted (flat_map flatten_cfg cs) /\
                  existsb unknown_part (flat_map flatten_cfg cs) = false).
      { clear. intros ps cs Hv H2. induction H2 as [|p c ps cs Hc _ IH]; [repeat split; constructor|].
        inversion Hv as [|? ? Hp Hps]; subst. destruct (IH Hps) as (I1 & I2 & I3).
        destruct (profile_stream p Hp) as (c' & _ & _ & Ec & _ & _ & _ & O1 & O2 & O3 & _).
        rewrite Hc in Ec. inversion Ec; subst c'.
        cbn [flat_map]. split; [apply Forall_app; split; assumption|].
        split; [apply Forall_app; split; assumption|]. rewrite existsb_app, O3, I3. reflexivity. }
      apply (G (p :: ps') (c :: cs') Hv). constructor; assumption. }
  destruct A as (A1 & A2 & A3). split; [exact A1|]. split; [exact A2|]. split; [exact A3|].
  intros s m nows. pose proof (items_ordered fl s m A1 A2) as Ho. split; [exact Ho|].
  apply (nexts_nondecr_nowin nows _ _ s m); [|exact Ho].
  rewrite items_windows; [exact A3|].
  eapply Forall_impl; [|exact A1]. intros x Hx. destruct x; cbn in *; auto.
Qed.
