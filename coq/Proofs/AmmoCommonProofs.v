(* Lemmas shared by the decoder proofs: header lines decode to what was written. *)
From Coq Require Import List NArith ZArith Bool Lia.
From PV Require Import Lib.AmmoBytes Lib.AmmoLines Model.AmmoCommon
  Proofs.AmmoBytesProofs Proofs.AmmoLinesProofs.
Import ListNotations.
Local Open Scope N_scope.

Lemma lblank_asp b : lblank b = true -> forallb asp b = true.
Proof.
  unfold lblank. induction b as [|c b IH]; [reflexivity|]. cbn [forallb].
  intros H. apply andb_prop in H. destruct H as [H1 H2].
  apply andb_prop in H1. destruct H1 as [H1 _]. rewrite H1, IH by exact H2. reflexivity.
Qed.

Lemma lblank_nolf b : lblank b = true -> nolf b = true.
Proof.
  unfold lblank. induction b as [|c b IH]; [reflexivity|]. cbn [forallb].
  intros H. apply andb_prop in H. destruct H as [H1 H2].
  apply andb_prop in H1. destruct H1 as [_ H1]. rewrite nolf_cons, H1, IH by exact H2. reflexivity.
Qed.

Lemma asp_no c b : asp c = false -> forallb asp b = true -> has c b = false.
Proof.
  intros Hc. induction b as [|x b IH]; [reflexivity|]. cbn [forallb has].
  intros H. apply andb_prop in H. destruct H as [H1 H2].
  rewrite IH by exact H2. destruct (N.eqb_spec x c) as [->|]; [congruence|reflexivity].
Qed.

(* physical line -> trimmed text *)
Lemma trim_wrap_line l text :
  wf_lay l = true -> (text = [] \/ tight text = true) ->
  trim (drop_cr (wrap_line l text)) = text.
Proof.
  unfold wf_lay, wrap_line. intros H Ht. apply andb_prop in H. destruct H as [H1 H2].
  rewrite trim_drop_cr. apply trim_wrap_opt; [apply lblank_asp; exact H1| |exact Ht].
  rewrite forallb_app. rewrite (lblank_asp _ H2). destruct (l_cr l); reflexivity.
Qed.

Lemma trim_wrap_line_nocr l text :
  wf_lay l = true -> (text = [] \/ tight text = true) ->
  trim (wrap_line l text) = text.
Proof.
  unfold wf_lay, wrap_line. intros H Ht. apply andb_prop in H. destruct H as [H1 H2].
  apply trim_wrap_opt; [apply lblank_asp; exact H1| |exact Ht].
  rewrite forallb_app. rewrite (lblank_asp _ H2). destruct (l_cr l); reflexivity.
Qed.

Lemma nolf_wrap_line l text : wf_lay l = true -> nolf text = true -> nolf (wrap_line l text) = true.
Proof.
  unfold wf_lay, wrap_line. intros H Ht. apply andb_prop in H. destruct H as [H1 H2].
  rewrite !nolf_app, Ht, (lblank_nolf _ H1), (lblank_nolf _ H2). destruct (l_cr l); reflexivity.
Qed.

Lemma wf_val_cases v : wf_val v = true -> (v = [] \/ tight v = true) /\ nolf v = true.
Proof.
  unfold wf_val. intros H. apply andb_prop in H. destruct H as [H1 H2]. split; [|exact H2].
  apply orb_prop in H1. destruct H1 as [H1|H1]; [left; destruct v; [reflexivity|discriminate]|right; exact H1].
Qed.

Lemma decode_header_br inner :
  inner <> [] ->
  decode_header (LBR :: inner ++ [RBR]) =
    let '(k, v, found) := cut COLON inner in
    if found then (let k' := trim k in if is_nil k' then inr EEmptyKey else inl (k', trim v))
    else inr EHeaderFormat.
Proof.
  intros Hne. unfold decode_header.
  assert (Hlen : N.ltb (nlen (LBR :: inner ++ [RBR])) 3 = false).
  { apply N.ltb_ge. rewrite nlen_length. cbn [length]. rewrite app_length. cbn [length].
    destruct inner; [contradiction|cbn [length]; lia]. }
  rewrite Hlen. cbn [negb andb]. rewrite N.eqb_refl. cbn [andb].
  unfold last_byte. change (LBR :: inner ++ [RBR]) with ((LBR :: inner) ++ [RBR]).
  rewrite last_snoc, N.eqb_refl. rewrite removelast_snoc. reflexivity.
Qed.

Lemma decode_header_text kl k kt vl v vt :
  lblank kl = true -> lblank kt = true -> lblank vl = true -> lblank vt = true ->
  wf_key k = true -> wf_val v = true ->
  decode_header (header_text kl k kt vl v vt) = inl (k, v).
Proof.
  intros Hkl Hkt Hvl Hvt Hk Hv.
  unfold wf_key in Hk. apply andb_prop in Hk. destruct Hk as [Hk Hk3].
  apply andb_prop in Hk. destruct Hk as [Hk1 Hk2]. apply negb_true_iff in Hk2.
  destruct (wf_val_cases _ Hv) as [Hv1 _].
  pose proof (tight_nonempty _ Hk1) as Hkne.
  unfold header_text.
  set (kk := kl ++ k ++ kt). set (vv := vl ++ v ++ vt).
  change (kk ++ COLON :: vv ++ [RBR]) with (kk ++ (COLON :: vv) ++ [RBR]).
  rewrite app_assoc.
  rewrite decode_header_br.
  2:{ unfold kk. destruct kl; [|discriminate]. destruct k; [contradiction|discriminate]. }
  assert (Hno : has COLON kk = false).
  { unfold kk. rewrite !has_app, Hk2.
    rewrite (asp_no COLON kl), (asp_no COLON kt); auto using lblank_asp. }
  rewrite cut_app by exact Hno.
  unfold kk, vv.
  rewrite trim_wrap by auto using lblank_asp.
  rewrite trim_wrap_opt by auto using lblank_asp.
  destruct k; [contradiction|reflexivity].
Qed.

Lemma tight_bracket x : tight (LBR :: x ++ [RBR]) = true.
Proof.
  unfold tight. cbn [is_nil negb andb].
  assert (H1 : space_width (LBR :: x ++ [RBR]) = O).
  { destruct (x ++ [RBR]) as [|b [|c r]]; cbn; reflexivity. }
  rewrite H1. cbn [Nat.eqb andb].
  change (LBR :: x ++ [RBR]) with ((LBR :: x) ++ [RBR]). rewrite frev_rev, rev_app_distr.
  cbn [rev app]. generalize (rev x ++ [LBR]). intros r.
  destruct r as [|b [|c r]]; cbn [space_width_rev]; try reflexivity.
  - change (asp RBR) with false. cbn iota. unfold sp2. cbn. rewrite andb_false_r. reflexivity.
  - change (asp RBR) with false. cbn iota. unfold sp2, sp3. cbn. rewrite !andb_false_r. reflexivity.
Qed.


Lemma header_text_br kl k kt vl v vt :
  header_text kl k kt vl v vt = LBR :: ((kl ++ k ++ kt) ++ COLON :: (vl ++ v ++ vt)) ++ [RBR].
Proof.
  unfold header_text. f_equal.
  change ((kl ++ k ++ kt) ++ COLON :: (vl ++ v ++ vt) ++ [RBR])
    with ((kl ++ k ++ kt) ++ (COLON :: (vl ++ v ++ vt)) ++ [RBR]).
  rewrite app_assoc. reflexivity.
Qed.

Lemma tight_header_text kl k kt vl v vt : tight (header_text kl k kt vl v vt) = true.
Proof. rewrite header_text_br. apply tight_bracket. Qed.

(* ---------- make + ReadFull on exactly the bytes that were written ---------- *)
Lemma alloc_read_exact b rest :
  alloc_read (Z.of_N (nlen b)) (b ++ rest) = AOk b rest (alloc_of (nlen b) (nlen (b ++ rest))).
Proof.
  unfold alloc_read.
  assert (H1 : (Z.of_N (nlen b) <? 0)%Z = false) by (apply Z.ltb_ge; lia).
  rewrite H1. rewrite N2Z.id, read_full_exact. reflexivity.
Qed.

Lemma trim_wrap_line_lf l text :
  wf_lay l = true -> (text = [] \/ tight text = true) ->
  trim (wrap_line l text ++ [LF]) = text.
Proof.
  unfold wf_lay, wrap_line. intros H Ht. apply andb_prop in H. destruct H as [H1 H2].
  rewrite <- !app_assoc.
  apply trim_wrap_opt; [apply lblank_asp; exact H1| |exact Ht].
  rewrite !forallb_app. rewrite (lblank_asp _ H2). destruct (l_cr l); reflexivity.
Qed.
