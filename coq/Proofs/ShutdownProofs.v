(* Lemmas about the shutdown models (property C06, part c). *)
From Coq Require Import List Arith Bool Lia.
From PV Require Import Gen.PhoutGen Model.Shutdown.
Import ListNotations.

(* ---------------------------------------------------------------------------------- *)
(* 1. pool: runCancel() only after every started instance has sent its result *)

Record K (p : pool) : Prop := {
  k_count : finished p + length (running p) = launched p;
  k_await : awaited p <= finished p;
  k_nodup : NoDup (running p);
  k_range : Forall (fun i => i < launched p) (running p);
  k_started : forall n, started p = Some n -> n = launched p /\ start_sent p = true;
  k_canc : run_cancelled p = true -> exists n, started p = Some n /\ n <= awaited p;
  k_late : late p = 0
}.

Lemma K_init : K pool_init.
Proof. constructor; cbn; try reflexivity; try lia; try constructor; try discriminate. Qed.

Lemma K_running_empty p : K p -> run_cancelled p = true -> running p = [].
Proof.
  intros I H. destruct (k_canc p I H) as (n & Es & Hn). destruct (k_started p I n Es) as [-> _].
  pose proof (k_count p I). pose proof (k_await p I).
  destruct (running p); [reflexivity|]. cbn [length] in *. lia.
Qed.

Lemma mem_In i l : mem i l = true <-> In i l.
Proof.
  unfold mem. rewrite existsb_exists. split.
  - intros (x & Hx & E). apply Nat.eqb_eq in E. subst. exact Hx.
  - intros H. exists i. split; [exact H|apply Nat.eqb_refl].
Qed.

Lemma remove_nat_length i l : NoDup l -> In i l -> S (length (remove_nat i l)) = length l.
Proof.
  induction l as [|x l IH]; intros Hn Hi; [destruct Hi|].
  inversion Hn as [|? ? Hx Hl]; subst. cbn [remove_nat filter].
  destruct (Nat.eqb_spec i x) as [->|Hne]; cbn [negb].
  - cbn [length]. f_equal.
    assert (E : filter (fun j => negb (x =? j)) l = l).
    { clear - Hx. induction l as [|y l IH]; [reflexivity|]. cbn [filter].
      destruct (Nat.eqb_spec x y) as [->|_]; [exfalso; apply Hx; left; reflexivity|].
      cbn [negb]. f_equal. apply IH. intros H; apply Hx; right; exact H. }
    rewrite E. reflexivity.
  - cbn [length]. f_equal. apply IH; [exact Hl|]. destruct Hi as [->|Hi]; [contradiction|exact Hi].
Qed.

Lemma remove_nat_incl i l x : In x (remove_nat i l) -> In x l.
Proof. unfold remove_nat. rewrite filter_In. tauto. Qed.

Lemma remove_nat_nodup i l : NoDup l -> NoDup (remove_nat i l).
Proof. apply NoDup_filter. Qed.

Lemma NoDup_snoc {T} (l : list T) x : NoDup l -> ~ In x l -> NoDup (l ++ [x]).
Proof.
  intros Hn Hx. pose proof (Add_app x l []) as Ha. rewrite app_nil_r in Ha.
  apply (NoDup_Add Ha). split; assumption.
Qed.

Lemma K_check p : K p -> K (check p).
Proof.
  intros I. unfold check. case_eq (started p); [intros n Es|intros _; exact I].
  destruct (Nat.leb_spec n (awaited p)); [|exact I].
  destruct I as [I1 I2 I3 I4 I5 I6 I7]. constructor; cbn; try assumption.
  - intros n0 E. injection E as <-. apply I5. exact Es.
  - intros _. exists n. split; [reflexivity|assumption].
Qed.

Lemma pstep_K p e p' : K p -> pstep false p e = Some p' -> K p'.
Proof.
  intros I H. destruct e as [| | |i|i| |]; cbn [pstep] in H.
  - (* PLaunch *)
    destruct (start_sent p) eqn:Ess; [discriminate|]. injection H as <-.
    destruct I as [I1 I2 I3 I4 I5 I6 I7]. constructor; cbn.
    + rewrite app_length. cbn [length]. lia.
    + exact I2.
    + apply NoDup_snoc; [exact I3|]. intros Hin. rewrite Forall_forall in I4. specialize (I4 _ Hin). lia.
    + apply Forall_app. split; [|constructor; [lia|constructor]].
      eapply Forall_impl; [|exact I4]. cbn. intros; lia.
    + intros n Es. destruct (I5 n Es) as [_ E]. congruence.
    + intros Hc. destruct (I6 Hc) as (n & Es & _). destruct (I5 n Es) as [_ E]. congruence.
    + exact I7.
  - (* PStartSent *)
    destruct (start_sent p) eqn:Ess; [discriminate|]. injection H as <-.
    destruct I as [I1 I2 I3 I4 I5 I6 I7]. constructor; cbn; try assumption.
    intros n Es. destruct (I5 n Es) as [_ E]. congruence.
  - (* PAwaitStart *)
    destruct (start_sent p) eqn:Ess; [|discriminate]. destruct (started p) eqn:Es; [discriminate|].
    injection H as <-. apply K_check.
    destruct I as [I1 I2 I3 I4 I5 I6 I7]. constructor; cbn; try assumption.
    + intros n E. injection E as <-. split; reflexivity.
    + intros Hc. destruct (I6 Hc) as (n & E & _). congruence.
  - (* PReport *)
    destruct (mem i (running p)) eqn:Em; [|discriminate]. injection H as <-.
    assert (Hrc : run_cancelled p = false).
    { destruct (run_cancelled p) eqn:E; [|reflexivity].
      rewrite (K_running_empty p I E) in Em. discriminate. }
    destruct I as [I1 I2 I3 I4 I5 I6 I7]. constructor; cbn; try assumption.
    rewrite Hrc. exact I7.
  - (* PInstFinish *)
    destruct (mem i (running p)) eqn:Em; [|discriminate]. injection H as <-.
    apply mem_In in Em.
    destruct I as [I1 I2 I3 I4 I5 I6 I7]. constructor; cbn; try assumption.
    + pose proof (remove_nat_length i (running p) I3 Em). lia.
    + lia.
    + apply remove_nat_nodup. exact I3.
    + rewrite Forall_forall in *. intros x Hx. apply I4. eapply remove_nat_incl. exact Hx.
  - (* PAwaitRun *)
    destruct (Nat.ltb_spec (awaited p) (finished p)); [|discriminate]. injection H as <-. apply K_check.
    destruct I as [I1 I2 I3 I4 I5 I6 I7]. constructor; cbn; try assumption.
    intros Hc. destruct (I6 Hc) as (n & E & Hn). exists n. split; [exact E|lia].
  - discriminate.
Qed.

Lemma prun_K h : forall p p', K p -> prun false p h = Some p' -> K p'.
Proof.
  induction h as [|e r IH]; intros p p' I H; cbn [prun] in H.
  - injection H as <-. exact I.
  - destruct (pstep false p e) as [p1|] eqn:E; [|discriminate].
    eapply IH; [|exact H]. eapply pstep_K; eassumption.
Qed.

(* C06_engine_order *)
Theorem engine_order h p : prun false pool_init h = Some p ->
  late p = 0 /\ (run_cancelled p = true -> running p = [] /\ exists n, started p = Some n /\ n = launched p /\ finished p = n).
Proof.
  intros H. pose proof (prun_K h pool_init p K_init H) as I.
  split; [exact (k_late p I)|]. intros Hc.
  split; [exact (K_running_empty p I Hc)|].
  destruct (k_canc p I Hc) as (n & Es & Hn). destruct (k_started p I n Es) as [E _].
  exists n. repeat split; try assumption.
  pose proof (k_count p I). pose proof (k_await p I). rewrite (K_running_empty p I Hc) in *. cbn in *. lia.
Qed.

(* with a cancel from outside an instance still in flight reports after the aggregator's
   context is done *)
Lemma external_cancel_late_report :
  exists h p, prun true pool_init h = Some p /\ late p = 1.
Proof. exists [PLaunch; PExtCancel; PReport 0]. eexists. split; reflexivity. Qed.

(* ---------------------------------------------------------------------------------- *)
(* 2. process *)

Lemma set_true_length p l : length (set_true p l) = length l.
Proof. revert p; induction l as [|b l IH]; intros [|p]; cbn; try reflexivity. f_equal. apply IH. Qed.

Lemma get_set_true q p l : get q (set_true p l) = if (p =? q) && (p <? length l) then true else get q l.
Proof.
  unfold get. revert p q; induction l as [|b l IH]; intros p q.
  - cbn. destruct p, q; cbn; try reflexivity; rewrite ?andb_false_r; reflexivity.
  - destruct p as [|p], q as [|q]; cbn [set_true nth length]; try reflexivity.
    rewrite IH. cbn [Nat.eqb]. change (S p <? S (length l)) with (p <? length l). reflexivity.
Qed.

Lemma get_set_true_mono q p l : get q l = true -> get q (set_true p l) = true.
Proof. intros H. rewrite get_set_true, H. destruct (_ && _); reflexivity. Qed.

Lemma all_true_get l : all_true l = true <-> forall q, q < length l -> get q l = true.
Proof.
  unfold all_true, get. induction l as [|b l IH]; cbn [forallb length].
  - split; [intros _ q Hq; lia|reflexivity].
  - rewrite andb_true_iff, IH. split.
    + intros [-> H] [|q] Hq; cbn; [reflexivity|apply H; lia].
    + intros H. split; [apply (H 0); lia|]. intros q Hq. apply (H (S q)). lia.
Qed.

Lemma all_true_set_true p l : all_true l = true -> all_true (set_true p l) = true.
Proof.
  rewrite !all_true_get. intros H q Hq. rewrite set_true_length in Hq. apply get_set_true_mono. apply H. exact Hq.
Qed.

Record J (waits fwaits : bool) (s : proc) : Prop := {
  j_len : length (aggr_closed s) = length (pool_done s);
  j_done : forall q, get q (pool_done s) = true -> get q (aggr_closed s) = true;
  j_ok : run_ok s = true -> all_true (pool_done s) = true;
  j_exit : forall r, exited s = Some r -> orderly r = true -> waits = true -> fwaits = true -> all_true (pool_done s) = true
}.

Lemma J_init waits fwaits n : J waits fwaits (proc_init n).
Proof.
  constructor; cbn; try discriminate.
  - rewrite !repeat_length. reflexivity.
  - intros q H. unfold get in H. rewrite nth_repeat in H. discriminate.
Qed.

Ltac simp_pr := cbn [sig cancelled run_ret run_ok run_failed pcancel aggr_closed pool_done timed_out sig2 exited].

Lemma cstep_J waits fwaits s e s' : J waits fwaits s -> cstep waits fwaits s e = Some s' -> J waits fwaits s'.
Proof.
  intros [I1 I2 I3 I4] H. unfold cstep in H. destruct (exited s) eqn:Ex; [discriminate|].
  destruct e as [| | | | |p|p|p| | |r].
  - destruct (sig s || run_ok s || run_failed s); [discriminate|]. injection H as <-. constructor; simp_pr; try assumption; try discriminate.
  - destruct ((sig s || run_failed s) && negb (cancelled s)); [|discriminate]. injection H as <-. constructor; simp_pr; try assumption; try discriminate.
  - destruct (cancelled s && negb (run_ret s) && negb (run_ok s) && negb (run_failed s)); [|discriminate].
    injection H as <-. constructor; simp_pr; try assumption; try discriminate.
  - destruct (all_true (pool_done s)) eqn:Ea; [|discriminate].
    destruct (negb (run_ret s) && negb (run_ok s) && negb (run_failed s) && negb (sig s)) eqn:E;
      rewrite ?andb_true_l in H; cbn [andb] in H.
    + rewrite <- !andb_assoc in H. cbn [andb] in H. rewrite !andb_assoc, E in H.
      injection H as <-. constructor; simp_pr; try assumption; try discriminate. intros _. exact Ea.
    + rewrite <- !andb_assoc in H. cbn [andb] in H. rewrite !andb_assoc, E in H. discriminate.
  - destruct (negb (run_ret s) && negb (run_ok s) && negb (run_failed s) && negb (sig s)); [|discriminate].
    injection H as <-. constructor; simp_pr; try assumption; try discriminate.
  - destruct ((p <? length (pcancel s)) && negb (get p (pcancel s))); [|discriminate].
    injection H as <-. constructor; simp_pr; try assumption; try discriminate.
  - destruct ((p <? length (aggr_closed s)) && (cancelled s || get p (pcancel s)) && negb (get p (aggr_closed s))); [|discriminate].
    injection H as <-. constructor; simp_pr; try assumption; try discriminate.
    + rewrite set_true_length. exact I1.
    + intros q Hq. apply get_set_true_mono. apply I2. exact Hq.
  - destruct ((p <? length (pool_done s)) && get p (aggr_closed s) && negb (get p (pool_done s))) eqn:E; [|discriminate].
    injection H as <-. apply andb_prop in E. destruct E as [E _]. apply andb_prop in E. destruct E as [Hp Hc].
    constructor; simp_pr; try assumption; try discriminate.
    + rewrite set_true_length. exact I1.
    + intros q Hq. rewrite get_set_true in Hq.
      destruct (Nat.eqb_spec p q) as [->|_]; cbn [andb] in Hq.
      * exact Hc.
      * apply I2. exact Hq.
    + intros Hr. apply all_true_set_true. apply I3. exact Hr.
  - destruct (sig s || run_failed s); [|discriminate]. injection H as <-. constructor; simp_pr; try assumption; try discriminate.
  - destruct (sig s); [|discriminate]. injection H as <-. constructor; simp_pr; try assumption; try discriminate.
  - (* CExit *)
    match type of H with (if ?c then _ else _) = _ => destruct c eqn:Ec; [|discriminate] end.
    injection H as <-. constructor; simp_pr; try assumption.
    intros r' E Ho Hw Hf. injection E as <-. destruct r; cbn in Ho; try discriminate.
    + apply I3. exact Ec.
    + rewrite Hw in Ec. repeat (apply andb_prop in Ec; destruct Ec as [Ec ?]). assumption.
    + rewrite Hf in Ec. repeat (apply andb_prop in Ec; destruct Ec as [Ec ?]). assumption.
Qed.

Lemma crun_J waits fwaits h : forall s s', J waits fwaits s -> crun waits fwaits s h = Some s' -> J waits fwaits s'.
Proof.
  induction h as [|e r IH]; intros s s' I H; cbn [crun] in H.
  - injection H as <-. exact I.
  - destruct (cstep waits fwaits s e) as [s1|] eqn:E; [|discriminate].
    eapply IH; [|exact H]. eapply cstep_J; eassumption.
Qed.

(* C06_signal_flush, for a cli that waits for the engine's tasks *)
Theorem signal_flush_waiting pools h s r :
  crun true true (proc_init pools) h = Some s -> exited s = Some r -> orderly r = true ->
  all_true (aggr_closed s) = true.
Proof.
  intros H Ex Ho. pose proof (crun_J true true h _ _ (J_init true true pools) H) as [I1 I2 I3 I4].
  pose proof (I4 r Ex Ho eq_refl eq_refl) as Hd.
  rewrite all_true_get in *. intros q Hq. apply I2. apply Hd. rewrite <- I1. exact Hq.
Qed.

(* the same statement for a cli that exits as soon as Run returned: false *)
Lemma signal_flush_not_waiting_refuted :
  exists h s, crun false true (proc_init 1) h = Some s /\ exited s = Some ExInterrupted /\ all_true (aggr_closed s) = false.
Proof. exists [CSignal; CCancel; CRunReturns; CExit ExInterrupted]. eexists. split; [vm_compute; reflexivity|]. split; reflexivity. Qed.

(* an orderly exit after a signal exists (the guard of the theorem is not vacuous) *)
Lemma signal_orderly_exit_exists :
  exists h s, crun true true (proc_init 2) h = Some s /\ exited s = Some ExInterrupted /\ all_true (aggr_closed s) = true.
Proof.
  exists [CSignal; CCancel; CAggrClosed 1; CRunReturns; CAggrClosed 0; CPoolDone 0; CPoolDone 1; CExit ExInterrupted].
  eexists. split; [vm_compute; reflexivity|]. split; reflexivity.
Qed.

(* a failed run: the cli that does not wait in the failed-run branch can exit before the close *)
Lemma failed_run_not_waiting_refuted :
  exists h s, crun true false (proc_init 1) h = Some s /\ exited s = Some ExFailed /\ all_true (aggr_closed s) = false.
Proof. exists [CRunFails; CCancel; CExit ExFailed]. eexists. split; [vm_compute; reflexivity|]. split; reflexivity. Qed.

(* an orderly exit of a failed run exists *)
Lemma failed_run_orderly_exit_exists :
  exists h s, crun true true (proc_init 2) h = Some s /\ exited s = Some ExFailed /\ all_true (aggr_closed s) = true.
Proof.
  exists [CInstancesDone 1; CRunFails; CCancel; CAggrClosed 0; CAggrClosed 1; CPoolDone 1; CPoolDone 0; CExit ExFailed].
  eexists. split; [vm_compute; reflexivity|]. split; reflexivity.
Qed.
