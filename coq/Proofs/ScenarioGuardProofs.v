(* Lemmas about the entry point the two scenario front-ends share (Model/ScenarioGuard.v), property C16. *)
From Coq Require Import List NArith ZArith Bool Lia.
From PV Require Import Model.ConfigDecode Model.TagTables Model.ScenarioGuard.
Import ListNotations.

Section Guard.
Variable dv : value -> res cval.
Variable sch : schema.

(* the verdict of a front-end -- accepted with which configuration, or refused and why -- is a function of what the
   common decoder makes of the tree it is handed: nothing else distinguishes the two syntaxes *)
Lemma frontends_one_verdict : forall root hv t,
  dv (marshal_by_tags root hv) = dv t -> read_hcl dv sch root hv = read_yaml dv sch t.
Proof. intros root hv t H. unfold read_hcl, read_yaml, decode_map. rewrite H. reflexivity. Qed.

Lemma weights_ok_forall : forall c, weights_ok sch c = true <-> (forall z, In z (scenario_weights sch c) -> (0 <= z)%Z).
Proof.
  intro c. unfold weights_ok. rewrite forallb_forall. split; intros H z Hz; specialize (H z Hz).
  - apply Z.leb_le. exact H.
  - apply Z.leb_le. exact H.
Qed.

(* whatever a front-end accepts has no scenario with a negative weight *)
Lemma accepted_weights_nonneg : forall t c,
  decode_map dv sch t = Ok c -> forall z, In z (scenario_weights sch c) -> (0 <= z)%Z.
Proof.
  intros t c H. unfold decode_map in H. destruct (dv t) as [c'| |]; try discriminate.
  destruct (weights_ok sch c') eqn:W; [|discriminate]. inversion H; subst c'.
  apply weights_ok_forall. exact W.
Qed.

(* a description one of whose scenarios has a negative weight is refused *)
Lemma negative_weight_refused : forall t c z,
  dv t = Ok c -> In z (scenario_weights sch c) -> (z < 0)%Z -> decode_map dv sch t = Err EValidate.
Proof.
  intros t c z H Hin Hz. unfold decode_map. rewrite H.
  destruct (weights_ok sch c) eqn:W; [|reflexivity].
  exfalso. rewrite weights_ok_forall in W. specialize (W z Hin). lia.
Qed.

(* the guard adds nothing else: an accepted configuration is the decoder's, a decoder error stays that error *)
Lemma decode_map_accepts_decoded : forall t c, decode_map dv sch t = Ok c -> dv t = Ok c.
Proof.
  intros t c H. unfold decode_map in H. destruct (dv t) as [c'| |]; try discriminate.
  destruct (weights_ok sch c'); [|discriminate]. exact H.
Qed.

Lemma decode_map_keeps_errors : forall t e, dv t = Err e -> decode_map dv sch t = Err e.
Proof. intros t e H. unfold decode_map. rewrite H. reflexivity. Qed.

(* both syntaxes: accepted in one iff accepted in the other, with the same configuration; in particular a negative
   weight is refused by both *)
Lemma frontends_refuse_negative_weight : forall root hv t c z,
  dv (marshal_by_tags root hv) = dv t -> dv t = Ok c ->
  In z (scenario_weights sch c) -> (z < 0)%Z ->
  read_yaml dv sch t = Err EValidate /\ read_hcl dv sch root hv = Err EValidate.
Proof.
  intros root hv t c z H D Hin Hz. rewrite (frontends_one_verdict root hv t H).
  split; eapply negative_weight_refused; eauto.
Qed.

End Guard.

(* ---- format selection ------------------------------------------------------------------------------------------ *)
Local Open Scope N_scope.

Lemma lower_b_idem : forall c, lower_b (lower_b c) = lower_b c.
Proof.
  intro c. unfold lower_b.
  destruct ((65 <=? c) && (c <=? 90)) eqn:E; [|rewrite E; reflexivity].
  apply andb_true_iff in E. destruct E as [A B]. apply N.leb_le in A. apply N.leb_le in B.
  assert (H : (c + 32 <=? 90) = false) by (apply N.leb_gt; lia).
  rewrite H, andb_false_r. reflexivity.
Qed.

Lemma lower_idem : forall s, lower (lower s) = lower s.
Proof. intro s. unfold lower. rewrite map_map. apply map_ext. apply lower_b_idem. Qed.

Lemma lower_b_slash : forall c, (lower_b c =? 47) = (c =? 47).
Proof.
  intro c. unfold lower_b. destruct ((65 <=? c) && (c <=? 90)) eqn:E; [|reflexivity].
  apply andb_true_iff in E. destruct E as [A B]. apply N.leb_le in A. apply N.leb_le in B.
  assert (H1 : (c + 32 =? 47) = false) by (apply N.eqb_neq; lia).
  assert (H2 : (c =? 47) = false) by (apply N.eqb_neq; lia).
  rewrite H1, H2. reflexivity.
Qed.

Lemma base_name_lower : forall s acc, base_name (lower acc) (lower s) = lower (base_name acc s).
Proof.
  induction s as [|c r IH]; intro acc; cbn [lower map base_name]; [reflexivity|].
  fold (lower r). rewrite lower_b_slash. destruct (c =? 47).
  - apply (IH []).
  - rewrite <- IH. f_equal. unfold lower. rewrite map_app. reflexivity.
Qed.

(* only the letters' case-folded form matters: SCENARIO.HCL is scenario.hcl *)
Lemma format_of_lower : forall n, format_of (lower n) = format_of n.
Proof.
  intro n. unfold format_of. change (base_name [] (lower n)) with (base_name (lower []) (lower n)).
  rewrite (base_name_lower n []). rewrite lower_idem. reflexivity.
Qed.

Definition no_slash (e : str) : bool := forallb (fun c => negb (c =? 47)) e.

Lemma base_name_no_slash : forall e acc, no_slash e = true -> base_name acc e = acc ++ e.
Proof.
  induction e as [|c r IH]; intros acc H; cbn [base_name]; [rewrite app_nil_r; reflexivity|].
  cbn [no_slash forallb] in H. apply andb_true_iff in H. destruct H as [Hc Hr].
  destruct (c =? 47); [discriminate|]. rewrite (IH _ Hr). rewrite <- app_assoc. reflexivity.
Qed.

Lemma base_name_app : forall e, no_slash e = true -> forall n acc, base_name acc (n ++ e) = base_name acc n ++ e.
Proof.
  intros e He. induction n as [|c r IH]; intro acc; cbn [app base_name].
  - apply base_name_no_slash. exact He.
  - destruct (c =? 47); apply IH.
Qed.

Lemma lower_app : forall a b, lower (a ++ b) = lower a ++ lower b.
Proof. intros. unfold lower. apply map_app. Qed.

(* a name ending in .hcl is read by the HCL front-end; in .yaml or .yml by the YAML one -- whatever precedes *)
Lemma format_of_ext : forall n,
  format_of (n ++ ext_hcl) = Some FHcl /\ format_of (n ++ ext_yaml) = Some FYaml /\ format_of (n ++ ext_yml) = Some FYaml.
Proof.
  intro n. unfold format_of.
  rewrite !base_name_app by reflexivity. rewrite !lower_app.
  unfold has_suffix. rewrite !rev_app_distr. repeat split; reflexivity.
Qed.

(* whatever the file is called, the two syntaxes are read through the one entry point *)
Lemma read_file_cases : forall dv sch root name t hv r,
  read_file dv sch root name t hv = Ok r ->
  (format_of name = Some FHcl /\ read_hcl dv sch root hv = Ok r) \/
  (format_of name = Some FYaml /\ read_yaml dv sch t = Ok r).
Proof.
  intros dv sch root name t hv r H. unfold read_file in H. destruct name as [|c n]; [discriminate|].
  destruct (format_of (c :: n)) as [[|]|]; [left|right|discriminate]; split; auto.
Qed.
