(* Lemmas about the entry point the two scenario front-ends share (Model/ScenarioGuard.v), property C16. *)
From Coq Require Import List NArith ZArith Bool Lia.
From PV Require Import Model.ConfigDecode Model.TagTables Model.ScenarioGuard.
Import ListNotations.

Section Guard.
Variable dv : value -> res cval.
Variable sch : schema.

(* the verdict of a front-end -- accepted with which configuration, or refused and why -- is a function of what the
   common decoder makes of the tree it is handed: nothing else distinguishes the two syntaxes *)
Lemma frontends_one_verdict : forall root hv t,
  dv (marshal_by_tags root hv) = dv t -> read_hcl dv sch root hv = read_yaml dv sch t.
Proof. intros root hv t H. unfold read_hcl, read_yaml, decode_map. rewrite H. reflexivity. Qed.

Lemma weights_ok_forall : forall c, weights_ok sch c = true <-> (forall z, In z (scenario_weights sch c) -> (0 <= z)%Z).
Proof.
  intro c. unfold weights_ok. rewrite forallb_forall. split; intros H z Hz; specialize (H z Hz).
  - apply Z.leb_le. exact H.
  - apply Z.leb_le. exact H.
Qed.

(* whatever a front-end accepts has no scenario with a negative weight *)
Lemma accepted_weights_nonneg : forall t c,
  decode_map dv sch t = Ok c -> forall z, In z (scenario_weights sch c) -> (0 <= z)%Z.
Proof.
  intros t c H. unfold decode_map in H. destruct (dv t) as [c'| |]; try discriminate.
  destruct (weights_ok sch c') eqn:W; [|discriminate]. inversion H; subst c'.
  apply weights_ok_forall. exact W.
Qed.

(* a description one of whose scenarios has a negative weight is refused *)
Lemma negative_weight_refused : forall t c z,
  dv t = Ok c -> In z (scenario_weights sch c) -> (z < 0)%Z -> decode_map dv sch t = Err EValidate.
Proof.
  intros t c z H Hin Hz. unfold decode_map. rewrite H.
  destruct (weights_ok sch c) eqn:W; [|reflexivity].
  exfalso. rewrite weights_ok_forall in W. specialize (W z Hin). lia.
Qed.

(* the guard adds nothing else: an accepted configuration is the decoder's, a decoder error stays that error *)
Lemma decode_map_accepts_decoded : forall t c, decode_map dv sch t = Ok c -> dv t = Ok c.
Proof.
  intros t c H. unfold decode_map in H. destruct (dv t) as [c'| |]; try discriminate.
  destruct (weights_ok sch c'); [|discriminate]. exact H.
Qed.

Lemma decode_map_keeps_errors : forall t e, dv t = Err e -> decode_map dv sch t = Err e.
Proof. intros t e H. unfold decode_map. rewrite H. reflexivity. Qed.

(* both syntaxes: accepted in one iff accepted in the other, with the same configuration; in particular a negative
   weight is refused by both *)
Lemma frontends_refuse_negative_weight : forall root hv t c z,
  dv (marshal_by_tags root hv) = dv t -> dv t = Ok c ->
  In z (scenario_weights sch c) -> (z < 0)%Z ->
  read_yaml dv sch t = Err EValidate /\ read_hcl dv sch root hv = Err EValidate.
Proof.
  intros root hv t c z H D Hin Hz. rewrite (frontends_one_verdict root hv t H).
  split; eapply negative_weight_refused; eauto.
Qed.

End Guard.
