(* Proofs about Model/PreloadContent.v (property C14 at the level of the content):
   - the decoder's live header map: entries hold fresh copies, nothing the decoder does later
     changes them ([cell_stable]); both ways of looking at a pass (as the entries come / after the
     whole file was decoded and on every later replay) give what the file means
     ([contents_of_spec], [pass_load_stable], [entry_stable], [stream_passes_spec]);
   - tags as byte strings: the numbering by one table is injective, so the machines of
     Model/Provider.v instantiated with it select by string equality on the whole tag
     ([is_chosen_abs], [chosen_entries_abs]);
   - [c14_content], [c14_content_equiv]. *)
From Coq Require Import List Arith Bool NArith Lia.
From PV Require Import Lib.AmmoBytes Proofs.AmmoBytesProofs.
From PV Require Model.AmmoCommon.
From PV Require Import Model.Provider Model.Preload Model.PreloadContent Proofs.ProviderProofs Proofs.PreloadProofs.
Import ListNotations.

(* ------------------------------------------------------------------ heap *)

Definition hwf (s : hdec) : Prop := live s < length (hp s).

Lemma length_upd a f m : length (upd a f m) = length m.
Proof. revert a; induction m as [|c r IH]; intros [|a]; cbn [upd length]; auto. Qed.

Lemma cell_upd_same a f m : a < length m -> cell (upd a f m) a = f (cell m a).
Proof.
  unfold cell. revert a; induction m as [|c r IH]; intros [|a] H; cbn [upd nth length] in *; try lia; auto.
  apply IH. lia.
Qed.

Lemma cell_upd_other a b f m : a <> b -> cell (upd a f m) b = cell m b.
Proof.
  unfold cell. revert a b; induction m as [|c r IH]; intros [|a] [|b] H; cbn [upd nth]; auto; try congruence.
Qed.

Lemma cell_app_old m x a : a < length m -> cell (m ++ x) a = cell m a.
Proof. intros H. unfold cell. apply app_nth1. exact H. Qed.

Lemma cell_app_new m c : cell (m ++ [c]) (length m) = c.
Proof. unfold cell. rewrite app_nth2, Nat.sub_diag by lia. reflexivity. Qed.

(* one line *)
Lemma dec_item_facts cfgh s it i s1 oe :
  dec_item cfgh s it i = (s1, oe) -> hwf s ->
  hwf s1 /\ live s1 = live s /\ length (hp s) <= length (hp s1)
  /\ (forall a, a < length (hp s) -> a <> live s -> cell (hp s1) a = cell (hp s) a)
  /\ cell (hp s1) (live s1) =
       match it with CHdr k v => header_set k v (cell (hp s) (live s)) | CEnt _ => cell (hp s) (live s) end
  /\ match it, oe with
     | CHdr _ _, None => True
     | CEnt t, Some e => h_ref e = length (hp s) /\ h_ref e < length (hp s1) /\ h_pos e = i /\ h_tag e = t
                         /\ cell (hp s1) (h_ref e) = merge_cfg cfgh (cell (hp s) (live s))
     | _, _ => False
     end.
Proof.
  unfold hwf. intros H W. destruct it as [k v|t]; cbn [dec_item] in H; injection H as <- <-; cbn [hp live h_ref h_pos h_tag].
  - rewrite length_upd. repeat split; try lia.
    + intros a _ Ha. apply cell_upd_other. congruence.
    + apply cell_upd_same. exact W.
  - rewrite app_length; cbn [length]. repeat split; try lia.
    + intros a Ha _. apply cell_app_old. exact Ha.
    + apply cell_app_old. exact W.
    + apply cell_app_new.
Qed.

Lemma new_pass_facts s :
  hwf s -> hwf (new_pass s) /\ cell (hp (new_pass s)) (live (new_pass s)) = []
  /\ length (hp s) <= length (hp (new_pass s))
  /\ (forall a, a < length (hp s) -> cell (hp (new_pass s)) a = cell (hp s) a).
Proof.
  unfold hwf, new_pass; cbn [hp live]. intros W. rewrite app_length; cbn [length].
  repeat split; try lia; [apply cell_app_new|intros a Ha; apply cell_app_old; exact Ha].
Qed.

(* a map that is not the live one is never written again, whatever the decoder does later *)
Lemma cell_stable cfgh evs : forall s a,
  hwf s -> a < length (hp s) -> a <> live s ->
  cell (hp (dec_events cfgh s evs)) a = cell (hp s) a.
Proof.
  induction evs as [|ev r IH]; intros s a W Ha Hl; cbn [dec_events fold_left]; [reflexivity|].
  fold (dec_events cfgh (dec_event cfgh s ev) r).
  destruct ev as [it i|]; cbn [dec_event].
  - destruct (dec_item cfgh s it i) as [s1 oe] eqn:E. cbn [fst].
    destruct (dec_item_facts _ _ _ _ _ _ E W) as (W1 & L1 & Len & Fr & _).
    rewrite IH; [apply Fr; assumption|exact W1|lia|congruence].
  - destruct (new_pass_facts s W) as (W1 & _ & Len & Fr).
    rewrite IH; [apply Fr; exact Ha|exact W1|lia|].
    unfold new_pass; cbn [live]. lia.
Qed.

(* an entry, once decoded, shows the header set of its own line whenever it is looked at *)
Lemma entry_stable cfgh s t i s1 e evs :
  dec_item cfgh s (CEnt t) i = (s1, Some e) -> hwf s ->
  deref (hp (dec_events cfgh s1 evs)) e =
    {| c_pos := i; c_tag := t; c_hdrs := merge_cfg cfgh (cell (hp s) (live s)) |}.
Proof.
  intros E W. destruct (dec_item_facts _ _ _ _ _ _ E W) as (W1 & L1 & Len & _ & _ & R & R1 & P & T & C).
  unfold deref. rewrite P, T. f_equal.
  rewrite cell_stable; [exact C|exact W1|exact R1|]. unfold hwf in W. lia.
Qed.

Lemma pass_stream_spec cfgh items : forall s i,
  hwf s ->
  snd (pass_stream cfgh s items i) = file_entries cfgh items (cell (hp s) (live s)) i
  /\ hwf (fst (pass_stream cfgh s items i)).
Proof.
  induction items as [|it r IH]; intros s i W; cbn [pass_stream file_entries]; [split; [reflexivity|exact W]|].
  destruct (dec_item cfgh s it i) as [s1 oe] eqn:E.
  destruct (dec_item_facts _ _ _ _ _ _ E W) as (W1 & L1 & Len & Fr & Lv & Ent).
  destruct (pass_stream cfgh s1 r (match oe with Some _ => S i | None => i end)) as [s2 cs] eqn:E2.
  specialize (IH s1 (match oe with Some _ => S i | None => i end) W1). rewrite E2 in IH. cbn [fst snd] in *.
  destruct IH as (IH & W2). split; [|exact W2].
  destruct it as [k v|t]; destruct oe as [e|]; try contradiction.
  - rewrite IH, Lv. reflexivity.
  - destruct Ent as (R & R1 & P & T & C). rewrite IH, Lv. unfold deref. rewrite P, T, C. reflexivity.
Qed.

(* LoadAmmo: the references are kept; looked at after the pass — and after anything the decoder
   might still do — every entry shows the header set of its own line *)
Lemma pass_load_spec cfgh items : forall s i s' es,
  pass_load cfgh s items i = (s', es) -> hwf s ->
  hwf s' /\ live s' = live s /\ length (hp s) <= length (hp s')
  /\ (forall a, a < length (hp s) -> a <> live s -> cell (hp s') a = cell (hp s) a)
  /\ Forall (fun e => length (hp s) <= h_ref e < length (hp s')) es
  /\ map (deref (hp s')) es = file_entries cfgh items (cell (hp s) (live s)) i.
Proof.
  induction items as [|it r IH]; intros s i s' es H W; cbn [pass_load file_entries] in *.
  - injection H as <- <-. repeat split; auto.
  - destruct (dec_item cfgh s it i) as [s1 oe] eqn:E.
    destruct (dec_item_facts _ _ _ _ _ _ E W) as (W1 & L1 & Len & Fr & Lv & Ent).
    destruct (pass_load cfgh s1 r (match oe with Some _ => S i | None => i end)) as [s2 es2] eqn:E2.
    injection H as <- <-.
    destruct (IH _ _ _ _ E2 W1) as (W2 & L2 & Len2 & Fr2 & Rg & M).
    assert (Hfr : forall a, a < length (hp s) -> a <> live s -> cell (hp s2) a = cell (hp s) a).
    { intros a Ha Hl. rewrite Fr2; [apply Fr; assumption|lia|congruence]. }
    assert (Rg' : Forall (fun e => length (hp s) <= h_ref e < length (hp s2)) es2).
    { eapply Forall_impl; [|exact Rg]. cbn beta. intros e He. lia. }
    destruct it as [k v|t]; destruct oe as [e|]; try contradiction.
    + repeat split; try lia; try congruence; try assumption; try (rewrite M, Lv; reflexivity).
    + destruct Ent as (R & R1 & P & T & C).
      repeat split; try lia; try congruence; try assumption.
      * constructor; [lia|exact Rg'].
      * cbn [map]. rewrite M, Lv. f_equal. unfold deref. rewrite P, T. f_equal.
        rewrite Fr2; [exact C|exact R1|]. unfold hwf in W. lia.
Qed.

Lemma pass_load_stable cfgh items s i s' es evs :
  pass_load cfgh s items i = (s', es) -> hwf s ->
  map (deref (hp (dec_events cfgh s' evs))) es = file_entries cfgh items (cell (hp s) (live s)) i.
Proof.
  intros H W. destruct (pass_load_spec _ _ _ _ _ _ H W) as (W' & L & Len & _ & Rg & M).
  rewrite <- M. apply map_ext_in. intros e He. rewrite Forall_forall in Rg. specialize (Rg e He).
  unfold deref. f_equal. apply cell_stable; [exact W'|lia|]. unfold hwf in W. lia.
Qed.

Lemma hwf_init : hwf heap_init.
Proof. unfold hwf, heap_init; cbn. lia. Qed.

(* both paths make of the file what it means *)
Lemma contents_of_spec preload cfgh items :
  contents_of preload cfgh items = file_entries cfgh items [] 0.
Proof.
  unfold contents_of. destruct preload.
  - destruct (pass_load cfgh heap_init items 0) as [s es] eqn:E.
    apply (pass_load_stable cfgh items heap_init 0 s es [] E hwf_init).
  - apply (pass_stream_spec cfgh items heap_init 0 hwf_init).
Qed.

(* ... on every pass: a pass starts from a new empty live map *)
Lemma stream_passes_spec cfgh items p : forall s,
  hwf s -> cell (hp s) (live s) = [] ->
  stream_passes cfgh p s items = repeat (file_entries cfgh items [] 0) p.
Proof.
  induction p as [|p IH]; intros s W Hc; cbn [stream_passes repeat]; [reflexivity|].
  destruct (pass_stream cfgh s items 0) as [s1 cs] eqn:E.
  destruct (pass_stream_spec cfgh items s 0 W) as (S1 & W1). rewrite E in S1, W1. cbn [fst snd] in *.
  destruct (new_pass_facts s1 W1) as (Wn & Cn & _).
  rewrite S1, Hc, (IH _ Wn Cn). reflexivity.
Qed.

(* ------------------------------------------------------------------ tags *)

Lemma index_of_inj tab : forall a b, In a tab -> index_of a tab = index_of b tab -> a = b.
Proof.
  induction tab as [|x r IH]; intros a b Hin H; [destruct Hin|]. cbn [index_of] in H.
  destruct (beq a x) eqn:Ea; destruct (beq b x) eqn:Eb; try discriminate.
  - apply beq_eq in Ea, Eb. congruence.
  - injection H as H. apply IH; [|exact H]. destruct Hin as [<-|Hin]; [|exact Hin].
    rewrite beq_refl in Ea. discriminate.
Qed.

Lemma index_eqb tab a b : In a tab -> Nat.eqb (index_of a tab) (index_of b tab) = beq a b.
Proof.
  intros Hin. destruct (beq a b) eqn:E.
  - apply beq_eq in E. subst b. apply Nat.eqb_refl.
  - apply Nat.eqb_neq. intros H. apply (index_of_inj tab a b Hin) in H. subst b. rewrite beq_refl in E. discriminate.
Qed.

Lemma is_chosen_abs tab t chb :
  In t tab -> is_chosen (index_of t tab) (abs_chosen tab chb) = is_chosen_b t chb.
Proof.
  intros Hin.
  assert (G : forall l, existsb (Nat.eqb (index_of t tab)) (map (fun t0 => index_of t0 tab) l) = existsb (beq t) l).
  { induction l as [|y l IH]; cbn [map existsb]; [reflexivity|]. rewrite IH, (index_eqb tab t y Hin). reflexivity. }
  unfold is_chosen, is_chosen_b, abs_chosen. destruct chb as [|c r]; [reflexivity|].
  specialize (G (c :: r)). cbn [map] in *. exact G.
Qed.

Lemma is_chosen_b_spec t chb : is_chosen_b t chb = true <-> chb = [] \/ In t chb.
Proof.
  unfold is_chosen_b. destruct chb as [|c r].
  - split; auto.
  - split.
    + intros H. right. apply existsb_exists in H. destruct H as (x & Hin & Hx). apply beq_eq in Hx. subst x. exact Hin.
    + intros [H|H]; [discriminate|]. apply existsb_exists. exists t. split; [exact H|apply beq_refl].
Qed.

Lemma chosen_entries_abs tab chb cs :
  (forall c, In c cs -> In (c_tag c) tab) ->
  chosen_entries (abs_chosen tab chb) (abs_entries tab cs) = abs_entries tab (chosen_content chb cs).
Proof.
  unfold chosen_entries, chosen_content, abs_entries.
  induction cs as [|c r IH]; intros H; cbn [map filter]; [reflexivity|].
  cbn [e_tag]. rewrite (is_chosen_abs tab (c_tag c) chb) by (apply H; left; reflexivity).
  rewrite IH by (intros x Hx; apply H; right; exact Hx).
  destruct (is_chosen_b (c_tag c) chb); reflexivity.
Qed.

(* ------------------------------------------------------------------ positions *)

Lemma file_entries_pos cfgh items : forall h i,
  map c_pos (file_entries cfgh items h i) = seq i (length (file_entries cfgh items h i)).
Proof.
  induction items as [|it r IH]; intros h i; cbn [file_entries]; [reflexivity|].
  destruct it as [k v|t]; [apply IH|]. cbn [map length seq c_pos]. rewrite IH. reflexivity.
Qed.

Lemma file_entries_at cfgh items c :
  In c (file_entries cfgh items [] 0) -> nth_error (file_entries cfgh items [] 0) (c_pos c) = Some c.
Proof.
  intros Hin. destruct (In_nth_error _ _ Hin) as (j & Hj).
  assert (Hm : nth_error (map c_pos (file_entries cfgh items [] 0)) j = Some (c_pos c)).
  { rewrite nth_error_map, Hj. reflexivity. }
  rewrite file_entries_pos in Hm.
  assert (Hlt : j < length (file_entries cfgh items [] 0)) by (apply nth_error_Some; congruence).
  rewrite (nth_error_nth' _ 0) in Hm by (rewrite seq_length; exact Hlt).
  rewrite seq_nth in Hm by exact Hlt. injection Hm as Hm. cbn in Hm. subst j. exact Hj.
Qed.

Lemma pick_map {A} (cs : list A) (f : nat -> nat) l :
  pick cs (map f l) = flat_map (fun a => match nth_error cs (f a) with Some c => [c] | None => [] end) l.
Proof. unfold pick. induction l as [|a l IH]; cbn [map flat_map]; [reflexivity|]. rewrite IH. reflexivity. Qed.

Lemma pick_cyc tab cs src b :
  src <> [] -> (forall c, In c src -> nth_error cs (c_pos c) = Some c) ->
  pick cs (ids (cyc_prefix (abs_entries tab src) b)) = cyc_c src b.
Proof.
  intros Hne Hat. unfold cyc_c, ids, cyc_prefix. rewrite map_map, !pick_map.
  apply flat_map_ext. intros a.
  assert (Hl : length (abs_entries tab src) = length src) by (unfold abs_entries; apply map_length).
  assert (Hm : a mod length src < length src).
  { apply Nat.mod_upper_bound. destruct src; [congruence|cbn; lia]. }
  destruct (nth_error src (a mod length src)) as [c|] eqn:E; [|apply nth_error_None in E; lia].
  unfold cyc. rewrite Hl.
  assert (E2 : nth_error (abs_entries tab src) (a mod length src)
               = Some {| e_tag := index_of (c_tag c) tab; e_id := c_pos c |}).
  { unfold abs_entries. rewrite nth_error_map, E. reflexivity. }
  rewrite (nth_error_nth _ _ dummy_entry E2). cbn [e_id].
  rewrite (Hat c (nth_error_In _ _ E)). reflexivity.
Qed.

(* ------------------------------------------------------------------ the property *)

Lemma abs_nil tab cs : abs_entries tab cs = [] <-> cs = [].
Proof. unfold abs_entries. destruct cs; cbn [map]; split; congruence. Qed.

Lemma c14_content k preload lim pas cfgh items chb :
  let cs := file_entries cfgh items [] 0 in
  let src := chosen_content chb cs in
  let n := length cs in
  let C := c14_const n in
  let runc := deliver_c k preload lim pas cfgh items chb in
  cs <> [] ->
  (forall c, In c src <-> In c cs /\ (chb = [] \/ In (c_tag c) chb))
  /\ (src <> [] ->
      (forall b fuel, bound lim pas (length src) = Some b -> C * (b + n + 1) < fuel ->
         runc None fuel = (cyc_c src b, Ok, true))
      /\ (forall cancel fuel, exists j,
            fst (fst (runc cancel fuel)) = cyc_c src j /\ le_opt j (bound lim pas (length src))))
  /\ (src = [] -> forall fuel, C * (n + 1) < fuel -> runc None fuel = ([], Failed ENoAmmo, true)).
Proof.
  intros cs src n C runc Hne.
  split; [|split].
  - intros c. unfold src, chosen_content. rewrite filter_In, is_chosen_b_spec. reflexivity.
  - intros Hsrc. unfold runc, deliver_c. rewrite contents_of_spec. fold cs.
    set (tab := tag_table cs chb).
    assert (Htab : forall c, In c cs -> In (c_tag c) tab).
    { intros c Hc. unfold tab, tag_table. apply in_or_app. left. apply in_map. exact Hc. }
    assert (Hes : abs_entries tab cs <> []) by (rewrite abs_nil; exact Hne).
    destruct (c14_filter k preload (abs_entries tab cs) lim pas (abs_chosen tab chb) Hes) as (_ & F2 & _).
    rewrite (chosen_entries_abs tab chb cs Htab) in F2. fold src in F2.
    assert (Hl : length (abs_entries tab src) = length src) by (unfold abs_entries; apply map_length).
    assert (Hn : length (abs_entries tab cs) = n) by (unfold abs_entries, n; apply map_length).
    rewrite Hl, Hn in F2. fold C in F2.
    assert (Hsrc' : abs_entries tab src <> []) by (rewrite abs_nil; exact Hsrc).
    destruct (F2 Hsrc') as (G1 & G2 & _).
    assert (Hat : forall c, In c src -> nth_error cs (c_pos c) = Some c).
    { intros c Hc. apply file_entries_at. unfold src, chosen_content in Hc. apply filter_In in Hc. apply Hc. }
    split.
    + intros b fuel HB Hf. destruct (G1 b fuel HB Hf) as (D & O & Cl).
      unfold cfgc in D, O, Cl. rewrite D, O, Cl. rewrite (pick_cyc tab cs src b Hsrc Hat). reflexivity.
    + intros cancel fuel. destruct (G2 cancel fuel) as (D & Le & _). unfold cfgc in D, Le.
      eexists. cbn [fst]. rewrite D. split; [apply (pick_cyc tab cs src _ Hsrc Hat)|exact Le].
  - intros Hsrc fuel Hf. unfold runc, deliver_c. rewrite contents_of_spec. fold cs.
    set (tab := tag_table cs chb).
    assert (Htab : forall c, In c cs -> In (c_tag c) tab).
    { intros c Hc. unfold tab, tag_table. apply in_or_app. left. apply in_map. exact Hc. }
    assert (Hes : abs_entries tab cs <> []) by (rewrite abs_nil; exact Hne).
    destruct (c14_filter k preload (abs_entries tab cs) lim pas (abs_chosen tab chb) Hes) as (_ & _ & F3).
    rewrite (chosen_entries_abs tab chb cs Htab) in F3. fold src in F3.
    assert (Hn : length (abs_entries tab cs) = n) by (unfold abs_entries, n; apply map_length).
    rewrite Hn in F3. fold C in F3.
    assert (Hsrc' : abs_entries tab src = []) by (rewrite abs_nil; exact Hsrc).
    destruct (F3 Hsrc' None fuel eq_refl) as (D & _ & O). destruct (O Hf) as (O1 & O2).
    unfold cfgc in D, O1, O2. rewrite D, O1, O2. reflexivity.
Qed.

(* preload on = preload off, content included, whenever the run ends by itself *)
Lemma c14_content_equiv k lim pas cfgh items chb :
  let cs := file_entries cfgh items [] 0 in
  let src := chosen_content chb cs in
  let n := length cs in
  let C := c14_const n in
  cs <> [] ->
  forall b f1 f2,
    ((src <> [] /\ bound lim pas (length src) = Some b) \/ (src = [] /\ b = n)) ->
    C * (b + n + 1) < f1 -> C * (b + n + 1) < f2 ->
    deliver_c k true lim pas cfgh items chb None f1 = deliver_c k false lim pas cfgh items chb None f2.
Proof.
  intros cs src n C Hne b f1 f2 H H1 H2.
  destruct (c14_content k true lim pas cfgh items chb Hne) as (_ & A2 & A3).
  destruct (c14_content k false lim pas cfgh items chb Hne) as (_ & B2 & B3).
  fold cs src n C in A2, A3, B2, B3.
  destruct H as [(Hs & HB)|(Hs & ->)].
  - destruct (A2 Hs) as (A & _). destruct (B2 Hs) as (B & _).
    rewrite (A b f1 HB H1), (B b f2 HB H2). reflexivity.
  - rewrite (A3 Hs f1), (B3 Hs f2); [reflexivity| |];
      assert (0 < C) by (unfold C, c14_const; lia); nia.
Qed.

(* ------------------------------------------------------------------ summary lemmas *)

Lemma live_header_map cfgh items :
  (forall preload, contents_of preload cfgh items = file_entries cfgh items [] 0)
  /\ (forall s es evs, pass_load cfgh heap_init items 0 = (s, es) ->
        map (deref (hp (dec_events cfgh s evs))) es = file_entries cfgh items [] 0)
  /\ (forall s t i s1 e evs, hwf s -> dec_item cfgh s (CEnt t) i = (s1, Some e) ->
        deref (hp (dec_events cfgh s1 evs)) e =
          {| c_pos := i; c_tag := t; c_hdrs := merge_cfg cfgh (cell (hp s) (live s)) |})
  /\ (forall p, stream_passes cfgh p heap_init items = repeat (file_entries cfgh items [] 0) p).
Proof.
  split; [intros p; apply contents_of_spec|]. split; [|split].
  - intros s es evs H. apply (pass_load_stable cfgh items heap_init 0 s es evs H hwf_init).
  - intros s t i s1 e evs W H. apply (entry_stable cfgh s t i s1 e evs H W).
  - intros p. apply stream_passes_spec; [exact hwf_init|reflexivity].
Qed.

Lemma whole_tag :
  (forall t chb, is_chosen_b t chb = true <-> chb = [] \/ In t chb)
  /\ (forall tab t chb, In t tab -> is_chosen (index_of t tab) (abs_chosen tab chb) = is_chosen_b t chb)
  /\ (forall tab a b, In a tab -> index_of a tab = index_of b tab -> a = b).
Proof. split; [exact is_chosen_b_spec|]. split; [exact is_chosen_abs|exact index_of_inj]. Qed.

(* ------------------------------------------------------------------ link to the byte level (C07) *)
From PV Require Model.AmmoUri Proofs.AmmoUriProofs.

(* a uri file of C07's model as a C14 file: header lines and requests; blank lines are layout *)
Fixpoint citems_of_uri (items : list AmmoUri.uitem) : list citem :=
  match items with
  | [] => []
  | AmmoUri.UHeader _ k _ _ v _ :: r => CHdr k v :: citems_of_uri r
  | AmmoUri.UReq _ t :: r => CEnt t :: citems_of_uri r
  | AmmoUri.UBlank :: r => citems_of_uri r
  end.

Lemma uri_entries_link items : forall h i,
  map (fun e => (AmmoCommon.e_tag e, AmmoCommon.e_headers e)) (AmmoUri.uri_entries items h)
  = map (fun c => (c_tag c, c_hdrs c)) (file_entries [] (citems_of_uri items) h i).
Proof.
  induction items as [|it r IH]; intros h i; cbn [AmmoUri.uri_entries citems_of_uri file_entries map]; [reflexivity|].
  destruct it as [kl k kt vl v vt|u t|]; cbn [file_entries map AmmoCommon.e_tag AmmoCommon.e_headers c_tag c_hdrs].
  - apply IH.
  - rewrite (IH h (S i)). reflexivity.
  - apply IH.
Qed.

(* the byte-level uri decoder on the rendered file delivers, cyclically, entries whose tags and
   header sets are those of [file_entries] *)
Lemma uri_bytes_link url_parse maxtok (items : list (AmmoUri.uitem * AmmoCommon.lay)) final_nl k :
  forallb (AmmoUri.wf_uitem url_parse maxtok) items = true ->
  AmmoUri.uri_entries (map fst items) [] <> [] ->
  exists es,
    AmmoUri.uri_decode url_parse maxtok AmmoCommon.cfg0 k (AmmoUri.render_uri items final_nl)
      = map AmmoCommon.SDeliver (AmmoUri.cycle_take k es es)
    /\ map (fun e => (AmmoCommon.e_tag e, AmmoCommon.e_headers e)) es
       = map (fun c => (c_tag c, c_hdrs c)) (file_entries [] (citems_of_uri (map fst items)) [] 0).
Proof.
  intros W Hne. exists (AmmoUri.uri_entries (map fst items) []). split.
  - apply AmmoUriProofs.uri_roundtrip; assumption.
  - apply uri_entries_link.
Qed.
