(* Ownership invariants of the engine-level model Model/GunOwner.v (property C11 a). *)
From Coq Require Import List NArith Bool Arith Lia.
From PV Require Import Model.GunOwner.
Import ListNotations.

(* ---------- list helpers ---------- *)

Lemma mem_nat_In x l : mem_nat x l = true <-> In x l.
Proof.
  induction l as [|y r IH]; cbn [mem_nat In]; [split; [discriminate|tauto]|].
  rewrite orb_true_iff, IH, Nat.eqb_eq. split; intros [H|H]; auto.
Qed.

Lemma In_remove_nat x g l : In x (remove_nat g l) -> In x l.
Proof.
  induction l as [|y r IH]; cbn [remove_nat]; [tauto|].
  destruct (Nat.eqb g y); cbn [In]; [auto|]. intros [H|H]; auto.
Qed.

Lemma NoDup_remove_nat g l : NoDup l -> NoDup (remove_nat g l) /\ ~ In g (remove_nat g l).
Proof.
  induction l as [|y r IH]; cbn [remove_nat]; intros H; [split; [constructor|tauto]|].
  inversion H as [|a b Hn Hr]; subst.
  destruct (Nat.eqb_spec g y) as [->|Hne]; [split; assumption|].
  destruct (IH Hr) as [H1 H2]. split.
  - constructor; [|exact H1]. intros Hin. apply Hn. eapply In_remove_nat; eauto.
  - cbn [In]. intros [E|Hin]; [congruence|auto].
Qed.

Lemma NoDup_app_one {A} (l : list A) x : NoDup l -> ~ In x l -> NoDup (l ++ [x]).
Proof.
  induction l as [|y r IH]; cbn [app]; intros Hnd Hn; [constructor; [tauto|constructor]|].
  inversion Hnd as [|a b Hy Hr]; subst. constructor.
  - rewrite in_app_iff. cbn [In]. intros [H|[H|[]]]; [auto|]. apply Hn. left. auto.
  - apply IH; [exact Hr|]. intros H. apply Hn. right. exact H.
Qed.

Lemma makes_of_app a b : makes_of (a ++ b) = makes_of a ++ makes_of b.
Proof. induction a as [|e r IH]; cbn; [reflexivity|]. destruct e; cbn; rewrite IH; reflexivity. Qed.
Lemma binds_of_app a b : binds_of (a ++ b) = binds_of a ++ binds_of b.
Proof. induction a as [|e r IH]; cbn; [reflexivity|]. destruct e; cbn; rewrite IH; reflexivity. Qed.
Lemma starts_of_app a b : starts_of (a ++ b) = starts_of a ++ starts_of b.
Proof. induction a as [|e r IH]; cbn; [reflexivity|]. destruct e; cbn; rewrite IH; reflexivity. Qed.

Lemma alt_run_app g tr1 : forall b tr2,
  alt_run g b (tr1 ++ tr2) = match alt_run g b tr1 with Some b' => alt_run g b' tr2 | None => None end.
Proof.
  induction tr1 as [|e r IH]; intros b tr2; cbn [app alt_run]; [reflexivity|].
  destruct e as [g'|i g'|r' g'|r' g']; try apply IH.
  - destruct (Nat.eqb g' g); [destruct b; [reflexivity|apply IH]|apply IH].
  - destruct (Nat.eqb g' g); [destruct b; [apply IH|reflexivity]|apply IH].
Qed.

(* ---------- update_gun / find_gun ---------- *)

Definition keeps (f : inst -> inst) : Prop := forall y, in_id (f y) = in_id y /\ in_gun (f y) = in_gun y.

Lemma update_gun_ids g f l : keeps f ->
  map in_gun (update_gun g f l) = map in_gun l /\ map in_id (update_gun g f l) = map in_id l.
Proof.
  intros K. induction l as [|x r [IH1 IH2]]; cbn [update_gun map]; [split; reflexivity|].
  destruct (Nat.eqb (in_gun x) g); cbn [map].
  - destruct (K x) as [K1 K2]. rewrite K1, K2. split; reflexivity.
  - rewrite IH1, IH2. split; reflexivity.
Qed.

Lemma update_gun_pairs g f l : keeps f ->
  map (fun x => (in_id x, in_gun x)) (update_gun g f l) = map (fun x => (in_id x, in_gun x)) l.
Proof.
  intros K. induction l as [|x r IH]; cbn [update_gun map]; [reflexivity|].
  destruct (Nat.eqb (in_gun x) g); cbn [map].
  - destruct (K x) as [K1 K2]. rewrite K1, K2. reflexivity.
  - rewrite IH. reflexivity.
Qed.

Lemma find_gun_In g l x : find_gun g l = Some x -> In x l /\ in_gun x = g.
Proof.
  induction l as [|y r IH]; cbn [find_gun]; [discriminate|].
  destruct (Nat.eqb_spec (in_gun y) g) as [E|N].
  - intros H; injection H as <-. split; [left; reflexivity|exact E].
  - intros H. destruct (IH H). split; [right|]; assumption.
Qed.

Lemma find_gun_None g l : find_gun g l = None <-> ~ In g (map in_gun l).
Proof.
  induction l as [|y r IH]; cbn [find_gun map In]; [tauto|].
  destruct (Nat.eqb_spec (in_gun y) g) as [E|N]; [split; [discriminate|intros H; exfalso; apply H; left; exact E]|].
  rewrite IH. tauto.
Qed.

Lemma find_gun_unique g l x y :
  NoDup (map in_gun l) -> In x l -> in_gun x = g -> find_gun g l = Some y -> x = y.
Proof.
  induction l as [|z r IH]; cbn [find_gun map]; intros Hnd Hin Hg Hf; [contradiction|].
  inversion Hnd as [|a b Hn Hr]; subst.
  destruct (Nat.eqb_spec (in_gun z) (in_gun x)) as [E|N].
  - injection Hf as <-. destruct Hin as [->|Hin]; [reflexivity|].
    exfalso. apply Hn. rewrite E. apply in_map. exact Hin.
  - destruct Hin as [->|Hin]; [congruence|]. apply IH; auto.
Qed.

(* every element of the updated list is an old element other than the target, or f of the target *)
Lemma In_update_gun g f l z : NoDup (map in_gun l) ->
  In z (update_gun g f l) ->
  (In z l /\ in_gun z <> g) \/ (exists x, In x l /\ in_gun x = g /\ z = f x).
Proof.
  induction l as [|x r IH]; cbn [update_gun map]; intros Hnd Hin; [contradiction|].
  inversion Hnd as [|a b Hn Hr]; subst.
  destruct (Nat.eqb_spec (in_gun x) g) as [E|N].
  - destruct Hin as [<-|Hin].
    + right. exists x. split; [left; reflexivity|split; [exact E|reflexivity]].
    + left. split; [right; exact Hin|]. intros Hz. apply Hn. rewrite E, <- Hz. apply in_map. exact Hin.
  - destruct Hin as [<-|Hin].
    + left. split; [left; reflexivity|exact N].
    + destruct (IH Hr Hin) as [[H1 H2]|[y [H1 [H2 H3]]]].
      * left. split; [right|]; assumption.
      * right. exists y. split; [right; exact H1|split; assumption].
Qed.

Lemma find_gun_update g f l x g' : keeps f -> find_gun g l = Some x ->
  find_gun g' (update_gun g f l) = if Nat.eqb g' g then Some (f x) else find_gun g' l.
Proof.
  intros K. induction l as [|y r IH]; cbn [find_gun update_gun]; [discriminate|].
  destruct (Nat.eqb_spec (in_gun y) g) as [E|N].
  - intros H; injection H as <-. cbn [find_gun]. destruct (K y) as [_ K2]. rewrite K2.
    destruct (Nat.eqb_spec g' g) as [->|N'].
    + rewrite E, Nat.eqb_refl. reflexivity.
    + destruct (Nat.eqb_spec (in_gun y) g'); [congruence|reflexivity].
  - intros H. cbn [find_gun]. rewrite (IH H).
    destruct (Nat.eqb_spec (in_gun y) g') as [E'|N'].
    + destruct (Nat.eqb_spec g' g); [congruence|reflexivity].
    + reflexivity.
Qed.

Lemma owns_other_false r g l :
  owns_other r g l = false -> forall x, In x l -> in_owner x = Some r -> in_gun x = g.
Proof.
  induction l as [|y rest IH]; cbn [owns_other]; intros H x Hin Ho; [contradiction|].
  apply orb_false_iff in H. destruct H as [H1 H2].
  destruct Hin as [->|Hin]; [|apply IH; assumption].
  rewrite Ho in H1. rewrite Nat.eqb_refl in H1. cbn in H1.
  destruct (Nat.eqb_spec (in_gun x) g); [assumption|discriminate].
Qed.

(* ---------- the invariant ---------- *)

Definition busy_of (g : nat) (l : list inst) : bool :=
  match find_gun g l with Some x => in_busy x | None => false end.

Record Inv (tr : list oev) (st : ost) : Prop := {
  inv_next : forall g, In g (makes_of tr) <-> g < o_next st;
  inv_makes : NoDup (makes_of tr);
  inv_unb : forall g, In g (o_unbound st) -> g < o_next st /\ ~ In g (map in_gun (o_insts st));
  inv_unb_nd : NoDup (o_unbound st);
  inv_gun_lt : forall x, In x (o_insts st) -> in_gun x < o_next st;
  inv_gun_nd : NoDup (map in_gun (o_insts st));
  inv_id_nd : NoDup (map in_id (o_insts st));
  inv_binds : binds_of tr = rev (map (fun x => (in_id x, in_gun x)) (o_insts st));
  inv_starts : forall r g, In (r, g) (starts_of tr) ->
                 exists x, In x (o_insts st) /\ in_gun x = g /\ in_owner x = Some r;
  inv_owner : forall x y r, In x (o_insts st) -> In y (o_insts st) ->
                 in_owner x = Some r -> in_owner y = Some r -> in_gun x = in_gun y;
  inv_alt : forall g, alt_run g false tr = Some (busy_of g (o_insts st))
}.

Lemma Inv_init : Inv [] oinit.
Proof.
  constructor; cbn; intros; try tauto; try constructor; try lia; try reflexivity.
Qed.

Lemma keeps_busy b : keeps (fun y => mkInst (in_id y) (in_gun y) (in_owner y) b).
Proof. intros y; split; reflexivity. Qed.
Lemma keeps_owner r b : keeps (fun y => mkInst (in_id y) (in_gun y) (Some r) b).
Proof. intros y; split; reflexivity. Qed.

Lemma In_update_keep g f l y : In y l -> in_gun y <> g -> In y (update_gun g f l).
Proof.
  induction l as [|x r IH]; cbn [update_gun]; intros Hin Hne; [contradiction|].
  destruct (Nat.eqb_spec (in_gun x) g) as [E|N].
  - destruct Hin as [->|Hin]; [congruence|right; exact Hin].
  - destruct Hin as [->|Hin]; [left; reflexivity|right; apply IH; assumption].
Qed.

Lemma In_update_target g f l x : find_gun g l = Some x -> In (f x) (update_gun g f l).
Proof.
  induction l as [|y r IH]; cbn [find_gun update_gun]; [discriminate|].
  destruct (Nat.eqb_spec (in_gun y) g) as [E|N].
  - intros H; injection H as <-. left; reflexivity.
  - intros H. right. apply IH. exact H.
Qed.

(* updating the record of gun g by f (which keeps id and gun, makes r the owner if there was
   none, and sets the busy flag) preserves the invariant for an event that is a Start/End of g *)
Lemma Inv_update tr st g x f r ev nb :
  Inv tr st -> find_gun g (o_insts st) = Some x -> keeps f ->
  makes_of [ev] = [] -> binds_of [ev] = [] ->
  (starts_of [ev] = [] \/ starts_of [ev] = [(r, g)]) ->
  in_owner (f x) = Some r -> (forall r0, in_owner x = Some r0 -> r0 = r) ->
  (forall y, In y (o_insts st) -> in_owner y = Some r -> in_gun y = g) ->
  in_busy (f x) = nb ->
  (forall g', alt_run g' (busy_of g' (o_insts st)) [ev] =
              Some (if Nat.eqb g' g then nb else busy_of g' (o_insts st))) ->
  Inv (tr ++ [ev]) (mkOst (o_next st) (o_unbound st) (update_gun g f (o_insts st))).
Proof.
  intros I Hf K Hmk Hbd Hst Hfo Hxo Hown Hfb Halt.
  destruct (find_gun_In _ _ _ Hf) as [Hxin Hxg].
  destruct (update_gun_ids g f (o_insts st) K) as [Eg Ei].
  constructor; cbn [o_next o_unbound o_insts];
    rewrite ?makes_of_app, ?binds_of_app, ?Hmk, ?Hbd, ?app_nil_r.
  - exact (inv_next _ _ I).
  - exact (inv_makes _ _ I).
  - rewrite Eg. exact (inv_unb _ _ I).
  - exact (inv_unb_nd _ _ I).
  - intros z Hz. destruct (In_update_gun g f _ z (inv_gun_nd _ _ I) Hz) as [[H1 _]|[y [H1 [H2 ->]]]].
    + exact (inv_gun_lt _ _ I z H1).
    + destruct (K y) as [_ K2]. rewrite K2. exact (inv_gun_lt _ _ I y H1).
  - rewrite Eg. exact (inv_gun_nd _ _ I).
  - rewrite Ei. exact (inv_id_nd _ _ I).
  - rewrite (update_gun_pairs g f _ K). exact (inv_binds _ _ I).
  - intros r0 g0 Hin. rewrite starts_of_app in Hin. apply in_app_or in Hin. destruct Hin as [Hin|Hin].
    + destruct (inv_starts _ _ I r0 g0 Hin) as [y [H1 [H2 H3]]].
      destruct (Nat.eq_dec g0 g) as [->|Hne].
      * assert (y = x) by (eapply find_gun_unique; eauto using (inv_gun_nd _ _ I)). subst y.
        rewrite (Hxo r0 H3). exists (f x). split; [apply In_update_target; exact Hf|].
        destruct (K x) as [_ K2]. split; [rewrite K2; exact Hxg|exact Hfo].
      * exists y. split; [apply In_update_keep; [exact H1|congruence]|split; assumption].
    + destruct Hst as [E|E]; rewrite E in Hin; [contradiction|].
      destruct Hin as [E'|[]]. injection E' as <- <-.
      exists (f x). split; [apply In_update_target; exact Hf|].
      destruct (K x) as [_ K2]. split; [rewrite K2; exact Hxg|exact Hfo].
  - intros z1 z2 r0 Hz1 Hz2 Ho1 Ho2.
    destruct (In_update_gun g f _ z1 (inv_gun_nd _ _ I) Hz1) as [[A1 A2]|[y1 [A1 [A2 ->]]]];
    destruct (In_update_gun g f _ z2 (inv_gun_nd _ _ I) Hz2) as [[B1 B2]|[y2 [B1 [B2 ->]]]].
    + exact (inv_owner _ _ I z1 z2 r0 A1 B1 Ho1 Ho2).
    + assert (y2 = x) by (eapply find_gun_unique; eauto using (inv_gun_nd _ _ I)). subst y2.
      rewrite Hfo in Ho2. injection Ho2 as <-. exfalso. apply A2. apply Hown; assumption.
    + assert (y1 = x) by (eapply find_gun_unique; eauto using (inv_gun_nd _ _ I)). subst y1.
      rewrite Hfo in Ho1. injection Ho1 as <-. exfalso. apply B2. apply Hown; assumption.
    + destruct (K y1) as [_ K1]. destruct (K y2) as [_ K2]. rewrite K1, K2. congruence.
  - intros g'. rewrite alt_run_app, (inv_alt _ _ I g'), (Halt g').
    unfold busy_of. rewrite (find_gun_update g f _ x g' K Hf).
    destruct (Nat.eqb g' g); [rewrite Hfb; reflexivity|reflexivity].
Qed.

Lemma Inv_step tr st e st' : Inv tr st -> ostep st e = Some st' -> Inv (tr ++ [e]) st'.
Proof.
  intros I H. destruct e as [g|i g|r g|r g]; cbn [ostep] in H.
  - (* OMake *)
    destruct (Nat.eqb_spec g (o_next st)) as [->|]; [|discriminate]. injection H as <-.
    constructor; cbn [o_next o_unbound o_insts];
      rewrite ?makes_of_app, ?binds_of_app, ?starts_of_app; cbn [makes_of binds_of starts_of]; rewrite ?app_nil_r.
    + intros g. rewrite in_app_iff, (inv_next _ _ I). cbn [In]. lia.
    + apply NoDup_app_one; [exact (inv_makes _ _ I)|]. rewrite (inv_next _ _ I). lia.
    + intros g [<-|Hin].
      * split; [lia|]. intros Hin. apply in_map_iff in Hin. destruct Hin as [x [Hx Hin]].
        pose proof (inv_gun_lt _ _ I x Hin). lia.
      * destruct (inv_unb _ _ I g Hin). split; [lia|assumption].
    + constructor; [|exact (inv_unb_nd _ _ I)]. intros Hin. destruct (inv_unb _ _ I _ Hin). lia.
    + intros x Hin. pose proof (inv_gun_lt _ _ I x Hin). lia.
    + exact (inv_gun_nd _ _ I).
    + exact (inv_id_nd _ _ I).
    + exact (inv_binds _ _ I).
    + exact (inv_starts _ _ I).
    + exact (inv_owner _ _ I).
    + intros g. rewrite alt_run_app, (inv_alt _ _ I g). reflexivity.
  - (* OBind *)
    destruct (mem_nat g (o_unbound st)) eqn:Hm; [|discriminate].
    destruct (has_id i (o_insts st)) eqn:Hid; [discriminate|]. injection H as <-.
    apply mem_nat_In in Hm. destruct (inv_unb _ _ I g Hm) as [Hlt Hnb].
    assert (Hnid : ~ In i (map in_id (o_insts st))).
    { clear -Hid. induction (o_insts st) as [|x l IH]; cbn in *; [tauto|].
      apply orb_false_iff in Hid. destruct Hid as [H1 H2]. apply Nat.eqb_neq in H1. intros [E|Hin]; [congruence|exact (IH H2 Hin)]. }
    destruct (NoDup_remove_nat g _ (inv_unb_nd _ _ I)) as [Hnd' Hng].
    constructor; cbn [o_next o_unbound o_insts];
      rewrite ?makes_of_app, ?binds_of_app, ?starts_of_app; cbn [makes_of binds_of starts_of]; rewrite ?app_nil_r.
    + exact (inv_next _ _ I).
    + exact (inv_makes _ _ I).
    + intros g' Hin. pose proof (In_remove_nat _ _ _ Hin) as Hin0. destruct (inv_unb _ _ I g' Hin0) as [H1 H2].
      split; [exact H1|]. cbn [map in_gun In]. intros [E|Hin']; [subst; contradiction|contradiction].
    + exact Hnd'.
    + intros x [<-|Hin]; [exact Hlt|exact (inv_gun_lt _ _ I x Hin)].
    + cbn [map in_gun]. constructor; [exact Hnb|exact (inv_gun_nd _ _ I)].
    + cbn [map in_id]. constructor; [exact Hnid|exact (inv_id_nd _ _ I)].
    + cbn [map rev in_id in_gun]. rewrite (inv_binds _ _ I). reflexivity.
    + intros r g' Hin. destruct (inv_starts _ _ I r g' Hin) as [x [H1 [H2 H3]]].
      exists x. split; [right; exact H1|split; assumption].
    + intros x y r [<-|Hx] [<-|Hy] Hox Hoy; cbn in Hox, Hoy; try discriminate; try reflexivity.
      exact (inv_owner _ _ I x y r Hx Hy Hox Hoy).
    + intros g'. rewrite alt_run_app, (inv_alt _ _ I g'). cbn [alt_run]. unfold busy_of. cbn [find_gun in_gun].
      destruct (Nat.eqb_spec g g') as [<-|]; [|reflexivity].
      destruct (find_gun g (o_insts st)) as [x|] eqn:Hf; [|reflexivity].
      exfalso. apply find_gun_In in Hf. destruct Hf as [Hf1 Hf2]. apply Hnb. rewrite <- Hf2. apply in_map. exact Hf1.
  - (* OStart *)
    destruct (find_gun g (o_insts st)) as [x|] eqn:Hf; [|discriminate].
    destruct (in_busy x) eqn:Hb; [discriminate|].
    destruct (find_gun_In _ _ _ Hf) as [Hxin Hxg].
    assert (Halt : forall g', alt_run g' (busy_of g' (o_insts st)) [OStart r g] =
                     Some (if Nat.eqb g' g then true else busy_of g' (o_insts st))).
    { intros g'. cbn [alt_run]. rewrite (Nat.eqb_sym g g').
      destruct (Nat.eqb_spec g' g) as [->|]; [|reflexivity].
      unfold busy_of. rewrite Hf, Hb. reflexivity. }
    destruct (in_owner x) as [r'|] eqn:Ho.
    + destruct (Nat.eqb_spec r' r) as [->|]; [|discriminate]. injection H as <-.
      eapply (Inv_update tr st g x _ r (OStart r g) true I Hf (keeps_busy true)); try reflexivity.
      * right; reflexivity.
      * cbn. exact Ho.
      * intros r0 E. congruence.
      * intros y Hy Hoy. rewrite <- Hxg. symmetry. exact (inv_owner _ _ I x y r Hxin Hy Ho Hoy).
      * exact Halt.
    + destruct (owns_other r g (o_insts st)) eqn:Hoo; [discriminate|]. injection H as <-.
      eapply (Inv_update tr st g x _ r (OStart r g) true I Hf (keeps_owner r true)); try reflexivity.
      * right; reflexivity.
      * intros r0 E. congruence.
      * intros y Hy Hoy. exact (owns_other_false r g _ Hoo y Hy Hoy).
      * exact Halt.
  - (* OEnd *)
    destruct (find_gun g (o_insts st)) as [x|] eqn:Hf; [|discriminate].
    destruct (in_busy x) eqn:Hb; [|discriminate].
    destruct (in_owner x) as [r'|] eqn:Ho; [|discriminate].
    destruct (Nat.eqb_spec r' r) as [->|]; [|discriminate]. injection H as <-.
    destruct (find_gun_In _ _ _ Hf) as [Hxin Hxg].
    eapply (Inv_update tr st g x _ r (OEnd r g) false I Hf (keeps_busy false)); try reflexivity.
    + left; reflexivity.
    + cbn. exact Ho.
    + intros r0 E. congruence.
    + intros y Hy Hoy. rewrite <- Hxg. symmetry. exact (inv_owner _ _ I x y r Hxin Hy Ho Hoy).
    + intros g'. cbn [alt_run]. rewrite (Nat.eqb_sym g g').
      destruct (Nat.eqb_spec g' g) as [->|]; [|reflexivity].
      unfold busy_of. rewrite Hf, Hb. reflexivity.
Qed.

Lemma Inv_run tr2 : forall tr1 st st', Inv tr1 st -> orun st tr2 = Some st' -> Inv (tr1 ++ tr2) st'.
Proof.
  induction tr2 as [|e r IH]; intros tr1 st st' I H; cbn [orun] in H.
  - injection H as <-. rewrite app_nil_r. exact I.
  - destruct (ostep st e) as [st1|] eqn:E; [|discriminate].
    replace (tr1 ++ e :: r) with ((tr1 ++ [e]) ++ r) by (rewrite <- app_assoc; reflexivity).
    eapply IH; [eapply Inv_step; eauto|exact H].
Qed.

(* The ownership theorem in trace form. *)
Lemma gun_exclusive tr st :
  orun oinit tr = Some st ->
  NoDup (makes_of tr) /\
  (forall i g g', In (i, g) (binds_of tr) -> In (i, g') (binds_of tr) -> g = g') /\
  (forall i i' g, In (i, g) (binds_of tr) -> In (i', g) (binds_of tr) -> i = i') /\
  (forall r g, In (r, g) (starts_of tr) -> exists i, In (i, g) (binds_of tr)) /\
  (forall r r' g, In (r, g) (starts_of tr) -> In (r', g) (starts_of tr) -> r = r') /\
  (forall r g g', In (r, g) (starts_of tr) -> In (r, g') (starts_of tr) -> g = g') /\
  (forall g, alt_run g false tr <> None).
Proof.
  intros H. pose proof (Inv_run tr [] oinit st Inv_init H) as I. cbn [app] in I.
  assert (Hb : forall i g, In (i, g) (binds_of tr) <-> exists x, In x (o_insts st) /\ in_id x = i /\ in_gun x = g).
  { intros i g. rewrite (inv_binds _ _ I), <- in_rev, in_map_iff. split.
    - intros [x [E Hin]]. injection E as <- <-. exists x. auto.
    - intros [x [Hin [<- <-]]]. exists x. auto. }
  split; [exact (inv_makes _ _ I)|].
  split.
  { intros i g g' H1 H2. apply Hb in H1. apply Hb in H2.
    destruct H1 as [x [Hx [Ex <-]]]. destruct H2 as [y [Hy [Ey <-]]].
    assert (x = y); [|subst; reflexivity].
    clear -Hx Hy Ex Ey I. pose proof (inv_id_nd _ _ I) as Hnd. subst i.
    induction (o_insts st) as [|z l IH]; [contradiction|]. cbn [map] in Hnd. inversion Hnd as [|a b Hn Hr]; subst.
    destruct Hx as [->|Hx], Hy as [->|Hy]; try reflexivity.
    - exfalso. apply Hn. rewrite <- Ey. apply in_map. exact Hy.
    - exfalso. apply Hn. rewrite Ey. apply in_map. exact Hx.
    - apply IH; assumption. }
  split.
  { intros i i' g H1 H2. apply Hb in H1. apply Hb in H2.
    destruct H1 as [x [Hx [<- Ex]]]. destruct H2 as [y [Hy [<- Ey]]].
    assert (x = y); [|subst; reflexivity].
    clear -Hx Hy Ex Ey I. pose proof (inv_gun_nd _ _ I) as Hnd. subst g.
    induction (o_insts st) as [|z l IH]; [contradiction|]. cbn [map] in Hnd. inversion Hnd as [|a b Hn Hr]; subst.
    destruct Hx as [->|Hx], Hy as [->|Hy]; try reflexivity.
    - exfalso. apply Hn. rewrite <- Ey. apply in_map. exact Hy.
    - exfalso. apply Hn. rewrite Ey. apply in_map. exact Hx.
    - apply IH; assumption. }
  split.
  { intros r g Hin. destruct (inv_starts _ _ I r g Hin) as [x [Hx [Eg _]]].
    exists (in_id x). apply Hb. exists x. auto. }
  split.
  { intros r r' g H1 H2.
    destruct (inv_starts _ _ I r g H1) as [x [Hx [Egx Eox]]].
    destruct (inv_starts _ _ I r' g H2) as [y [Hy [Egy Eoy]]].
    assert (x = y).
    { pose proof (inv_gun_nd _ _ I) as Hnd. clear -Hx Hy Egx Egy Hnd. subst g.
      induction (o_insts st) as [|z l IH]; [contradiction|]. cbn [map] in Hnd. inversion Hnd as [|a b Hn Hr]; subst.
      destruct Hx as [->|Hx], Hy as [->|Hy]; try reflexivity.
      - exfalso. apply Hn. rewrite <- Egy. apply in_map. exact Hy.
      - exfalso. apply Hn. rewrite Egy. apply in_map. exact Hx.
      - apply IH; assumption. }
    subst y. congruence. }
  split.
  { intros r g g' H1 H2.
    destruct (inv_starts _ _ I r g H1) as [x [Hx [<- Eox]]].
    destruct (inv_starts _ _ I r g' H2) as [y [Hy [<- Eoy]]].
    exact (inv_owner _ _ I x y r Hx Hy Eox Eoy). }
  intros g. rewrite (inv_alt _ _ I g). discriminate.
Qed.

(* ---------- meaning of the executable check exclusive_b ---------- *)

Lemma nodup_nat_NoDup l : nodup_nat l = true -> NoDup l.
Proof.
  induction l as [|x r IH]; cbn [nodup_nat]; intros H; constructor.
  - apply andb_prop in H. destruct H as [H _]. intros Hin. apply mem_nat_In in Hin. rewrite Hin in H. discriminate.
  - apply IH. apply andb_prop in H. tauto.
Qed.

Lemma NoDup_fst_functional (l : list (nat * nat)) :
  NoDup (map fst l) -> forall a b b', In (a, b) l -> In (a, b') l -> b = b'.
Proof.
  induction l as [|[x y] r IH]; cbn [map fst]; intros Hnd a b b' H1 H2; [contradiction|].
  inversion Hnd as [|p q Hn Hr]; subst.
  destruct H1 as [E1|H1], H2 as [E2|H2].
  - congruence.
  - injection E1 as -> ->. exfalso. apply Hn. change a with (fst (a, b')). apply in_map. exact H2.
  - injection E2 as -> ->. exfalso. apply Hn. change a with (fst (a, b)). apply in_map. exact H1.
  - eapply IH; eauto.
Qed.

Lemma NoDup_snd_functional (l : list (nat * nat)) :
  NoDup (map snd l) -> forall a a' b, In (a, b) l -> In (a', b) l -> a = a'.
Proof.
  induction l as [|[x y] r IH]; cbn [map snd]; intros Hnd a a' b H1 H2; [contradiction|].
  inversion Hnd as [|p q Hn Hr]; subst.
  destruct H1 as [E1|H1], H2 as [E2|H2].
  - congruence.
  - injection E1 as -> ->. exfalso. apply Hn. change b with (snd (a', b)). apply in_map. exact H2.
  - injection E2 as -> ->. exfalso. apply Hn. change b with (snd (a, b)). apply in_map. exact H1.
  - eapply IH; eauto.
Qed.

Lemma pairs_injective_sound l : pairs_injective l = true ->
  (forall a b b', In (a, b) l -> In (a, b') l -> b = b') /\
  (forall a a' b, In (a, b) l -> In (a', b) l -> a = a').
Proof.
  unfold pairs_injective. intros H. rewrite forallb_forall in H. split.
  - intros a b b' H1 H2. specialize (H _ H1). rewrite forallb_forall in H. specialize (H _ H2).
    cbn [fst snd] in H. rewrite Nat.eqb_refl in H. cbn in H. apply andb_prop in H. destruct H as [H _].
    apply Nat.eqb_eq. exact H.
  - intros a a' b H1 H2. specialize (H _ H1). rewrite forallb_forall in H. specialize (H _ H2).
    cbn [fst snd] in H. apply andb_prop in H. destruct H as [_ H]. rewrite Nat.eqb_refl in H. cbn in H.
    apply Nat.eqb_eq. exact H.
Qed.

Lemma alt_run_absent g tr b : ~ In g (guns_of tr) -> alt_run g b tr = Some b.
Proof.
  induction tr as [|e r IH]; cbn [alt_run guns_of flat_map]; intros H; [reflexivity|].
  assert (Hr : ~ In g (guns_of r)) by (intros X; apply H; apply in_or_app; right; exact X).
  destruct e as [g'|i g'|r' g'|r' g']; cbn [app In] in H; try (apply IH; exact Hr).
  - destruct (Nat.eqb_spec g' g) as [->|]; [exfalso; apply H; left; reflexivity|apply IH; exact Hr].
  - destruct (Nat.eqb_spec g' g) as [->|]; [exfalso; apply H; left; reflexivity|apply IH; exact Hr].
Qed.

Lemma exclusive_b_sound tr :
  exclusive_b tr = true ->
  NoDup (makes_of tr) /\
  (forall i g g', In (i, g) (binds_of tr) -> In (i, g') (binds_of tr) -> g = g') /\
  (forall i i' g, In (i, g) (binds_of tr) -> In (i', g) (binds_of tr) -> i = i') /\
  (forall r g, In (r, g) (starts_of tr) -> exists i, In (i, g) (binds_of tr)) /\
  (forall r r' g, In (r, g) (starts_of tr) -> In (r', g) (starts_of tr) -> r = r') /\
  (forall r g g', In (r, g) (starts_of tr) -> In (r, g') (starts_of tr) -> g = g') /\
  (forall g, alt_run g false tr <> None).
Proof.
  unfold exclusive_b. intros H.
  repeat (apply andb_prop in H; let H' := fresh "C" in destruct H as [H H']).
  split; [apply nodup_nat_NoDup; exact H|].
  split; [apply NoDup_fst_functional, nodup_nat_NoDup; exact C3|].
  split; [apply NoDup_snd_functional, nodup_nat_NoDup; exact C2|].
  split.
  { intros r g Hin. rewrite forallb_forall in C1. specialize (C1 _ Hin). cbn [snd] in C1.
    apply mem_nat_In in C1. apply in_map_iff in C1. destruct C1 as [[i g'] [E Hi]]. cbn in E. subst g'. exists i. exact Hi. }
  destruct (pairs_injective_sound _ C0) as [P1 P2].
  split; [intros r r' g; apply P2|]. split; [intros r g g'; apply P1|].
  intros g. destruct (in_dec Nat.eq_dec g (guns_of tr)) as [Hin|Hn].
  - rewrite forallb_forall in C. specialize (C _ Hin). unfold alternates in C.
    destruct (alt_run g false tr); [discriminate|discriminate].
  - rewrite (alt_run_absent g tr false Hn). discriminate.
Qed.
