(* Proofs about Model/StartAsync.v: asynchronous creation of the instances after the first one,
   creation failures as the cancel source InstanceFailed. *)
From Coq Require Import List ZArith Bool Arith Lia Permutation.
From PV Require Import Model.StartLoop Model.StartAsync Proofs.StartLoopProofs.
Import ListNotations.
Local Open Scope Z_scope.

Notation cnt := (count_occ Nat.eq_dec).

(* ------------------------------------------------------------------------------------ *)
(* facts about one step of the loop *)

Lemma sstep_started a s s' : sstep a s = Some s' ->
  (started s' = started s \/ started s' = (length (started s), clock s) :: started s)
  /\ clock s <= clock s' /\ (started s' <> started s -> clock s' = clock s)
  /\ (cancelled s <> None -> cancelled s' <> None).
Proof.
  intros H. destruct s as [p r st ln ck cn]. destruct a as [d|c|fail pc]; cbn in H.
  - destruct (Z.leb_spec 0 d); inversion H; subst; cbn. repeat split; auto; try lia. intros X; contradiction.
  - inversion H; subst; cbn. repeat split; auto; try lia. destruct cn; [auto|discriminate].
  - destruct p; cbn in H.
    + destruct cn; inversion H; subst; cbn; repeat split; auto; lia.
    + destruct r; inversion H; subst; cbn; repeat split; auto; lia.
    + destruct ln as [l|]; [destruct (tk <=? l); [destruct (l - tk <? max_overdue_ns)|]|]; inversion H; subst; cbn; repeat split; auto; lia.
    + destruct cn; [destruct ((tk <=? ck) && negb pc)|destruct (tk <=? ck)]; inversion H; subst; cbn;
        repeat split; auto; lia.
    + destruct ((length st =? 0)%nat && fail); inversion H; subst; cbn; repeat split; auto; lia.
    + discriminate.
Qed.

Lemma srun_app l1 : forall l2 s s1 s2,
  srun l1 s = Some s1 -> srun l2 s1 = Some s2 -> srun (l1 ++ l2) s = Some s2.
Proof.
  induction l1 as [|a r IH]; cbn [srun app]; intros l2 s s1 s2 H1 H2.
  - inversion H1; subst; exact H2.
  - destruct (sstep a s) as [s'|]; [|discriminate]. eapply IH; eauto.
Qed.

(* the base component of an asynchronous trace is a trace of the loop *)
Lemma astep_proj x a a' : astep x a = Some a' -> srun (aproj x) (base a) = Some (base a').
Proof.
  destruct x as [b|id ok|id]; cbn [astep aproj srun]; intros H.
  - destruct (sstep b (base a)) as [s'|]; [|discriminate].
    destruct (length (started s') =? S (length (started (base a))))%nat;
      [destruct (length (started (base a)) =? 0)%nat|]; inversion H; subst; reflexivity.
  - destruct (mem_nat id (pend a)); [|discriminate]. destruct ok; inversion H; subst; reflexivity.
  - destruct (mem_nat id (failq a)); [|discriminate].
    cbn [sstep] in *. inversion H; subst; reflexivity.
Qed.

Lemma arun_proj l : forall a a', arun l a = Some a' -> srun (flat_map aproj l) (base a) = Some (base a').
Proof.
  induction l as [|x r IH]; cbn [arun flat_map]; intros a a' H.
  - inversion H; subst; reflexivity.
  - destruct (astep x a) as [a1|] eqn:E; [|discriminate].
    eapply srun_app; [eapply astep_proj; eauto|eapply IH; eauto].
Qed.

Lemma in_proj c l : In (SCancel c) (flat_map aproj l) ->
  In (ABase (SCancel c)) l \/ (c = InstanceFailed /\ exists id, In (AAwait id) l).
Proof.
  induction l as [|x r IH]; cbn [flat_map]; intros H; [destruct H|].
  apply in_app_or in H. destruct H as [H|H].
  - destruct x as [b|id ok|id]; cbn in H.
    + destruct H as [H|[]]. subst. left; left; reflexivity.
    + destruct H.
    + destruct H as [H|[]]. inversion H; subst. right. split; [reflexivity|]. exists id. left; reflexivity.
  - destruct (IH H) as [A|(E & id & A)]; [left; right; exact A|].
    right. split; [exact E|]. exists id. right; exact A.
Qed.

(* ------------------------------------------------------------------------------------ *)
(* counting *)

Lemma mem_nat_In x l : mem_nat x l = true <-> In x l.
Proof.
  unfold mem_nat. rewrite existsb_exists. split.
  - intros (y & I & E). apply Nat.eqb_eq in E. subst; exact I.
  - intros I. exists x. split; [exact I|apply Nat.eqb_refl].
Qed.

Lemma cnt_remove x l y : In x l ->
  cnt l y = (cnt (remove_nat x l) y + (if Nat.eq_dec x y then 1 else 0))%nat.
Proof.
  induction l as [|z r IH]; intros I; [destruct I|].
  cbn [remove_nat]. destruct (Nat.eqb_spec x z) as [E|N].
  - subst z. cbn [count_occ]. destruct (Nat.eq_dec x y); lia.
  - destruct I as [I|I]; [congruence|]. specialize (IH I).
    cbn [count_occ]. destruct (Nat.eq_dec z y), (Nat.eq_dec x y); lia.
Qed.

Lemma in_fst_started id (st : list (nat * Z)) : In id (map fst st) -> exists c, In (id, c) st.
Proof. intros H. apply in_map_iff in H. destruct H as ([i c] & E & I). cbn in E; subst. exists c; exact I. Qed.

(* ------------------------------------------------------------------------------------ *)
(* invariant *)

Definition ainv (a : astate) : Prop :=
  (forall x, (cnt (pend a) x + cnt (live_ids a) x + cnt (failq a) x + cnt (failed a) x
              = cnt (map fst (started (base a))) x)%nat)
  /\ (forall id c, In (id, c) (live a) -> exists c0, In (id, c0) (started (base a)) /\ c0 <= c)
  /\ (forall id c0, In (id, c0) (started (base a)) -> c0 <= clock (base a))
  /\ (failed a <> [] -> cancelled (base a) <> None).

Lemma ainv_init toks t0 : ainv (ainit toks t0).
Proof.
  unfold ainv, ainit, live_ids; cbn. repeat split; auto; try (intros ? ? []); try (intros X; contradiction).
Qed.

Lemma ainv_step x a a' : ainv a -> astep x a = Some a' -> ainv a'.
Proof.
  intros (C & L & K & F) H. destruct x as [b|id ok|id]; cbn [astep] in H.
  - destruct (sstep b (base a)) as [s'|] eqn:E; [|discriminate].
    destruct (sstep_started _ _ _ E) as ([S0|S1] & Ck & Cs & Cn).
    + (* nothing launched *)
      rewrite S0, (proj2 (Nat.eqb_neq _ _)) in H by lia. inversion H; subst; clear H.
      unfold ainv, live_ids in *; cbn [base pend live failq failed]. rewrite S0.
      repeat split; auto. intros i c0 I. specialize (K i c0 I). lia.
    + assert (Ec : clock s' = clock (base a)) by (apply Cs; rewrite S1; intros X;
        apply (f_equal (@length _)) in X; cbn in X; lia).
      rewrite S1 in H. cbn [length] in H. rewrite Nat.eqb_refl in H.
      destruct (Nat.eqb_spec (length (started (base a))) 0) as [Z0|NZ]; inversion H; subst; clear H;
        unfold ainv, live_ids in *; cbn [base pend live failq failed map fst]; rewrite S1; cbn [map fst].
      * repeat split; auto.
        -- intros x. specialize (C x). cbn [count_occ]. destruct (Nat.eq_dec _ x); lia.
        -- intros i c [I|I].
           ++ inversion I; subst. exists (clock (base a)). split; [left; rewrite Z0; reflexivity|lia].
           ++ destruct (L i c I) as (c0 & I0 & Le). exists c0. split; [right; exact I0|exact Le].
        -- intros i c0 [I|I]; [inversion I; subst; lia|]. specialize (K i c0 I). lia.
      * repeat split; auto.
        -- intros x. specialize (C x). cbn [count_occ]. destruct (Nat.eq_dec _ x); lia.
        -- intros i c I. destruct (L i c I) as (c0 & I0 & Le). exists c0. split; [right; exact I0|exact Le].
        -- intros i c0 [I|I]; [inversion I; subst; lia|]. specialize (K i c0 I). lia.
  - destruct (mem_nat id (pend a)) eqn:M; [|discriminate]. apply mem_nat_In in M.
    assert (Hst : exists c0, In (id, c0) (started (base a))).
    { apply in_fst_started. apply (count_occ_In Nat.eq_dec). specialize (C id).
      apply (count_occ_In Nat.eq_dec) in M. lia. }
    destruct ok; inversion H; subst; clear H; unfold ainv, live_ids in *; cbn [base pend live failq failed map fst].
    + repeat split; auto.
      * intros x. specialize (C x). rewrite (cnt_remove id (pend a) x M) in C. cbn [count_occ].
        destruct (Nat.eq_dec id x); lia.
      * intros i c [I|I].
        -- inversion I; subst. destruct Hst as (c0 & I0). exists c0. split; [exact I0|apply (K _ _ I0)].
        -- apply L; exact I.
    + repeat split; auto.
      intros x. specialize (C x). rewrite (cnt_remove id (pend a) x M) in C. cbn [count_occ].
      destruct (Nat.eq_dec id x); lia.
  - destruct (mem_nat id (failq a)) eqn:M; [|discriminate]. apply mem_nat_In in M.
    cbn [sstep] in H. inversion H; subst; clear H.
    unfold ainv, live_ids in *; cbn [base pend live failq failed started clock cancelled].
    repeat split; auto.
    + intros x. specialize (C x). rewrite (cnt_remove id (failq a) x M) in C. cbn [count_occ].
      destruct (Nat.eq_dec id x); lia.
    + intros _. destruct (cancelled (base a)); discriminate.
Qed.

Lemma arun_inv l : forall a a', ainv a -> arun l a = Some a' -> ainv a'.
Proof.
  induction l as [|x r IH]; cbn [arun]; intros a a' I H.
  - inversion H; subst; exact I.
  - destruct (astep x a) as [a1|] eqn:E; [|discriminate]. eapply IH; [eapply ainv_step; eauto|exact H].
Qed.

(* ------------------------------------------------------------------------------------ *)
(* theorems *)

Section Async.
Variable toks : list Z.

Lemma launched_ids l t0 a : arun l (ainit toks t0) = Some a ->
  forall x, cnt (map fst (started (base a))) x = cnt (seq 0 (length (started (base a)))) x.
Proof.
  intros H x. apply arun_proj in H. cbn [ainit base] in H.
  destruct (ids_consecutive toks _ _ _ H) as [E _]. unfold creations in E.
  rewrite rev_length, map_rev in E. rewrite <- E. symmetry. apply count_occ_rev.
Qed.

(* ids: the instances that exist have pairwise distinct ids below the number of launched ones; with
   nothing in flight, they and the failed creations together are exactly 0..launched-1 *)
Theorem async_ids l t0 a : arun l (ainit toks t0) = Some a ->
  NoDup (live_ids a)
  /\ (forall id, In id (live_ids a) -> (id < length (started (base a)))%nat)
  /\ (quiescent a = true -> Permutation (live_ids a ++ failed a) (seq 0 (length (started (base a))))).
Proof.
  intros H. pose proof (arun_inv l _ _ (ainv_init toks t0) H) as (C & _).
  pose proof (launched_ids l t0 a H) as S.
  assert (U : forall x, (cnt (seq 0 (length (started (base a)))) x <= 1)%nat)
    by (apply NoDup_count_occ, seq_NoDup).
  split; [|split].
  - apply (NoDup_count_occ Nat.eq_dec). intros x. specialize (C x). specialize (U x). rewrite S in C. lia.
  - intros id I. apply (count_occ_In Nat.eq_dec) in I. specialize (C id). rewrite S in C.
    assert (In id (seq 0 (length (started (base a))))) by (apply (count_occ_In Nat.eq_dec); lia).
    apply in_seq in H0. lia.
  - intros Q. unfold quiescent in Q. destruct (pend a) eqn:P; [|discriminate]. destruct (failq a) eqn:FQ; [|discriminate].
    apply (Permutation_count_occ Nat.eq_dec). intros x. specialize (C x). rewrite S in C.
    rewrite count_occ_app. cbn in C. lia.
Qed.

(* an instance with id k exists only from the instant of token number k on *)
Theorem async_not_ahead l t0 a : arun l (ainit toks t0) = Some a ->
  forall id c, In (id, c) (live a) -> exists tk, nth_error toks id = Some tk /\ tk <= c.
Proof.
  intros H id c I. pose proof (arun_inv l _ _ (ainv_init toks t0) H) as (_ & L & _).
  destruct (L id c I) as (c0 & I0 & Le). apply arun_proj in H. cbn [ainit base] in H.
  destruct (created_after_token toks _ _ _ H id c0 I0) as (tk & N & T). exists tk. split; [exact N|lia].
Qed.

Lemma failed_awaited l : forall a a' id, arun l a = Some a' -> In id (failed a') ->
  In id (failed a) \/ In (AAwait id) l.
Proof.
  induction l as [|x r IH]; cbn [arun]; intros a a' id H I.
  - inversion H; subst. left; exact I.
  - destruct (astep x a) as [a1|] eqn:E; [|discriminate].
    destruct (IH _ _ _ H I) as [I1|I1]; [|right; right; exact I1].
    destruct x as [b|i ok|i]; cbn [astep] in E.
    + destruct (sstep b (base a)) as [s'|]; [|discriminate].
      destruct (length (started s') =? S (length (started (base a))))%nat;
        [destruct (length (started (base a)) =? 0)%nat|]; inversion E; subst; left; exact I1.
    + destruct (mem_nat i (pend a)); [|discriminate]. destruct ok; inversion E; subst; left; exact I1.
    + destruct (mem_nat i (failq a)); [|discriminate]. cbn [sstep] in E. inversion E; subst.
      destruct I1 as [I1|I1]; [subst; right; left; reflexivity|left; exact I1].
Qed.

(* a creation failure received by awaitRun has cancelled the start context *)
Theorem async_failure_cancels l t0 a : arun l (ainit toks t0) = Some a ->
  forall id, In id (failed a) -> cancelled (base a) <> None /\ In (AAwait id) l.
Proof.
  intros H id I. pose proof (arun_inv l _ _ (ainv_init toks t0) H) as (_ & _ & _ & F). split.
  - apply F. intros X. rewrite X in I. destruct I.
  - destruct (failed_awaited l _ _ id H I) as [[]|A]. exact A.
Qed.

(* ... and from then on the loop launches at most one more id, so at most one more instance appears
   among the ids not launched yet *)
Theorem async_cut_prompt l1 l2 t0 a a' : arun l1 (ainit toks t0) = Some a -> failed a <> [] ->
  arun l2 a = Some a' ->
  (length (started (base a')) <= length (started (base a)) + 1)%nat
  /\ (forall id, In id (live_ids a') -> (id <= length (started (base a)))%nat).
Proof.
  intros H1 F H2. pose proof (arun_inv l1 _ _ (ainv_init toks t0) H1) as (_ & _ & _ & Fc).
  assert (B : (length (started (base a')) <= length (started (base a)) + 1)%nat).
  { eapply cut_prompt; [apply Fc; exact F|apply arun_proj; exact H2]. }
  split; [exact B|]. intros id I.
  assert (H : arun (l1 ++ l2) (ainit toks t0) = Some a').
  { clear - H1 H2. revert H1. generalize (ainit toks t0). induction l1 as [|x r IH]; cbn [arun app]; intros a0 H1.
    - inversion H1; subst; exact H2.
    - destruct (astep x a0); [apply IH; exact H1|discriminate]. }
  destruct (async_ids _ _ _ H) as (_ & Lt & _). specialize (Lt id I). lia.
Qed.

(* the loop has ended, nothing is in flight: every launched id is an instance or a received failure;
   all tokens became instances if the profile was exhausted and no creation failed; fewer instances
   than tokens only with the start context cancelled by a labelled source of the trace (a creation
   failure being one: AAwait), or the first instance not created *)
Theorem async_all_tokens l t0 a e : arun l (ainit toks t0) = Some a ->
  spc (base a) = LEnd e -> quiescent a = true ->
  (length (live a) + length (failed a) = length (started (base a)))%nat
  /\ (e = EExhausted -> failed a = [] -> Permutation (live_ids a) (seq 0 (length toks)))
  /\ ((length (live a) < length toks)%nat ->
      (exists c, e = ECancelled c /\ cancelled (base a) = Some c
                 /\ (In (ABase (SCancel c)) l \/ (c = InstanceFailed /\ exists id, In (AAwait id) l)))
      \/ (e = EFirstCreateFailed /\ live a = [])
      \/ (e = EExhausted /\ failed a <> [] /\ cancelled (base a) <> None
          /\ exists id, In id (failed a) /\ In (AAwait id) l)).
Proof.
  intros H E Q. destruct (async_ids l t0 a H) as (_ & _ & P). specialize (P Q).
  pose proof (arun_proj _ _ _ H) as Hs. cbn [ainit base] in Hs.
  destruct (all_tokens toks _ _ _ _ Hs E) as [Ex Lt].
  assert (Len : (length (live a) + length (failed a) = length (started (base a)))%nat).
  { apply Permutation_length in P. rewrite app_length, seq_length in P. unfold live_ids in P.
    rewrite map_length in P. exact P. }
  split; [exact Len|split].
  - intros Ee Fe. rewrite Fe, app_nil_r in P. rewrite <- (Ex Ee). exact P.
  - intros Hlt. destruct (Nat.lt_ge_cases (length (started (base a))) (length toks)) as [Hs1|Hs1].
    + destruct (Lt Hs1) as [(c & Ec & Cc)|(Ef & St)].
      * left. exists c. repeat split; auto. apply in_proj. eapply cancel_source; eauto.
      * right; left. split; [exact Ef|]. rewrite St in Len. cbn in Len. destruct (live a); [reflexivity|discriminate].
    + assert (Fne : failed a <> []) by (intros X; rewrite X in Len; cbn in Len; lia).
      destruct (failed a) as [|id fr] eqn:Fa; [contradiction|].
      assert (I : In id (failed a)) by (rewrite Fa; left; reflexivity).
      destruct (async_failure_cancels l t0 a H id I) as [Cn Aw].
      destruct e as [|c|].
      * right; right. repeat split; auto. exists id. split; [left; reflexivity|exact Aw].
      * left. pose proof (srun_inv toks _ _ _ (sinv_init toks t0) Hs) as (I1 & _). rewrite E in I1.
        exists c. repeat split; auto. apply in_proj. eapply cancel_source; eauto.
      * pose proof (srun_inv toks _ _ _ (sinv_init toks t0) Hs) as (I1 & _). rewrite E in I1. lia.
Qed.

End Async.
