(* Proofs about Model/StartWaiter.v: the Waiter's lateness bookkeeping does not influence the start
   loop, the loop's Wait is the Waiter model of C04 (which is bridged to waiter.go), and the
   "catch up" release rule is told apart. *)
From Coq Require Import List ZArith Bool Arith Lia.
From PV Require Import Model.StartLoop Model.StartWaiter Proofs.StartLoopProofs.
From PV Require Model.Waiter.
Import ListNotations.
Local Open Scope Z_scope.

(* the code's step is the loop's step, whatever the overdue value *)
Lemma wl_code_is_loop a s ov s' ov' :
  wlstep false a (s, ov) = Some (s', ov') -> sstep a s = Some s'.
Proof.
  unfold wlstep. destruct a as [d|c|fail pc].
  - destruct (sstep (STick d) s); intros H; inversion H; reflexivity.
  - destruct (sstep (SCancel c) s); intros H; inversion H; reflexivity.
  - destruct s as [p r st ln ck cn]. cbn [spc rest started lastNow clock cancelled sstep set_spc].
    destruct p as [| |tk|tk|tk|e].
    + destruct cn; intros H; inversion H; reflexivity.
    + destruct r; intros H; inversion H; reflexivity.
    + unfold release_now.
      assert (E1 : forall x, (tk - x <=? 0) = (tk <=? x)).
      { intros x. destruct (Z.leb_spec (tk - x) 0), (Z.leb_spec tk x); try reflexivity; lia. }
      rewrite E1. destruct ln as [l|].
      * rewrite E1. destruct (tk <=? l).
        -- destruct (l - tk <? max_overdue_ns); intros H; inversion H; reflexivity.
        -- destruct (tk <=? ck); intros H; inversion H; reflexivity.
      * destruct (tk <=? ck); intros H; inversion H; reflexivity.
    + match goal with |- context [match ?x with Some _ => _ | None => None end] => destruct x end;
        intros H; inversion H; reflexivity.
    + match goal with |- context [match ?x with Some _ => _ | None => None end] => destruct x end;
        intros H; inversion H; reflexivity.
    + intros H; discriminate.
Qed.

Lemma wlrun_code_is_loop l : forall s ov s' ov',
  wlrun false l (s, ov) = Some (s', ov') -> srun l s = Some s'.
Proof.
  induction l as [|a r IH]; cbn [wlrun srun]; intros s ov s' ov' H.
  - inversion H; reflexivity.
  - destruct (wlstep false a (s, ov)) as [[s1 ov1]|] eqn:E; [|discriminate].
    rewrite (wl_code_is_loop _ _ _ _ _ E). eapply IH; exact H.
Qed.

(* hence: with the overdue bookkeeping running underneath, instances are never ahead of the profile *)
Theorem wl_not_ahead toks l t0 s ov :
  wlrun false l (wlinit toks t0) = Some (s, ov) ->
  (forall t, (started_by t s <= released_by t toks)%nat)
  /\ (forall id c, In (id, c) (started s) -> exists tk, nth_error toks id = Some tk /\ tk <= c).
Proof.
  intros H. apply wlrun_code_is_loop in H.
  split; [apply (not_ahead toks l t0 s H)|apply (created_after_token toks l t0 s H)].
Qed.

(* the overdue value is a lateness: never negative *)
Lemma wl_overdue_step toks a s ov s' ov' :
  sinv toks s -> 0 <= ov -> wlstep false a (s, ov) = Some (s', ov') -> 0 <= ov'.
Proof.
  intros I Hov. destruct I as (_ & I2 & _). unfold wlstep. destruct a as [d|c|fail pc].
  - destruct (sstep (STick d) s); intros HH; inversion HH; subst; exact Hov.
  - destruct (sstep (SCancel c) s); intros HH; inversion HH; subst; exact Hov.
  - destruct s as [p r st ln ck cn]. cbn [spc rest started lastNow clock cancelled set_spc] in *.
    destruct p as [| |tk|tk|tk|e].
    + destruct cn; intros HH; inversion HH; subst; lia.
    + destruct r; intros HH; inversion HH; subst; lia.
    + unfold release_now. destruct ln as [l|].
      * destruct (Z.leb_spec (tk - l) 0).
        -- destruct (l - tk <? max_overdue_ns); intros HH; inversion HH; subst; lia.
        -- destruct (Z.leb_spec (tk - ck) 0); intros HH; inversion HH; subst; lia.
      * destruct (Z.leb_spec (tk - ck) 0); intros HH; inversion HH; subst; lia.
    + match goal with |- context [match ?x with Some _ => _ | None => None end] => destruct x end;
        intros HH; inversion HH; subst; exact Hov.
    + match goal with |- context [match ?x with Some _ => _ | None => None end] => destruct x end;
        intros HH; inversion HH; subst; exact Hov.
    + intros H; discriminate.
Qed.

Theorem wl_overdue_nonneg toks l t0 s ov :
  wlrun false l (wlinit toks t0) = Some (s, ov) -> 0 <= ov.
Proof.
  unfold wlinit. assert (G : forall l s0 ov0 s ov, sinv toks s0 -> 0 <= ov0 ->
    wlrun false l (s0, ov0) = Some (s, ov) -> 0 <= ov).
  { clear. induction l as [|a r IH]; cbn [wlrun]; intros s0 ov0 s ov I Hov H.
    - inversion H; subst; exact Hov.
    - destruct (wlstep false a (s0, ov0)) as [[s1 ov1]|] eqn:E; [|discriminate].
      eapply (IH s1 ov1); [| |exact H].
      + eapply sinv_step; [exact I|eapply wl_code_is_loop; exact E].
      + eapply wl_overdue_step; eauto. }
  intros H. eapply G; [apply sinv_init| |exact H]. lia.
Qed.

(* the loop's Wait at the point where it holds a token IS Model/Waiter.v [wait wfixed] (the function
   Gen/GoFnWaiter_bridge.v proves equal to waiter.go Waiter.Wait): same cached reading and overdue
   afterwards, and the loop goes to its sleep section exactly when that Wait takes its timer branch *)
Definition wcall_of (s : sstate) (tk : Z) (cancel_in_sleep : bool) (wake : Z) : Waiter.wcall :=
  {| Waiter.c_ctx_done := false; Waiter.c_tok := Some tk; Waiter.c_now := clock s;
     Waiter.c_cancel_in_sleep := cancel_in_sleep; Waiter.c_wake := wake |}.

Theorem wl_have_is_waiter s ov tk fail pc b wake s' ov' :
  spc s = LHave tk ->
  wlstep false (SLoop fail pc) (s, ov) = Some (s', ov') ->
  let (st', o) := Waiter.wait Waiter.wfixed {| Waiter.lastNow := lastNow s; Waiter.overdue := ov |}
                              (wcall_of s tk b wake) in
  Waiter.lastNow st' = lastNow s' /\ Waiter.overdue st' = ov'
  /\ (spc s' = LSleep tk <-> (Waiter.w_slept o || negb (Waiter.w_ok o)) = true)
  /\ (spc s' = LCreate tk <-> (Waiter.w_slept o || negb (Waiter.w_ok o)) = false).
Proof.
  intros P. unfold wlstep. destruct s as [p r st ln ck cn].
  cbn [spc rest started lastNow clock cancelled set_spc] in *. subst p.
  unfold Waiter.wait, wcall_of, release_now, Waiter.max_overdue, max_overdue_ns.
  cbn [Waiter.c_ctx_done Waiter.c_tok Waiter.c_now Waiter.c_cancel_in_sleep Waiter.lastNow Waiter.overdue clock lastNow].
  destruct ln as [l|].
  - destruct (tk - l <=? 0).
    + destruct (l - tk <? 2000000000); intros H; inversion H; subst;
        cbn [spc lastNow Waiter.lastNow Waiter.overdue Waiter.w_slept Waiter.w_ok negb orb];
        (split; [reflexivity|split; [reflexivity|split; split; intros X; try discriminate; reflexivity]]).
    + destruct (tk - ck <=? 0); intros H; inversion H; subst;
        cbn [spc lastNow Waiter.lastNow Waiter.overdue Waiter.w_slept Waiter.w_ok negb orb].
      * split; [reflexivity|split; [lia|split; split; intros X; try discriminate; reflexivity]].
      * split; [reflexivity|split; [reflexivity|]]. destruct b; cbn; split; split; intros X; try discriminate; reflexivity.
  - destruct (tk - ck <=? 0); intros H; inversion H; subst;
      cbn [spc lastNow Waiter.lastNow Waiter.overdue Waiter.w_slept Waiter.w_ok negb orb].
    + split; [reflexivity|split; [lia|split; split; intros X; try discriminate; reflexivity]].
    + split; [reflexivity|split; [reflexivity|]]. destruct b; cbn; split; split; intros X; try discriminate; reflexivity.
Qed.
