(* Link L2/L3 under CONCURRENT instances: the joint system
       C03 instances (sections of Model/Instance.v, Waiter of C04)  x  nested schedule sections (Model/SchedNested.v).

   Proofs/LinkEngine.v composes the instance sections with the ABSTRACT token stream, one atomic
   step per schedule operation (Left() in the Check section, Next() inside Wait).  Here the
   shared schedule is the real tree of composites and a schedule operation of an instance is NOT
   atomic: it is a sequence of [nsec] steps of that instance's thread (its pc [jq] inside the
   tree), interleaved with the schedule steps of the other instances AND with their
   non-schedule sections (Acquire, decision, Shoot, Response, Release).

   An instance whose C03 pc is Check (resp. Wait a) runs Left (resp. Next) on the tree:
     KSched i now w   one [nsec] step of instance i's schedule operation, reading clock [now]
                      (blocked when [nsec] is: write lock wanted while another instance holds the
                      read lock).  When the step makes the operation RETURN, the answer is stored
                      ([jres]), and for Next the two accounting fields of the C03 state that
                      belong to the schedule are updated: [stoks] (tokens left, a ghost of the
                      stream) or [unfired] (Next calls that found no token).  [w] is the world
                      (Model/Waiter.v: entry instant, timer behaviour) the Wait call of this
                      instance meets after Next has returned; it is an oracle input that only
                      concerns the instance's own Waiter (no other instance reads it), and it is
                      fixed in the step in which Next returns so that the atomic engine can take
                      its whole Wait section at that point; admissibility ([world_ok]: monotone
                      clock, timers never early, no cancellation - the assumptions of L3) is
                      required there; w_clock w = now.
     KInst i          a section of instance i.  At Check / Wait it CONSUMES the stored answer
                      (only instance-local state changes: the pc, the Waiter, the pending ghost);
                      every other section is the section of Model/Instance.v with the oracle bit
                      = IsSlowDown of the instance's own Waiter, exactly as [cstep_inst].
     KSpawn / KClose  the start loop.
   Shared mode (one schedule for the pool, [per_inst c = false]); with rps-per-instance nothing is
   shared and every schedule operation runs alone (Proofs/LinkConcProofs.v, [solo_run_is_counter]).
   Definitions only; the simulation proof is in Proofs/LinkConcProofs.v. *)
From Coq Require Import List ZArith Bool Arith Lia.
From PV Require Import Model.SchedTree Model.SchedConc Model.SchedNested.
From PV Require Import Model.Waiter Proofs.WaiterProofs.
From PV Require Import Model.Instance Proofs.InstanceProofs Proofs.LinkEngine.
Import ListNotations.

(* the answer of a finished schedule operation, not consumed yet *)
Inductive sres : Type :=
| SRL (v : Z)                          (* Left() = v *)
| SRN (t : Z) (ok : bool) (w : world). (* Next() = (t, ok); the world of the Wait call that made it *)

(* per instance: pc inside the schedule operation in progress, answer waiting to be consumed *)
Record jthr : Type := mkJT { jq : npc; jres : option sres }.

Definition jn (t : jthr) : nthread := {| n_pc := jq t; n_todo := []; n_hist := [] |}.

Record kstate : Type := mkK {
  k_s : state;               (* the C03 state: counters, log, the instances' pcs *)
  k_aux : nat -> aux;        (* the instances' Waiters (and the pending ghost of L3) *)
  k_shots : list shotrec;    (* ghost of L3: one record per decision *)
  k_tree : sched;            (* the shared schedule: a tree of composites, each with its own lock *)
  k_lo : Z;                  (* last clock value read by a schedule step *)
  k_thr : list jthr
}.

(* the schedule operation an instance section needs *)
Definition sched_op (p : ipc) : option op :=
  match p with Check => Some SchedTree.OLeft | Wait _ => Some SchedTree.ONext | _ => None end.

(* the schedule's accounting in the C03 state when Next returns *)
Definition tally (ok : bool) (s : shared) : shared :=
  if ok then mkSh (pred (stoks s)) (ammo s) (acquired s) (released s) (fired s) (discarded s) (unfired s)
                  (request s) (response s) (log s)
  else mkSh (stoks s) (ammo s) (acquired s) (released s) (fired s) (discarded s) (S (unfired s))
            (request s) (response s) (log s).

Definition set_thr (k : kstate) (s : state) (tree : sched) (lo : Z) (i : nat) (t : jthr) : kstate :=
  mkK s (k_aux k) (k_shots k) tree lo (Instance.upd (k_thr k) i t).

Definition ksched (fuel : nat) (i : nat) (now : Z) (w : world) (k : kstate) : option kstate :=
  match nth_error (insts (k_s k)) i, nth_error (k_thr k) i with
  | Some x, Some th =>
      match sched_op (pc x), jres th with
      | Some o, None =>
          if (k_lo k <=? now)%Z then
            match nsec fuel now o (others_depth i (map jn (k_thr k))) (jq th) (k_tree k) with
            | Some (Ok (tree', NGoto q)) => Some (set_thr k (k_s k) tree' now i (mkJT q None))
            | Some (Ok (tree', NRetL v)) => Some (set_thr k (k_s k) tree' now i (mkJT QIdle (Some (SRL v))))
            | Some (Ok (tree', NRetN t ok)) =>
                if (w_clock w =? now)%Z && world_ok (ax_w (k_aux k i)) w (if ok then Some t else None) then
                  Some (set_thr k (mkSt (tally ok (sh (k_s k))) (insts (k_s k)) (start_open (k_s k)))
                                tree' now i (mkJT QIdle (Some (SRN t ok w))))
                else None
            | _ => None
            end
          else None
      | _, _ => None
      end
  | _, _ => None
  end.

(* what consuming an answer does to the instance: only instance-local state *)
Definition consume_inst (x : inst) (r : sres) : inst :=
  match r with
  | SRL v => set_pc x (if (v =? 0)%Z then Done else Acq)
  | SRN t ok w => match pc x with Wait a => set_pc x (if ok then Dec a else Rel a) | _ => x end
  end.

Definition consume_aux (ax : aux) (r : sres) : aux :=
  match r with
  | SRL _ => ax
  | SRN t ok w =>
      let rr := wait wfixed (ax_w ax) (w_call w) in
      mkAux (ax_its ax) (ax_fin ax) (fst rr)
            (if ok then Some (t, w_enter w, return_lower (w_enter w) (w_call w) (snd rr)) else None)
  end.

Definition res_fits (p : ipc) (r : sres) : Prop :=
  match r, p with SRL _, Check => True | SRN _ _ _, Wait _ => True | _, _ => False end.

Definition kinst (c : cfg) (i : nat) (k : kstate) : option kstate :=
  match nth_error (insts (k_s k)) i, nth_error (k_thr k) i with
  | Some x, Some th =>
      let s := k_s k in
      match pc x with
      | Check =>
          match jres th with
          | Some (SRL v) =>
              Some (mkK (mkSt (sh s) (Instance.upd (insts s) i (consume_inst x (SRL v))) (start_open s))
                        (k_aux k) (k_shots k) (k_tree k) (k_lo k) (Instance.upd (k_thr k) i (mkJT (jq th) None)))
          | _ => None
          end
      | Wait a =>
          match jres th with
          | Some (SRN t ok w) =>
              Some (mkK (mkSt (sh s) (Instance.upd (insts s) i (consume_inst x (SRN t ok w))) (start_open s))
                        (set_aux (k_aux k) i (consume_aux (k_aux k i) (SRN t ok w)))
                        (k_shots k) (k_tree k) (k_lo k) (Instance.upd (k_thr k) i (mkJT (jq th) None)))
          | _ => None
          end
      | _ =>
          let slow := is_slow_down (ax_w (k_aux k i)) in
          match local_step c i slow (sh s) x with
          | Some (sh', x') =>
              Some (mkK (mkSt sh' (Instance.upd (insts s) i x') (start_open s)) (k_aux k)
                        (match pc x with
                         | Dec a => mkshot i a (ax_pend (k_aux k i)) (decide (discard_overflow c) slow) :: k_shots k
                         | _ => k_shots k
                         end)
                        (k_tree k) (k_lo k) (k_thr k))
          | None => None
          end
      end
  | _, _ => None
  end.

Definition kspawn (c : cfg) (fl : list sched) (k : kstate) : option kstate :=
  match spawn c (k_s k) with
  | Some s' =>
      Some (mkK s' (set_aux (k_aux k) (length (insts (k_s k)))
                            (mkAux (fst (items_from 0 fl)) (snd (items_from 0 fl)) wstate_init None))
                (k_shots k) (k_tree k) (k_lo k) (k_thr k ++ [mkJT QIdle None]))
  | None => None
  end.

Inductive kaction : Type :=
| KSpawn | KClose
| KSched (i : nat) (now : Z) (w : world)
| KInst (i : nat).

Definition kapply (c : cfg) (fl : list sched) (fuel : nat) (a : kaction) (k : kstate) : option kstate :=
  match a with
  | KSpawn => kspawn c fl k
  | KClose => Some (mkK (close_start (k_s k)) (k_aux k) (k_shots k) (k_tree k) (k_lo k) (k_thr k))
  | KSched i now w => ksched fuel i now w k
  | KInst i => kinst c i k
  end.

Fixpoint krun (c : cfg) (fl : list sched) (fuel : nat) (l : list kaction) (k : kstate) : option kstate :=
  match l with
  | [] => Some k
  | a :: r => match kapply c fl fuel a k with Some k' => krun c fl fuel r k' | None => None end
  end.

Definition kinit (c : cfg) (tree : sched) (lo0 : Z) : kstate :=
  mkK (init c) (fun _ => mkAux [] 0 wstate_init None) [] tree lo0 [].

(* all interleavings *)
Inductive kreach (c : cfg) (fl : list sched) (fuel : nat) (k0 : kstate) : kstate -> Prop :=
| kreach_init : kreach c fl fuel k0 k0
| kreach_step k a k' : kreach c fl fuel k0 k -> kapply c fl fuel a k = Some k' -> kreach c fl fuel k0 k'.

(* a schedule step of some instance panics or runs out of fuel *)
Definition kstuck (fuel : nat) (k : kstate) : Prop :=
  exists i x th o now, nth_error (insts (k_s k)) i = Some x /\ nth_error (k_thr k) i = Some th /\
    sched_op (pc x) = Some o /\ jres th = None /\ (k_lo k <= now)%Z /\
    match nsec fuel now o (others_depth i (map jn (k_thr k))) (jq th) (k_tree k) with
    | Some (Ok _) | None => False
    | Some _ => True
    end.
