(* C02, nested composites under concurrency: the theorem and its consequences. *)
From Coq Require Import List ZArith Bool Arith Lia.
From PV Require Import Model.SchedTree Model.SchedConc Model.SchedNested
  Proofs.SchedTreeProofs Proofs.SchedTreeSeq Proofs.SchedTreeRun Proofs.SchedTreeSpec
  Proofs.SchedConcSections Proofs.SchedConcProofs Proofs.SchedConcCor
  Proofs.SchedNestedSections Proofs.SchedNestedSteps Proofs.SchedNestedProofs.
Import ListNotations.
Local Open Scope Z_scope.

Definition nconc_conclusion (fuel : nat) (c0 : sched) (lo0 : Z) (ths : list nthread) (st : nistate) : Prop :=
  (* no step of any thread panics or exhausts its recursion budget *)
  ~ ngstuck fuel (ni_g st) /\
  (* the ghost history (operations in the order of their linearisation points, each taken during a
     step of the operation itself, with the clock value read there) is a legal sequential history
     of the abstract token stream of the flattened tree *)
  run_abs (a_init (flatten c0)) (map evt (ni_log st)) = map eres (ni_log st) /\
  clock_ok lo0 (map evt (ni_log st)) /\ Forall nopanic (map eres (ni_log st)) /\
  (* every thread obtained exactly the results of its own operations in that history, in program order *)
  (forall i th, nth_error (ng_threads (ni_g st)) i = Some th ->
     n_hist th = proj i (ni_log st) /\ proj_ops i (ni_log st) ++ n_todo th = ntodo_of ths i) /\
  (* all Next results, over all threads, are the successive answers of the stream started at some instant p *)
  (exists p, next_results (map eres (ni_log st)) =
             nexts (next_nows (map evt (ni_log st)))
                   (snd (items_from p (flatten c0))) (fst (items_from p (flatten c0)))).

Lemma nconc_from_inv fuel c0 lo0 ths st0 st :
  NInv fuel (a_init (flatten c0)) lo0 (ntodo_of ths) st0 -> nireach fuel st0 st ->
  nconc_conclusion fuel c0 lo0 ths st.
Proof.
  intros I0 R. pose proof (ninv_reach _ _ _ _ _ _ I0 R) as I.
  split; [eapply ninv_safe; eauto|].
  pose proof (ninv_legal _ _ _ _ _ I []) as Lg. rewrite !app_nil_r in Lg. cbn [run_abs] in Lg. try rewrite app_nil_r in Lg.
  split; [exact Lg|]. split; [eapply clock_upto_ok, ninv_clock; eauto|]. split; [eapply ninv_nopanic; eauto|].
  split; [eapply ninv_hist; eauto|].
  rewrite <- Lg. apply (run_abs_nexts (map evt (ni_log st)) (a_init (flatten c0)) eq_refl).
  rewrite Lg. eapply ninv_nopanic; eauto.
Qed.

(* any tree of composites and leaves, any number of threads, any programs, every interleaving *)
Theorem conc_nested fuel c0 lo0 ths st :
  fresh c0 -> comp_len c0 <> 0%nat -> (size c0 <= S fuel)%nat -> ninit_threads ths ->
  nireach fuel {| ni_g := {| ng_c := c0; ng_lo := lo0; ng_threads := ths |};
                  ni_a := a_init (flatten c0); ni_log := [] |} st ->
  nconc_conclusion fuel c0 lo0 ths st.
Proof. intros F NZ Sz It R. eapply nconc_from_inv; [apply ninv_init; eauto|exact R]. Qed.

(* the same when the schedule was started by Start(t0) before the callers run *)
Theorem conc_nested_started fuel c0 c1 lo0 t0 ths st :
  fresh c0 -> comp_len c0 <> 0%nat -> (size c0 <= S fuel)%nat -> ninit_threads ths ->
  s_start t0 c0 = Ok c1 ->
  nireach fuel {| ni_g := {| ng_c := c1; ng_lo := lo0; ng_threads := ths |};
                  ni_a := a_start t0 (a_init (flatten c0));
                  ni_log := [(0%nat, (lo0, OStart t0), RStart)] |} st ->
  nconc_conclusion fuel c0 lo0 ths st.
Proof. intros F NZ Sz It E R. eapply nconc_from_inv; [eapply ninv_init_started; eauto|exact R]. Qed.

(* from the configuration: whatever the constructors build *)
Theorem conc_nested_cfg cfg fuel now0 :
  (size_cfg cfg <= S fuel)%nat ->
  exists c0, build (S fuel) now0 cfg = Ok c0 /\ flatten c0 = flatten_cfg cfg /\
    (comp_len c0 <> 0%nat -> forall lo0 ths st, ninit_threads ths ->
       nireach fuel {| ni_g := {| ng_c := c0; ng_lo := lo0; ng_threads := ths |};
                       ni_a := a_init (flatten_cfg cfg); ni_log := [] |} st ->
       nconc_conclusion fuel c0 lo0 ths st).
Proof.
  intros L. destruct (build_ok cfg (S fuel) now0 L) as (c0 & E & F & Fl & Sz).
  exists c0. split; [exact E|]. split; [exact Fl|]. intros NZ lo0 ths st It R. rewrite <- Fl in R.
  apply conc_nested; auto. lia.
Qed.

(* the nested semantics on a composite whose head is a leaf IS the flat semantics of SchedConc.v *)
Lemma nsec_flat fuel now o p h r la cs :
  is_comp h = false ->
  nsec fuel now o 0 (lift_pc p) (Comp (h :: r) la cs) =
  match thread_section fuel now (Comp (h :: r) la cs) {| t_pc := p; t_todo := [o]; t_hist := [] |} with
  | Some x => Some (lift_res x)
  | None => None
  end.
Proof.
  intros IC. unfold thread_section. cbn [t_todo t_pc].
  destruct p as [|tx k|k]; destruct o as [t| |]; cbn [lift_pc nsec]; rewrite ?IC; reflexivity.
Qed.

(* ---------- consequences ---------- *)
Theorem nconc_exactly_once fuel c0 lo0 ths st :
  nconc_conclusion fuel c0 lo0 ths st -> existsb unknown_part (flatten c0) = false ->
  exists p, let its := fst (items_from p (flatten c0)) in let f := snd (items_from p (flatten c0)) in
    let n := length (next_nows (map evt (ni_log st))) in
    next_results (map eres (ni_log st)) =
    firstn n (map (fun x => (tok_time x, true)) its) ++ repeat (f, false) (n - length its).
Proof.
  intros (_ & _ & _ & _ & _ & p & E) U. exists p. cbn zeta. rewrite E.
  apply nexts_tokens. apply flatten_no_unknown_items. exact U.
Qed.

Theorem nconc_thread_mono fuel c0 lo0 ths st :
  nconc_conclusion fuel c0 lo0 ths st ->
  Forall leaf_ok (flatten c0) -> Forall unstarted (flatten c0) ->
  exists p, forall i th, nth_error (ng_threads (ni_g st)) i = Some th ->
    nondecr p (next_results (n_hist th)).
Proof.
  intros (_ & _ & C & _ & H & p & E) Lk Un. exists p. intros i th Hi.
  destruct (H i th Hi) as [-> _].
  eapply nondecr_subseq; [apply proj_next_subseq|]. rewrite E.
  apply (nexts_nondecr _ _ _ p lo0); [apply items_ordered; assumption|apply clock_ok_next_nows; exact C].
Qed.

Theorem nconc_finish_stable fuel c0 lo0 ths st :
  nconc_conclusion fuel c0 lo0 ths st ->
  exists f, forall j x, nth_error (next_results (map eres (ni_log st))) j = Some x -> snd x = false ->
    forall j' x', (j <= j')%nat -> nth_error (next_results (map eres (ni_log st))) j' = Some x' -> x' = (f, false).
Proof.
  intros (_ & _ & _ & _ & _ & p & E). exists (snd (items_from p (flatten c0))). rewrite E.
  intros j x Hj Hx.
  assert (Ex : existsb (fun x => negb (snd x)) (nexts (next_nows (map evt (ni_log st))) (snd (items_from p (flatten c0))) (fst (items_from p (flatten c0)))) = true).
  { apply existsb_exists. exists x. split; [eapply nth_error_In; eauto|rewrite Hx; reflexivity]. }
  destruct (nexts_after_fail _ _ _ Ex) as (k & _ & K). eapply K; eauto.
Qed.
