(* Lemmas about the config decoding model (property C17). *)
From Coq Require Import List NArith ZArith Bool QArith Lia.
From PV Require Import Model.ConfigDecode.
Import ListNotations.
Local Open Scope N_scope.

(* ---------------------------------------------------------------- strings *)
Lemma str_eqb_eq : forall a b, str_eqb a b = true <-> a = b.
Proof.
  induction a as [|x a IH]; destruct b as [|y b]; cbn; split; intro H; try discriminate; auto.
  - apply andb_true_iff in H. destruct H as [H1 H2]. apply N.eqb_eq in H1. apply IH in H2. subst; reflexivity.
  - inversion H; subst. apply andb_true_iff. split; [apply N.eqb_refl|apply IH; reflexivity].
Qed.

Lemma str_eqb_refl : forall a, str_eqb a a = true.
Proof. intro a. apply str_eqb_eq. reflexivity. Qed.

Lemma fold_eqb_eq : forall a b, fold_eqb a b = true <-> lower a = lower b.
Proof. intros. unfold fold_eqb. apply str_eqb_eq. Qed.

Lemma fold_eqb_refl : forall a, fold_eqb a a = true.
Proof. intro. apply fold_eqb_eq. reflexivity. Qed.

Lemma fold_eqb_sym : forall a b, fold_eqb a b = fold_eqb b a.
Proof.
  intros. destruct (fold_eqb a b) eqn:E; destruct (fold_eqb b a) eqn:E2; auto.
  - apply fold_eqb_eq in E. symmetry in E. apply fold_eqb_eq in E. congruence.
  - apply fold_eqb_eq in E2. symmetry in E2. apply fold_eqb_eq in E2. congruence.
Qed.

Lemma fold_eqb_trans : forall a b c, fold_eqb a b = true -> fold_eqb b c = true -> fold_eqb a c = true.
Proof. intros a b c H1 H2. apply fold_eqb_eq in H1, H2. apply fold_eqb_eq. congruence. Qed.

Lemma str_eqb_fold : forall a b, str_eqb a b = true -> fold_eqb a b = true.
Proof. intros a b H. apply str_eqb_eq in H. subst. apply fold_eqb_refl. Qed.

(* ---------------------------------------------------------------- cli pre-pass *)
Lemma find_exact_app_new : forall k x kvs,
  has_key k kvs = false -> find_exact k (kvs ++ [(k, x)]) = Some (k, x).
Proof.
  induction kvs as [|[k' y] r IH]; cbn; intro H.
  - rewrite str_eqb_refl. reflexivity.
  - apply orb_false_iff in H. destruct H as [H1 H2]. rewrite H1. apply IH. exact H2.
Qed.

Lemma prepass_pool_absent : forall kvs,
  has_key s_discard kvs = false ->
  exists kvs', prepass_pool (VMap kvs) = VMap kvs' /\ find_exact s_discard kvs' = Some (s_discard, VBool true).
Proof.
  intros kvs H. unfold prepass_pool. rewrite H. eexists. split; [reflexivity|]. apply find_exact_app_new. exact H.
Qed.

Lemma prepass_pool_present : forall kvs,
  has_key s_discard kvs = true -> prepass_pool (VMap kvs) = VMap kvs.
Proof. intros kvs H. unfold prepass_pool. rewrite H. reflexivity. Qed.
