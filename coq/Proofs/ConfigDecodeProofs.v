(* Lemmas about the config decoding model (property C17). *)
From Coq Require Import List NArith ZArith Bool QArith Lia.
From PV Require Import Model.ConfigDecode.
Import ListNotations.
Local Open Scope N_scope.

(* ---------------------------------------------------------------- strings *)
Lemma str_eqb_eq : forall a b, str_eqb a b = true <-> a = b.
Proof.
  induction a as [|x a IH]; destruct b as [|y b]; cbn; split; intro H; try discriminate; auto.
  - apply andb_true_iff in H. destruct H as [H1 H2]. apply N.eqb_eq in H1. apply IH in H2. subst; reflexivity.
  - inversion H; subst. apply andb_true_iff. split; [apply N.eqb_refl|apply IH; reflexivity].
Qed.

Lemma str_eqb_refl : forall a, str_eqb a a = true.
Proof. intro a. apply str_eqb_eq. reflexivity. Qed.

Lemma fold_eqb_eq : forall a b, fold_eqb a b = true <-> lower a = lower b.
Proof. intros. unfold fold_eqb. apply str_eqb_eq. Qed.

Lemma fold_eqb_refl : forall a, fold_eqb a a = true.
Proof. intro. apply fold_eqb_eq. reflexivity. Qed.

Lemma fold_eqb_sym : forall a b, fold_eqb a b = fold_eqb b a.
Proof.
  intros. destruct (fold_eqb a b) eqn:E; destruct (fold_eqb b a) eqn:E2; auto.
  - apply fold_eqb_eq in E. symmetry in E. apply fold_eqb_eq in E. congruence.
  - apply fold_eqb_eq in E2. symmetry in E2. apply fold_eqb_eq in E2. congruence.
Qed.

Lemma fold_eqb_trans : forall a b c, fold_eqb a b = true -> fold_eqb b c = true -> fold_eqb a c = true.
Proof. intros a b c H1 H2. apply fold_eqb_eq in H1, H2. apply fold_eqb_eq. congruence. Qed.

Lemma str_eqb_fold : forall a b, str_eqb a b = true -> fold_eqb a b = true.
Proof. intros a b H. apply str_eqb_eq in H. subst. apply fold_eqb_refl. Qed.

(* ---------------------------------------------------------------- cli pre-pass *)
Lemma find_exact_app_new : forall k x kvs,
  has_key k kvs = false -> find_exact k (kvs ++ [(k, x)]) = Some (k, x).
Proof.
  induction kvs as [|[k' y] r IH]; cbn; intro H.
  - rewrite str_eqb_refl. reflexivity.
  - apply orb_false_iff in H. destruct H as [H1 H2]. rewrite H1. apply IH. exact H2.
Qed.

Lemma prepass_pool_absent : forall kvs,
  has_key s_discard kvs = false ->
  exists kvs', prepass_pool (VMap kvs) = VMap kvs' /\ find_exact s_discard kvs' = Some (s_discard, VBool true).
Proof.
  intros kvs H. unfold prepass_pool. rewrite H. eexists. split; [reflexivity|]. apply find_exact_app_new. exact H.
Qed.

Lemma prepass_pool_present : forall kvs,
  has_key s_discard kvs = true -> prepass_pool (VMap kvs) = VMap kvs.
Proof. intros kvs H. unfold prepass_pool. rewrite H. reflexivity. Qed.

(* ---------------------------------------------------------------- results *)
Definition notok {A} (r : res A) : Prop := match r with Ok _ => False | _ => True end.

Lemma rcons_notok_l : forall A (r1 : res A) r2, notok r1 -> notok (rcons r1 r2).
Proof. intros A [a|e|] [l|e2|]; cbn; tauto. Qed.
Lemma rcons_notok_r : forall A (r1 : res A) r2, notok r2 -> notok (rcons r1 r2).
Proof. intros A [a|e|] [l|e2|]; cbn; tauto. Qed.
Lemma rmap_notok : forall A B (f : A -> B) r, notok r -> notok (rmap f r).
Proof. intros A B f [a|e|]; cbn; tauto. Qed.

(* ---------------------------------------------------------------- key lookup *)
Lemma find_exact_some : forall k kvs k0 x, find_exact k kvs = Some (k0, x) -> k0 = k /\ In (k0, x) kvs.
Proof.
  induction kvs as [|[k1 x1] r IH]; cbn; intros k0 x H; [discriminate|].
  destruct (str_eqb k k1) eqn:E.
  - inversion H; subst. apply str_eqb_eq in E. subst. auto.
  - destruct (IH _ _ H) as [H1 H2]. auto.
Qed.

Lemma count_fold_zero_exact : forall k fk kvs,
  count_fold k kvs = O -> fold_eqb fk k = true -> find_exact fk kvs = None /\ find_fold fk kvs = None.
Proof.
  induction kvs as [|[k1 x1] r IH]; cbn; intros Hc Hf; [auto|].
  destruct (fold_eqb k k1) eqn:E; [discriminate|].
  assert (Hn : fold_eqb fk k1 = false).
  { destruct (fold_eqb fk k1) eqn:E2; auto. rewrite fold_eqb_sym in Hf.
    rewrite (fold_eqb_trans _ _ _ Hf E2) in E. discriminate. }
  assert (Hs : str_eqb fk k1 = false).
  { destruct (str_eqb fk k1) eqn:E2; auto. apply str_eqb_fold in E2. congruence. }
  rewrite Hs, Hn. apply IH; auto.
Qed.

Lemma find_key_unique : forall k fk kvs k0 x,
  unique_key k kvs = true -> fold_eqb fk k = true ->
  find_exact k kvs = Some (k0, x) -> find_key fk kvs = Some (k0, x).
Proof.
  unfold unique_key, find_key.
  induction kvs as [|[k1 x1] r IH]; cbn; intros k0 x Hu Hf He; [discriminate|].
  destruct (fold_eqb k k1) eqn:E.
  - assert (Hc : count_fold k r = O) by (apply Nat.eqb_eq in Hu; lia).
    destruct (str_eqb k k1) eqn:Es.
    + inversion He; subst.
      destruct (str_eqb fk k0) eqn:E2; [reflexivity|].
      destruct (count_fold_zero_exact k fk r Hc Hf) as [H1 H2]. rewrite H1.
      rewrite (fold_eqb_trans _ _ _ Hf E). reflexivity.
    + (* the exact match would be later in r, but r has no key matching k *)
      destruct (find_exact_some _ _ _ _ He) as [-> _].
      destruct (count_fold_zero_exact k k r Hc (fold_eqb_refl k)) as [H1 _]. congruence.
  - assert (Hs : str_eqb k k1 = false).
    { destruct (str_eqb k k1) eqn:E2; auto. apply str_eqb_fold in E2. congruence. }
    rewrite Hs in He.
    assert (Hn : fold_eqb fk k1 = false).
    { destruct (fold_eqb fk k1) eqn:E2; auto. rewrite fold_eqb_sym in Hf.
      rewrite (fold_eqb_trans _ _ _ Hf E2) in E. discriminate. }
    assert (Hs2 : str_eqb fk k1 = false).
    { destruct (str_eqb fk k1) eqn:E2; auto. apply str_eqb_fold in E2. congruence. }
    rewrite Hs2, Hn. apply IH; auto.
Qed.

Lemma nth_field_find : forall k ffs cs f c, nth_field k ffs cs = Some (f, c) -> find_field k ffs = Some f.
Proof.
  induction ffs as [|f0 r IH]; cbn; intros cs f c H; [discriminate|].
  destruct (fold_eqb (f_key f0) k); [inversion H; reflexivity|]. eapply IH; eauto.
Qed.

Lemma find_field_key : forall k ffs f, find_field k ffs = Some f -> fold_eqb (f_key f) k = true.
Proof.
  induction ffs as [|f0 r IH]; cbn; intros f H; [discriminate|].
  destruct (fold_eqb (f_key f0) k) eqn:E; [inversion H; subst; exact E|]. apply IH; auto.
Qed.

(* ---------------------------------------------------------------- one decoding level *)
Section Level.
Variable dec : schema -> cval -> value -> res cval.

Lemma dec_fields_notok : forall k ffs cs kvs f k' x,
  find_field k ffs = Some f ->
  find_key (f_key f) kvs = Some (k', x) ->
  (forall c, notok (dec (f_schema f) c x)) ->
  notok (fst (dec_fields dec ffs cs kvs)).
Proof.
  induction ffs as [|f0 r IH]; cbn -[find_key]; intros cs kvs f k' x Hf Hk Hn; [discriminate|].
  destruct (fold_eqb (f_key f0) k) eqn:E.
  - inversion Hf; subst. rewrite Hk.
    destruct (dec_fields dec r (tl cs) kvs) as [r2 u2]. cbn [fst]. apply rcons_notok_l. apply Hn.
  - specialize (IH (tl cs) kvs f k' x Hf Hk Hn).
    destruct (find_key (f_key f0) kvs) as [[k1 x1]|];
      destruct (dec_fields dec r (tl cs) kvs) as [r2 u2]; cbn [fst] in *; apply rcons_notok_r; exact IH.
Qed.

Lemma dec_struct_field_notok : forall s cur kvs k k0 x f,
  unique_key k kvs = true ->
  find_exact k kvs = Some (k0, x) ->
  find_field k (flat_fields s) = Some f ->
  (forall c, notok (dec (f_schema f) c x)) ->
  notok (dec_struct dec s cur kvs).
Proof.
  intros s cur kvs k k0 x f Hu He Hf Hn. unfold dec_struct.
  pose proof (find_key_unique k (f_key f) kvs k0 x Hu (find_field_key _ _ _ Hf) He) as Hk.
  pose proof (dec_fields_notok k (flat_fields s) (struct_cur s cur) kvs f k0 x Hf Hk Hn) as H.
  destruct (dec_fields dec (flat_fields s) (struct_cur s cur) kvs) as [r u]. cbn in H.
  destruct r; cbn in *; tauto.
Qed.

Lemma dec_elems_notok : forall e l cur i x,
  nth_error l i = Some x -> (forall c, notok (dec e c x)) -> notok (dec_elems dec e cur l).
Proof.
  induction l as [|y r IH]; intros cur i x Hn Hx; destruct i; cbn in *; try discriminate.
  - inversion Hn; subst. apply rcons_notok_l. apply Hx.
  - apply rcons_notok_r. eapply IH; eauto.
Qed.

Lemma dec_entries_notok : forall e kvs k k0 x,
  find_exact k kvs = Some (k0, x) -> (forall c, notok (dec e c x)) -> notok (dec_entries dec e kvs).
Proof.
  induction kvs as [|[k1 x1] r IH]; cbn; intros k k0 x He Hx; [discriminate|].
  destruct (str_eqb k k1) eqn:E.
  - inversion He; subst. apply rcons_notok_l.
    specialize (Hx (zero_of e)). destruct (dec e (zero_of e) x); cbn in Hx; try tauto;
      destruct (dec (SScalar KString) (CStr []) (VStr k0)) as [[]|?|]; cbn; auto.
  - apply rcons_notok_r. eapply IH; eauto.
Qed.

End Level.

(* ---------------------------------------------------------------- filters on the plugin type key *)
Lemma is_type_key_fold : forall k k' x y, fold_eqb k k' = true -> is_type_key (k, x) = is_type_key (k', y).
Proof. intros k k' x y H. unfold is_type_key. cbn [fst]. apply fold_eqb_eq in H. rewrite H. reflexivity. Qed.

Lemma count_fold_filter : forall k kvs,
  is_type_key (k, VNull) = false ->
  count_fold k (filter (fun kv => negb (is_type_key kv)) kvs) = count_fold k kvs.
Proof.
  induction kvs as [|[k1 x1] r IH]; cbn -[is_type_key]; intro H; [reflexivity|].
  destruct (fold_eqb k k1) eqn:E.
  - rewrite <- (is_type_key_fold k k1 VNull x1 E), H. cbn -[is_type_key]. rewrite E, IH; auto.
  - destruct (is_type_key (k1, x1)); cbn -[is_type_key]; [|rewrite E]; rewrite IH; auto.
Qed.

Lemma find_exact_filter : forall k kvs,
  is_type_key (k, VNull) = false ->
  find_exact k (filter (fun kv => negb (is_type_key kv)) kvs) = find_exact k kvs.
Proof.
  induction kvs as [|[k1 x1] r IH]; cbn -[is_type_key]; intro H; [reflexivity|].
  destruct (str_eqb k k1) eqn:E.
  - rewrite <- (is_type_key_fold k k1 VNull x1 (str_eqb_fold _ _ E)), H. cbn -[is_type_key]. rewrite E. reflexivity.
  - destruct (is_type_key (k1, x1)); cbn -[is_type_key]; [|rewrite E]; rewrite IH; auto.
Qed.

Lemma flat_fields_struct : forall s k f, find_field k (flat_fields s) = Some f -> exists nl fs, s = SStruct nl fs.
Proof. intros s k f H. destruct s; cbn in H; try discriminate. eauto. Qed.

(* ---------------------------------------------------------------- the decoder *)
Section Decoder.
Variable env : str -> option str.
Variable prop : str -> str -> option str.
Variable orc : okind -> str -> option Z.
Variable orcq : str -> option Q.
Variable reg : list entry.
Variable lz : bool.
Variable uq : bool.

Notation D := (decode env prop orc orcq reg lz).

Lemma D_struct : forall f nl fs cur kvs,
  D (S f) (SStruct nl fs) cur (VMap kvs) = dec_struct (D f) (SStruct nl fs) cur kvs.
Proof. reflexivity. Qed.

Lemma D_plugin : forall f iface fk cur kvs,
  D (S f) (SPlugin iface fk) cur (VMap kvs) = dec_plugin orc reg lz (D f) iface fk kvs.
Proof. reflexivity. Qed.

Lemma D_map : forall f e cur kvs, D (S f) (SMap e) cur (VMap kvs) = dec_map (D f) e cur kvs.
Proof. reflexivity. Qed.

Lemma D_slice : forall f e cur l, D (S f) (SSlice e) cur (VList l) = dec_slice (D f) e cur l.
Proof. reflexivity. Qed.

Lemma D_schedule_list : forall f iface fk cur l,
  str_eqb iface i_schedule = true ->
  D (S f) (SPlugin iface fk) cur (VList l) =
  dec_plugin orc reg lz (D f) iface fk [(s_type, VStr s_composite); (s_nested, VList l)].
Proof. intros. cbn. rewrite H. reflexivity. Qed.

Lemma struct_step : forall nl fs kvs k k0 x f,
  unique_key k kvs = true ->
  find_exact k kvs = Some (k0, x) ->
  find_field k (flat_fields (SStruct nl fs)) = Some f ->
  (forall F c, notok (D F (f_schema f) c x)) ->
  forall F cur, notok (D F (SStruct nl fs) cur (VMap kvs)).
Proof.
  intros nl fs kvs k k0 x f Hu He Hf Hn [|F] cur; [exact I|].
  rewrite D_struct. eapply dec_struct_field_notok; eauto.
Qed.

Lemma plugin_entry_inv : forall iface kvs e,
  plugin_entry reg iface kvs = Some e ->
  exists k1 name, filter is_type_key kvs = [(k1, VStr name)] /\ lookup_entry reg iface name = Some e.
Proof.
  intros iface kvs e H. unfold plugin_entry in H.
  destruct (filter is_type_key kvs) as [|[k1 v1] [|? ?]]; try discriminate;
  destruct v1; try discriminate. eauto.
Qed.

(* a config key of a plugin whose decoding fails makes the plugin fail (unless the config is decoded lazily) *)
Lemma plugin_step : forall iface fk kvs e cs d k k0 x f,
  plugin_entry reg iface kvs = Some e ->
  e_conf e = Some (cs, d) ->
  entry_lazy lz fk e = false ->
  unique_key k kvs = true ->
  is_type_key (k, VNull) = false ->
  find_exact k kvs = Some (k0, x) ->
  find_field k (flat_fields cs) = Some f ->
  (forall F c, notok (D F (f_schema f) c x)) ->
  forall F cur, notok (D F (SPlugin iface fk) cur (VMap kvs)).
Proof.
  intros iface fk kvs e cs d k k0 x f Hp Hc Hl Hu Ht He Hf Hn [|F] cur; [exact I|].
  rewrite D_plugin. unfold dec_plugin.
  destruct (plugin_entry_inv _ _ _ Hp) as [k1 [name [H1 H2]]]. rewrite H1, H2, Hc.
  unfold entry_lazy in Hl. rewrite Hl.
  destruct (flat_fields_struct _ _ _ Hf) as [nl [fs ->]].
  assert (Hx : notok (D F (SStruct nl fs) d (VMap (filter (fun kv => negb (is_type_key kv)) kvs)))).
  { eapply struct_step; eauto.
    - unfold unique_key. rewrite count_fold_filter; auto.
    - rewrite find_exact_filter; eauto. }
  destruct (D F (SStruct nl fs) d (VMap (filter (fun kv => negb (is_type_key kv)) kvs))); cbn in *; tauto.
Qed.

Lemma any_absurd : (forall F c, notok (D F SAny c VNull)) -> False.
Proof. intro H. exact (H 1%nat CNil). Qed.

(* Error propagation: when the decoding problem met at a path fails (whatever the current value and the
   fuel), the decoding of the whole tree fails. *)
Theorem propagate : forall p tags s cur v s' tags' cur' x,
  reach reg lz uq p tags s cur v = Some (s', tags', cur', x) ->
  (forall F c, notok (D F s' c x)) ->
  forall F c, notok (D F s c v).
Proof.
  induction p as [|st p IH]; intros tags s cur v s' tags' cur' x Hr Hn.
  - cbn in Hr. inversion Hr; subst. exact Hn.
  - destruct st as [k|i]; cbn [reach] in Hr.
    + destruct s; try discriminate.
      * (* struct *)
        destruct v; try discriminate.
        destruct (unique_key k kvs && field_ok uq k (flat_fields (SStruct nullable fs))) eqn:Hu0; try discriminate.
        apply andb_true_iff in Hu0. destruct Hu0 as [Hu _].
        destruct (find_exact k kvs) as [[k0 x0]|] eqn:He; try discriminate.
        destruct (nth_field k (flat_fields (SStruct nullable fs)) (struct_cur (SStruct nullable fs) cur)) as [[f c0]|] eqn:Hf; try discriminate.
        eapply struct_step; eauto using nth_field_find.
      * (* map *)
        destruct v; try discriminate.
        destruct (unique_key k kvs) eqn:Hu; try discriminate.
        destruct (find_exact k kvs) as [[k0 x0]|] eqn:He; try discriminate.
        intros [|F] c; [exact I|]. rewrite D_map. unfold dec_map.
        pose proof (dec_entries_notok (D F) s kvs k k0 x0 He (fun c => IH _ _ _ _ _ _ _ _ Hr Hn F c)) as H.
        destruct (dec_entries (D F) s kvs); cbn in *; tauto.
      * (* any *)
        inversion Hr; subst. destruct (any_absurd Hn).
      * (* plugin *)
        destruct v; try discriminate.
        destruct (unique_key k kvs && negb (is_type_key (k, VNull))) eqn:Hu; try discriminate.
        apply andb_true_iff in Hu. destruct Hu as [Hu Ht]. apply negb_true_iff in Ht.
        destruct (plugin_entry reg iface kvs) as [e|] eqn:Hp; try discriminate.
        destruct (find_exact k kvs) as [[k0 x0]|] eqn:He; try discriminate.
        destruct (e_conf e) as [[cs d]|] eqn:Hc; try discriminate.
        destruct (entry_lazy lz fk e || negb (field_ok uq k (flat_fields cs))) eqn:Hl0; try discriminate.
        apply orb_false_iff in Hl0. destruct Hl0 as [Hl _].
        destruct (nth_field k (flat_fields cs) (struct_cur cs d)) as [[f c0]|] eqn:Hf; try discriminate.
        eapply plugin_step; eauto using nth_field_find.
    + destruct s; try discriminate.
      * (* slice *)
        destruct v; try discriminate.
        destruct (nth_error l i) as [x0|] eqn:Hi; try discriminate.
        intros [|F] c; [exact I|]. rewrite D_slice. unfold dec_slice. apply rmap_notok.
        eapply dec_elems_notok; eauto.
      * inversion Hr; subst. destruct (any_absurd Hn).
      * (* schedule list shorthand *)
        destruct v; try discriminate.
        destruct (str_eqb iface i_schedule) eqn:Hs; try discriminate.
        destruct (lookup_entry reg iface s_composite) as [e|] eqn:Hl; try discriminate.
        destruct (e_conf e) as [[cs d]|] eqn:Hc; try discriminate.
        destruct (entry_lazy lz fk e || negb (field_ok uq s_nested (flat_fields cs))) eqn:Hz0; try discriminate.
        apply orb_false_iff in Hz0. destruct Hz0 as [Hz _].
        destruct (find_field s_nested (flat_fields cs)) as [f|] eqn:Hf; try discriminate.
        destruct (f_schema f) as [| |el| | | |] eqn:Hfs; try discriminate.
        destruct (nth_error l i) as [x0|] eqn:Hi; try discriminate.
        intros [|F] c; [exact I|]. rewrite D_schedule_list by exact Hs.
        assert (Hel : forall F c, notok (D F (f_schema f) c (VList l))).
        { intros [|F'] c'; [exact I|]. rewrite Hfs, D_slice. unfold dec_slice. apply rmap_notok.
          eapply dec_elems_notok; eauto. }
        unfold dec_plugin.
        replace (filter is_type_key [(s_type, VStr s_composite); (s_nested, VList l)])
          with [(s_type, VStr s_composite)] by reflexivity.
        replace (filter (fun kv => negb (is_type_key kv)) [(s_type, VStr s_composite); (s_nested, VList l)])
          with [(s_nested, VList l)] by reflexivity.
        rewrite Hl, Hc. unfold entry_lazy in Hz. rewrite Hz.
        destruct (flat_fields_struct _ _ _ Hf) as [nl [fs ->]].
        assert (Hx : notok (D F (SStruct nl fs) d (VMap [(s_nested, VList l)]))).
        { eapply struct_step with (k := s_nested) (k0 := s_nested) (x := VList l);
            [reflexivity|reflexivity|exact Hf|exact Hel]. }
        destruct (D F (SStruct nl fs) d (VMap [(s_nested, VList l)])); cbn in *; tauto.
Qed.

End Decoder.

(* ---------------------------------------------------------------- unknown keys *)
Lemma mem_str_app : forall k a c, mem_str k (a ++ c) = mem_str k a || mem_str k c.
Proof. induction a as [|x a IH]; cbn; intro c; [reflexivity|]. rewrite IH. apply orb_assoc. Qed.

Lemma find_exact_fold : forall a kvs k' x, find_exact a kvs = Some (k', x) -> fold_eqb a k' = true.
Proof. intros a kvs k' x H. destruct (find_exact_some _ _ _ _ H) as [-> _]. apply fold_eqb_refl. Qed.

Lemma find_fold_fold : forall a kvs k' x, find_fold a kvs = Some (k', x) -> fold_eqb a k' = true.
Proof.
  induction kvs as [|[k1 x1] r IH]; cbn; intros k' x H; [discriminate|].
  destruct (fold_eqb a k1) eqn:E; [inversion H; subst; exact E|]. eapply IH; eauto.
Qed.

Lemma find_key_fold : forall a kvs k' x, find_key a kvs = Some (k', x) -> fold_eqb a k' = true.
Proof.
  unfold find_key. intros a kvs k' x H. destruct (find_exact a kvs) as [[k1 x1]|] eqn:E.
  - inversion H; subst. eapply find_exact_fold; eauto.
  - eapply find_fold_fold; eauto.
Qed.

Lemma used_accepted : forall dec ffs cs kvs k,
  mem_str k (snd (dec_fields dec ffs cs kvs)) = true -> accepted_b k (map f_key ffs) = true.
Proof.
  induction ffs as [|f r IH]; cbn -[find_key]; intros cs kvs k H; [discriminate|].
  destruct (find_key (f_key f) kvs) as [[k' x]|] eqn:Hk;
    destruct (dec_fields dec r (tl cs) kvs) as [r2 u2] eqn:Hd; cbn [snd] in H.
  - rewrite mem_str_app in H. apply orb_true_iff in H. destruct H as [H|H].
    + cbn in H. rewrite orb_false_r in H. apply str_eqb_eq in H. subst.
      rewrite (find_key_fold _ _ _ _ Hk). reflexivity.
    + apply orb_true_iff. right. apply (IH (tl cs) kvs). rewrite Hd. exact H.
  - cbn in H. apply orb_true_iff. right. apply (IH (tl cs) kvs). rewrite Hd. exact H.
Qed.

Lemma struct_unknown_notok : forall dec s cur kvs k y,
  In (k, y) kvs -> accepted_b k (map f_key (flat_fields s)) = false -> notok (dec_struct dec s cur kvs).
Proof.
  intros dec s cur kvs k y Hin Hacc. unfold dec_struct.
  destruct (dec_fields dec (flat_fields s) (struct_cur s cur) kvs) as [r used] eqn:Hd.
  destruct r as [cs|e|]; cbn; auto.
  assert (Hu : all_used used kvs = false).
  { unfold all_used. destruct (forallb (fun kv => mem_str (fst kv) used) kvs) eqn:E; auto.
    rewrite forallb_forall in E. specialize (E _ Hin). cbn in E.
    pose proof (used_accepted dec (flat_fields s) (struct_cur s cur) kvs k) as H. rewrite Hd in H. cbn in H.
    rewrite (H E) in Hacc. discriminate. }
  rewrite Hu. exact I.
Qed.

Lemma str_eqb_sym : forall a c, str_eqb a c = str_eqb c a.
Proof.
  intros. destruct (str_eqb a c) eqn:E; destruct (str_eqb c a) eqn:E2; auto.
  - apply str_eqb_eq in E. subst. rewrite str_eqb_refl in E2. discriminate.
  - apply str_eqb_eq in E2. subst. rewrite str_eqb_refl in E. discriminate.
Qed.

Section Unknown.
Variable env : str -> option str.
Variable prop : str -> str -> option str.
Variable orc : okind -> str -> option Z.
Variable orcq : str -> option Q.
Variable reg : list entry.
Variable lz : bool.
Variable uq : bool.
Notation D := (decode env prop orc orcq reg lz).

(* a node that writes a key its schema does not accept cannot be decoded *)
Lemma node_unknown_notok : forall s x acc kvs k y,
  classify_node reg lz s x = PStrict acc ->
  x = VMap kvs -> In (k, y) kvs -> accepted_b k acc = false ->
  forall F c, notok (D F s c x).
Proof.
  intros s x acc kvs k y Hc -> Hin Hacc [|F] c; [exact I|].
  destruct s; cbn [classify_node] in Hc; try discriminate.
  - inversion Hc; subst. rewrite D_struct. eapply struct_unknown_notok; eauto.
  - destruct (plugin_entry reg iface kvs) as [e|] eqn:Hp; try discriminate.
    destruct (plugin_entry_inv _ _ _ _ Hp) as [k1 [name [H1 H2]]].
    rewrite D_plugin. unfold dec_plugin. rewrite H1, H2.
    destruct (e_conf e) as [[cs d]|] eqn:He.
    + destruct (entry_lazy lz fk e) eqn:Hl; try discriminate.
      destruct (is_struct_schema cs) eqn:Hs; try discriminate.
      inversion Hc; subst. cbn [accepted_b] in Hacc. apply orb_false_iff in Hacc. destruct Hacc as [Ht Hacc].
      unfold entry_lazy in Hl. rewrite Hl.
      assert (Hnt : is_type_key (k, y) = false).
      { unfold is_type_key. cbn [fst]. unfold fold_eqb in Ht. change (lower s_type) with s_type in Ht.
        rewrite str_eqb_sym. exact Ht. }
      assert (Hin2 : In (k, y) (filter (fun kv => negb (is_type_key kv)) kvs)).
      { apply filter_In. split; auto. rewrite Hnt. reflexivity. }
      destruct cs; try discriminate.
      destruct F as [|F]; [exact I|]. rewrite D_struct.
      pose proof (struct_unknown_notok (D F) (SStruct nullable fs) d _ k y Hin2 Hacc) as Hx.
      destruct (dec_struct (D F) (SStruct nullable fs) d (filter (fun kv => negb (is_type_key kv)) kvs)); cbn in *; tauto.
    + inversion Hc; subst. cbn [accepted_b] in Hacc. apply orb_false_iff in Hacc. destruct Hacc as [Ht _].
      assert (Hnt : is_type_key (k, y) = false).
      { unfold is_type_key. cbn [fst]. unfold fold_eqb in Ht. change (lower s_type) with s_type in Ht.
        rewrite str_eqb_sym. exact Ht. }
      assert (Hin2 : In (k, y) (filter (fun kv => negb (is_type_key kv)) kvs)).
      { apply filter_In. split; auto. rewrite Hnt. reflexivity. }
      destruct (filter (fun kv => negb (is_type_key kv)) kvs); [destruct Hin2|exact I].
Qed.

(* reach follows the written tree *)
Lemma reach_value_at : forall p tags s cur v s' tags' cur' x,
  reach reg lz uq p tags s cur v = Some (s', tags', cur', x) ->
  s' = SAny \/ value_at p v = Some x.
Proof.
  induction p as [|st p IH]; intros tags s cur v s' tags' cur' x Hr.
  - cbn in Hr. inversion Hr; subst. right. reflexivity.
  - destruct st as [k|i]; cbn [reach] in Hr; cbn [value_at].
    + destruct s; try discriminate.
      * destruct v; try discriminate.
        destruct (unique_key k kvs && field_ok uq k _); try discriminate.
        destruct (find_exact k kvs) as [[k0 x0]|]; try discriminate.
        destruct (nth_field k _ _) as [[f c0]|]; try discriminate. eapply IH; eauto.
      * destruct v; try discriminate.
        destruct (unique_key k kvs); try discriminate.
        destruct (find_exact k kvs) as [[k0 x0]|]; try discriminate. eapply IH; eauto.
      * inversion Hr; subst. left. reflexivity.
      * destruct v; try discriminate.
        destruct (unique_key k kvs && negb (is_type_key (k, VNull))); try discriminate.
        destruct (plugin_entry reg iface kvs) as [e|]; try discriminate.
        destruct (find_exact k kvs) as [[k0 x0]|]; try discriminate.
        destruct (e_conf e) as [[cs d]|]; try discriminate.
        destruct (entry_lazy lz fk e || _); try discriminate.
        destruct (nth_field k _ _) as [[f c0]|]; try discriminate. eapply IH; eauto.
    + destruct s; try discriminate.
      * destruct v; try discriminate.
        destruct (nth_error l i) as [x0|]; try discriminate. eapply IH; eauto.
      * inversion Hr; subst. left. reflexivity.
      * destruct v; try discriminate.
        destruct (str_eqb iface i_schedule); try discriminate.
        destruct (lookup_entry reg iface s_composite) as [e|]; try discriminate.
        destruct (e_conf e) as [[cs d]|]; try discriminate.
        destruct (entry_lazy lz fk e || _); try discriminate.
        destruct (find_field s_nested (flat_fields cs)) as [f|]; try discriminate.
        destruct (f_schema f); try discriminate.
        destruct (nth_error l i) as [x0|]; try discriminate. eapply IH; eauto.
Qed.

(* Unknown key: if the node at path p writes a key that is not accepted there, decoding fails. *)
Theorem unknown_key_at : forall p s cur v acc kvs k y,
  classify reg lz uq p s cur v = PStrict acc ->
  value_at p v = Some (VMap kvs) -> In (k, y) kvs -> accepted_b k acc = false ->
  forall F c, notok (D F s c v).
Proof.
  intros p s cur v acc kvs k y Hc Hv Hin Hacc. unfold classify in Hc.
  destruct (reach reg lz uq p [] s cur v) as [[[[s' tags'] cur'] x]|] eqn:Hr; try discriminate.
  destruct (reach_value_at _ _ _ _ _ _ _ _ _ Hr) as [->|Hx].
  - cbn in Hc. discriminate.
  - rewrite Hv in Hx. inversion Hx; subst.
    eapply propagate; eauto. eapply node_unknown_notok; eauto.
Qed.

End Unknown.

(* ---------------------------------------------------------------- insertion into a written tree *)
Lemma kv_update_find : forall k g kvs kvs',
  kv_update k g kvs = Some kvs' ->
  exists k0 x x', find_exact k kvs = Some (k0, x) /\ g x = Some x' /\ find_exact k kvs' = Some (k0, x').
Proof.
  induction kvs as [|[k1 x1] r IH]; cbn; intros kvs' H; [discriminate|].
  destruct (str_eqb k k1) eqn:E.
  - destruct (g x1) as [x'|] eqn:Hg; try discriminate. inversion H; subst. cbn. rewrite E.
    exists k1, x1, x'. auto.
  - destruct (kv_update k g r) as [r'|] eqn:Hu; try discriminate. inversion H; subst.
    destruct (IH _ eq_refl) as [k0 [x [x' [H1 [H2 H3]]]]]. cbn. rewrite E. exists k0, x, x'. auto.
Qed.

Lemma list_update_nth : forall g l i l',
  list_update i g l = Some l' ->
  exists x x', nth_error l i = Some x /\ g x = Some x' /\ nth_error l' i = Some x'.
Proof.
  induction l as [|y r IH]; intros i l' H; destruct i; cbn in *; try discriminate.
  - destruct (g y) as [x'|] eqn:Hg; try discriminate. inversion H; subst. cbn. exists y, x'. auto.
  - destruct (list_update i g r) as [r'|] eqn:Hu; try discriminate. inversion H; subst. cbn. eapply IH; eauto.
Qed.

Lemma update_at_value_at : forall p g v v',
  update_at p g v = Some v' ->
  exists n n', value_at p v = Some n /\ g n = Some n' /\ value_at p v' = Some n'.
Proof.
  induction p as [|st p IH]; intros g v v' H.
  - cbn in *. exists v, v'. auto.
  - destruct st as [k|i]; cbn [update_at value_at] in *; destruct v; try discriminate.
    + destruct (kv_update k (update_at p g) kvs) as [kvs'|] eqn:Hu; try discriminate. inversion H; subst.
      destruct (kv_update_find _ _ _ _ Hu) as [k0 [x [x' [H1 [H2 H3]]]]]. rewrite H1, H3. eapply IH; eauto.
    + destruct (list_update i (update_at p g) l) as [l'|] eqn:Hu; try discriminate. inversion H; subst.
      destruct (list_update_nth _ _ _ _ Hu) as [x [x' [H1 [H2 H3]]]]. rewrite H1, H3. eapply IH; eauto.
Qed.

Lemma insert_key_value_at : forall p k y v v',
  insert_key p k y v = Some v' ->
  exists kvs, value_at p v = Some (VMap kvs) /\ has_key k kvs = false /\ value_at p v' = Some (VMap (kvs ++ [(k, y)])).
Proof.
  intros p k y v v' H. unfold insert_key in H.
  destruct (update_at_value_at _ _ _ _ H) as [n [n' [H1 [H2 H3]]]].
  destruct n; try discriminate. destruct (has_key k kvs) eqn:E; try discriminate.
  inversion H2; subst. eauto.
Qed.

Section Theorems.
Variable env : str -> option str.
Variable prop : str -> str -> option str.
Variable orc : okind -> str -> option Z.
Variable orcq : str -> option Q.
Variable reg : list entry.
Variable lz : bool.
Variable uq : bool.
Notation D := (decode env prop orc orcq reg lz).

Theorem unknown_key_insert : forall p k y v0 v s cur acc,
  insert_key p k y v0 = Some v ->
  classify reg lz uq p s cur v = PStrict acc -> accepted_b k acc = false ->
  forall F c, notok (D F s c v).
Proof.
  intros p k y v0 v s cur acc Hi Hc Hacc.
  destruct (insert_key_value_at _ _ _ _ _ Hi) as [kvs [_ [_ Hv]]].
  eapply unknown_key_at with (k := k) (y := y); eauto. apply in_or_app. right. left. reflexivity.
Qed.

(* ---------------------------------------------------------------- text without placeholders *)
Lemma find_tags_none : forall n s, has_dollar_brace s = false -> find_tags n s = [].
Proof.
  induction n as [|n IH]; intros s H; [reflexivity|].
  destruct s as [|c r]; [reflexivity|]. cbn [find_tags].
  destruct r as [|c2 r2].
  - destruct (c =? c_dollar); [reflexivity|]. destruct n; reflexivity.
  - cbn [has_dollar_brace] in H. apply orb_false_iff in H. destruct H as [H1 H2].
    destruct (c =? c_dollar) eqn:E1.
    + change c_dollar with 36 in E1. rewrite E1 in H1. cbn in H1.
      change c_lbrace with 123. rewrite H1. apply IH. exact H2.
    + apply IH. exact H2.
Qed.

Lemma inject_plain : forall target s, has_dollar_brace s = false -> inject env prop orc orcq target s = HVal (VStr s).
Proof. intros target s H. unfold inject. rewrite find_tags_none by exact H. reflexivity. Qed.

Lemma hooks_plain : forall target s,
  has_dollar_brace s = false -> hooks env prop orc orcq target (VStr s) = string_hooks orc target s.
Proof. intros target s H. unfold hooks. rewrite inject_plain by exact H. reflexivity. Qed.

(* ---------------------------------------------------------------- wrongly typed values *)
Lemma wrong_type_notok : forall s x, wrong_type_b s x = true -> forall F c, notok (D F s c x).
Proof.
  intros s x H [|F] c; [exact I|].
  destruct x; cbn in H; try discriminate;
    destruct s as [nl fs|e|e|k| |iface fk|]; try discriminate; try (destruct k; try discriminate; exact I); try exact I.
  (* a list at a plugin position that is not the schedule shorthand *)
  cbn. apply negb_true_iff in H. rewrite H. exact I.
Qed.

Lemma wrong_type_str_notok : forall s t, wrong_type_str_b s t = true -> forall F c, notok (D F s c (VStr t)).
Proof.
  intros s t H [|F] c; [exact I|]. unfold wrong_type_str_b in H. apply andb_true_iff in H. destruct H as [Hd H].
  apply negb_true_iff in Hd.
  cbn [decode]. rewrite hooks_plain by exact Hd.
  destruct s as [nl fs|e|e|k| |iface fk|]; try discriminate; try exact I.
  - destruct k; try discriminate; exact I.
  - cbn [string_hooks]. apply negb_true_iff in H. rewrite H. exact I.
Qed.

Theorem wrong_type_at : forall p s cur v s' tags d x,
  reach reg lz uq p [] s cur v = Some (s', tags, d, x) ->
  (wrong_type_b s' x = true \/ exists t, x = VStr t /\ wrong_type_str_b s' t = true) ->
  forall F c, notok (D F s c v).
Proof.
  intros p s cur v s' tags d x Hr Hw. eapply propagate; eauto.
  destruct Hw as [Hw|[t [-> Hw]]]; [apply wrong_type_notok|apply wrong_type_str_notok]; exact Hw.
Qed.

(* ---------------------------------------------------------------- failing hooks (unresolved placeholders, unparsable durations, ...) *)
Theorem hook_error_at : forall p s cur v s' tags d x e,
  reach reg lz uq p [] s cur v = Some (s', tags, d, x) ->
  x <> VNull -> hooks env prop orc orcq s' x = HErr e ->
  forall F c, notok (D F s c v).
Proof.
  intros p s cur v s' tags d x e Hr Hx Hh. eapply propagate; eauto.
  intros [|F] c; [exact I|]. destruct x; try congruence; cbn [decode]; rewrite Hh; exact I.
Qed.

End Theorems.

(* ---------------------------------------------------------------- validation *)
Section Validation.
Variable orc : okind -> str -> option Z.

Lemma validate_all_forallb : forall e l,
  (fix all (l : list cval) : bool := match l with [] => true | x :: r => validate orc x e && all r end) l
  = forallb (fun x => validate orc x e) l.
Proof. induction l as [|x r IH]; [reflexivity|]. cbn. rewrite IH. reflexivity. Qed.

Lemma validate_struct_eq : forall cs s, validate orc (CStruct cs) s = vfields orc (validate orc) cs (flat_fields s).
Proof.
  intros cs s. cbn [validate]. generalize (flat_fields s) as ffs.
  induction cs as [|c cs IH]; intros ffs; [reflexivity|].
  destruct ffs as [|f ffs]; [reflexivity|].
  cbn [vfields]. rewrite <- IH. unfold descend.
  destruct (f_schema f); reflexivity.
Qed.

Lemma vfields_nth : forall rec cs ffs i c' f,
  vfields orc rec cs ffs = true -> nth_error cs i = Some c' -> nth_error ffs i = Some f ->
  check_field orc (f_schema f) c' (f_tags f) = true /\ descend rec f c' = true.
Proof.
  induction cs as [|c cs IH]; intros ffs i c' f H Hc Hf; destruct i; cbn in Hc; try discriminate;
    destruct ffs as [|f0 ffs]; cbn in Hf; try discriminate; cbn [vfields] in H;
    apply andb_true_iff in H; destruct H as [H H3]; apply andb_true_iff in H; destruct H as [H1 H2].
  - inversion Hc; inversion Hf; subst. auto.
  - eapply IH; eauto.
Qed.

(* every field of a validated struct value satisfies its validate tags *)
Lemma validate_field : forall cs s i c' f,
  validate orc (CStruct cs) s = true -> nth_error cs i = Some c' -> nth_error (flat_fields s) i = Some f ->
  check_field orc (f_schema f) c' (f_tags f) = true.
Proof. intros cs s i c' f H Hc Hf. rewrite validate_struct_eq in H. eapply vfields_nth; eauto. Qed.

(* ... and so do the fields of nested structs *)
Lemma validate_nested : forall cs s i c' f,
  validate orc (CStruct cs) s = true -> nth_error cs i = Some c' -> nth_error (flat_fields s) i = Some f ->
  is_struct_schema (f_schema f) = true -> validate orc c' (f_schema f) = true.
Proof.
  intros cs s i c' f H Hc Hf Hs. rewrite validate_struct_eq in H.
  destruct (vfields_nth _ _ _ _ _ _ H Hc Hf) as [_ Hd]. unfold descend in Hd.
  destruct (f_schema f); try discriminate. exact Hd.
Qed.

End Validation.

(* ---------------------------------------------------------------- what a struct level produces *)
Section Fields.
Variable dec : schema -> cval -> value -> res cval.

Definition cur_at (cs : list cval) (i : nat) (f : fld) : cval :=
  match nth_error cs i with Some c => c | None => zero_of (f_schema f) end.

Lemma tl_nth : forall (cs : list cval) i, nth_error (tl cs) i = nth_error cs (S i).
Proof. destruct cs; destruct i; reflexivity. Qed.

Lemma dec_fields_nth : forall ffs cs kvs rs i f,
  fst (dec_fields dec ffs cs kvs) = Ok rs -> nth_error ffs i = Some f ->
  exists r, nth_error rs i = Some r /\
    match find_key (f_key f) kvs with
    | None => r = cur_at cs i f
    | Some (_, x) => dec (f_schema f) (cur_at cs i f) x = Ok r
    end.
Proof.
  induction ffs as [|f0 ffs IH]; intros cs kvs rs i f H Hf; [destruct i; discriminate|].
  cbn -[find_key] in H.
  destruct (dec_fields dec ffs (tl cs) kvs) as [r2 u2] eqn:Hd.
  assert (Hh : exists r1 rs2, r2 = Ok rs2 /\ rs = r1 :: rs2 /\
                match find_key (f_key f0) kvs with
                | None => r1 = match cs with c :: _ => c | [] => zero_of (f_schema f0) end
                | Some (_, x) => dec (f_schema f0) (match cs with c :: _ => c | [] => zero_of (f_schema f0) end) x = Ok r1
                end).
  { destruct (find_key (f_key f0) kvs) as [[k' x]|]; cbn [fst] in H.
    - destruct (dec (f_schema f0) (match cs with c :: _ => c | [] => zero_of (f_schema f0) end) x) as [r1|e|] eqn:E;
        destruct r2 as [rs2|e2|]; cbn in H; try discriminate. inversion H; subst. eauto.
    - destruct r2 as [rs2|e2|]; cbn in H; try discriminate. inversion H; subst. eauto. }
  destruct Hh as [r1 [rs2 [-> [-> Hh]]]].
  destruct i as [|i].
  - cbn in Hf. inversion Hf; subst. exists r1. split; [reflexivity|].
    unfold cur_at. destruct cs; cbn; exact Hh.
  - cbn in Hf. specialize (IH (tl cs) kvs rs2 i f). rewrite Hd in IH. destruct (IH eq_refl Hf) as [r [Hr Hx]].
    exists r. split; [exact Hr|]. unfold cur_at in *. rewrite tl_nth in Hx. exact Hx.
Qed.

End Fields.

(* ---------------------------------------------------------------- defaults, ranges *)
Section Results.
Variable env : str -> option str.
Variable prop : str -> str -> option str.
Variable orc : okind -> str -> option Z.
Variable orcq : str -> option Q.
Variable reg : list entry.
Variable lz : bool.
Variable uq : bool.
Notation D := (decode env prop orc orcq reg lz).

Definition unwritten (F : nat) (k : str) (kvs : list (str * value)) : Prop :=
  find_key k kvs = None \/ (exists k', find_key k kvs = Some (k', VNull)).

Lemma D_null : forall F s c r, D F s c VNull = Ok r -> r = c.
Proof. intros [|F] s c r H; cbn in H; [discriminate|]. inversion H. reflexivity. Qed.

Lemma dec_struct_ok : forall dec s cur kvs r,
  dec_struct dec s cur kvs = Ok r ->
  exists rs, r = CStruct rs /\ fst (dec_fields dec (flat_fields s) (struct_cur s cur) kvs) = Ok rs.
Proof.
  intros dec s cur kvs r H. unfold dec_struct in H.
  destruct (dec_fields dec (flat_fields s) (struct_cur s cur) kvs) as [r0 used].
  destruct r0 as [rs|e|]; try discriminate. destruct (all_used used kvs); try discriminate.
  inversion H; subst. eauto.
Qed.

(* Decoding never zeroes: a struct field whose key is not written (or written as null) keeps its current value. *)
Theorem defaults_kept_struct : forall F nl fs cur kvs r,
  D (S F) (SStruct nl fs) cur (VMap kvs) = Ok r ->
  exists rs, r = CStruct rs /\
    forall i f, nth_error (flat_fields (SStruct nl fs)) i = Some f -> unwritten F (f_key f) kvs ->
      nth_error rs i = Some (cur_at (struct_cur (SStruct nl fs) cur) i f).
Proof.
  intros F nl fs cur kvs r H. rewrite D_struct in H.
  destruct (dec_struct_ok _ _ _ _ _ H) as [rs [-> Hd]]. exists rs. split; [reflexivity|].
  intros i f Hf Hu.
  destruct (dec_fields_nth _ _ _ _ _ _ _ Hd Hf) as [r1 [Hr Hx]]. rewrite Hr.
  destruct Hu as [Hu|[k' Hu]]; rewrite Hu in Hx.
  - subst. reflexivity.
  - apply D_null in Hx. subst. reflexivity.
Qed.

(* The same for a component: options of a plugin that are not written keep the REGISTERED default. *)
Theorem defaults_kept_plugin : forall F iface fk cur kvs r e nl fs d,
  D (S F) (SPlugin iface fk) cur (VMap kvs) = Ok r ->
  plugin_entry reg iface kvs = Some e -> e_conf e = Some (SStruct nl fs, d) -> entry_lazy lz fk e = false ->
  exists name rs, r = CPlugin name false (CStruct rs) /\
    validate orc (CStruct rs) (SStruct nl fs) = true /\
    ctor_ok (SStruct nl fs) (CStruct rs) = true /\
    forall i f, nth_error (flat_fields (SStruct nl fs)) i = Some f ->
      unwritten F (f_key f) (filter (fun kv => negb (is_type_key kv)) kvs) ->
      nth_error rs i = Some (cur_at (struct_cur (SStruct nl fs) d) i f).
Proof.
  intros F iface fk cur kvs r e nl fs d H Hp Hc Hl. rewrite D_plugin in H. unfold dec_plugin in H.
  destruct (plugin_entry_inv _ _ _ _ Hp) as [k1 [name [H1 H2]]]. rewrite H1, H2, Hc in H.
  unfold entry_lazy in Hl. rewrite Hl in H.
  destruct (D F (SStruct nl fs) d (VMap (filter (fun kv => negb (is_type_key kv)) kvs))) as [c| |] eqn:E; try discriminate.
  destruct (validate orc c (SStruct nl fs)) eqn:Hv; try discriminate.
  destruct (ctor_ok (SStruct nl fs) c) eqn:Hct; try discriminate. inversion H; subst.
  destruct F as [|F]; [cbn in E; discriminate|].
  destruct (defaults_kept_struct _ _ _ _ _ _ E) as [rs [-> Hk]].
  exists name, rs. split; [reflexivity|]. split; [exact Hv|]. split; [exact Hct|]. intros i f Hf [Hu|[k' Hu]]; apply Hk; auto.
  - left. exact Hu.
  - right. eauto.
Qed.

(* A written value violating the validate tag of its field makes DecodeAndValidate fail. *)
Theorem range_struct : forall F nl fs cur kvs i f k' x,
  nth_error (flat_fields (SStruct nl fs)) i = Some f ->
  find_key (f_key f) kvs = Some (k', x) ->
  (forall c', D F (f_schema f) (cur_at (struct_cur (SStruct nl fs) cur) i f) x = Ok c' ->
              check_field orc (f_schema f) c' (f_tags f) = false) ->
  notok (decode_and_validate env prop orc orcq reg lz (S F) (SStruct nl fs) cur (VMap kvs)).
Proof.
  intros F nl fs cur kvs i f k' x Hf Hk Hv. unfold decode_and_validate.
  destruct (D (S F) (SStruct nl fs) cur (VMap kvs)) as [r| |] eqn:E; try exact I.
  rewrite D_struct in E. destruct (dec_struct_ok _ _ _ _ _ E) as [rs [-> Hd]].
  destruct (dec_fields_nth _ _ _ _ _ _ _ Hd Hf) as [r1 [Hr Hx]]. rewrite Hk in Hx.
  destruct (validate orc (CStruct rs) (SStruct nl fs)) eqn:Hval; [|exact I].
  pose proof (validate_field orc _ _ _ _ _ Hval Hr Hf) as Hc1. rewrite (Hv _ Hx) in Hc1. discriminate.
Qed.

Theorem range_plugin : forall iface fk kvs e nl fs d i f k' x,
  plugin_entry reg iface kvs = Some e -> e_conf e = Some (SStruct nl fs, d) -> entry_lazy lz fk e = false ->
  nth_error (flat_fields (SStruct nl fs)) i = Some f ->
  find_key (f_key f) (filter (fun kv => negb (is_type_key kv)) kvs) = Some (k', x) ->
  (forall F' c', D F' (f_schema f) (cur_at (struct_cur (SStruct nl fs) d) i f) x = Ok c' ->
              check_field orc (f_schema f) c' (f_tags f) = false) ->
  forall F c, notok (D F (SPlugin iface fk) c (VMap kvs)).
Proof.
  intros iface fk kvs e nl fs d i f k' x Hp Hc Hl Hf Hk Hv [|F] c; [exact I|].
  rewrite D_plugin. unfold dec_plugin.
  destruct (plugin_entry_inv _ _ _ _ Hp) as [k1 [name [H1 H2]]]. rewrite H1, H2, Hc.
  unfold entry_lazy in Hl. rewrite Hl.
  destruct (D F (SStruct nl fs) d (VMap (filter (fun kv => negb (is_type_key kv)) kvs))) as [r| |] eqn:E; try exact I.
  destruct F as [|F]; [cbn in E; discriminate|].
  rewrite D_struct in E. destruct (dec_struct_ok _ _ _ _ _ E) as [rs [-> Hd]].
  destruct (dec_fields_nth _ _ _ _ _ _ _ Hd Hf) as [r1 [Hr Hx]]. rewrite Hk in Hx.
  destruct (validate orc (CStruct rs) (SStruct nl fs)) eqn:Hval; [|exact I].
  pose proof (validate_field orc _ _ _ _ _ Hval Hr Hf) as Hc1. rewrite (Hv _ _ Hx) in Hc1. discriminate.
Qed.

(* ... at any depth: a component anywhere in the tree whose written option violates its tag fails the whole decode *)
Theorem range_at : forall p s cur v iface fk tags d0 kvs e nl fs d i f k' x,
  reach reg lz uq p [] s cur v = Some (SPlugin iface fk, tags, d0, VMap kvs) ->
  plugin_entry reg iface kvs = Some e -> e_conf e = Some (SStruct nl fs, d) -> entry_lazy lz fk e = false ->
  nth_error (flat_fields (SStruct nl fs)) i = Some f ->
  find_key (f_key f) (filter (fun kv => negb (is_type_key kv)) kvs) = Some (k', x) ->
  (forall F' c', D F' (f_schema f) (cur_at (struct_cur (SStruct nl fs) d) i f) x = Ok c' ->
              check_field orc (f_schema f) c' (f_tags f) = false) ->
  forall F c, notok (D F s c v).
Proof.
  intros. eapply propagate; eauto. intros F' c'. eapply range_plugin; eauto.
Qed.

End Results.

(* ---------------------------------------------------------------- placeholders ${env:NAME} *)
Lemma trim_left_id : forall s, (forall c r, s = c :: r -> is_space c = false) -> trim_left s = s.
Proof. intros [|c r] H; [reflexivity|]. cbn. rewrite (H c r eq_refl). reflexivity. Qed.

Lemma trim_id : forall s,
  (forall c r, s = c :: r -> is_space c = false) ->
  (forall c r, rev s = c :: r -> is_space c = false) -> trim s = s.
Proof.
  intros s H1 H2. unfold trim. rewrite (trim_left_id s H1), (trim_left_id (rev s) H2). apply rev_involutive.
Qed.

Lemma name_char_nospace : forall c, name_char c = true -> is_space c = false.
Proof.
  intros c H. unfold name_char in H. repeat (apply andb_true_iff in H; destruct H as [H ?]).
  apply negb_true_iff. assumption.
Qed.

Lemma trim_name : forall name, forallb name_char name = true -> trim name = name.
Proof.
  intros name H. rewrite forallb_forall in H. apply trim_id.
  - intros c r ->. apply name_char_nospace, H. left. reflexivity.
  - intros c r Hr. apply name_char_nospace, H. apply in_rev. rewrite Hr. left. reflexivity.
Qed.

Lemma var_end_name : forall name acc rest,
  forallb name_char name = true -> (acc <> [] \/ name <> []) ->
  var_end acc (name ++ c_rbrace :: rest) = Some (rev acc ++ name, rest).
Proof.
  induction name as [|c name IH]; intros acc rest Hn Hne.
  - cbn. destruct acc; [destruct Hne; congruence|]. rewrite app_nil_r. reflexivity.
  - cbn in Hn. apply andb_true_iff in Hn. destruct Hn as [Hc Hn].
    unfold name_char in Hc. repeat (apply andb_true_iff in Hc; destruct Hc as [Hc ?]).
    cbn [app var_end].
    apply negb_true_iff in Hc. rewrite Hc.
    match goal with H : negb (c =? c_rbrace) = true |- _ => apply negb_true_iff in H; rewrite H end.
    rewrite IH; auto.
    + cbn. rewrite <- app_assoc. reflexivity.
    + left. discriminate.
Qed.

Lemma find_tags_nil : forall n, find_tags n [] = [].
Proof. destruct n; reflexivity. Qed.

Lemma find_tags_ph_env : forall name,
  simple_name name = true ->
  find_tags (length (ph_env name)) (ph_env name)
  = [{| t_whole := ph_env name; t_type := s_env; t_var := name |}].
Proof.
  intros name H. unfold simple_name in H.
  assert (Hn : forallb name_char name = true) by (destruct name; [discriminate|exact H]).
  assert (Hne : name <> []) by (destruct name; [discriminate|discriminate]).
  unfold ph_env. cbn [length find_tags app s_env].
  change (c_dollar =? c_dollar) with true. change (c_lbrace =? c_lbrace) with true. cbn match.
  unfold match_at.
  assert (Hg : grp [] (101 :: 110 :: 118 :: c_colon :: name ++ [c_rbrace]) = Some ([101;110;118], name, [])).
  { cbn [grp]. change (101 =? c_rbrace) with false. change (101 =? c_colon) with false.
    change (110 =? c_rbrace) with false. change (110 =? c_colon) with false.
    change (118 =? c_rbrace) with false. change (118 =? c_colon) with false.
    change (c_colon =? c_rbrace) with false. change (c_colon =? c_colon) with true. cbn [andb negb].
    rewrite (var_end_name name [] [] Hn (or_intror Hne)). reflexivity. }
  rewrite Hg. rewrite (trim_name name Hn). reflexivity.
Qed.

Lemma prefix_of_refl : forall s, prefix_of s s = Some [].
Proof. induction s as [|c s IH]; cbn; [reflexivity|]. rewrite N.eqb_refl. exact IH. Qed.

Lemma replace_all_whole : forall s v n, s <> [] -> replace_all (S n) s s v = v.
Proof.
  intros s v n H. destruct s as [|c r]; [congruence|]. cbn [replace_all].
  rewrite prefix_of_refl. destruct n; cbn; apply app_nil_r.
Qed.

Lemma trim_ph_env : forall name, trim (ph_env name) = ph_env name.
Proof.
  intro name. apply trim_id.
  - intros c r H. unfold ph_env in H. inversion H. reflexivity.
  - intros c r H. unfold ph_env in H.
    replace (c_dollar :: c_lbrace :: s_env ++ c_colon :: name ++ [c_rbrace])
      with ((c_dollar :: c_lbrace :: s_env ++ c_colon :: name) ++ [c_rbrace]) in H
      by reflexivity.
    rewrite rev_unit in H. inversion H. reflexivity.
Qed.

Section Placeholders.
Variable env : str -> option str.
Variable prop : str -> str -> option str.
Variable orc : okind -> str -> option Z.
Variable orcq : str -> option Q.
Variable reg : list entry.
Variable lz : bool.
Variable uq : bool.
Notation D := (decode env prop orc orcq reg lz).

Lemma resolve_env : forall name, resolve env prop s_env name = match env name with Some v => RVal v | None => RErr EPlaceholder end.
Proof. reflexivity. Qed.

(* an unset environment variable is an error of the hook chain, whatever the target *)
Lemma hooks_ph_unset : forall name target,
  simple_name name = true -> env name = None ->
  hooks env prop orc orcq target (VStr (ph_env name)) = HErr EPlaceholder.
Proof.
  intros name target Hs He. unfold hooks, inject. rewrite find_tags_ph_env by exact Hs.
  cbn [subst_tokens t_type t_var]. rewrite resolve_env, He. reflexivity.
Qed.

(* a set variable: the text is cast by the kind of the target *)
Lemma inject_ph_set : forall name target t,
  simple_name name = true -> env name = Some t ->
  inject env prop orc orcq target (ph_env name) = cast_text orc orcq target t.
Proof.
  intros name target t Hs He. unfold inject. rewrite find_tags_ph_env by exact Hs.
  cbn [subst_tokens t_type t_var t_whole]. rewrite resolve_env, He.
  rewrite replace_all_whole by (unfold ph_env; discriminate).
  rewrite trim_ph_env, str_eqb_refl. reflexivity.
Qed.

(* In a scalar position of any kind the placeholder is decoded like the literal its text casts to, or -- when
   the text is not a literal of that kind -- like the text itself (duration, size and text hooks included). *)
Theorem placeholder_scalar : forall name t k F c,
  simple_name name = true -> env name = Some t -> has_dollar_brace t = false ->
  D (S F) (SScalar k) c (VStr (ph_env name)) =
  match cast_text orc orcq (SScalar k) t with
  | HVal (VStr _) => D (S F) (SScalar k) c (VStr t)
  | HVal lit => D (S F) (SScalar k) c lit
  | HErr e => Err e
  end.
Proof.
  intros name t k F c Hs He Hd. cbn [decode hooks].
  rewrite (inject_ph_set name (SScalar k) t Hs He), (inject_plain env prop orc orcq (SScalar k) t Hd).
  unfold cast_text.
  destruct (cast_kind (SScalar k)).
  - destruct (parse_bool t); reflexivity.
  - destruct (orc (OInt bits) t); reflexivity.
  - destruct (orc (OUint bits) t); reflexivity.
  - destruct (orcq t); reflexivity.
  - reflexivity.
  - reflexivity.
Qed.

Theorem placeholder_unset_at : forall p s cur v s' tags d name,
  reach reg lz uq p [] s cur v = Some (s', tags, d, VStr (ph_env name)) ->
  simple_name name = true -> env name = None ->
  forall F c, notok (D F s c v).
Proof.
  intros. eapply hook_error_at; eauto; [discriminate|]. apply hooks_ph_unset; assumption.
Qed.

(* text without "${" passes the injection hook unchanged *)
Theorem no_placeholder_unchanged : forall target t,
  has_dollar_brace t = false -> inject env prop orc orcq target t = HVal (VStr t).
Proof. intros. apply inject_plain. assumption. Qed.

End Placeholders.

(* ---------------------------------------------------------------- cli pre-pass on the whole tree *)
Lemma cli_prepass_pools : forall kvs k l,
  find_exact s_pools kvs = Some (k, VList l) ->
  exists kvs', cli_prepass (VMap kvs) = VMap kvs' /\ find_exact s_pools kvs' = Some (k, VList (map prepass_pool l)).
Proof.
  intros kvs k l H. unfold cli_prepass. eexists. split; [reflexivity|].
  induction kvs as [|[k1 x1] r IH]; [discriminate|].
  cbn [find_exact] in H. cbn [map fst snd].
  destruct (str_eqb s_pools k1) eqn:E.
  - inversion H; subst. rewrite (str_eqb_sym k s_pools), E. cbn [find_exact fst snd]. rewrite E. reflexivity.
  - rewrite (str_eqb_sym k1 s_pools), E. cbn [find_exact]. rewrite E. apply IH. exact H.
Qed.

Lemma dv_notok : forall env prop orc orcq reg lz F s c v,
  notok (decode env prop orc orcq reg lz F s c v) -> notok (decode_and_validate env prop orc orcq reg lz F s c v).
Proof. intros. unfold decode_and_validate. destruct (decode env prop orc orcq reg lz F s c v); cbn in *; tauto. Qed.
