(* Link L4 (C12 <-> C02): the startup token stream C12 uses for schedule.NewInstanceStep
   ([istep_spec], a list of Z offsets, arguments in Z; Model/StartLoop.v has its own small
   composite semantics) is the abstract token stream of C02's [instance_step] configuration
   (arguments in nat; Model/SchedTree.v, general composite semantics), for all arguments.
   Translation: nat -> Z by Z.of_nat (and Z -> nat by Z.to_nat for non-negative arguments). *)
From Coq Require Import ZArith Lia List Bool Arith.
From PV Require Import Model.SchedTree Proofs.SchedTreeProofs Proofs.SchedTreeSeq Proofs.SchedTreeSpec.
From PV Require Model.StartLoop Proofs.StartLoopProofs.
Import ListNotations.
Local Open Scope Z_scope.

Definition istep_spec := StartLoop.istep_spec.
Definition istep_levels := StartLoop.istep_levels.
Definition istep_tokens := StartLoop.istep_tokens.

(* the number of steps is the same number in both models *)
Lemma levels_iters (from to step : nat) :
  istep_levels (Z.of_nat from) (Z.of_nat to) (Z.of_nat step) = istep_iters from to step.
Proof.
  unfold istep_levels, StartLoop.istep_levels, istep_iters.
  destruct (Nat.eqb_spec step 0) as [->|Hs].
  - cbn [Z.of_nat]. rewrite Zdiv_0_r. reflexivity.
  - destruct (le_lt_dec from to) as [Hle|Hlt].
    + rewrite <- Nat2Z.inj_sub by exact Hle. rewrite <- Nat2Z.inj_div. apply Nat2Z.id.
    + replace (to - from)%nat with 0%nat by lia. rewrite Nat.div_0_l by exact Hs.
      apply StartLoopProofs.to_nat_nonpos.
      assert (Z.of_nat to - Z.of_nat from < 0) by lia.
      assert (0 < Z.of_nat step) by lia.
      pose proof (Z.div_lt_upper_bound (Z.of_nat to - Z.of_nat from) (Z.of_nat step) 0). lia.
Qed.

Lemma map_repeat {A B} (g : A -> B) x n : map g (repeat x n) = repeat (g x) n.
Proof. induction n; cbn; congruence. Qed.

(* the steps j = a+1 .. a+k of C12's specification are C02's items of k iterations started at p + a*dur *)
Lemma istep_items_spec (step : nat) dur p : forall k a,
  istep_items (p + Z.of_nat a * dur) k step dur =
  map (fun t => IT (p + t)) (concat (map (fun j => repeat (Z.of_nat j * dur) step) (seq (S a) k))).
Proof.
  induction k as [|k IH]; intros a; [reflexivity|].
  cbn [istep_items seq map concat]. rewrite map_app, map_repeat.
  replace (p + Z.of_nat a * dur + dur) with (p + Z.of_nat (S a) * dur) by lia.
  rewrite IH. reflexivity.
Qed.

Theorem istep_stream_eq (from to step : nat) dur p :
  items_from p (flatten_cfg (instance_step from to step dur)) =
  (map (fun t => IT (p + t)) (istep_spec (Z.of_nat from) (Z.of_nat to) (Z.of_nat step) dur),
   p + Z.of_nat (istep_levels (Z.of_nat from) (Z.of_nat to) (Z.of_nat step)) * dur).
Proof.
  rewrite instance_step_items, levels_iters. f_equal.
  unfold istep_spec, StartLoop.istep_spec. fold istep_levels. rewrite levels_iters.
  rewrite map_app, map_repeat, !Nat2Z.id. rewrite Z.add_0_r. f_equal.
  pose proof (istep_items_spec step dur p (istep_iters from to step) 0) as H.
  cbn [Z.of_nat] in H. rewrite Z.mul_0_l, Z.add_0_r in H. exact H.
Qed.

(* the same for the Z arguments the C12 theorem is stated for, together with C12's statement
   that the code-shaped loop of NewInstanceStep yields that specification *)
Theorem istep_stream_eq_Z (from to step dur p : Z) : 0 <= from -> 0 <= to -> 1 <= step ->
  istep_tokens from to step dur = Some (istep_spec from to step dur) /\
  items_from p (flatten_cfg (instance_step (Z.to_nat from) (Z.to_nat to) (Z.to_nat step) dur)) =
  (map (fun t => IT (p + t)) (istep_spec from to step dur),
   p + Z.of_nat (istep_levels from to step) * dur).
Proof.
  intros Hf Ht Hs. split; [apply StartLoopProofs.instance_step_tokens; assumption|].
  rewrite istep_stream_eq. rewrite !Z2Nat.id by lia. reflexivity.
Qed.
