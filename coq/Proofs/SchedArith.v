(* Integer arithmetic behind the line schedule (property C01).
   With rates over a common denominator the integral of a line profile is N(t)/scale with
   N(t) = Dl*t^2 + 2*f*D*t  (Dl = to_n - from_n, f = from_n, D the duration in ns); the closed
   form of lineDoAt becomes an integer square root followed by a floor division. *)
From Coq Require Import ZArith Lia Psatz.
From PV Require Import Model.Sched.
Local Open Scope Z_scope.

Definition Npoly (Dl f D t : Z) : Z := Dl * t * t + 2 * f * D * t.
Lemma Npoly_square Dl f D t : (Dl * t + f * D) * (Dl * t + f * D) = Dl * Npoly Dl f D t + f * f * D * D.
Proof. unfold Npoly. ring. Qed.

Lemma inc_bracket Dl f D K :
  0 < Dl -> 0 <= f -> 0 <= D -> 0 <= K ->
  let q := (Z.sqrt (f * f * D * D + Dl * K) - f * D) / Dl in
  0 <= q /\ Npoly Dl f D q <= K /\ K < Npoly Dl f D (q + 1).
Proof.
  intros HDl Hf HD HK q.
  assert (HR : 0 <= f * f * D * D + Dl * K) by nia.
  pose proof (Z.sqrt_spec _ HR) as Hs. cbv zeta in Hs.
  set (R := f * f * D * D + Dl * K) in *.
  set (s := Z.sqrt R) in *.
  assert (Hs0 : 0 <= s) by apply Z.sqrt_nonneg.
  assert (HfD : f * D <= s).
  { apply Z.sqrt_le_square; [lia|nia|]. unfold R. nia. }
  assert (Hq1 : Dl * q <= s - f * D) by (apply Z.mul_div_le; lia).
  assert (Hq2 : s - f * D < Dl * (q + 1)).
  { replace (q + 1) with (Z.succ q) by lia. apply Z.mul_succ_div_gt; lia. }
  assert (Hq0 : 0 <= q) by (apply Z.div_pos; lia).
  split; [exact Hq0|].
  pose proof (Npoly_square Dl f D q) as E1.
  pose proof (Npoly_square Dl f D (q + 1)) as E2.
  split.
  - assert (H1 : (Dl * q + f * D) * (Dl * q + f * D) <= s * s) by nia.
    assert (H2 : Dl * Npoly Dl f D q <= Dl * K) by (unfold R in *; lia).
    nia.
  - assert (H1 : (s + 1) * (s + 1) <= (Dl * (q + 1) + f * D) * (Dl * (q + 1) + f * D)) by nia.
    assert (H2 : Dl * K < Dl * Npoly Dl f D (q + 1)) by (unfold R in *; lia).
    nia.
Qed.

Lemma csqrt_spec R : 0 <= R ->
  0 <= csqrt R /\ R <= csqrt R * csqrt R /\ (0 < csqrt R -> (csqrt R - 1) * (csqrt R - 1) < R).
Proof.
  intros HR. unfold csqrt. pose proof (Z.sqrt_spec _ HR) as Hs. cbv zeta in Hs.
  pose proof (Z.sqrt_nonneg R) as H0.
  set (s := Z.sqrt R) in *.
  destruct (Z.eqb_spec (s * s) R); repeat split; first [lia|nia].
Qed.

Lemma dec_bracket Dm f D K :
  0 < Dm -> 0 <= f -> 0 <= D -> 0 <= K -> 0 <= f * f * D * D - Dm * K ->
  let q := (f * D - csqrt (f * f * D * D - Dm * K)) / Dm in
  0 <= q /\ Dm * q <= f * D /\ Npoly (- Dm) f D q <= K /\ (Dm * (q + 1) <= f * D -> K < Npoly (- Dm) f D (q + 1)).
Proof.
  intros HDm Hf HD HK HR q.
  destruct (csqrt_spec _ HR) as (Hc0 & Hc1 & Hc2).
  set (R := f * f * D * D - Dm * K) in *.
  set (c := csqrt R) in *.
  assert (HcfD : c <= f * D).
  { destruct (Z.eq_dec c 0) as [->|Hne]; [nia|].
    assert (0 < c) by lia. specialize (Hc2 H).
    assert ((c - 1) * (c - 1) < (f * D) * (f * D)) by (unfold R in *; nia).
    nia. }
  assert (Hq1 : Dm * q <= f * D - c) by (apply Z.mul_div_le; lia).
  assert (Hq2 : f * D - c < Dm * (q + 1)).
  { replace (q + 1) with (Z.succ q) by lia. apply Z.mul_succ_div_gt; lia. }
  assert (Hq0 : 0 <= q) by (apply Z.div_pos; lia).
  split; [exact Hq0|]. split; [lia|].
  pose proof (Npoly_square (- Dm) f D q) as E1.
  pose proof (Npoly_square (- Dm) f D (q + 1)) as E2.
  split.
  - (* f D - Dm q >= c >= 0 so (fD - Dm q)^2 >= c^2 >= R *)
    assert (H1 : c * c <= (- Dm * q + f * D) * (- Dm * q + f * D)) by nia.
    assert (H2 : Dm * Npoly (- Dm) f D q <= Dm * K) by (unfold R in *; nia).
    nia.
  - intros Hdom.
    (* 0 <= fD - Dm (q+1) < c  so square < ... need (c-1)^2 < R and fD - Dm(q+1) <= c-1 *)
    assert (Hpos : 0 < c) by lia. specialize (Hc2 Hpos).
    assert (H1 : (- Dm * (q + 1) + f * D) * (- Dm * (q + 1) + f * D) <= (c - 1) * (c - 1)) by nia.
    assert (H2 : Dm * K < Dm * Npoly (- Dm) f D (q + 1)) by (unfold R in *; nia).
    nia.
Qed.

(* N is non-decreasing / increasing on the part of the axis where the rate is non-negative *)
Lemma Npoly_diff Dl f D x y :
  Npoly Dl f D y - Npoly Dl f D x = (y - x) * (Dl * (x + y) + 2 * f * D).
Proof. unfold Npoly. ring. Qed.

Lemma Npoly_mono_inc Dl f D x y :
  0 <= Dl -> 0 <= f -> 0 <= D -> 0 <= x -> x <= y -> Npoly Dl f D x <= Npoly Dl f D y.
Proof.
  intros. pose proof (Npoly_diff Dl f D x y).
  assert (0 <= Dl * (x + y) + 2 * f * D) by nia.
  assert (0 <= (y - x) * (Dl * (x + y) + 2 * f * D)) by (apply Z.mul_nonneg_nonneg; lia).
  lia.
Qed.

Lemma Npoly_mono_dec Dm f D x y :
  0 <= Dm -> 0 <= x -> x <= y -> Dm * y <= f * D -> Npoly (- Dm) f D x <= Npoly (- Dm) f D y.
Proof.
  intros. pose proof (Npoly_diff (- Dm) f D x y).
  assert (Dm * x <= Dm * y) by nia.
  assert (0 <= - Dm * (x + y) + 2 * f * D) by lia.
  assert (0 <= (y - x) * (- Dm * (x + y) + 2 * f * D)) by (apply Z.mul_nonneg_nonneg; lia).
  lia.
Qed.

Lemma Npoly_strict Dl f t D x y :
  Dl = t - f -> Dl <> 0 -> 0 <= f -> 0 <= t -> 0 < D -> 0 <= x -> x < y -> y <= D ->
  Npoly Dl f D x < Npoly Dl f D y.
Proof.
  intros -> Hne Hf Ht HD Hx Hxy HyD. pose proof (Npoly_diff (t - f) f D x y) as E.
  assert (0 < (t - f) * (x + y) + 2 * f * D); [|nia].
  destruct (Z_lt_le_dec f t).
  - nia.
  - assert (t < f) by lia.
    assert ((f - t) * y <= (f - t) * D) by nia.
    assert ((f - t) * x <= (f - t) * (D - 1)) by nia.
    nia.
Qed.
