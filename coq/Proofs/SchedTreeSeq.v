(* C02: Next / Left / Start of a schedule tree refine the abstract token stream. *)
From Coq Require Import List ZArith Bool Arith Lia.
From PV Require Import Model.SchedTree Proofs.SchedTreeProofs.
Import ListNotations.
Local Open Scope Z_scope.

Lemma bind_ok {A B} (r : res A) (f : A -> res B) b :
  bind r f = Ok b -> exists a, r = Ok a /\ f a = Ok b.
Proof. destruct r; cbn; intros H; try discriminate. eauto. Qed.

(* ---------- flatten ---------- *)
Lemma wf_flatten_ne s : wf s -> flatten s <> [].
Proof.
  induction s as [| |l la cs IH] using sched_ind'; intros H; cbn [flatten]; try discriminate.
  inversion H as [| |h r cs' Hh Hr Hf Hs]; subst. inversion IH as [|? ? IHh IHr]; subst.
  cbn [flat_map]. intros E. apply app_eq_nil in E. destruct E as [E _]. exact (IHh Hh E).
Qed.

Lemma head_started_app a b : head_started a -> head_started (a ++ b).
Proof. destruct a as [|x r]; cbn; [tauto|]. destruct x as [? ? ? ? [?|]|? [?|]|? ? ?]; cbn; tauto. Qed.

Lemma started_head s : started s -> head_started (flatten s).
Proof.
  induction s as [| |l la cs IH] using sched_ind'; intros H; inversion H; subst; cbn; auto.
  inversion IH; subst. apply head_started_app. auto.
Qed.

Lemma absp_param s p q : started s -> items_from p (flatten s) = items_from q (flatten s).
Proof. intros H. apply items_param, started_head, H. Qed.

Lemma items_comp p h r la cs :
  items_from p (flatten (Comp (h :: r) la cs)) =
  (absp p h ++ fst (items_from (afin p h) (flatl r)), snd (items_from (afin p h) (flatl r))).
Proof. cbn [flatten flat_map]. rewrite items_app. reflexivity. Qed.

Lemma absp_comp p h r la cs :
  absp p (Comp (h :: r) la cs) = absp p h ++ fst (items_from (afin p h) (flatl r)).
Proof. unfold absp at 1. rewrite items_comp. reflexivity. Qed.

Lemma afin_comp p h r la cs :
  afin p (Comp (h :: r) la cs) = snd (items_from (afin p h) (flatl r)).
Proof. unfold afin at 1. rewrite items_comp. reflexivity. Qed.

(* ---------- Start of a fresh tree ---------- *)
Lemma start_fresh s : fresh s -> forall t, exists s',
  s_start t s = Ok s' /\ started s' /\ wf s' /\
  (forall q, items_from q (flatten s') = items_from t (flatten s)).
Proof.
  induction s as [| |l la cs IH] using sched_ind'; intros H t; inversion H as [| |l' Hl Hne]; subst.
  - eexists; split; [reflexivity|]. repeat split; constructor.
  - eexists; split; [reflexivity|]. repeat split; constructor.
  - destruct l as [|h r]; [congruence|].
    inversion IH as [|? ? IHh IHr]; subst. inversion Hl as [|? ? Hh Hr]; subst.
    destruct (IHh Hh t) as (h' & E & Sh & Wh & Ih).
    exists (Comp (h' :: r) (la_of (h :: r)) true). cbn [s_start]. rewrite E. cbn [bind].
    split; [reflexivity|]. split; [constructor; exact Sh|]. split.
    + change (la_of (h :: r)) with (la_of (h' :: r)). constructor; auto. discriminate.
    + intros q. rewrite !items_comp. unfold absp, afin. rewrite !Ih. reflexivity.
Qed.

(* ---------- Next ---------- *)
Definition pst (s : sched) (p now : Z) : Prop := started s \/ p = now.

Lemma pst_head h r la cs p now : wf (Comp (h :: r) la cs) -> pst (Comp (h :: r) la cs) p now -> pst h p now.
Proof.
  intros W [S|E]; [left; inversion S; auto|right; auto].
Qed.

Lemma seq_shift i n : (i < n)%nat -> seq i (n - i) = i :: seq (S i) (n - S i).
Proof. intros H. replace (n - i)%nat with (S (n - S i)) by lia. reflexivity. Qed.

Definition next_post (now p : Z) (s s' : sched) (t : Z) (ok : bool) : Prop :=
  wf s' /\ started s' /\ afin p s' = afin p s /\
  exists its', abs_next now (afin p s) (absp p s) = (its', t, ok) /\
               drop_closed now its' = drop_closed now (absp p s').

Lemma next_leaf_doat now p n d a i st s' t ok :
  pst (DoAt n d a i st) p now ->
  s_next 1 now (DoAt n d a i st) = Ok (s', t, ok) ->
  next_post now p (DoAt n d a i st) s' t ok.
Proof.
  intros P H. cbn [s_next] in H.
  set (s0 := match st with Some x => x | None => p end).
  assert (E0 : match st with Some x => x | None => now end = s0).
  { destruct st; [reflexivity|]. destruct P as [S|E]; [inversion S|subst; reflexivity]. }
  rewrite E0 in H.
  destruct (Nat.ltb_spec i n) as [L|L]; inversion H; subst; clear H;
    unfold next_post, absp, afin; cbn [flatten items_from fst snd]; fold s0.
  - split; [constructor|]. split; [constructor|]. split; [reflexivity|].
    rewrite (seq_shift i n L). cbn [map app abs_next]. eexists; split; reflexivity.
  - split; [constructor|]. split; [constructor|]. split; [reflexivity|].
    replace (n - i)%nat with 0%nat by lia. replace (n - S i)%nat with 0%nat by lia.
    cbn. eexists; split; reflexivity.
Qed.

Lemma next_leaf_unl now p d fin s' t ok :
  pst (Unlim d fin) p now ->
  s_next 1 now (Unlim d fin) = Ok (s', t, ok) ->
  next_post now p (Unlim d fin) s' t ok.
Proof.
  intros P H. cbn [s_next] in H.
  set (f0 := match fin with Some f => f | None => p + d end).
  assert (E0 : match fin with Some x => x | None => now + d end = f0).
  { destruct fin; [reflexivity|]. destruct P as [S|E]; [inversion S|subst; reflexivity]. }
  rewrite E0 in H.
  destruct (now <? f0) eqn:L; inversion H; subst; clear H;
    unfold next_post, absp, afin; cbn [flatten items_from fst snd]; fold f0.
  - split; [constructor|]. split; [constructor|]. split; [reflexivity|].
    cbn [abs_next]. rewrite L. eexists; split; reflexivity.
  - split; [constructor|]. split; [constructor|]. split; [reflexivity|].
    cbn [abs_next drop_closed]. rewrite L. eexists; split; reflexivity.
Qed.

Lemma s_next_leaf_fuel f now s : (match s with Comp _ _ _ => False | _ => True end) ->
  s_next (S f) now s = s_next 1 now s.
Proof. destruct s; cbn; tauto. Qed.

Lemma next_sound : forall fuel now p s s' t ok,
  wf s -> pst s p now -> s_next fuel now s = Ok (s', t, ok) -> next_post now p s s' t ok.
Proof.
  induction fuel as [|f IH]; intros now p s s' t ok W P H; [discriminate|].
  destruct s as [n d a i st|d fin|l la cs].
  - rewrite s_next_leaf_fuel in H by exact I. eapply next_leaf_doat; eauto.
  - rewrite s_next_leaf_fuel in H by exact I. eapply next_leaf_unl; eauto.
  - inversion W as [| |h r cs' Wh Fr Hf Hs]; subst.
    cbn [s_next] in H. apply bind_ok in H. destruct H as ([[h' tx] okh] & E1 & H).
    pose proof (IH now p h h' tx okh Wh (pst_head _ _ _ _ _ _ W P) E1) as (Wh' & Sh' & Fh' & A' & AN & DC).
    assert (Wla : forall x, la_of (h :: r) = la_of (x :: r)) by reflexivity.
    destruct okh.
    + (* token from the head *)
      inversion H; subst; clear H. unfold next_post.
      split; [apply wf_comp; auto; discriminate|].
      split; [constructor; auto|].
      split; [rewrite !afin_comp, Fh'; reflexivity|].
      rewrite !absp_comp, afin_comp, Fh'.
      exists (A' ++ fst (items_from (afin p h) (flatl r))). split.
      * eapply an_app_ok; eauto.
      * rewrite !dc_app, DC. reflexivity.
    + apply an_fail in AN. destruct AN as (-> & -> & DCh).
      destruct r as [|h2 r2].
      * inversion H; subst; clear H. unfold next_post.
        split; [apply wf_comp; auto; discriminate|].
        split; [constructor; auto|].
        split; [rewrite !afin_comp, Fh'; reflexivity|].
        rewrite !absp_comp, afin_comp, Fh'. cbn [flatl flat_map items_from fst snd].
        rewrite !app_nil_r. exists []. split; [apply an_nil_closed; exact DCh|].
        cbn [drop_closed] in DC. rewrite <- DC. reflexivity.
      * inversion Fr as [|? ? Fh2 Fr2]; subst.
        destruct (start_fresh h2 Fh2 (afin p h)) as (h2s & E2 & Sh2 & Wh2 & I2).
        rewrite E2 in H. cbn [bind] in H.
        apply bind_ok in H. destruct H as ([[h2' tx2] ok2] & E3 & H).
        pose proof (IH now p h2s h2' tx2 ok2 Wh2 (or_introl Sh2) E3) as (Wh2' & Sh2' & Fh2' & A2' & AN2 & DC2).
        (* the abstract stream of the whole composite *)
        assert (EA : forall la0 cs0, absp p (Comp (h :: h2 :: r2) la0 cs0) =
                     absp p h ++ absp p h2s ++ fst (items_from (afin p h2s) (flatl r2))).
        { intros la0 cs0. rewrite absp_comp. f_equal. cbn [flatl flat_map]. rewrite items_app.
          unfold absp, afin. rewrite !(I2 p). reflexivity. }
        assert (EF : forall la0 cs0, afin p (Comp (h :: h2 :: r2) la0 cs0) =
                     snd (items_from (afin p h2s) (flatl r2))).
        { intros la0 cs0. rewrite afin_comp. cbn [flatl flat_map]. rewrite items_app.
          unfold afin. rewrite !(I2 p). reflexivity. }
        assert (Wc : forall x, wf (Comp (x :: r2) (tl (la_of (h :: h2 :: r2))) true) <-> (wf x /\ started x)).
        { intros x. cbn [la_of tl]. change (statl (flatl r2) :: la_of r2) with (la_of (x :: r2)). split.
          - intros Wx; inversion Wx; subst; auto.
          - intros [Wx Sx]. constructor; auto. discriminate. }
        destruct (negb ok2 && (1 <? length (h :: h2 :: r2))%nat) eqn:Retry.
        -- (* retry on the shifted composite *)
           apply andb_prop in Retry. destruct Retry as [R1 R2]. destruct ok2; [discriminate|].
           apply an_fail in AN2. destruct AN2 as (-> & -> & DCh2).
           set (c' := Comp (h2' :: r2) (tl (la_of (h :: h2 :: r2))) true) in *.
           assert (Wc' : wf c') by (apply Wc; auto).
           assert (Sc' : started c') by (constructor; auto).
           pose proof (IH now p c' s' t ok Wc' (or_introl Sc') H) as (Ws' & Ss' & Fs' & A3 & AN3 & DC3).
           unfold next_post. split; [exact Ws'|]. split; [exact Ss'|].
           assert (Fc' : afin p c' = snd (items_from (afin p h2s) (flatl r2))).
           { unfold c'. rewrite afin_comp, Fh2'. reflexivity. }
           split; [rewrite Fs', Fc', EF; reflexivity|].
           exists A3. split; [|exact DC3].
           rewrite EA, EF, <- Fc'. rewrite an_app_closed by exact DCh. rewrite an_app_closed by exact DCh2.
           assert (Ac' : absp p c' = absp p h2' ++ fst (items_from (afin p h2s) (flatl r2))).
           { unfold c'. rewrite absp_comp, Fh2'. reflexivity. }
           rewrite <- AN3, Ac'.
           cbn [drop_closed] in DC2. symmetry. apply an_app_closed. rewrite <- DC2. reflexivity.
        -- inversion H; subst; clear H. unfold next_post.
           split; [apply Wc; auto|]. split; [constructor; auto|].
           split; [rewrite afin_comp, Fh2', EF; reflexivity|].
           rewrite EA, EF, absp_comp, Fh2'. rewrite an_app_closed by exact DCh.
           destruct ok.
           ++ exists (A2' ++ fst (items_from (afin p h2s) (flatl r2))). split.
              ** eapply an_app_ok; eauto.
              ** rewrite !dc_app, DC2. reflexivity.
           ++ cbn in Retry. discriminate.
Qed.

(* ---------- leaves, windows, counts ---------- *)
Definition is_leaf (s : sched) : Prop := match s with Comp _ _ _ => False | _ => True end.

Lemma flatten_leaves s : Forall is_leaf (flatten s).
Proof.
  induction s as [| |l la cs IH] using sched_ind'; cbn [flatten]; try (repeat constructor).
  induction IH as [|x r Hx Hr IHr]; cbn [flat_map]; [constructor|].
  apply Forall_app; split; assumption.
Qed.

Lemma flatl_leaves l : Forall is_leaf (flatl l).
Proof.
  induction l as [|x r IH]; cbn [flatl flat_map]; [constructor|].
  apply Forall_app; split; [apply flatten_leaves|exact IH].
Qed.

Lemma no_window_map (f : nat -> Z) l : existsb is_window (map (fun k => IT (f k)) l) = false.
Proof. induction l; cbn; auto. Qed.

Lemma items_windows fl : Forall is_leaf fl -> forall p,
  existsb is_window (fst (items_from p fl)) = existsb unknown_part fl.
Proof.
  induction 1 as [|x r Hx Hr IH]; intros p; [reflexivity|].
  destruct x as [n d a i st|d fin|l la cs]; [| |destruct Hx]; cbn [items_from existsb unknown_part].
  - specialize (IH (match st with Some x => x | None => p end + d)).
    destruct (items_from _ r) as [its f]. cbn [fst] in *.
    rewrite existsb_app, no_window_map. exact IH.
  - specialize (IH (match fin with Some f => f | None => p + d end)).
    destruct (items_from _ r) as [its f]. cbn [fst existsb is_window] in *. reflexivity.
Qed.

Lemma sumcnt_nonneg fl : 0 <= sumcnt fl.
Proof.
  induction fl as [|x r IH]; cbn [sumcnt fold_right]; [lia|].
  fold (sumcnt r). destruct x; cbn [cnt]; lia.
Qed.

Lemma items_length fl : Forall is_leaf fl -> existsb unknown_part fl = false -> forall p,
  Z.of_nat (length (fst (items_from p fl))) = sumcnt fl.
Proof.
  induction 1 as [|x r Hx Hr IH]; intros U p; [reflexivity|].
  destruct x as [n d a i st|d fin|l la cs]; [| |destruct Hx]; cbn [existsb unknown_part orb] in U; [|discriminate].
  cbn [items_from sumcnt fold_right cnt]. fold (sumcnt r).
  specialize (IH U (match st with Some x => x | None => p end + d)).
  destruct (items_from _ r) as [its f]. cbn [fst] in *.
  rewrite app_length, map_length, seq_length, Nat2Z.inj_add, IH. reflexivity.
Qed.

Lemma sumcnt_cons x r : sumcnt (x :: r) = cnt x + sumcnt r.
Proof. reflexivity. Qed.

Lemma sumcnt_app a l : sumcnt (a ++ l) = sumcnt a + sumcnt l.
Proof.
  induction a as [|x r IH]; cbn [app]; [change (sumcnt []) with 0; lia|].
  rewrite !sumcnt_cons, IH. lia.
Qed.

Lemma statl_app a b :
  statl (a ++ b) = if (statl a <? 0) || (statl b <? 0) then -1 else statl a + statl b.
Proof.
  unfold statl. rewrite existsb_app.
  pose proof (sumcnt_app a) as Hs.
  pose proof (sumcnt_nonneg a). pose proof (sumcnt_nonneg b).
  destruct (existsb unknown_part a), (existsb unknown_part b); cbn [orb];
    try reflexivity.
  - rewrite orb_true_r. reflexivity.
  - destruct (sumcnt a <? 0) eqn:E; [apply Z.ltb_lt in E; lia|].
    destruct (sumcnt b <? 0) eqn:E'; [apply Z.ltb_lt in E'; lia|]. cbn [orb]. apply Hs.
Qed.

Lemma statl_ge fl : -1 <= statl fl.
Proof. unfold statl. pose proof (sumcnt_nonneg fl). destruct (existsb unknown_part fl); lia. Qed.

Lemma no_window_dc now l : existsb is_window l = false -> drop_closed now l = l.
Proof. destruct l as [|x r]; [reflexivity|]. destruct x; cbn; [reflexivity|discriminate]. Qed.

(* static Left of an unstarted (fresh) tree: exact count or -1, no state change *)
Lemma left_fresh : forall fuel now s s' k,
  fresh s -> s_left fuel now s = Ok (s', k) -> s' = s /\ k = statl (flatten s).
Proof.
  induction fuel as [|f IH]; intros now s s' k F H; [discriminate|].
  inversion F as [n d a|d|l Fl Hne]; subst.
  - cbn in H. inversion H; subst. split; [reflexivity|]. cbn. lia.
  - cbn in H. inversion H; subst. split; reflexivity.
  - destruct l as [|h r]; [congruence|]. inversion Fl as [|? ? Fh Fr]; subst.
    cbn [s_left la_of] in H. apply bind_ok in H. destruct H as ([h' lft] & E1 & H).
    destruct (IH now h h' lft Fh E1) as [-> ->].
    cbn [flatten flat_map]. fold (flatl r). rewrite statl_app.
    destruct r as [|h2 r2].
    + inversion H; subst. cbn [flatl flat_map]. split; [reflexivity|].
      pose proof (statl_ge (flatten h)).
      destruct (statl (flatten h) <? 0) eqn:E; cbn; [apply Z.ltb_lt in E; lia|lia].
    + set (la0 := statl (flatl (h2 :: r2))) in *.
      pose proof (statl_ge (flatten h)). pose proof (statl_ge (flatl (h2 :: r2))). fold la0 in H1.
      destruct (statl (flatten h) =? 0) eqn:E0.
      * apply Z.eqb_eq in E0. rewrite E0. cbn [Z.ltb Z.compare orb].
        destruct (0 <=? la0) eqn:E1'.
        -- inversion H; subst. split; [reflexivity|].
           apply Z.leb_le in E1'. destruct (la0 <? 0) eqn:E2; [apply Z.ltb_lt in E2; lia|]. lia.
        -- cbn [negb] in H. inversion H; subst. split; [reflexivity|].
           apply Z.leb_gt in E1'. destruct (la0 <? 0) eqn:E2; [reflexivity|apply Z.ltb_ge in E2; lia].
      * destruct ((statl (flatten h) <? 0) || (la0 <? 0)); inversion H; subst; split; reflexivity.
Qed.

(* ---------- Left of a started tree ---------- *)
Definition left_post (now p : Z) (s s' : sched) (k : Z) : Prop :=
  wf s' /\ started s' /\ afin p s' = afin p s /\
  k = abs_left now (absp p s) /\ drop_closed now (absp p s') = drop_closed now (absp p s).

Lemma abs_left_cases now a :
  let k := abs_left now a in
  (k = -1 /\ existsb is_window (drop_closed now a) = true) \/
  (0 <= k /\ existsb is_window (drop_closed now a) = false /\ k = Z.of_nat (length (drop_closed now a))).
Proof.
  unfold abs_left. destruct (existsb is_window (drop_closed now a)); [left; auto|right]. repeat split; lia.
Qed.

Lemma fresh_rest_items r : Forall fresh r -> forall q,
  existsb is_window (fst (items_from q (flatl r))) = (statl (flatl r) <? 0) /\
  (statl (flatl r) <? 0 = false -> Z.of_nat (length (fst (items_from q (flatl r)))) = statl (flatl r)).
Proof.
  intros _ q. rewrite (items_windows _ (flatl_leaves r)). unfold statl.
  pose proof (sumcnt_nonneg (flatl r)).
  destruct (existsb unknown_part (flatl r)) eqn:U.
  - split; [reflexivity|discriminate].
  - split; [symmetry; apply Z.ltb_ge; lia|]. intros _. apply items_length; [apply flatl_leaves|exact U].
Qed.

Lemma left_sound : forall fuel now p s s' k,
  wf s -> started s -> s_left fuel now s = Ok (s', k) -> left_post now p s s' k.
Proof.
  induction fuel as [|f IH]; intros now p s s' k W S H; [discriminate|].
  destruct s as [n d a i st|d fin|l la cs].
  - inversion S; subst. cbn in H. inversion H; subst. unfold left_post, absp, afin.
    cbn [flatten items_from fst snd]. rewrite app_nil_r.
    repeat split; try constructor.
    unfold abs_left. rewrite no_window_dc by apply no_window_map.
    rewrite no_window_map, map_length, seq_length. reflexivity.
  - inversion S; subst. cbn in H. inversion H; subst. unfold left_post, absp, afin.
    cbn [flatten items_from fst snd]. repeat split; try constructor.
    unfold abs_left. cbn [drop_closed]. destruct (now <? f0); reflexivity.
  - inversion W as [| |h r cs' Wh Fr Hf Hs]; subst. inversion S as [| |? ? ? Sh]; subst.
    cbn [s_left la_of] in H. apply bind_ok in H. destruct H as ([h' lft] & E1 & H).
    pose proof (IH now p h h' lft Wh Sh E1) as (Wh' & Sh' & Fh' & Kh & DCh).
    set (B := fst (items_from (afin p h) (flatl r))).
    assert (EA : forall x la0 cs0, afin p x = afin p h ->
                 absp p (Comp (x :: r) la0 cs0) = absp p x ++ B).
    { intros x la0 cs0 E. rewrite absp_comp, E. reflexivity. }
    assert (EF : forall x la0 cs0, afin p x = afin p h ->
                 afin p (Comp (x :: r) la0 cs0) = afin p (Comp (h :: r) la0 cs0)).
    { intros x la0 cs0 E. rewrite !afin_comp, E. reflexivity. }
    assert (Keep : forall k0, k0 = abs_left now (absp p h ++ B) ->
              left_post now p (Comp (h :: r) (statl (flatl r) :: la_of r) true)
                        (Comp (h' :: r) (statl (flatl r) :: la_of r) true) k0).
    { intros k0 Hk. unfold left_post.
      split; [apply wf_comp; auto; discriminate|]. split; [constructor; auto|].
      split; [apply EF; exact Fh'|].
      rewrite (EA h' _ _ Fh'), (EA h _ _ eq_refl). split; [exact Hk|].
      rewrite !dc_app, DCh. reflexivity. }
    destruct (fresh_rest_items r Fr (afin p h)) as [BW BL]. fold B in BW, BL.
    pose proof (abs_left_cases now (absp p h)) as Cases. cbn zeta in Cases. rewrite <- Kh in Cases.
    pose proof (statl_ge (flatl r)) as Hge.
    destruct r as [|h2 r2].
    + injection H as <- <-. apply Keep. unfold B. cbn [flatl flat_map items_from fst].
      rewrite app_nil_r. exact Kh.
    + clear Kh. destruct (lft =? 0) eqn:E0.
      * apply Z.eqb_eq in E0. subst lft.
        destruct Cases as [[C _]|(_ & CW & CL)]; [discriminate|].
        assert (DC0 : drop_closed now (absp p h) = []).
        { destruct (drop_closed now (absp p h)); [reflexivity|cbn in CL; lia]. }
        destruct (0 <=? statl (flatl (h2 :: r2))) eqn:E1'.
        -- injection H as <- <-. apply Keep. apply Z.leb_le in E1'.
           assert (E2 : statl (flatl (h2 :: r2)) <? 0 = false) by (apply Z.ltb_ge; lia).
           unfold abs_left. rewrite dc_app, DC0.
           rewrite E2 in BW. rewrite (no_window_dc now B BW), BW. symmetry. apply BL, E2.
        -- cbn [negb] in H.
           apply bind_ok in H. destruct H as ([[h'' fin] ok] & E2 & H).
           pose proof (next_sound f now p h' h'' fin ok Wh' (or_introl Sh') E2) as (_ & _ & _ & A' & AN & _).
           rewrite an_nil_closed in AN by (rewrite DCh; exact DC0).
           inversion AN; subst. clear AN.
           inversion Fr as [|? ? Fh2 Fr2]; subst.
           destruct (start_fresh h2 Fh2 (afin p h')) as (h2s & E3 & Sh2 & Wh2 & I2).
           rewrite E3 in H. cbn [bind] in H.
           set (c2 := Comp (h2s :: r2) (la_of (h2 :: r2)) true) in *.
           assert (Wc2 : wf c2).
           { unfold c2. change (la_of (h2 :: r2)) with (la_of (h2s :: r2)). constructor; auto. discriminate. }
           assert (Sc2 : started c2) by (constructor; auto).
           pose proof (IH now p c2 s' k Wc2 Sc2 H) as (Ws' & Ss' & Fs' & Ks & DCs).
           assert (Ac2 : absp p c2 = B /\ afin p c2 = afin p (Comp (h :: h2 :: r2) (statl (flatl (h2 :: r2)) :: la_of (h2 :: r2)) true)).
           { unfold c2, B. rewrite absp_comp, !afin_comp. cbn [flatl flat_map]. rewrite !items_app.
             unfold absp, afin. rewrite !(I2 p), Fh'. cbn [fst snd]. split; reflexivity. }
           destruct Ac2 as [Ac2 Fc2].
           unfold left_post. split; [exact Ws'|]. split; [exact Ss'|].
           split; [rewrite Fs'; exact Fc2|].
           rewrite (EA h _ _ eq_refl). rewrite Ac2 in Ks, DCs.
           split.
           ++ rewrite Ks. unfold abs_left. rewrite dc_app, DC0. reflexivity.
           ++ rewrite DCs, dc_app, DC0. reflexivity.
      * apply Z.eqb_neq in E0.
        destruct ((lft <? 0) || (statl (flatl (h2 :: r2)) <? 0)) eqn:E1'; injection H as <- <-; apply Keep.
        -- unfold abs_left. rewrite dc_app.
           destruct Cases as [[C CW]|(C0 & CW & CL)].
           ++ destruct (drop_closed now (absp p h)) eqn:ED; [discriminate|].
              cbn iota; rewrite existsb_app, CW. reflexivity.
           ++ destruct (drop_closed now (absp p h)) eqn:ED; [cbn in CL; lia|].
              cbn iota; rewrite existsb_app, CW, BW.
              destruct (lft <? 0) eqn:E2; [apply Z.ltb_lt in E2; lia|]. cbn [orb] in E1'. rewrite E1'. reflexivity.
        -- apply orb_false_elim in E1'. destruct E1' as [E2 E3].
           destruct Cases as [[C CW]|(C0 & CW & CL)]; [subst; discriminate|].
           unfold abs_left. rewrite dc_app.
           destruct (drop_closed now (absp p h)) eqn:ED; [cbn in CL; lia|].
           cbn iota; rewrite existsb_app, CW, BW, E3. cbn [orb].
           rewrite app_length, Nat2Z.inj_add, <- CL, (BL E3). reflexivity.
Qed.
