(* The fuel of the config decoder (property C17): 3 * depth + 3 is enough, `decode` never answers Fuel. *)
From Coq Require Import List NArith ZArith Bool QArith Lia.
From PV Require Import Model.ConfigDecode Proofs.ConfigDecodeProofs.
Import ListNotations.
Local Open Scope N_scope.

Definition nofuel {A} (r : res A) : Prop := r <> Fuel.

Lemma rcons_nofuel : forall A (r1 : res A) r2, nofuel r1 -> nofuel r2 -> nofuel (rcons r1 r2).
Proof. intros A [a|e|] [l|e2|]; unfold nofuel; cbn; congruence. Qed.

Lemma rmap_nofuel : forall A B (f : A -> B) r, nofuel r -> nofuel (rmap f r).
Proof. intros A B f [a|e|]; unfold nofuel; cbn; congruence. Qed.

(* ---- depth of children *)
Lemma vdepth_list_in : forall l x, In x l -> (vdepth x < vdepth (VList l))%nat.
Proof.
  intros l x H. cbn [vdepth].
  assert (G : forall l, In x l ->
     (vdepth x <= (fix go (l : list value) : nat := match l with [] => O | y :: r => Nat.max (vdepth y) (go r) end) l)%nat).
  { induction l0 as [|y r IH]; intro Hin; [destruct Hin|]. destruct Hin as [->|Hin]; [lia|]. specialize (IH Hin). lia. }
  specialize (G l H). lia.
Qed.

Lemma vdepth_map_in : forall kvs k x, In (k, x) kvs -> (vdepth x < vdepth (VMap kvs))%nat.
Proof.
  intros kvs k x H. cbn [vdepth].
  assert (G : forall l, In (k, x) l ->
     (vdepth x <= (fix go (l : list (str * value)) : nat := match l with [] => O | (_, y) :: r => Nat.max (vdepth y) (go r) end) l)%nat).
  { induction l as [|[k1 y] r IH]; intro Hin; [destruct Hin|]. destruct Hin as [Heq|Hin]; [inversion Heq; subst; lia|].
    specialize (IH Hin). lia. }
  specialize (G kvs H). lia.
Qed.

(* ---- key lookup returns an entry of the map *)
Lemma find_fold_in : forall a kvs k x, find_fold a kvs = Some (k, x) -> In (k, x) kvs.
Proof.
  induction kvs as [|[k1 x1] r IH]; cbn; intros k x H; [discriminate|].
  destruct (fold_eqb a k1); [inversion H; subst; auto|]. right. eapply IH; eauto.
Qed.

Lemma find_key_in : forall a kvs k x, find_key a kvs = Some (k, x) -> In (k, x) kvs.
Proof.
  unfold find_key. intros a kvs k x H. destruct (find_exact a kvs) as [[k1 x1]|] eqn:E.
  - inversion H; subst. destruct (find_exact_some _ _ _ _ E) as [_ Hin]. exact Hin.
  - eapply find_fold_in; eauto.
Qed.

(* ---- one level *)
Section Level.
Variable dec : schema -> cval -> value -> res cval.

Lemma dec_fields_nofuel : forall ffs cs kvs,
  (forall f k x c, In f ffs -> find_key (f_key f) kvs = Some (k, x) -> nofuel (dec (f_schema f) c x)) ->
  nofuel (fst (dec_fields dec ffs cs kvs)).
Proof.
  induction ffs as [|f ffs IH]; intros cs kvs H; [unfold nofuel; cbn; congruence|].
  cbn -[find_key].
  assert (IH' : nofuel (fst (dec_fields dec ffs (tl cs) kvs))).
  { apply IH. intros f0 k x c Hf Hk. eapply H; [right; exact Hf|exact Hk]. }
  destruct (dec_fields dec ffs (tl cs) kvs) as [r2 u2]. cbn [fst] in IH'.
  destruct (find_key (f_key f) kvs) as [[k' x]|] eqn:Hk; cbn [fst].
  - apply rcons_nofuel; [|exact IH']. eapply (H f k' x); [left; reflexivity|exact Hk].
  - apply rcons_nofuel; [unfold nofuel; congruence|exact IH'].
Qed.

Lemma dec_struct_nofuel : forall s cur kvs,
  (forall f k x c, In f (flat_fields s) -> find_key (f_key f) kvs = Some (k, x) -> nofuel (dec (f_schema f) c x)) ->
  nofuel (dec_struct dec s cur kvs).
Proof.
  intros s cur kvs H. unfold dec_struct.
  pose proof (dec_fields_nofuel (flat_fields s) (struct_cur s cur) kvs H) as Hn.
  destruct (dec_fields dec (flat_fields s) (struct_cur s cur) kvs) as [r used]. cbn [fst] in Hn.
  destruct r; [destruct (all_used used kvs)| |]; unfold nofuel in *; congruence.
Qed.

Lemma dec_elems_nofuel : forall e l cur,
  (forall x c, In x l -> nofuel (dec e c x)) -> nofuel (dec_elems dec e cur l).
Proof.
  induction l as [|x r IH]; intros cur H; [unfold nofuel; cbn; congruence|].
  cbn. apply rcons_nofuel; [apply H; left; reflexivity|apply IH; intros; apply H; right; assumption].
Qed.

Lemma dec_entries_nofuel : forall e kvs,
  (forall k, nofuel (dec (SScalar KString) (CStr []) (VStr k))) ->
  (forall k x c, In (k, x) kvs -> nofuel (dec e c x)) -> nofuel (dec_entries dec e kvs).
Proof.
  induction kvs as [|[k x] r IH]; intros Hk H; [unfold nofuel; cbn; congruence|].
  cbn. apply rcons_nofuel; [|apply IH; auto; intros; eapply H; right; eauto].
  specialize (Hk k). specialize (H k x (zero_of e) (or_introl eq_refl)).
  destruct (dec (SScalar KString) (CStr []) (VStr k)) as [[]|?|]; destruct (dec e (zero_of e) x);
    unfold nofuel in *; congruence.
Qed.

End Level.

Section Fuel.
Variable env : str -> option str.
Variable prop : str -> str -> option str.
Variable orc : okind -> str -> option Z.
Variable orcq : str -> option Q.
Variable reg : list entry.
Variable lz : bool.
Notation D := (decode env prop orc orcq reg lz).

Lemma dec_scalar_nofuel : forall k v, nofuel (dec_scalar k v).
Proof.
  intros k v. unfold nofuel.
  destruct k; destruct v; cbn; try congruence;
    repeat match goal with |- context [if ?b then _ else _] => destruct b end; congruence.
Qed.

(* the registry conditions under which the two shorthand hooks cannot fire again on their own expansion, and
   under which a component config is a struct *)
Definition is_plugin_of (iface : str) (s : schema) : bool :=
  match s with SPlugin i _ => str_eqb i iface | _ => false end.

Definition shorthand_safe (l : list entry) : bool :=
  forallb (fun e =>
    match e_conf e with
    | Some (cs, _) =>
        is_struct_schema cs &&
        forallb (fun f =>
          negb (fold_eqb (f_key f) s_nested && is_plugin_of i_schedule (f_schema f)) &&
          negb (fold_eqb (f_key f) s_path && is_plugin_of i_datasink (f_schema f))) (flat_fields cs)
    | None => true
    end) l.

Lemma lookup_entry_in : forall l iface name e, lookup_entry l iface name = Some e -> In e l.
Proof.
  induction l as [|e0 l IH]; cbn; intros iface name e H; [discriminate|].
  destruct (str_eqb (e_iface e0) iface && str_eqb (e_name e0) name); [inversion H; auto|]. right. eapply IH; eauto.
Qed.

Hypothesis Hsafe : shorthand_safe reg = true.

Lemma entry_safe : forall iface name e cs d,
  lookup_entry reg iface name = Some e -> e_conf e = Some (cs, d) ->
  is_struct_schema cs = true /\
  forall f, In f (flat_fields cs) ->
    (fold_eqb (f_key f) s_nested = true -> is_plugin_of i_schedule (f_schema f) = false) /\
    (fold_eqb (f_key f) s_path = true -> is_plugin_of i_datasink (f_schema f) = false).
Proof.
  intros iface name e cs d Hl Hc. unfold shorthand_safe in Hsafe. rewrite forallb_forall in Hsafe.
  specialize (Hsafe e (lookup_entry_in _ _ _ _ Hl)). rewrite Hc in Hsafe.
  apply andb_true_iff in Hsafe. destruct Hsafe as [H1 H2]. split; [exact H1|].
  rewrite forallb_forall in H2. intros f Hf. specialize (H2 f Hf).
  apply andb_true_iff in H2. destruct H2 as [Ha Hb]. apply negb_true_iff in Ha, Hb.
  split; intro Hk; rewrite Hk in *; cbn in *; assumption.
Qed.

(* a plugin node: its config (a struct) is decoded one level below, its fields two levels below *)
Lemma dec_plugin_nofuel : forall f iface fk kvs,
  (forall e cs d name, lookup_entry reg iface name = Some e -> e_conf e = Some (cs, d) ->
     forall ff k x c, In ff (flat_fields cs) ->
       find_key (f_key ff) (filter (fun kv => negb (is_type_key kv)) kvs) = Some (k, x) ->
       nofuel (D f (f_schema ff) c x)) ->
  nofuel (dec_plugin orc reg lz (D (S f)) iface fk kvs).
Proof.
  intros f iface fk kvs H. unfold dec_plugin.
  destruct (filter is_type_key kvs) as [|[k1 v1] r]; [unfold nofuel; congruence|].
  destruct v1; destruct r; try (unfold nofuel; congruence).
  destruct (lookup_entry reg iface s) as [e|] eqn:Hl; [|unfold nofuel; congruence].
  destruct (e_conf e) as [[cs d]|] eqn:Hc.
  - destruct (lz && negb (fk =? 0) && negb (e_factory e)); [unfold nofuel; congruence|].
    destruct (entry_safe _ _ _ _ _ Hl Hc) as [Hs _]. destruct cs; try discriminate.
    rewrite D_struct.
    assert (Hn : nofuel (dec_struct (D f) (SStruct nullable fs) d (filter (fun kv => negb (is_type_key kv)) kvs))).
    { apply dec_struct_nofuel. intros ff k x c Hf Hk. eapply H; eauto. }
    destruct (dec_struct (D f) (SStruct nullable fs) d (filter (fun kv => negb (is_type_key kv)) kvs)) as [a|e0|].
    + destruct (validate orc a (SStruct nullable fs)); [destruct (ctor_ok (SStruct nullable fs) a)|]; unfold nofuel; congruence.
    + unfold nofuel; congruence.
    + exfalso. apply Hn. reflexivity.
  - destruct (filter (fun kv => negb (is_type_key kv)) kvs); unfold nofuel; congruence.
Qed.

Lemma hooks_str_shape : forall s t v1,
  hooks env prop orc orcq s (VStr t) = HVal v1 ->
  (match v1 with VList _ => False | VMap _ => False | VNull => False | _ => True end) \/
  (is_plugin_of i_datasink s = true /\
     (exists t', v1 = VMap [(s_type, VStr t')] \/ v1 = VMap [(s_path, VStr t'); (s_type, VStr s_file)])).
Proof.
  intros s t v1 H. unfold hooks in H.
  destruct (inject env prop orc orcq s t) as [v|e] eqn:Hi; [|discriminate].
  assert (Hv : match v with VList _ => False | VMap _ => False | VNull => False | _ => True end).
  { unfold inject in Hi.
    destruct (find_tags (length t) t) as [|tg r]; [inversion Hi; exact I|].
    destruct (subst_tokens env prop t (tg :: r)) as [r0|?|]; try discriminate.
    destruct r; [|inversion Hi; exact I].
    destruct (str_eqb (trim t) (t_whole tg)); [|inversion Hi; exact I].
    unfold cast_text in Hi. destruct (cast_kind s); try discriminate;
      repeat match type of Hi with context [match ?x with _ => _ end] => destruct x end; inversion Hi; exact I. }
  destruct v; try (inversion H; subst; left; exact Hv); try destruct Hv.
  unfold string_hooks in H.
  destruct s as [nl fs|e|e|k| |iface fk|]; try (inversion H; subst; left; exact I).
  - destruct k; try (inversion H; subst; left; exact I);
      match type of H with context [match ?x with _ => _ end] => destruct x end; inversion H; subst; left; exact I.
  - destruct (str_eqb iface i_datasink) eqn:E; [|inversion H; subst; left; exact I].
    right. split; [exact E|].
    destruct (str_eqb s0 s_stdout || str_eqb s0 s_stderr || str_eqb s0 s_stdin); inversion H; subst; eauto.
Qed.

Lemma D_scalarish_nofuel : forall f s c v1 v,
  v <> VNull -> hooks env prop orc orcq s v = HVal v1 ->
  (match v1 with VList _ => False | VMap _ => False | _ => True end) ->
  nofuel (D (S f) s c v).
Proof.
  intros f s c v1 v Hv Hh Hs. destruct v; try congruence; cbn [decode]; rewrite Hh;
    destruct s; try apply dec_scalar_nofuel; destruct v1; try destruct Hs; unfold nofuel; congruence.
Qed.

(* a string: one level, or three when it is a sink shorthand *)
Lemma D_str_nofuel : forall f s c t, (f >= 2)%nat -> nofuel (D (S f) s c (VStr t)).
Proof.
  intros f s c t Hf.
  destruct (hooks env prop orc orcq s (VStr t)) as [v1|e] eqn:Hh; [|unfold nofuel; cbn [decode]; rewrite Hh; congruence].
  destruct (hooks_str_shape _ _ _ Hh) as [Hs|[Hp [t' Hv1]]].
  - eapply D_scalarish_nofuel; eauto; [discriminate|]. destruct v1; try exact I; destruct Hs.
  - destruct s as [| | | | |iface fk|]; try discriminate. cbn [decode]. rewrite Hh.
    destruct f as [|f1]; [lia|]. destruct f1 as [|f2]; [lia|].
    destruct Hv1 as [->| ->]; apply dec_plugin_nofuel; intros e cs d0 name Hl Hc ff k x c0 Hff Hk.
    + cbn in Hk. discriminate.
    + (* only `path` is left in the config; the field taking it is, by the registry condition, not a sink *)
      replace (filter (fun kv => negb (is_type_key kv)) [(s_path, VStr t'); (s_type, VStr s_file)])
        with [(s_path, VStr t')] in Hk by reflexivity.
      pose proof (find_key_fold _ _ _ _ Hk) as Hfold.
      pose proof (find_key_in _ _ _ _ Hk) as Hin. destruct Hin as [Heq|[]]. inversion Heq; subst.
      destruct (entry_safe _ _ _ _ _ Hl Hc) as [_ Hsf]. destruct (Hsf ff Hff) as [_ Hnp]. specialize (Hnp Hfold).
      destruct (hooks env prop orc orcq (f_schema ff) (VStr t')) as [v2|e2] eqn:Hh2;
        [|unfold nofuel; cbn [decode]; rewrite Hh2; congruence].
      destruct (hooks_str_shape _ _ _ Hh2) as [Hs2|[Hp2 _]]; [|congruence].
      eapply D_scalarish_nofuel; eauto; [discriminate|]. destruct v2; try exact I; destruct Hs2.
Qed.

(* The bound.  For every value of depth <= d, every fuel >= 3 d + 3, every schema and current value. *)
Theorem decode_nofuel_depth : forall d v,
  (vdepth v <= d)%nat -> forall F, (F >= 3 * d + 3)%nat -> forall s c, nofuel (D F s c v).
Proof.
  induction d as [|d IH]; intros v Hd F HF s c; (destruct F as [|f]; [lia|]).
  - (* depth 0: scalars and strings *)
    destruct v; try (cbn in Hd; lia).
    + unfold nofuel. cbn. congruence.
    + eapply D_scalarish_nofuel with (v1 := VBool b); [discriminate|reflexivity|exact I].
    + eapply D_scalarish_nofuel with (v1 := VInt z); [discriminate|reflexivity|exact I].
    + eapply D_scalarish_nofuel with (v1 := VFloat q); [discriminate|reflexivity|exact I].
    + apply D_str_nofuel. lia.
  - destruct v.
    + unfold nofuel. cbn. congruence.
    + eapply D_scalarish_nofuel with (v1 := VBool b); [discriminate|reflexivity|exact I].
    + eapply D_scalarish_nofuel with (v1 := VInt z); [discriminate|reflexivity|exact I].
    + eapply D_scalarish_nofuel with (v1 := VFloat q); [discriminate|reflexivity|exact I].
    + apply D_str_nofuel. lia.
    + (* list *)
      assert (Hch : forall x, In x l -> forall F', (F' >= 3 * d + 3)%nat -> forall s' c', nofuel (D F' s' c' x)).
      { intros x Hin F' HF' s' c'. apply IH; [|exact HF']. pose proof (vdepth_list_in l x Hin). lia. }
      destruct s as [nl fs|e|e|k| |iface fk|]; try (unfold nofuel; cbn; congruence).
      * rewrite D_slice. unfold dec_slice. apply rmap_nofuel. apply dec_elems_nofuel.
        intros x c' Hin. apply Hch; [exact Hin|lia].
      * destruct k; unfold nofuel; cbn; congruence.
      * destruct (str_eqb iface i_schedule) eqn:Hs.
        -- rewrite D_schedule_list by exact Hs. destruct f as [|f1]; [lia|]. destruct f1 as [|f2]; [lia|].
           apply dec_plugin_nofuel. intros e cs d0 name Hl Hc ff k x c0 Hff Hk.
           replace (filter (fun kv => negb (is_type_key kv)) [(s_type, VStr s_composite); (s_nested, VList l)])
             with [(s_nested, VList l)] in Hk by reflexivity.
           pose proof (find_key_fold _ _ _ _ Hk) as Hfold.
           pose proof (find_key_in _ _ _ _ Hk) as Hin. destruct Hin as [Heq|[]]. inversion Heq; subst.
           destruct (entry_safe _ _ _ _ _ Hl Hc) as [_ Hsf]. destruct (Hsf ff Hff) as [Hnp _]. specialize (Hnp Hfold).
           (* the field taking `nested` is not itself a schedule: no second expansion *)
           destruct (f_schema ff) as [nl2 fs2|e2|e2|k2| |iface2 fk2|] eqn:Hfs; try (unfold nofuel; cbn; congruence).
           ++ rewrite D_slice. unfold dec_slice. apply rmap_nofuel. apply dec_elems_nofuel.
              intros y c' Hin. apply Hch; [exact Hin|lia].
           ++ destruct k2; unfold nofuel; cbn; congruence.
           ++ cbn in Hnp. unfold nofuel. cbn. rewrite Hnp. congruence.
        -- unfold nofuel. cbn. rewrite Hs. congruence.
    + (* map *)
      assert (Hch : forall k x, In (k, x) kvs -> forall F', (F' >= 3 * d + 3)%nat -> forall s' c', nofuel (D F' s' c' x)).
      { intros k x Hin F' HF' s' c'. apply IH; [|exact HF']. pose proof (vdepth_map_in kvs k x Hin). lia. }
      destruct s as [nl fs|e|e|k| |iface fk|]; try (unfold nofuel; cbn; congruence).
      * rewrite D_struct. apply dec_struct_nofuel. intros ff k x c' Hff Hk.
        eapply Hch; [eapply find_key_in; eauto|lia].
      * rewrite D_map. unfold dec_map.
        assert (Hn : nofuel (dec_entries (D f) e kvs)).
        { apply dec_entries_nofuel.
          - intro k. destruct f as [|f1]; [lia|]. apply D_str_nofuel. lia.
          - intros k x c' Hin. eapply Hch; [exact Hin|lia]. }
        destruct (dec_entries (D f) e kvs); unfold nofuel in *; congruence.
      * destruct k; unfold nofuel; cbn; congruence.
      * rewrite D_plugin. destruct f as [|f1]; [lia|]. apply dec_plugin_nofuel.
        intros e cs d0 name Hl Hc ff k x c' Hff Hk.
        pose proof (find_key_in _ _ _ _ Hk) as Hin. apply filter_In in Hin. destruct Hin as [Hin _].
        eapply Hch; [exact Hin|lia].
Qed.

(* fuel_for v = 3 * depth + 3 *)
Corollary decode_never_out_of_fuel : forall v s c, nofuel (D (fuel_for v) s c v).
Proof. intros v s c. apply (decode_nofuel_depth (vdepth v) v (le_n _)). unfold fuel_for. lia. Qed.

End Fuel.
