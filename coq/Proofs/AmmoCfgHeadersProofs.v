(* C07: configured default headers.  What the merges of the decoders compute (as look-ups and,
   for uri/uripost and raw, as lists), EnrichRequestWithHeaders over a map with several values
   per name, the invariants of util.DecodeHTTPConfigHeaders' result, and the http/json loops
   with a parameterised entity step (Model.AmmoJson is the instance [entity_entry]). *)
From Coq Require Import List NArith ZArith Bool Lia Permutation.
From PV Require Import Lib.AmmoBytes Lib.AmmoLines Model.AmmoCommon Model.AmmoUri Model.AmmoUripost Model.AmmoRaw Model.AmmoJson
  Model.AmmoConfigInput Model.AmmoCfgHeaders Proofs.AmmoBytesProofs Proofs.AmmoJsonProofs
  Proofs.AmmoUriProofs Proofs.AmmoUripostProofs Proofs.AmmoRawProofs.
Import ListNotations.
Local Open Scope N_scope.

(* ---------- beq as a decision of equality ---------- *)
Lemma beq_sym a b : beq a b = beq b a.
Proof.
  destruct (beq a b) eqn:E.
  - apply beq_eq in E. subst. symmetry. apply beq_refl.
  - destruct (beq b a) eqn:E2; [|reflexivity]. apply beq_eq in E2. subst. rewrite beq_refl in E. discriminate.
Qed.

Lemma beq_false_neq a b : beq a b = false -> a <> b.
Proof. intros E H. subst. rewrite beq_refl in E. discriminate. Qed.

Ltac beq_cases a b :=
  let E := fresh "E" in
  destruct (beq a b) eqn:E; [apply beq_eq in E | pose proof (beq_false_neq _ _ E)].

(* ---------- look-ups ---------- *)
Lemma hget_hset k k' v h : hget k (hset k' v h) = if beq k k' then Some v else hget k h.
Proof.
  induction h as [|[k0 v0] r IH]; cbn [hset hget].
  - destruct (beq k k'); reflexivity.
  - beq_cases k' k0.
    + subst k0. cbn [hget]. destruct (beq k k'); reflexivity.
    + cbn [hget]. rewrite IH. beq_cases k k0; [|reflexivity].
      subst k0. rewrite (beq_neq k k') by congruence. reflexivity.
Qed.

Lemma mget_mset k k' v h : mget k (mset k' v h) = if beq k k' then Some [v] else mget k h.
Proof.
  induction h as [|[k0 vs0] r IH]; cbn [mset mget].
  - destruct (beq k k'); reflexivity.
  - beq_cases k' k0.
    + subst k0. cbn [mget]. destruct (beq k k'); reflexivity.
    + cbn [mget]. rewrite IH. beq_cases k k0; [|reflexivity].
      subst k0. rewrite (beq_neq k k') by congruence. reflexivity.
Qed.

Lemma mget_madd k k' v h :
  mget k (madd k' v h) = if beq k k' then Some (match mget k' h with Some vs => vs ++ [v] | None => [v] end) else mget k h.
Proof.
  induction h as [|[k0 vs0] r IH]; cbn [madd mget].
  - destruct (beq k k'); reflexivity.
  - beq_cases k' k0.
    + subst k0. cbn [mget]. destruct (beq k k'); reflexivity.
    + cbn [mget]. rewrite IH. beq_cases k k0; [|reflexivity].
      subst k0. rewrite (beq_neq k k') by congruence. reflexivity.
Qed.

Lemma mget_app k a b : mget k (a ++ b) = match mget k a with Some x => Some x | None => mget k b end.
Proof.
  induction a as [|[k0 vs0] r IH]; [reflexivity|]. cbn [app mget]. destruct (beq k k0); [reflexivity|exact IH].
Qed.

Lemma mget_of_single k h : mget k (of_single h) = match hget k h with Some v => Some [v] | None => None end.
Proof.
  induction h as [|[k0 v0] r IH]; [reflexivity|]. cbn [of_single map mget hget fst snd].
  destruct (beq k k0); [reflexivity|exact IH].
Qed.

Lemma mhas_of_single k h : mhas k (of_single h) = hhas k h.
Proof. unfold mhas, hhas. rewrite mget_of_single. destruct (hget k h); reflexivity. Qed.

Lemma mget_filter_keep (p : bytes * list bytes -> bool) k h :
  (forall vs, p (k, vs) = true) -> mget k (filter p h) = mget k h.
Proof.
  intros Hp. induction h as [|[k0 vs0] r IH]; [reflexivity|]. cbn [filter mget].
  beq_cases k k0.
  - subst k0. rewrite Hp. cbn [mget]. rewrite beq_refl. reflexivity.
  - destruct (p (k0, vs0)); [cbn [mget]; rewrite E|]; exact IH.
Qed.

Lemma mget_filter_drop (p : bytes * list bytes -> bool) k h :
  (forall vs, p (k, vs) = false) -> mget k (filter p h) = None.
Proof.
  intros Hp. induction h as [|[k0 vs0] r IH]; [reflexivity|]. cbn [filter].
  destruct (p (k0, vs0)) eqn:P; [|exact IH]. cbn [mget].
  beq_cases k k0; [|exact IH]. subst k0. rewrite Hp in P. discriminate.
Qed.

(* ---------- uri / uripost: the configured defaults fill in what the entry does not name ---------- *)
Lemma fill_absent_get cfg : forall h k,
  mget k (fill_absent cfg h) = match mget k h with Some x => Some x | None => mget k cfg end.
Proof.
  induction cfg as [|[k0 vs0] r IH]; intros h k; cbn [fill_absent mget].
  - destruct (mget k h); reflexivity.
  - rewrite IH. unfold mhas. destruct (mget k0 h) eqn:G0.
    + destruct (mget k h) eqn:G; [reflexivity|].
      beq_cases k k0; [subst; congruence|reflexivity].
    + rewrite mget_app. destruct (mget k h); [reflexivity|]. cbn [mget].
      destruct (beq k k0); reflexivity.
Qed.

Theorem line_merge_effective cfg own k : mget k (line_merge cfg own) = eff_lookup cfg own k.
Proof.
  unfold line_merge, eff_lookup. rewrite fill_absent_get, mget_of_single. destruct (hget k own); reflexivity.
Qed.

(* ---------- http/json: clone of the configured map, then Set per entity header ---------- *)
Lemma json_merge_get cfg own : forall acc_s acc_m,
  (forall k, mget k acc_m = match hget k acc_s with Some v => Some [v] | None => mget k cfg end) ->
  forall k, mget k (json_merge own acc_m) =
            match hget k (set_all own acc_s) with Some v => Some [v] | None => mget k cfg end.
Proof.
  induction own as [|[k0 v0] r IH]; intros acc_s acc_m H k; cbn [json_merge set_all]; [apply H|].
  apply IH. intros k1. unfold header_set. rewrite mget_mset, hget_hset.
  destruct (beq k1 (canon_key k0)); [reflexivity|apply H].
Qed.

Theorem json_merge_effective cfg own k : mget k (json_merge own cfg) = eff_lookup cfg (set_all own []) k.
Proof. unfold eff_lookup. apply (json_merge_get cfg own [] cfg). intros k1. reflexivity. Qed.

(* the three layouts of http/json use the same four lines; and the line formats agree with them *)
Theorem merges_agree cfg own k : mget k (line_merge cfg (set_all own [])) = mget k (json_merge own cfg).
Proof. rewrite line_merge_effective, json_merge_effective. reflexivity. Qed.

(* the list the specification prints has exactly these look-ups *)
Theorem eff_list_get cfg own k : mget k (eff_list cfg own) = eff_lookup cfg own k.
Proof.
  unfold eff_list, eff_lookup. rewrite mget_app, mget_of_single.
  destruct (hget k own) eqn:G; [reflexivity|].
  apply mget_filter_keep. intros vs. cbn [fst]. unfold hhas. rewrite G. reflexivity.
Qed.

(* ---------- textproto.CanonicalMIMEHeaderKey is idempotent ---------- *)
Definition cc (u : bool) (c : N) : N :=
  if u && is_lower c then c - 32 else if negb u && is_upper c then c + 32 else c.

Lemma canon_go_cc u s :
  canon_go u s = match s with [] => [] | c :: r => cc u c :: canon_go (N.eqb (cc u c) 45) r end.
Proof. destruct s; reflexivity. Qed.

Lemma lower_upper c : is_lower c = true -> is_upper (c - 32) = true /\ is_lower (c - 32) = false.
Proof.
  unfold is_lower, is_upper. intros H. apply andb_true_iff in H. destruct H as [H1 H2].
  apply N.leb_le in H1, H2. split.
  - apply andb_true_iff. split; apply N.leb_le; lia.
  - apply andb_false_iff. left. apply N.leb_gt. lia.
Qed.

Lemma upper_lower c : is_upper c = true -> is_lower (c + 32) = true /\ is_upper (c + 32) = false.
Proof.
  unfold is_lower, is_upper. intros H. apply andb_true_iff in H. destruct H as [H1 H2].
  apply N.leb_le in H1, H2. split.
  - apply andb_true_iff. split; apply N.leb_le; lia.
  - apply andb_false_iff. right. apply N.leb_gt. lia.
Qed.

Lemma cc_idem u c : cc u (cc u c) = cc u c.
Proof.
  unfold cc. destruct u; cbn [andb negb].
  - destruct (is_lower c) eqn:L; [|rewrite L; reflexivity].
    destruct (lower_upper c L) as [_ H]. rewrite H. reflexivity.
  - destruct (is_upper c) eqn:U; [|rewrite U; reflexivity].
    destruct (upper_lower c U) as [_ H]. rewrite H. reflexivity.
Qed.

Lemma cc_token u c : token_byte c = true -> token_byte (cc u c) = true.
Proof.
  intros T. unfold cc. destruct u; cbn [andb negb].
  - destruct (is_lower c) eqn:L; [|exact T]. destruct (lower_upper c L) as [H _].
    unfold token_byte. rewrite H. rewrite orb_true_r. reflexivity.
  - destruct (is_upper c) eqn:U; [|exact T]. destruct (upper_lower c U) as [H _].
    unfold token_byte. rewrite H. rewrite orb_true_r. reflexivity.
Qed.

Lemma canon_go_idem s : forall u, canon_go u (canon_go u s) = canon_go u s.
Proof.
  induction s as [|c r IH]; intros u; [reflexivity|].
  rewrite (canon_go_cc u (c :: r)). rewrite canon_go_cc. rewrite cc_idem, IH. reflexivity.
Qed.

Lemma canon_go_token s : forall u, forallb token_byte s = true -> forallb token_byte (canon_go u s) = true.
Proof.
  induction s as [|c r IH]; intros u H; [reflexivity|].
  rewrite canon_go_cc. cbn [forallb] in H |- *. apply andb_true_iff in H. destruct H as [H1 H2].
  rewrite (cc_token u c H1), (IH _ H2). reflexivity.
Qed.

Lemma canon_key_idem s : canon_key (canon_key s) = canon_key s.
Proof.
  unfold canon_key. destruct (forallb token_byte s) eqn:T.
  - rewrite (canon_go_token s true T). apply canon_go_idem.
  - rewrite T. reflexivity.
Qed.

(* ---------- well-formed header maps: distinct canonical names, no empty value list ---------- *)
Definition mkeys (h : mheaders) : list bytes := map fst h.
Definition canonical (k : bytes) : Prop := canon_key k = k.
Definition mwf (h : mheaders) : Prop :=
  NoDup (mkeys h) /\ Forall (fun kv => canonical (fst kv) /\ snd kv <> []) h.

Lemma mget_none_iff k h : mget k h = None <-> ~ In k (mkeys h).
Proof.
  induction h as [|[k0 vs0] r IH]; cbn [mget mkeys map fst In]; [tauto|].
  beq_cases k k0.
  - subst. split; [discriminate|]. intros H. exfalso. apply H. left. reflexivity.
  - rewrite IH. unfold mkeys. split; [intros A [B|B]; [congruence|tauto]|tauto].
Qed.

Lemma mhas_false_iff k h : mhas k h = false <-> ~ In k (mkeys h).
Proof. unfold mhas. rewrite <- mget_none_iff. destruct (mget k h); split; congruence. Qed.

Lemma mwf_nil : mwf [].
Proof. split; constructor. Qed.

Lemma in_mkeys_mset x k v h : In x (mkeys (mset k v h)) -> x = k \/ In x (mkeys h).
Proof.
  induction h as [|[k0 vs0] r IH]; cbn [mset mkeys map fst In].
  - intros [H|[]]. left. congruence.
  - beq_cases k k0; cbn [mkeys map fst In]; [tauto|]. intros [H1|H1]; [tauto|]. destruct (IH H1); tauto.
Qed.

Lemma in_mkeys_madd x k v h : In x (mkeys (madd k v h)) -> x = k \/ In x (mkeys h).
Proof.
  induction h as [|[k0 vs0] r IH]; cbn [madd mkeys map fst In].
  - intros [H|[]]. left. congruence.
  - beq_cases k k0; cbn [mkeys map fst In]; [tauto|]. intros [H1|H1]; [tauto|]. destruct (IH H1); tauto.
Qed.

Lemma mwf_mset k v h : canonical k -> mwf h -> mwf (mset k v h).
Proof.
  intros Hk [Hn Hf]. induction h as [|[k0 vs0] r IH]; cbn [mset].
  - split; [repeat constructor; intros []|]. constructor; [|constructor]. cbn. split; [exact Hk|discriminate].
  - inversion Hn as [|? ? Hni Hn']; subst. inversion Hf as [|? ? Hh Hf']; subst.
    beq_cases k k0.
    + split; [exact Hn|]. constructor; [|exact Hf']. cbn in *. split; [tauto|discriminate].
    + destruct (IH Hn' Hf') as [I1 I2]. split.
      * cbn [mkeys map fst]. constructor; [|exact I1]. intros Hin.
        destruct (in_mkeys_mset _ _ _ _ Hin); [congruence|tauto].
      * constructor; assumption.
Qed.

Lemma mwf_madd k v h : canonical k -> mwf h -> mwf (madd k v h).
Proof.
  intros Hk [Hn Hf]. induction h as [|[k0 vs0] r IH]; cbn [madd].
  - split; [repeat constructor; intros []|]. constructor; [|constructor]. cbn. split; [exact Hk|discriminate].
  - inversion Hn as [|? ? Hni Hn']; subst. inversion Hf as [|? ? Hh Hf']; subst.
    beq_cases k k0.
    + split; [exact Hn|]. constructor; [|exact Hf']. cbn in *. split; [tauto|].
      intros A. apply app_eq_nil in A. destruct A; discriminate.
    + destruct (IH Hn' Hf') as [I1 I2]. split.
      * cbn [mkeys map fst]. constructor; [|exact I1]. intros Hin.
        destruct (in_mkeys_madd _ _ _ _ Hin); [congruence|tauto].
      * constructor; assumption.
Qed.

(* util.DecodeHTTPConfigHeaders yields such a map *)
Lemma config_headers_mwf hs : forall acc m, mwf acc -> config_headers hs acc = inl m -> mwf m.
Proof.
  induction hs as [|h r IH]; intros acc m Hacc; cbn [config_headers].
  - intros H. inversion H. subst. exact Hacc.
  - destruct (decode_header h) as [[k v]|]; [|discriminate].
    apply IH. apply mwf_madd; [apply canon_key_idem|exact Hacc].
Qed.

Lemma json_merge_mwf own : forall acc, mwf acc -> mwf (json_merge own acc).
Proof.
  induction own as [|[k v] r IH]; intros acc H; cbn [json_merge]; [exact H|].
  apply IH. apply mwf_mset; [apply canon_key_idem|exact H].
Qed.

(* ---------- uri / uripost: the merged map as a list ---------- *)
Lemma fill_absent_list cfg : forall h, NoDup (mkeys cfg) ->
  fill_absent cfg h = h ++ filter (fun kv => negb (mhas (fst kv) h)) cfg.
Proof.
  induction cfg as [|[k0 vs0] r IH]; intros h Hn; cbn [fill_absent filter fst].
  - rewrite app_nil_r. reflexivity.
  - inversion Hn as [|? ? Hni Hn']; subst. rewrite (IH _ Hn').
    destruct (mhas k0 h) eqn:M; cbn [negb]; [reflexivity|].
    rewrite <- app_assoc. cbn [app]. f_equal. f_equal.
    apply filter_ext_in. intros [k1 vs1] Hin. cbn [fst]. f_equal.
    unfold mhas. rewrite mget_app. destruct (mget k1 h); [reflexivity|]. cbn [mget].
    beq_cases k1 k0; [|reflexivity]. subst. exfalso. apply Hni.
    unfold mkeys. change k0 with (fst (k0, vs1)). apply in_map. exact Hin.
Qed.

Theorem line_merge_list cfg own : NoDup (mkeys cfg) -> line_merge cfg own = eff_list cfg own.
Proof.
  intros Hn. unfold line_merge, eff_list. rewrite (fill_absent_list cfg _ Hn). f_equal.
  apply filter_ext. intros [k vs]. cbn [fst]. rewrite mhas_of_single. reflexivity.
Qed.

(* ---------- util.EnrichRequestWithHeaders ---------- *)
Lemma enrich_m_list hs : forall host acc,
  mwf hs -> mhas HOST acc = false ->
  enrich_m host hs acc =
    Some (if is_nil host then first_val (mget HOST hs) else host,
          acc ++ filter (fun kv => not_host kv && negb (mhas (fst kv) acc)) hs).
Proof.
  induction hs as [|[k vs] r IH]; intros host acc [Hn Hf] Hh; cbn [enrich_m filter mget fst].
  - rewrite app_nil_r. destruct (is_nil host) eqn:Z; [|reflexivity].
    destruct host; [reflexivity|discriminate].
  - inversion Hn as [|? ? Hni Hn']; subst. inversion Hf as [|? ? [Hc Hv] Hf']; subst.
    cbn [fst snd] in Hc, Hv. unfold canonical in Hc. rewrite Hc.
    assert (Hr : mwf r) by (split; assumption).
    unfold not_host at 1. cbn [fst].
    beq_cases k HOST.
    + (* the Host entry *)
      subst k. rewrite Hh, beq_refl. cbn [negb andb].
      assert (Hnone : mget HOST r = None) by (apply mget_none_iff; exact Hni).
      destruct (is_nil host) eqn:Z.
      * destruct vs as [|v vs']; [congruence|]. rewrite (IH v acc Hr Hh). cbn [first_val].
        rewrite Hnone. cbn [first_val]. destruct (is_nil v) eqn:Zv; [|reflexivity].
        destruct v; [reflexivity|discriminate].
      * rewrite (IH host acc Hr Hh), Z. reflexivity.
    + rewrite (beq_sym HOST k), E. cbn [negb andb].
      destruct (mhas k acc) eqn:M; cbn [negb].
      * rewrite (IH host acc Hr Hh). reflexivity.
      * rewrite (IH host (acc ++ [(k, vs)]) Hr).
        2:{ unfold mhas. rewrite mget_app. unfold mhas in Hh. destruct (mget HOST acc); [discriminate|].
            cbn [mget]. rewrite (beq_sym HOST k), E. reflexivity. }
        f_equal. f_equal. rewrite <- app_assoc. cbn [app]. f_equal. f_equal.
        apply filter_ext_in. intros [k1 vs1] Hin. cbn [fst]. f_equal. f_equal.
        unfold mhas. rewrite mget_app. destruct (mget k1 acc); [reflexivity|]. cbn [mget].
        beq_cases k1 k; [|reflexivity]. subst. exfalso. apply Hni.
        unfold mkeys. change k with (fst (k, vs1)). apply in_map. exact Hin.
Qed.

(* no index panic on a map whose value lists are non-empty *)
Corollary enrich_m_total host hs acc : mwf hs -> mhas HOST acc = false -> enrich_m host hs acc <> None.
Proof. intros H1 H2. rewrite (enrich_m_list hs host acc H1 H2). discriminate. Qed.

(* raw: RawAmmo.BuildRequest adds exactly what the specification says *)
Theorem raw_enrich_spec cfg host own :
  mwf cfg -> mhas HOST own = false -> raw_enrich cfg host own = Some (spec_raw cfg host own).
Proof. intros H1 H2. unfold raw_enrich, spec_raw. apply enrich_m_list; assumption. Qed.

(* ---------- the headers an entry names itself ---------- *)
Definition hwf (h : headers) : Prop := NoDup (map fst h) /\ Forall (fun kv => canonical (fst kv)) h.

Lemma hwf_nil : hwf [].
Proof. split; constructor. Qed.

Lemma in_keys_hset x k v h : In x (map fst (hset k v h)) -> x = k \/ In x (map fst h).
Proof.
  induction h as [|[k0 v0] r IH]; cbn [hset map fst In].
  - intros [H|[]]. left. congruence.
  - beq_cases k k0; cbn [map fst In]; [subst; tauto|]. intros [H1|H1]; [tauto|]. destruct (IH H1); tauto.
Qed.

Lemma hwf_hset k v h : canonical k -> hwf h -> hwf (hset k v h).
Proof.
  intros Hk [Hn Hf]. induction h as [|[k0 v0] r IH]; cbn [hset].
  - split; [repeat constructor; intros []|]. constructor; [exact Hk|constructor].
  - inversion Hn as [|? ? Hni Hn']; subst. inversion Hf as [|? ? Hh Hf']; subst.
    beq_cases k k0.
    + subst k0. split; [exact Hn|]. constructor; assumption.
    + destruct (IH Hn' Hf') as [I1 I2]. split.
      * cbn [map fst]. constructor; [|exact I1]. intros Hin.
        destruct (in_keys_hset _ _ _ _ Hin); [congruence|tauto].
      * constructor; assumption.
Qed.

Lemma hwf_header_set k v h : hwf h -> hwf (header_set k v h).
Proof. apply hwf_hset. apply canon_key_idem. Qed.

Lemma hwf_set_all own : forall acc, hwf acc -> hwf (set_all own acc).
Proof.
  induction own as [|[k v] r IH]; intros acc H; cbn [set_all]; [exact H|]. apply IH, hwf_header_set, H.
Qed.

Lemma uri_entries_hwf items : forall h, hwf h -> Forall (fun e => hwf (e_headers e)) (uri_entries items h).
Proof.
  induction items as [|i r IH]; intros h H; cbn [uri_entries]; [constructor|].
  destruct i; [apply IH, hwf_header_set, H|constructor; [exact H|apply IH, H]|apply IH, H].
Qed.

Lemma mkeys_of_single h : mkeys (of_single h) = map fst h.
Proof. unfold mkeys, of_single. rewrite map_map. reflexivity. Qed.

Lemma hhas_false_iff k h : hhas k h = false <-> ~ In k (map fst h).
Proof. rewrite <- mhas_of_single, mhas_false_iff, mkeys_of_single. tauto. Qed.

Lemma NoDup_app_intro {A} (a b : list A) :
  NoDup a -> NoDup b -> (forall x, In x a -> ~ In x b) -> NoDup (a ++ b).
Proof.
  induction a as [|x a IH]; intros Ha Hb Hd; [exact Hb|].
  inversion Ha; subst. cbn [app]. constructor.
  - rewrite in_app_iff. intros [H|H]; [tauto|]. apply (Hd x); [left; reflexivity|exact H].
  - apply IH; auto. intros y Hy. apply Hd. right. exact Hy.
Qed.

Lemma NoDup_mkeys_filter p h : NoDup (mkeys h) -> NoDup (mkeys (filter p h)).
Proof.
  induction h as [|[k vs] r IH]; intros H; [constructor|]. inversion H as [|? ? Hni Hn']; subst.
  cbn [filter]. destruct (p (k, vs)); [|apply IH, Hn'].
  cbn [mkeys map fst]. constructor; [|apply IH, Hn'].
  intros Hin. apply Hni. unfold mkeys in *. apply in_map_iff in Hin. destruct Hin as [[k1 vs1] [E1 E2]].
  apply filter_In in E2. apply in_map_iff. exists (k1, vs1). tauto.
Qed.

Lemma mwf_eff_list cfg own : mwf cfg -> hwf own -> mwf (eff_list cfg own).
Proof.
  intros [Cn Cf] [On Of]. unfold eff_list. split.
  - unfold mkeys. rewrite map_app. apply NoDup_app_intro.
    + fold (mkeys (of_single own)). rewrite mkeys_of_single. exact On.
    + apply NoDup_mkeys_filter, Cn.
    + intros x Hx Hin. fold (mkeys (of_single own)) in Hx. rewrite mkeys_of_single in Hx.
      apply in_map_iff in Hin. destruct Hin as [[k1 vs1] [E1 E2]]. apply filter_In in E2.
      cbn [fst] in *. subst x. destruct E2 as [_ E2]. apply negb_true_iff in E2.
      apply hhas_false_iff in E2. tauto.
  - apply Forall_app. split.
    + unfold of_single. apply Forall_forall. intros kv Hin. apply in_map_iff in Hin.
      destruct Hin as [[k v] [E1 E2]]. subst kv. cbn [fst snd]. split; [|discriminate].
      rewrite Forall_forall in Of. apply (Of (k, v) E2).
    + apply Forall_forall. intros kv Hin. apply filter_In in Hin. rewrite Forall_forall in Cf. apply Cf. tauto.
Qed.

(* ---------- requests: what BuildRequest makes of a delivery = what the specification says ---------- *)
Section Requests.
  Variable url_parse : bytes -> option (bytes * bytes).

  Definition spec_built (cfg : mheaders) (e : entry) : bres :=
    match spec_request url_parse cfg e with Some r => MBOk r | None => MBInvalid end.

  (* uri / uripost: the very request, header list included *)
  Theorem build_line_spec cfg e :
    mwf cfg -> hwf (e_headers e) -> build_m url_parse (line_mentry cfg e) = spec_built cfg e.
  Proof.
    intros Hc Ho. unfold build_m, spec_built, spec_request, line_mentry.
    cbn [me_url me_method me_headers me_body me_tag].
    destruct (url_parse (e_url e)) as [[ustr uhost]|]; [|reflexivity].
    destruct (valid_method (e_method e)); cbn [negb]; [|reflexivity].
    rewrite (line_merge_list cfg _ (proj1 Hc)).
    rewrite (enrich_m_list _ uhost [] (mwf_eff_list cfg _ Hc Ho) eq_refl).
    rewrite eff_list_get. cbn [app]. f_equal. f_equal.
    apply filter_ext. intros kv. apply andb_true_r.
  Qed.

  (* same look-ups, distinct names: the same set of (name, values) *)
  Lemma mget_some_in k vs h : mget k h = Some vs -> In (k, vs) h.
  Proof.
    induction h as [|[k0 vs0] r IH]; cbn [mget]; [discriminate|].
    beq_cases k k0; [intros G; inversion G; subst; left; reflexivity|intros G; right; apply IH, G].
  Qed.

  Lemma lookup_perm (a : mheaders) : forall b,
    NoDup (mkeys a) -> NoDup (mkeys b) -> (forall k, mget k a = mget k b) -> Permutation a b.
  Proof.
    induction a as [|[k vs] a' IH]; intros b Ha Hb Hl.
    - destruct b as [|[k0 vs0] b']; [constructor|]. specialize (Hl k0). cbn [mget] in Hl.
      rewrite beq_refl in Hl. discriminate.
    - inversion Ha as [|? ? Hni Ha']; subst.
      assert (Hin : In (k, vs) b).
      { apply mget_some_in. rewrite <- Hl. cbn [mget]. rewrite beq_refl. reflexivity. }
      destruct (in_split _ _ Hin) as [b1 [b2 Eb]]. subst b.
      apply Permutation_cons_app. apply IH; [exact Ha'| |].
      + unfold mkeys in *. rewrite map_app in *. cbn [map fst] in Hb. apply NoDup_remove_1 in Hb. exact Hb.
      + intros k1. specialize (Hl k1). cbn [mget] in Hl. rewrite mget_app in Hl. cbn [mget] in Hl.
        rewrite mget_app.
        assert (Hb2 : ~ In k (mkeys (b1 ++ b2))).
        { unfold mkeys in *. rewrite map_app in *. cbn [map fst] in Hb. apply NoDup_remove_2 in Hb. exact Hb. }
        beq_cases k1 k.
        * subst k1. apply mget_none_iff in Hni. rewrite Hni.
          apply mget_none_iff in Hb2. rewrite mget_app in Hb2. exact (eq_sym Hb2).
        * exact Hl.
  Qed.

  Lemma Permutation_filter' {A} (f : A -> bool) l l' : Permutation l l' -> Permutation (filter f l) (filter f l').
  Proof.
    induction 1; cbn [filter].
    - constructor.
    - destruct (f x); [constructor|]; assumption.
    - destruct (f x), (f y); try constructor; try apply Permutation_refl. 
    - eapply Permutation_trans; eassumption.
  Qed.

  Definition mreq_equiv (a b : mreqsum) : Prop :=
    mr_method a = mr_method b /\ mr_url a = mr_url b /\ mr_host a = mr_host b /\
    mr_body a = mr_body b /\ mr_tag a = mr_tag b /\ Permutation (mr_headers a) (mr_headers b).

  (* http/json: entity_mentry is entity_entry with the merged map, and builds to the
     specification's request (the header list in another order) *)
  Lemma entity_mentry_entry cfg d :
    match entity_entry url_parse d with
    | inl e => entity_mentry url_parse cfg d =
               inl {| me_method := e_method e; me_url := e_url e; me_body := e_body e; me_tag := e_tag e;
                      me_headers := json_merge (j_headers d) cfg |} /\
               e_headers e = set_all (j_headers d) []
    | inr x => entity_mentry url_parse cfg d = inr x
    end.
  Proof.
    unfold entity_entry, entity_mentry, setup.
    destruct (valid_method (j_method d)); cbn [negb]; [|reflexivity].
    destruct (url_ok url_parse (HTTP_PREFIX ++ j_host d ++ j_uri d)); cbn [negb]; [|reflexivity].
    split; reflexivity.
  Qed.

  Theorem build_json_spec cfg d e :
    mwf cfg -> entity_entry url_parse d = inl e ->
    exists me, entity_mentry url_parse cfg d = inl me /\
      match spec_request url_parse cfg e with
      | Some rs => exists r, build_m url_parse me = MBOk r /\ mreq_equiv r rs
      | None => build_m url_parse me = MBInvalid
      end.
  Proof.
    intros Hc He. pose proof (entity_mentry_entry cfg d) as H. rewrite He in H. destruct H as [Hm Hh].
    eexists. split; [exact Hm|].
    unfold spec_request, build_m. cbn [me_url me_method me_headers me_body me_tag].
    destruct (url_parse (e_url e)) as [[ustr uhost]|]; [|reflexivity].
    destruct (valid_method (e_method e)); cbn [negb]; [|reflexivity].
    rewrite (enrich_m_list _ uhost [] (json_merge_mwf _ _ Hc) eq_refl).
    eexists. split; [reflexivity|].
    unfold mreq_equiv. cbn [mr_method mr_url mr_host mr_body mr_tag mr_headers app].
    repeat split; try reflexivity.
    - rewrite json_merge_effective, Hh. reflexivity.
    - assert (Ho : hwf (e_headers e)) by (rewrite Hh; apply hwf_set_all, hwf_nil).
      eapply Permutation_trans.
      2:{ apply Permutation_filter'. apply (lookup_perm (json_merge (j_headers d) cfg) (eff_list cfg (e_headers e))).
          - apply (json_merge_mwf _ _ Hc).
          - apply (mwf_eff_list cfg _ Hc Ho).
          - intros k. rewrite json_merge_effective, eff_list_get, Hh. reflexivity. }
      rewrite (filter_ext _ not_host); [apply Permutation_refl|]. intros kv. apply andb_true_r.
  Qed.
End Requests.

(* ---------- the decoders with configured headers ---------- *)
Lemma uripost_entries_hwf items : forall h, hwf h -> Forall (fun e => hwf (e_headers e)) (uripost_entries items h).
Proof.
  induction items as [|i r IH]; intros h H; cbn [uripost_entries]; [constructor|].
  destruct i; [apply IH, hwf_header_set, H|constructor; [exact H|apply IH, H]|apply IH, H].
Qed.

Lemma map_sres_deliver {A B} (f : A -> B) l : map (sres_map f) (map SDeliver l) = map SDeliver (map f l).
Proof. rewrite !map_map. reflexivity. Qed.

Lemma cycle_take_in {A} (x : A) k l : forall cur, In x (cycle_take k l cur) -> In x l \/ In x cur.
Proof.
  induction k as [|k IH]; intros cur; [cbn; tauto|].
  destruct cur as [|y r].
  - destruct l as [|y r]; cbn [cycle_take In]; [tauto|]. intros [H|H]; [left; left; exact H|].
    destruct (IH r H) as [H1|H1]; [left; exact H1|left; right; exact H1].
  - cbn [cycle_take In]. intros [H|H]; [right; left; exact H|].
    destruct (IH r H) as [H1|H1]; [left; exact H1|right; right; exact H1].
Qed.

Section Decoders.
  Variable url_parse : bytes -> option (bytes * bytes).

  (* every delivery of a uri / uripost file, built, is the specification's request for the
     entry at that place of the cyclic sequence *)
  Lemma line_built cfg es k :
    mwf cfg -> Forall (fun e => hwf (e_headers e)) es ->
    map (sres_map (build_m url_parse)) (line_run_cfg cfg (map SDeliver (cycle_take k es es))) =
      map SDeliver (map (spec_built url_parse cfg) (cycle_take k es es)).
  Proof.
    intros Hc Hes. unfold line_run_cfg. rewrite !map_sres_deliver. f_equal. rewrite map_map.
    apply map_ext_in. intros e Hin. apply build_line_spec; [exact Hc|].
    rewrite Forall_forall in Hes. apply Hes. destruct (cycle_take_in e k es es Hin); assumption.
  Qed.

  Theorem uri_cfg_roundtrip maxtok hs cfg items fin k :
    config_headers hs [] = inl cfg ->
    forallb (wf_uitem url_parse maxtok) items = true ->
    uri_entries (map fst items) [] <> [] ->
    map (sres_map (build_m url_parse))
        (line_run_cfg cfg (uri_decode url_parse maxtok cfg0 k (render_uri items fin))) =
      map SDeliver (map (spec_built url_parse cfg)
                        (cycle_take k (uri_entries (map fst items) []) (uri_entries (map fst items) []))).
  Proof.
    intros Hc Hw Hne. rewrite (uri_roundtrip url_parse maxtok items fin k Hw Hne).
    apply line_built; [exact (config_headers_mwf hs [] cfg mwf_nil Hc)|apply uri_entries_hwf, hwf_nil].
  Qed.

  Theorem uripost_cfg_roundtrip hs cfg items fin k :
    config_headers hs [] = inl cfg ->
    forallb (wf_pitem url_parse) items = true ->
    uripost_entries (map fst items) [] <> [] ->
    map (sres_map (build_m url_parse))
        (line_run_cfg cfg (uripost_decode url_parse cfg0 k (render_uripost items fin))) =
      map SDeliver (map (spec_built url_parse cfg)
                        (cycle_take k (uripost_entries (map fst items) []) (uripost_entries (map fst items) []))).
  Proof.
    intros Hc Hw Hne. rewrite (uripost_roundtrip url_parse items fin k Hw Hne).
    apply line_built; [exact (config_headers_mwf hs [] cfg mwf_nil Hc)|apply uripost_entries_hwf, hwf_nil].
  Qed.

  (* raw: the deliveries are the written buffers, each carrying the configured map; building
     one from what http.ReadRequest finds (host, own: no "Host" key) adds what the
     specification says *)
  Theorem raw_cfg_roundtrip hs cfg items fin k :
    config_headers hs [] = inl cfg ->
    forallb wf_ritem items = true ->
    raw_entries (map fst items) <> [] ->
    raw_run_cfg cfg (raw_decode cfg0 k (render_raw items fin)) =
      map SDeliver (map (raw_mentry cfg) (cycle_take k (raw_entries (map fst items)) (raw_entries (map fst items)))) /\
    forall host own, mhas HOST own = false -> raw_enrich cfg host own = Some (spec_raw cfg host own).
  Proof.
    intros Hc Hw Hne. split.
    - rewrite (raw_roundtrip items fin k Hw Hne). unfold raw_run_cfg. apply map_sres_deliver.
    - intros host own Hh. apply raw_enrich_spec; [exact (config_headers_mwf hs [] cfg mwf_nil Hc)|exact Hh].
  Qed.
End Decoders.

(* ---------- http/json with a parameterised entity step ---------- *)
Section JsonGProofs.
  Variable E : Type.
  Variable mk : entity -> E + err.

  Lemma read_array_g_cons d r es :
    read_array_g mk (d :: r) = Some es ->
    exists e es', mk d = inl e /\ read_array_g mk r = Some es' /\ es = e :: es'.
  Proof.
    cbn [read_array_g]. destruct (mk d) as [e|]; [|discriminate].
    destruct (read_array_g mk r) as [es'|]; [|discriminate].
    intros H. inversion H. eauto.
  Qed.

  Lemma json_run_g_cyclic k : forall all left es esl a p,
    read_array_g mk all = Some es -> read_array_g mk left = Some esl ->
    es <> [] -> (a = 0 -> esl <> []) ->
    json_run_g mk k cfg0 (jst all left a p) = map SDeliver (cycle_take k es esl).
  Proof.
    induction k as [|k IH]; intros all left es esl a p Hall Hleft Hne Ha; [reflexivity|].
    cbn [json_run_g]. unfold json_scan_g. change (limit_hit cfg0 (js_ammo (jst all left a p))) with false.
    cbv iota. cbn [json_loop_g jst js_pass js_left js_end js_ammo js_all].
    change (passes_hit cfg0 p) with false. cbv iota.
    destruct left as [|d r].
    - cbn [read_array_g] in Hleft. inversion Hleft; subst esl.
      destruct (N.eqb_spec a 0) as [Hz|Hnz]; [exfalso; apply (Ha Hz); reflexivity|].
      change (passes_hit cfg0 (N.succ p)) with false. cbv iota.
      destruct all as [|d r].
      { cbn [read_array_g] in Hall. inversion Hall; subst. contradiction. }
      destruct (read_array_g_cons d r es Hall) as [e [es' [E1 [E2 E3]]]].
      rewrite E1. subst es. cbn [cycle_take map]. f_equal.
      apply (IH (d :: r) r (e :: es') es' (N.succ a) (N.succ p)); auto.
      intros Hz. lia.
    - destruct (read_array_g_cons d r esl Hleft) as [e [es' [E1 [E2 E3]]]].
      rewrite E1. subst esl. cbn [cycle_take map]. f_equal.
      apply (IH all r es es' (N.succ a) p); auto.
      intros Hz. lia.
  Qed.

  Theorem json_stream_g_cyclic ents es k :
    read_array_g mk ents = Some es -> es <> [] ->
    json_stream_decode_g mk cfg0 k ents JEof = map SDeliver (cycle_take k es es).
  Proof.
    intros H Hne. unfold json_stream_decode_g, json_init.
    apply (json_run_g_cyclic k ents ents es es 0 0); auto.
  Qed.

  Lemma array_run_g_cyclic (es : list E) k : forall a p,
    es <> [] ->
    array_run_g k cfg0 es a p =
      map SDeliver (cycle_take k es (skipn (N.to_nat (a mod nlen es)) es)).
  Proof.
    induction k as [|k IH]; intros a p Hne; [reflexivity|].
    cbn [array_run_g]. change (limit_hit cfg0 a) with false. cbv iota.
    destruct es as [|e0 es'] eqn:Ees; [contradiction|]. rewrite <- Ees in *.
    unfold scan_ammos_g. rewrite Ees at 1. change (passes_hit cfg0 p) with false. cbv iota.
    assert (Hlen : nlen es <> 0) by (rewrite Ees; cbn [nlen]; lia).
    pose proof (N.mod_lt a (nlen es) Hlen) as Hlt.
    set (j := N.to_nat (a mod nlen es)).
    assert (Hj : (j < length es)%nat).
    { unfold j. clear j. rewrite nlen_length in Hlt |- *. lia. }
    rewrite (skipn_nth es j e0 Hj). cbn [cycle_take map]. f_equal.
    rewrite IH by exact Hne.
    rewrite (mod_succ a (nlen es) Hlen).
    destruct (N.eqb_spec (a mod nlen es + 1) (nlen es)) as [E1|E1].
    - assert (Hs : S j = length es).
      { unfold j. clear Hj. rewrite nlen_length in E1 |- *. lia. }
      rewrite Hs, skipn_all. change (N.to_nat 0) with O. cbn [skipn].
      rewrite cycle_take_nil_any. reflexivity.
    - replace (N.to_nat (a mod nlen es + 1)) with (S j) by (unfold j; lia). reflexivity.
  Qed.

  Theorem json_array_g_cyclic ents es k :
    read_array_g mk ents = Some es -> es <> [] ->
    json_array_decode_g mk cfg0 k ents = Some (map SDeliver (cycle_take k es es)).
  Proof.
    intros H Hne. unfold json_array_decode_g. rewrite H. f_equal.
    rewrite array_run_g_cyclic by exact Hne.
    rewrite N.mod_0_l; [reflexivity|]. destruct es; [contradiction|cbn [nlen]; lia].
  Qed.
End JsonGProofs.

(* Model.AmmoJson is the instance of the parameterised loops at entity_entry *)
Lemma json_g_instance url_parse c k ents e :
  json_stream_decode_g (entity_entry url_parse) c k ents e = json_stream_decode url_parse c k ents e /\
  json_array_decode_g (entity_entry url_parse) c k ents = json_array_decode url_parse c k ents.
Proof. split; reflexivity. Qed.

Section JsonCfg.
  Variable url_parse : bytes -> option (bytes * bytes).

  (* the entities of a file all materialise with configured headers iff they do without *)
  Lemma read_array_cfg cfg ents : forall es,
    read_array url_parse ents = Some es ->
    exists mes, read_array_g (entity_mentry url_parse cfg) ents = Some mes /\
      Forall2 (fun e me => exists d, entity_entry url_parse d = inl e /\ entity_mentry url_parse cfg d = inl me) es mes.
  Proof.
    induction ents as [|d r IH]; intros es H.
    - cbn in H. inversion H. subst. exists []. split; [reflexivity|constructor].
    - destruct (read_array_cons url_parse d r es H) as [e [es' [E1 [E2 E3]]]]. subst es.
      destruct (IH es' E2) as [mes [M1 M2]].
      pose proof (entity_mentry_entry url_parse cfg d) as Hd. rewrite E1 in Hd. destruct Hd as [Hd _].
      eexists. cbn [read_array_g]. rewrite Hd, M1. split; [reflexivity|].
      constructor; [exists d; split; assumption|exact M2].
  Qed.

  (* all three layouts (object stream: one per line or pretty-printed; array) deliver, cyclically,
     entities whose built request is the specification's *)
  Theorem json_cfg_cyclic hs cfg ents es k :
    config_headers hs [] = inl cfg ->
    read_array url_parse ents = Some es -> es <> [] ->
    exists mes,
      json_stream_decode_cfg url_parse cfg cfg0 k ents JEof = map SDeliver (cycle_take k mes mes) /\
      json_array_decode_cfg url_parse cfg cfg0 k ents = Some (map SDeliver (cycle_take k mes mes)) /\
      Forall2 (fun e me =>
                 match spec_request url_parse cfg e with
                 | Some rs => exists r, build_m url_parse me = MBOk r /\ mreq_equiv r rs
                 | None => build_m url_parse me = MBInvalid
                 end) es mes.
  Proof.
    intros Hc Hr Hne. destruct (read_array_cfg cfg ents es Hr) as [mes [M1 M2]].
    assert (Hmne : mes <> []).
    { intros Z. subst mes. inversion M2. subst. contradiction. }
    exists mes. split; [|split].
    - apply json_stream_g_cyclic; assumption.
    - apply json_array_g_cyclic; assumption.
    - clear M1 Hmne Hne Hr. induction M2 as [|e me es' mes' [d [D1 D2]] _ IH]; constructor; [|exact IH].
      destruct (build_json_spec url_parse cfg d e (config_headers_mwf hs [] cfg mwf_nil Hc) D1) as [me' [Q1 Q2]].
      rewrite D2 in Q1. inversion Q1. subst me'. exact Q2.
  Qed.
End JsonCfg.

(* ---------- middlewares ---------- *)
Lemma acquire_no_mw i b : acquire_m [] i b = b.
Proof. destruct b; reflexivity. Qed.

(* header/date adds one value to its (canonical) header name, after the values the request already
   has under that name, and touches nothing else of the request *)
Theorem mw_date_adds i name r :
  exists r', mw_update i (MwDate name) r = Some r' /\
    mr_method r' = mr_method r /\ mr_url r' = mr_url r /\ mr_host r' = mr_host r /\
    mr_body r' = mr_body r /\ mr_tag r' = mr_tag r /\
    forall k, mget k (mr_headers r') =
      let nm := canon_key (if is_nil name then DATE else name) in
      if beq k nm
      then Some (match mget nm (mr_headers r) with Some vs => vs ++ [DATE_STAMP] | None => [DATE_STAMP] end)
      else mget k (mr_headers r).
Proof.
  eexists. split; [reflexivity|]. cbn [mr_method mr_url mr_host mr_body mr_tag mr_headers].
  repeat split; try reflexivity. intros k. apply mget_madd.
Qed.

(* a refusing middleware makes exactly its n-th request unusable *)
Theorem mw_fail_at i n r :
  acquire_m [MwFailAt n] i (MBOk r) = if N.eqb i n then MBInvalid else MBOk r.
Proof. cbn [acquire_m mws_update mw_update]. destruct (N.eqb i n); reflexivity. Qed.
