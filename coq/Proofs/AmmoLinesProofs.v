(* Lemmas about Lib/AmmoLines.v: LF splitting inverts LF joining; dropCR is invisible after
   TrimSpace; ReadString / ReadFull on rendered pieces. *)
From Coq Require Import List NArith ZArith Bool Lia.
From PV Require Import Lib.AmmoBytes Lib.AmmoLines Proofs.AmmoBytesProofs.
Import ListNotations.
Local Open Scope N_scope.

Lemma nolf_app a b : nolf (a ++ b) = nolf a && nolf b.
Proof. unfold nolf. rewrite has_app, negb_orb. reflexivity. Qed.

Lemma nolf_cons c l : nolf (c :: l) = negb (N.eqb c LF) && nolf l.
Proof. unfold nolf. cbn [has]. rewrite negb_orb. reflexivity. Qed.

Lemma scan_app_nolf l : forall acc r,
  nolf l = true -> scan acc (l ++ r) = scan (rev l ++ acc) r.
Proof.
  induction l as [|c l IH]; intros acc r H; [reflexivity|].
  rewrite nolf_cons in H. apply andb_prop in H. destruct H as [Hc Hl].
  cbn [app scan]. apply negb_true_iff in Hc. rewrite Hc.
  rewrite IH by exact Hl. cbn [rev]. rewrite <- app_assoc. reflexivity.
Qed.

Lemma scan_line l r : nolf l = true -> lines (l ++ LF :: r) = l :: lines r.
Proof.
  intros H. unfold lines. rewrite scan_app_nolf by exact H.
  cbn [scan]. rewrite N.eqb_refl. rewrite frev_rev, app_nil_r, rev_involutive. reflexivity.
Qed.

Lemma scan_last l : nolf l = true -> lines l = match l with [] => [] | _ => [l] end.
Proof.
  intros H. unfold lines. rewrite <- (app_nil_r l) at 1. rewrite scan_app_nolf by exact H.
  cbn [scan]. rewrite app_nil_r.
  destruct l as [|c l']; [reflexivity|].
  destruct (rev (c :: l')) eqn:E.
  - apply (f_equal (@length _)) in E. rewrite rev_length in E. discriminate.
  - rewrite <- E, frev_rev, rev_involutive. reflexivity.
Qed.

(* lines of a file built with join_lf: the lines themselves; an empty unterminated last
   line is not a line *)
Definition drop_empty_last (ls : list bytes) : list bytes :=
  match rev ls with
  | [] :: r => rev r
  | _ => ls
  end.

Lemma lines_join_true ls :
  forallb nolf ls = true -> lines (join_lf ls true) = ls.
Proof.
  induction ls as [|x r IH]; intros H; [reflexivity|].
  cbn [forallb] in H. apply andb_prop in H. destruct H as [Hx Hr].
  destruct r as [|y r'].
  - cbn [join_lf]. rewrite scan_line by exact Hx. reflexivity.
  - change (join_lf (x :: y :: r') true) with (x ++ LF :: join_lf (y :: r') true).
    rewrite scan_line by exact Hx. rewrite IH by exact Hr. reflexivity.
Qed.

Lemma lines_join_false ls :
  forallb nolf ls = true -> lines (join_lf ls false) = drop_empty_last ls.
Proof.
  induction ls as [|x r IH]; intros H; [reflexivity|].
  cbn [forallb] in H. apply andb_prop in H. destruct H as [Hx Hr].
  destruct r as [|y r'].
  - cbn [join_lf]. rewrite scan_last by exact Hx. destruct x; reflexivity.
  - change (join_lf (x :: y :: r') false) with (x ++ LF :: join_lf (y :: r') false).
    rewrite scan_line by exact Hx. rewrite IH by exact Hr.
    unfold drop_empty_last. cbn [rev].
    destruct (rev r' ++ [y]) as [|z zs] eqn:E.
    + destruct (rev r'); discriminate.
    + cbn [app]. destruct z; [|reflexivity].
      rewrite rev_app_distr. reflexivity.
Qed.

(* ---------- the scanner's buffer limit ---------- *)
Lemma cap_lines_ok maxtok ls :
  forallb (fun l => N.ltb (nlen l) maxtok) ls = true -> cap_lines maxtok ls = (ls, SEof).
Proof.
  induction ls as [|l r IH]; intros H; [reflexivity|].
  cbn [forallb] in H. apply andb_prop in H. destruct H as [Hl Hr].
  cbn [cap_lines]. rewrite Hl, IH by exact Hr. reflexivity.
Qed.

(* ---------- dropCR is invisible after TrimSpace ---------- *)
Lemma asp_CR : asp CR = true. Proof. reflexivity. Qed.

Lemma trim_drop_cr l : trim (drop_cr l) = trim l.
Proof.
  unfold drop_cr. rewrite !frev_rev. destruct (rev l) as [|c r] eqn:E; [reflexivity|].
  destruct (N.eqb_spec c CR) as [->|]; [|reflexivity].
  rewrite frev_rev.
  assert (Hl : l = rev r ++ [CR]).
  { rewrite <- (rev_involutive l), E. reflexivity. }
  rewrite Hl. unfold trim. rewrite ltrim_app_blank1 by exact asp_CR.
  destruct (ltrim (rev r)) as [|y ys]; [reflexivity|].
  rewrite rtrim_app_blank by reflexivity. reflexivity.
Qed.

(* ---------- ReadString / ReadFull ---------- *)
Lemma read_string_line l r :
  nolf l = true -> read_string (l ++ LF :: r) = (l ++ [LF], r, true).
Proof.
  induction l as [|c l IH]; intros H; cbn [app read_string].
  - rewrite N.eqb_refl. reflexivity.
  - rewrite nolf_cons in H. apply andb_prop in H. destruct H as [Hc Hl].
    apply negb_true_iff in Hc. rewrite Hc. rewrite IH by exact Hl. reflexivity.
Qed.

Lemma read_string_eof l : nolf l = true -> read_string l = (l, [], false).
Proof.
  induction l as [|c l IH]; intros H; cbn [read_string]; [reflexivity|].
  rewrite nolf_cons in H. apply andb_prop in H. destruct H as [Hc Hl].
  apply negb_true_iff in Hc. rewrite Hc. rewrite IH by exact Hl. reflexivity.
Qed.

Lemma read_full_exact body rest : read_full (nlen body) (body ++ rest) = Some (body, rest).
Proof.
  induction body as [|b body IH]; [destruct rest; reflexivity|].
  cbn [nlen app read_full].
  destruct (N.eqb_spec (N.succ (nlen body)) 0) as [E|_]; [lia|].
  rewrite N.pred_succ, IH. reflexivity.
Qed.

(* a successful ReadFull returns exactly n bytes and what follows them *)
Lemma read_full_some n bs buf rest :
  read_full n bs = Some (buf, rest) -> bs = buf ++ rest /\ nlen buf = n.
Proof.
  revert n buf rest; induction bs as [|b bs IH]; intros n buf rest H.
  - cbn [read_full] in H. destruct (N.eqb_spec n 0) as [->|]; [|discriminate].
    inversion H; subst. split; reflexivity.
  - cbn [read_full] in H. destruct (N.eqb_spec n 0) as [->|Hn].
    + inversion H; subst. split; reflexivity.
    + destruct (read_full (N.pred n) bs) as [[buf' rest']|] eqn:E; [|discriminate].
      inversion H; subst. apply IH in E. destruct E as [-> E2].
      split; [reflexivity|]. cbn [nlen]. rewrite E2. lia.
Qed.

Lemma read_string_split bs c r ok :
  read_string bs = (c, r, ok) -> bs = c ++ r /\ (ok = true -> c <> []).
Proof.
  revert c r ok; induction bs as [|b bs IH]; intros c r ok H; cbn [read_string] in H.
  - inversion H; subst. split; [reflexivity|discriminate].
  - destruct (N.eqb b LF).
    + inversion H; subst. split; [reflexivity|discriminate].
    + destruct (read_string bs) as [[c' r'] ok'] eqn:E. inversion H; subst.
      destruct (IH _ _ _ eq_refl) as [-> _]. split; [reflexivity|discriminate].
Qed.
