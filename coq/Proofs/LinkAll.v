(* Link L5 with the profile: provider bounds (C08) + finite profile (C01) + engine accounting (C03)
   + run outcome (C05) in one statement. *)
From Coq Require Import ZArith List Arith Bool Lia.
From PV Require Model.Provider Proofs.ProviderProofs Model.Pool Proofs.PoolProofs.
From PV Require Import Model.Sched Proofs.LinkSched Proofs.LinkProfile Proofs.LinkRun.
From PV Require Import Model.Instance Proofs.InstanceProofs.
Import ListNotations.

Theorem end_to_end_profile (p : profile) (k : Provider.pkind) es lim pas A fuel :
  valid p -> es <> [] -> Provider.bound lim pas (length es) = Some A ->
  ProviderProofs.step_const * (A + length es + 1) < fuel ->
  let r := Provider.run k (ProviderProofs.cfg0 lim pas) es None fuel in
  let T := Z.to_nat (profile_count p) in
  (Provider.delivered r = Provider.cyc_prefix es A /\ length (Provider.delivered r) = A /\
   Provider.out r = Provider.Ok /\ Provider.closed r = true /\
   Provider.acquire_after r = Provider.AcqEndOfAmmo /\ prov_err (Provider.out r) = Pool.ENil) /\
  (forall c s, prof c = T -> ammo0 c = length (Provider.delivered r) ->
     reach c s -> terminal s -> length (insts s) >= 1 ->
     fired (sh s) + discarded (sh s) = Nat.min ((if per_inst c then length (insts s) else 1) * T) A /\
     acquired (sh s) = released (sh s) /\ request (sh s) = fired (sh s) /\ response (sh s) = fired (sh s)) /\
  (forall cfg tr g, Forall (fault_free_ev (prov_err (Provider.out r))) tr ->
     Pool.grun Pool.fixed cfg (Pool.ginit cfg) tr = Some g ->
     (forall er, Pool.eng g = Some er -> Pool.er_cancelled er = false -> Pool.er_res er = Pool.RNil) /\
     (Pool.terminal g = true -> Pool.eng g <> None /\ Pool.wait_returns g = true)).
Proof.
  intros Hv Hne Hb Hfuel r T.
  destruct (end_to_end k es lim pas A fuel Hne Hb Hfuel) as (P & E & R). fold r in P, E, R.
  split; [exact P|]. split; [|exact R].
  intros c s Hp Ha Hr Ht Hn. destruct P as (_ & D2 & _).
  split; [|split].
  - rewrite (conservation_profile p c s Hv Hp Hr Ht Hn). rewrite Ha, D2. reflexivity.
  - apply (E c s Ha Hr Ht Hn).
  - destruct (counters c s Hr Ht) as (C1 & C2 & _). split; assumption.
Qed.
