(* Property C01, floating-point side: a small relative-error calculus.
   [rel x X e] : the computed non-negative quantity x is the exact quantity X up to the relative
   error e.  Each rule says how the error grows through one exact operation or one rounding. *)
From Coq Require Import ZArith Reals Lra Lia Psatz.
From Flocq Require Import Core.
From PV Require Import Proofs.SchedFloatCore.
Local Open Scope R_scope.

Definition rel (x X e : R) : Prop := X * (1 - e) <= x <= X * (1 + e).

Lemma rel_exact X : rel X X 0.
Proof. unfold rel. lra. Qed.

Lemma rel_weaken x X e e' : 0 <= X -> e <= e' -> rel x X e -> rel x X e'.
Proof.
  unfold rel. intros HX He [H1 H2].
  assert (X * e <= X * e') by (apply Rmult_le_compat_l; lra). lra.
Qed.

Lemma rel_abs x X e : rel x X e -> Rabs (x - X) <= X * e.
Proof. unfold rel. intros [H1 H2]. apply Rabs_le. lra. Qed.

Lemma rel_of_abs x X e : Rabs (x - X) <= X * e -> rel x X e.
Proof. unfold rel. intros H. apply Rabs_le_inv in H. lra. Qed.

Lemma rel_nonneg x X e : 0 <= X -> e <= 1 -> rel x X e -> 0 <= x.
Proof.
  unfold rel. intros HX He [H1 _].
  assert (0 <= X * (1 - e)) by (apply Rmult_le_pos; lra). lra.
Qed.

Lemma rel_lower x X e : rel x X e -> X * (1 - e) <= x.
Proof. intros [H _]. exact H. Qed.

Lemma rel_upper x X e : rel x X e -> x <= X * (1 + e).
Proof. intros [_ H]. exact H. Qed.

Lemma rel_mul x X e y Y f :
  0 <= X -> 0 <= Y -> 0 <= e <= 1 -> 0 <= f <= 1 ->
  rel x X e -> rel y Y f -> rel (x * y) (X * Y) (e + f + e * f).
Proof.
  unfold rel. intros HX HY He Hf [Hx1 Hx2] [Hy1 Hy2].
  assert (Hx0 : 0 <= X * (1 - e)) by (apply Rmult_le_pos; lra).
  assert (Hy0 : 0 <= Y * (1 - f)) by (apply Rmult_le_pos; lra).
  split.
  - apply Rle_trans with ((X * (1 - e)) * (Y * (1 - f))).
    + assert (0 <= X * Y * (e * f)) by (apply Rmult_le_pos; [apply Rmult_le_pos|apply Rmult_le_pos]; lra). nra.
    + apply Rmult_le_compat; lra.
  - apply Rle_trans with ((X * (1 + e)) * (Y * (1 + f))).
    + apply Rmult_le_compat; lra.
    + right. ring.
Qed.

Lemma rel_div x X e y Y f :
  0 <= X -> 0 < Y -> 0 <= e <= 1 -> 0 <= f < 1 ->
  rel x X e -> rel y Y f -> rel (x / y) (X / Y) ((e + f) / (1 - f)).
Proof.
  unfold rel. intros HX HY He Hf [Hx1 Hx2] [Hy1 Hy2].
  assert (Hy0 : 0 < Y * (1 - f)) by (apply Rmult_lt_0_compat; lra).
  assert (Hy : 0 < y) by lra.
  assert (Hx0 : 0 <= X * (1 - e)) by (apply Rmult_le_pos; lra).
  assert (Hx : 0 <= x) by lra.
  assert (Hyp : 0 < Y * (1 + f)) by (apply Rmult_lt_0_compat; lra).
  split.
  - (* x / y >= X(1-e) / (Y(1+f)) >= X/Y (1 - (e+f)/(1-f)) *)
    apply Rle_trans with (X * (1 - e) / (Y * (1 + f))).
    + replace (X / Y * (1 - (e + f) / (1 - f))) with (X / Y * ((1 - e - 2 * f) / (1 - f))) by (field; lra).
      replace (X * (1 - e) / (Y * (1 + f))) with (X / Y * ((1 - e) / (1 + f))) by (field; lra).
      apply Rmult_le_compat_l; [apply Rmult_le_pos; [lra|apply Rlt_le, Rinv_0_lt_compat; lra]|].
      apply (Rmult_le_reg_r ((1 - f) * (1 + f))); [apply Rmult_lt_0_compat; lra|].
      replace ((1 - e - 2 * f) / (1 - f) * ((1 - f) * (1 + f))) with ((1 - e - 2 * f) * (1 + f)) by (field; lra).
      replace ((1 - e) / (1 + f) * ((1 - f) * (1 + f))) with ((1 - e) * (1 - f)) by (field; lra).
      nra.
    + unfold Rdiv. apply Rmult_le_compat; [lra|apply Rlt_le, Rinv_0_lt_compat; lra|lra|].
      apply Rinv_le_contravar; lra.
  - apply Rle_trans with (X * (1 + e) / (Y * (1 - f))).
    + unfold Rdiv. apply Rmult_le_compat; [lra|apply Rlt_le, Rinv_0_lt_compat; lra|lra|].
      apply Rinv_le_contravar; lra.
    + right. field. lra.
Qed.

Lemma rel_add x X e y Y f g :
  0 <= X -> 0 <= Y -> e <= g -> f <= g -> rel x X e -> rel y Y f -> rel (x + y) (X + Y) g.
Proof.
  intros HX HY He Hf Hx Hy.
  apply (rel_weaken _ _ e g HX He) in Hx. apply (rel_weaken _ _ f g HY Hf) in Hy.
  unfold rel in *. lra.
Qed.

(* one rounding to nearest: the error e becomes e + u + e u (normal range or exact zero) *)
Lemma rel_rnd x X e :
  0 <= X -> 0 <= e <= 1 -> x = 0 \/ tiny <= x -> rel x X e -> rel (rnd x) X (e + u + e * u).
Proof.
  intros HX He Hx Hr. pose proof u_pos as Hu.
  assert (Hu1 : u <= 1) by (rewrite u_val; lra).
  destruct Hx as [->|Hx].
  - rewrite rnd_0. apply (rel_weaken _ _ e); [exact HX|nra|exact Hr].
  - pose proof (rnd_pos_bounds x Hx) as [H1 H2]. pose proof tiny_pos as Ht.
    pose proof (rel_mul x X e (1 - u) 1 u HX Rle_0_1 He (conj (Rlt_le _ _ Hu) Hu1) Hr) as Hm.
    destruct Hr as [Hr1 Hr2]. unfold rel in *. split.
    + apply Rle_trans with (x * (1 - u)); [|exact H1].
      apply Rle_trans with (X * (1 - e) * (1 - u)); [nra|].
      apply Rmult_le_compat_r; lra.
    + apply Rle_trans with (x * (1 + u)); [exact H2|].
      apply Rle_trans with (X * (1 + e) * (1 + u)); [|right; ring].
      apply Rmult_le_compat_r; lra.
Qed.

(* square root halves the error (up to second order) *)
Lemma rel_sqrt x X e : 0 <= X -> 0 <= e <= 1 -> rel x X e -> rel (sqrt x) (sqrt X) (e / 2 + e * e / 2).
Proof.
  intros HX He [H1 H2].
  assert (Hx0 : 0 <= X * (1 - e)) by (apply Rmult_le_pos; lra).
  pose proof (sqrt_pos X) as Hs.
  assert (Hss : sqrt X * sqrt X = X) by (apply sqrt_sqrt; exact HX).
  split.
  - (* (sqrt X (1 - e/2 - e^2/2))^2 <= X (1 - e) <= x *)
    destruct (Rle_or_lt 0 (1 - (e / 2 + e * e / 2))) as [Hp|Hn].
    + rewrite <- (sqrt_square (sqrt X * (1 - (e / 2 + e * e / 2)))) by (apply Rmult_le_pos; lra).
      apply sqrt_le_1_alt. apply Rle_trans with (X * (1 - e)); [|exact H1].
      replace (sqrt X * (1 - (e / 2 + e * e / 2)) * (sqrt X * (1 - (e / 2 + e * e / 2))))
        with (X * ((1 - (e / 2 + e * e / 2)) * (1 - (e / 2 + e * e / 2)))) by (rewrite <- Hss at 1; ring).
      apply Rmult_le_compat_l; [exact HX|]. nra.
    + apply Rle_trans with 0; [|apply sqrt_pos]. nra.
  - rewrite <- (sqrt_square (sqrt X * (1 + (e / 2 + e * e / 2)))) by (apply Rmult_le_pos; nra).
    apply sqrt_le_1_alt. apply Rle_trans with (X * (1 + e)); [exact H2|].
    replace (sqrt X * (1 + (e / 2 + e * e / 2)) * (sqrt X * (1 + (e / 2 + e * e / 2))))
      with (X * ((1 + (e / 2 + e * e / 2)) * (1 + (e / 2 + e * e / 2)))) by (rewrite <- Hss at 1; ring).
    apply Rmult_le_compat_l; [exact HX|]. nra.
Qed.
