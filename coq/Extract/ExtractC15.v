From Coq Require Import Extraction ExtrOcamlBasic.
From PV Require Import Lib.ExtractBase Model.Iterator Model.Scenario Model.MapPath Model.Templater Model.CsvSource.
Extraction Language OCaml.
Extraction "extracted/C15_model.ml" xb_types
  parse_shoot print_bare print_n print_ns
  expand spec_expand item_of
  gcd_go gcdm_go ring_of spec_ring deliver
  build run_shots src_wf c_shoot c_send_ids c_sample_obs c_step_obs order_stop_b visible weights_ok_b items_of ammo_minwait min_wait_sleep
  it_run next_row merge_of_b count_seg
  run_paths run_paths_bare spec_paths canon_of
  run_applies spec_applies
  read_csv csv_spec print_csv valid_delim comma_of line_ok.
