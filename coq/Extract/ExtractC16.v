From Coq Require Import Extraction ExtrOcamlBasic.
From PV Require Import Lib.ExtractBase Model.ConfigDecode Model.TagTables Model.HclLocals Model.ScenarioGuard Model.BlockScalar Gen.ConfigSchemaGen Gen.ScenarioTagsGen.
Extraction Language OCaml.
Extraction "extracted/C16_model.ml" xb_types decode_and_validate fuel_for model_factory_lazy
  marshal_by_tags marshal_val table_ok level_ok flat_fields
  h_goname h_yaml h_hcl h_hclkind h_optional h_omitempty h_kind
  parse_hcl spec_locals inline_body map_opt eval_closed parse_hcl_fields spec_fields
  decode_map read_yaml read_hcl scenario_weights with_ctor ctor_checks format_of read_file
  read_block chomp_for heredoc_value
  gen_registry gen_hcl_root gen_ammo_schema gen_ammo_default.
