From Coq Require Import Extraction ExtrOcamlBasic.
From PV Require Import Lib.ExtractBase Model.Pool Model.PoolLaunch Model.GrpcJsonStart Model.GrpcWarmUp Model.EncAggrRun Model.PlugFactory Model.ScanDecode Model.JsonDecode.
Extraction Language OCaml.
Extraction "extracted/C05_model.ml" xb_types grun first_disabled ginit gstep fixed orig current terminal wait_returns
  total_created total_closed total_unbound all_finished any_panicked
  spec_outcome_b spec_term_b spec_guns_b cause_eqb
  outstanding_at_wait total_outstanding total_comp_runs spec_stopped_b run_async_prog ra_exec pre_launched
  gj_start gj_fuel gj_spec_fails gj_spec_delivered gj_file jres_is_failure
  warm_up tree_policy wres_failed gw_spec_fails gw_spec_cause gw_spec_methods gw_services gw_methods refusal_is_failure code_not_found
  ea_run tree_epolicy ea_spec_fails ea_spec_first ea_of_trace ea_occurs ecause_eqb
  factory_call tree_cvprog factory_spec creation_error fres_failed wf_out wf_direct
  dp_run sd_current sd_spec_fails sd_spec_delivered sd_file
  jd_pass jd_passes jd_current jd_spec_fails jd_spec_delivered jd_items jd_count_ammo.
