From Coq Require Import Extraction ExtrOcamlBasic.
From PV Require Import Lib.ExtractBase Model.StartLoop Model.StartAsync Model.StartWaiter Model.StartProfile Model.StartPerInst Model.StartCompLeft Model.StartOverflow.
Extraction Language OCaml.
Extraction "extracted/C12_model.ml" xb_types sinit sstep srun drive creations started_by released_by istep_tokens istep_spec istep_levels new_instance_step flatten ainit astep arun adrive live_ids quiescent wlinit wlstep wldrive not_ahead_b const_count const_count_by const_tokens pflatten pflatten_by profile_count piinit pistep pirun pidrive shots_of comp_left left_spec cnext cleft_trace cleft_spec_trace left_after ostep orun odrive.
