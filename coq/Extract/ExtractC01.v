From Coq Require Import Extraction ExtrOcamlBasic ZArith QArith.
From PV Require Import Lib.ExtractBase Model.Sched Model.SchedList.
Extraction Language OCaml.
Extraction "extracted/C01_model.ml" xb_types drain spec_b count_ok spec_finish count at_ cum valid is_rate list_drain list_spec_b list_spec_finish.
