From Coq Require Import Extraction ExtrOcamlBasic.
From PV Require Import Lib.ExtractBase Model.Robust Model.RobustWire Model.RobustRedirect Model.RobustGrpcScn Model.GrpcStatus Model.RobustGrpcTime.
Extraction Language OCaml.
Extraction "extracted/C19_model.ml" xb_types substr_call substr_seq atoi parse_chain apply_chain var_header_one
  var_header_process assert_process grpc_assert xpath_values var_xpath_process var_jsonpath_process
  extract_elem pre_eval grpc_shoot grpc_bind base_shoot shoot_step scenario_shoot executed instance_run is_panic
  delivered body_complete go_make read_body read_body_announced step_sink shoot_step_wire base_shoot_wire
  client_loop client_do default_check always_check single_trip base_shoot_do shoot_step_do base_shoot_redir followed last_step
  grpc_scn_step grpc_scn_shoot grpc_scn_executed mk_gstep grpc_code
  grpc_shoot_timed instance_timed code_ctx result_of effective_timeout scenario_timed gstep_of.
