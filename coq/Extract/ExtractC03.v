From Coq Require Import Extraction ExtrOcamlBasic.
From PV Require Import Lib.ExtractBase Model.Pool Model.Instance Model.InstancePool.
Extraction Language OCaml.
Extraction "extracted/C03_model.ml" xb_types mkCfg init replay run terminal_b tokens events pairing_b proj item_complete_b
  pinit pl_step pl_run preplay pool_ended started_ok_b cfg_tokens.
