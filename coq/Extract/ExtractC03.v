From Coq Require Import Extraction ExtrOcamlBasic.
From PV Require Import Lib.ExtractBase Model.Instance.
Extraction Language OCaml.
Extraction "extracted/C03_model.ml" xb_types mkCfg init replay run terminal_b tokens events pairing_b proj item_complete_b.
