From Coq Require Import Extraction ExtrOcamlBasic.
From PV Require Import Lib.ExtractBase Lib.AmmoBytes Lib.AmmoDecimal Lib.AmmoLines Model.AmmoCommon
  Model.AmmoUri Model.AmmoUripost Model.AmmoRaw Model.AmmoJson Model.AmmoRobust Model.AmmoConfigInput
  Model.AmmoJsonReject Model.AmmoVarSource Model.AmmoConfigValue Model.AmmoHostileConfig Model.AmmoCliConfig.
Extraction Language OCaml.
Extraction "extracted/C13_model.ml" xb_types max_token cfg0 build cycle_take
  uri_decode render_uri uri_entries wf_uitem
  uripost_decode up_run up_init render_uripost uripost_entries wf_pitem
  raw_decode raw_run raw_init render_raw raw_entries wf_ritem
  json_stream_decode json_array_decode entity_entry
  parse_shoot_name convert spread_counts extract_index property_resolve rand_string_alloc
  mp_reads grpc_decode decode_header header_set GET rand_int_range
  config_headers provider_new_headers header_entry_okb header_list_okb scenario_weights scenario_requests
  json_provider good_prefix entity_okb
  csv_source rows_spec init_sources cast_int
  opt_accept scanner_setup scan_limit grpc_provider grpc_refused_expected grpc_read_error_expected http_provider_opts read_description
  cli_read cli_expected shape_okb pools_okb prepass read_settings.
