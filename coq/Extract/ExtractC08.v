From Coq Require Import Extraction ExtrOcamlBasic.
From PV Require Import Lib.ExtractBase Model.Provider Model.ProviderFile.
Extraction Language OCaml.
Extraction "extracted/C08_model.ml" xb_types run bound cyc_prefix ids spec_b constructor_refuses run_file f_clean.
