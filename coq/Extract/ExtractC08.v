From Coq Require Import Extraction ExtrOcamlBasic.
From PV Require Import Lib.ExtractBase Model.Provider Model.ProviderFile Model.ProviderScan Model.ProviderFrame.
Extraction Language OCaml.
Extraction "extracted/C08_model.ml" xb_types run bound cyc_prefix ids spec_b spec_engine_cancel spec_dec dec_run dinit is_chosen constructor_refuses run_file f_clean run_file_sz spec_sz all_fit_b run_framed.
