From Coq Require Import Extraction ExtrOcamlBasic.
From PV Require Import Lib.ExtractBase Model.ConfigDecode Model.ConfigIntLiteral Model.ConfigApplied Gen.ConfigSchemaGen.
Extraction Language OCaml.
Extraction "extracted/C17_model.ml" xb_types decode_and_validate decode fuel_for cli_prepass classify accepted_b
  schema_at reach classify_node wrong_type_b wrong_type_str_b defaults_kept_b erase cval_eqb check_field validate
  lookup_entry plugin_entry flat_fields insert_key replace_at zero_of struct_cur model_factory_lazy
  prop_of_files env_of_list ctor_rels ocond_b ctor_field_ok ctor_ok hdr_line hdr_decode
  parse_int parse_uint
  is_type_key applied_of lookup_applied expected_group expected_opt opt_at
  gen_registry gen_root_schema gen_root_default gen_applied.
