From Coq Require Import Extraction ExtrOcamlBasic.
From PV Require Import Lib.ExtractBase Model.Waiter Model.WaiterPool Model.SchedLeafConc Model.WaiterLeaf Model.WaiterProfile.
Extraction Language OCaml.
Extraction "extracted/C04_model.ml" xb_types wait is_slow_down decide run_inst return_lower wcurrent worig wfixed
  wstate_init spec_token_b spec_decision_b max_overdue profile_offsets configured_discard
  run_pool instance_discard schedules_built never_ahead_b
  first_shots spec_first_b doat_progs flagfirst_progs
  profile_segments configured_offsets.
