From Coq Require Import Extraction ExtrOcamlBasic.
From PV Require Import Lib.ExtractBase Model.Headers Model.HttpConns Model.HttpShoot Model.HdrLine Model.HttpTunnel.
Extraction Language OCaml.
Extraction "extracted/C09_model.ml" xb_types canon_mime effective file_requests on_wire
  spec_wire file_spec spec_hdrs spec_get spec_host spec_method spec_body entry_defined cfg_map hm_get host_key
  shoot_body_events gun_client shoot_wire shoot_resp_events answlog_logs decode_header header_line
  prepare_pool client_of instance_clients distinct_clients conn_ok clients_ok t_run t_init requests_of eff_max_idle hist_ok
  gun_arm tt_run tt_init tt_obs.
