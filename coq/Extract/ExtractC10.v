From Coq Require Import Extraction ExtrOcamlBasic.
From PV Require Import Lib.ExtractBase Lib.Table Model.Sample Gen.GrpcStatusGen Model.GrpcStatus Model.Shoot Model.ShootEvents
  Lib.AmmoBytes Lib.AmmoDecimal Lib.AmmoLines Model.AmmoCommon Model.AmmoUri Model.AmmoUripost Model.AmmoRaw Model.AmmoJson Model.ShootAmmo
  Model.ReportQueue Model.ShootRun Gen.PoolDepsGen Model.ShootEngine Gen.AwaitRunGen Model.ShootJsonLine Gen.JsonLineTargetGen.
Extraction Language OCaml.
Extraction "extracted/C10_model.ml" xb_types grpc_code doc_code autotag_go autotag_spec shoot_tags get_errno ids_from empty_tag
  base_shoot base_spec hscen_shoot hscen_spec gscen_shoot gscen_spec grpc_shoot gcall_code
  base_shoot_ev hscen_ev gscen_ev grpc_ev at_report at_end late_writes handoff_ok
  max_token cfg0 cycle_take uri_decode render_uri uri_entries wf_uitem uripost_decode render_uripost uripost_entries wf_pitem
  raw_decode render_raw raw_entries wf_ritem json_stream_decode json_array_decode read_array shoot_deliveries ammo_spec
  hscen_shoot_decl hscen_ev_decl gscen_shoot_decl gscen_ev_decl hscen_decl_spec gscen_decl_spec hscen_file_shoot hscen_file_ev hscen_file_spec gscen_file_shoot gscen_file_ev gscen_file_spec
  shot_reports shot_spec shot_requests run_lines run_lost lazy_history report_variant gen_phout_report_plain_send gen_phout_run_drains
  slow_run_lines slow_run_over engine_ooa gen_ooa_calls
  lines_entities line_tag scan_entities gen_jsonline_target.
