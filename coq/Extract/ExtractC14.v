From Coq Require Import Extraction ExtrOcamlBasic.
From PV Require Import Lib.ExtractBase Model.Provider Model.Preload Model.PreloadContent Model.PreloadMw.
Extraction Language OCaml.
Extraction "extracted/C14_model.ml" xb_types deliver chosen_entries bound cyc_prefix ids spec14_b constructor_refuses
  deliver_c file_entries chosen_content view_of spec14c_b
  deliver_m view_m req_spec init_fails close_fails spec14m_b.
