From Coq Require Import Extraction ExtrOcamlBasic.
From PV Require Import Lib.ExtractBase Lib.Table Gen.GrpcStatusGen Gen.HeaderShareGen Model.GrpcStatus Model.GrpcCall Model.GrpcExample
  Model.GunOwner Model.AmmoOwner Model.ScenarioHeap Model.ScenarioAlias Model.SharedSched Model.AmmoShare.
Extraction Language OCaml.
Extraction "extracted/C11_model.ml" xb_types grpc_code oinit orun orun_stuck exclusive_b arun arun_stuck ammo_exclusive_b
  isolated_b flow_ok_b fp writes reads synchronised owner inst_of
  scen_model scen_spec heap_of sguns_of wire_meta out_code http_spec
  shared_seen_ok_b shared_fin_ok_b
  prun spec_run ops_of_plan decode_all pinit gen_enrich_clip gen_headerdate_mw.
