From Coq Require Import Extraction ExtrOcamlBasic.
From PV Require Import Lib.ExtractBase Model.Registry.
Extraction Language OCaml.
Extraction "extracted/C18_model.ml" xb_types run_case run_case_from expected_arg spec_b configured_b errors_b fresh_b shape_wf run_nest nest_b reround_ok.
