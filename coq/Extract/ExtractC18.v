From Coq Require Import Extraction ExtrOcamlBasic.
From PV Require Import Lib.ExtractBase Model.Registry Model.RegistryConc Model.RegistrySection Model.RegistryDecode Model.RegistryOverlay.
Extraction Language OCaml.
Extraction "extracted/C18_model.ml" xb_types run_case run_case_from expected_arg spec_b configured_b errors_b fresh_b shape_wf run_nest nest_b reround_ok
  run_sched observe_conc conc_b crec_ok sched_of_order cstate0 thread0 section_ok_b create_by_section registered_b new_by_name
  hook_oracle decode_target decode_map settings_accepted_b overlay create_by_settings factory_by_settings no_construction
  is_factory_type factory_plugin_type factory_form lookup_factory new_factory_request
  dec_cfg ovl_accepted_b cfg_agrees_b nregister_all create_named named_spec_b.
