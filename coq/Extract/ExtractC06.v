From Coq Require Import Extraction ExtrOcamlBasic.
From PV Require Import Lib.ExtractBase Lib.Decimal Gen.PhoutGen Model.Phout.
Extraction Language OCaml.
Extraction "extracted/C06_model.ml" xb_types ms_of_ns render_phout parse_phout sample_ok fields_array
  documented_columns render_file parse_file gen_cli_signal_waits.
