From Coq Require Import Extraction ExtrOcamlBasic.
From PV Require Import Lib.ExtractBase Lib.Decimal Gen.PhoutGen Model.Phout Model.Aggregator Model.Shutdown Model.Destination.
Extraction Language OCaml.
Extraction "extracted/C06_model.ml" xb_types ms_of_ns render_phout parse_phout sample_ok fields_array
  documented_columns render_file parse_file
  Aggregator.init Aggregator.step Aggregator.run Aggregator.run_error Aggregator.finish_history complete_b
  phout_dest sink_dest opened this_run phout_enc failing prefix_b
  pool_init prun proc_init crun cli_waits cli_failed_waits orderly all_true.
