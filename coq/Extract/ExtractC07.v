From Coq Require Import Extraction ExtrOcamlBasic.
From PV Require Import Lib.ExtractBase Lib.AmmoBytes Lib.AmmoDecimal Lib.AmmoLines Model.AmmoCommon
  Model.AmmoUri Model.AmmoUripost Model.AmmoRaw Model.AmmoJson Model.AmmoSched.
Extraction Language OCaml.
Extraction "extracted/C07_model.ml" xb_types max_token cfg0 build cycle_take
  uri_decode render_uri uri_entries wf_uitem
  uripost_decode render_uripost uripost_entries wf_pitem
  raw_decode render_raw raw_entries wf_ritem
  json_stream_decode json_array_decode entity_entry
  sched_obs.
