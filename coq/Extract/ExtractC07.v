From Coq Require Import Extraction ExtrOcamlBasic.
From PV Require Import Lib.ExtractBase Lib.AmmoBytes Lib.AmmoDecimal Lib.AmmoLines Model.AmmoCommon
  Model.AmmoUri Model.AmmoUripost Model.AmmoRaw Model.AmmoJson Model.AmmoSched Model.AmmoConfigInput Model.AmmoCfgHeaders.
Extraction Language OCaml.
Extraction "extracted/C07_model.ml" xb_types max_token cfg0 build cycle_take
  uri_decode render_uri uri_entries wf_uitem
  uripost_decode render_uripost uripost_entries wf_pitem
  raw_decode render_raw raw_entries wf_ritem
  json_stream_decode json_array_decode entity_entry
  sched_obs
  config_headers line_run_cfg raw_run_cfg raw_enrich json_stream_decode_cfg json_array_decode_cfg
  build_m spec_request spec_raw entity_mentry_add acquire_m mws_init_ok.
