From Coq Require Import Extraction ExtrOcamlBasic.
From PV Require Import Lib.ExtractBase Lib.AmmoBytes Lib.AmmoDecimal Lib.AmmoLines Model.AmmoCommon Model.AmmoUri.
Extraction Language OCaml.
Extraction "extracted/C07_model.ml" xb_types max_token cfg0 build cycle_take
  uri_decode render_uri uri_entries.
