From Coq Require Import Extraction ExtrOcamlBasic.
From PV Require Import Lib.ExtractBase Model.SchedTree Model.SchedConc.
Extraction Language OCaml.
Extraction "extracted/C02_model.ml" xb_types build s_start s_next s_left new_composite flatten flatten_cfg
  size size_cfg instance_step items_from abs_next abs_left drop_closed
  cb_init cb_after_next cb_after_left run_tree run_abs a_init
  sec_next0 sec_next1 sec_left0 sec_left1 comp_len.
