From Coq Require Import Extraction ExtrOcamlBasic.
From PV Require Import Lib.ExtractBase Lib.Table Gen.GrpcStatusGen Model.GrpcStatus Model.GrpcCall Model.GrpcExample.
Extraction Language OCaml.
Extraction "extracted/C20_model.ml" xb_types grpc_code eff_timeout json_model json_spec scen_model scen_spec
  heap_of sguns_of wire_meta out_code fields_small reencode_c interp example_table parse_obj parse_t_c exec_t_c.
