From Coq Require Import Extraction ExtrOcamlBasic.
From PV Require Import Lib.ExtractBase Lib.Table Gen.GrpcStatusGen Gen.GrpcDialGen Model.GrpcStatus Model.GrpcCall Model.GrpcExample
  Model.GrpcWire Model.GrpcWireExample Model.GrpcTime Model.GrpcTimeExample Model.GrpcPool.
Extraction Language OCaml.
Extraction "extracted/C20_model.ml" xb_types grpc_code eff_timeout json_model json_spec scen_model scen_spec
  heap_of sguns_of wire_meta out_code fields_small reencode_c interp example_table parse_obj parse_t_c exec_t_c
  no_retry dial_policy gen_dial_options json_session json_session_spec reencode_guarded scen_codes scen_codes_spec
  scen_warm_up warm_up scen_timed scen_timed_spec json_timed json_timed_spec deadline_scope
  gen_timeout_sites gen_invoke_call_options scope_or_default run_authorities
  prun pinit vrun vinit shots_of extra_releases gen_instance_releases.
