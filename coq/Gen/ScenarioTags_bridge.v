(* Side conditions on the scenario tag tables regenerated from the source (closed by computation). *)
From Coq Require Import List NArith ZArith Bool QArith String Ascii.
From PV Require Import Model.ConfigDecode Model.TagTables Gen.ConfigSchemaGen Gen.ScenarioTagsGen.
Import ListNotations.
Local Open Scope N_scope.

(* the generated HCL struct table is consistent with the generated config schema at every nesting level:
   every yaml key written by the HCL hop is accepted by the config side with a compatible kind, no two keys collide,
   plugin blocks only carry `type` and options of registered components of that interface *)
Lemma gen_table_ok : table_ok gen_registry 8 gen_hcl_root (flat_fields gen_ammo_schema) = true.
Proof. vm_compute. reflexivity. Qed.

(* which fields the HCL syntax allows to leave out (pointer, `optional`, repeated block) and which carry omitempty,
   as they stand in the source the property was written against: dropping a pointer (field becomes required in HCL)
   or an omitempty no longer matches *)
Fixpoint to_string (s : str) : string :=
  match s with [] => EmptyString | c :: r => String (ascii_of_N c) (to_string r) end.

Fixpoint optional_table (prefix : string) (k : hkind) : list (string * bool * bool) :=
  match k with
  | HStruct fs | HStructList fs =>
      (fix go (l : list hfield) : list (string * bool * bool) :=
         match l with
         | [] => []
         | f :: r =>
             let name := (prefix ++ to_string (h_goname f))%string in
             ((name, h_optional f, h_omitempty f) :: optional_table (name ++ ".")%string (h_kind f)) ++ go r
         end) fs
  | _ => []
  end.

Local Open Scope string_scope.
Lemma gen_hcl_optional_documented : optional_table "" (HStruct gen_hcl_root) =
  ("VariableSources"%string, true, false)
  :: ("VariableSources.Name"%string, false, false)
  :: ("VariableSources.Type"%string, false, false)
  :: ("VariableSources.File"%string, true, true)
  :: ("VariableSources.Fields"%string, true, true)
  :: ("VariableSources.IgnoreFirstLine"%string, true, true)
  :: ("VariableSources.Delimiter"%string, true, true)
  :: ("VariableSources.Variables"%string, true, true)
  :: ("Requests"%string, true, false)
  :: ("Requests.Name"%string, false, false)
  :: ("Requests.Method"%string, false, false)
  :: ("Requests.URI"%string, false, false)
  :: ("Requests.Headers"%string, false, true)
  :: ("Requests.Tag"%string, true, true) :: ( "Requests.Body"%string, true, true) :: ( "Requests.Preprocessor"%string, true, true) :: ( "Requests.Preprocessor.Mapping"%string, false, false) :: ( "Requests.Postprocessors"%string, true, true) :: ( "Requests.Postprocessors.Type"%string, false, false) :: ( "Requests.Postprocessors.Mapping"%string, true, true) :: ( "Requests.Postprocessors.Headers"%string, true, true) :: ( "Requests.Postprocessors.Body"%string, true, true) :: ( "Requests.Postprocessors.StatusCode"%string, true, true) :: ( "Requests.Postprocessors.Size"%string, true, true) :: ( "Requests.Postprocessors.Size.Val"%string, true, false) :: ( "Requests.Postprocessors.Size.Op"%string, true, false) :: ( "Requests.Templater"%string, true, true) :: ( "Requests.Templater.Type"%string, false, false) :: ( "Calls"%string, true, false) :: ( "Calls.Name"%string, false, false) :: ( "Calls.Tag"%string, true, true) :: ( "Calls.Call"%string, false, false) :: ( "Calls.Metadata"%string, true, true) :: ( "Calls.Payload"%string, false, false) :: ( "Calls.Preprocessor"%string, true, true) :: ( "Calls.Preprocessor.Type"%string, false, false) :: ( "Calls.Preprocessor.Mapping"%string, false, false) :: ( "Calls.Postprocessors"%string, true, true) :: ( "Calls.Postprocessors.Type"%string, false, false) :: ( "Calls.Postprocessors.Payload"%string, true, true) :: ( "Calls.Postprocessors.StatusCode"%string, true, true) :: ( "Scenarios"%string, true, false) :: ( "Scenarios.Name"%string, false, false) :: ( "Scenarios.Weight"%string, true, true) :: ( "Scenarios.MinWaitingTime"%string, true, true) :: ( "Scenarios.Requests"%string, false, false) :: nil.
Proof. vm_compute. reflexivity. Qed.
