(* Bridge of the `gofn` translator, properties C14 / C08: components/providers/http/provider/provider.go runFullScan (the http
   provider without preload) = the decisions of Model/Provider.v http_step (state HStream), call by call.

   harness/cmd/translate gofn-fullscan re-reads runFullScan on every run (TRACED target, see design/GOFN.md): ctx.Err(),
   Decoder.Scan, ammo.Tag(), confutil.IsChosenCase, fullPassDone, the select ("select#0": [ctx.Done | p.Sink<-]) and the send
   `p.Sink <- ammo` are collaborator calls answered per call by an arbitrary oracle; errors.Is is equality of error codes
   (context.Canceled, decoders.ErrAmmoLimit / ErrPassLimit / ErrNoAmmo are distinct codes, gen_prog_fullscan_qerr);
   xerrors.Errorf is "some other non-nil error".

   Proved for EVERY oracle, every limit and every fuel (proofs: Proofs/FullScanProofs.v, re-checked when provider.go changes):
     bridge_fullscan            result, number of calls and sequence of calls of runFullScan = the walk: per iteration
                                ctx.Err first (non-nil: returned, wrapped unless Canceled); then the limit test on DELIVERED
                                entries; then Scan (a limit sentinel ends the run with nil - or ErrNoAmmo if nothing was
                                delivered -, another error is returned as is); then the chosencases filter (a dropped entry
                                ends the run with ErrNoAmmo only if nothing was delivered and a whole pass is done); then the
                                select: the send counts one delivery, ctx.Done returns ctx.Err()
     bridge_fullscan_model      the two decisions are the model's: scan_end = Provider.fullscan_result, the limit test =
                                `nz limit && limit <=? delivered` of http_step
     bridge_fullscan_limit      with a limit L, whatever the oracle answers, at most L entries are sent to the sink
   If the source drifts (limit counted on scanned instead of delivered entries, sentinel mapped differently, filter after the
   send, ErrNoAmmo condition changed) a lemma no longer checks. *)
From Coq Require Import ZArith NArith List String Bool Lia.
From PV Require Model.Provider.
From PV Require Import Lib.Imp Gen.GoFnFullScanGen Proofs.FullScanProofs.
Import ListNotations.
Local Open Scope string_scope.
Local Open Scope list_scope.
Local Open Scope Z_scope.

Lemma bridge_fullscan_shape :
  gen_Provider_runFullScan_returns = ["result0"; "$n"; "$trace"] /\
  f_params gen_Provider_runFullScan = ["p.Limit"; "p.Config.ChosenCases"] /\
  gen_Provider_runFullScan_selects = [["ctx.Done"; "p.Sink<-"]] /\
  gen_prog_fullscan_qerr =
    [("context.Canceled", 2001); ("decoders.ErrAmmoLimit", 2002); ("decoders.ErrNoAmmo", 2004); ("decoders.ErrPassLimit", 2003)].
Proof. exact FullScanProofs.bridge_fullscan_shape. Qed.

Theorem bridge_fullscan (o oa : Z -> Z) (lim : nat) (cc : Z) fuel :
  code_run o oa lim cc fuel = enc (walk o oa lim cc fuel 0 0 []).
Proof. exact (FullScanProofs.bridge_fullscan o oa lim cc fuel). Qed.

Theorem bridge_fullscan_model (lim d : nat) (e : Z) :
  (e <> 0 -> scan_end d e = code_of e (P.fullscan_result d (err_of e))) /\
  (negb (Z.of_nat lim =? 0) && (Z.of_nat lim <=? Z.of_nat d)) = (P.nz lim && (lim <=? d)%nat).
Proof. split; [apply scan_end_is_model|apply limit_test_is_model]. Qed.

Theorem bridge_fullscan_limit (o oa : Z -> Z) (lim : nat) (cc : Z) fuel e n tr :
  lim <> O ->
  code_run o oa lim cc fuel = Ret [VInt e; VInt n; VRecs tr] ->
  (sends tr <= lim)%nat.
Proof.
  intros Hl. rewrite bridge_fullscan.
  destruct (walk o oa lim cc fuel 0 0 []) as [[[e' n'] tr']|] eqn:W; cbn [enc]; intros H; inversion H; subst.
  pose proof (walk_sends_bounded o oa lim cc fuel 0 0 [] _ _ _ W Hl ltac:(lia)) as B.
  cbn in B. lia.
Qed.

(* non-vacuity: limit 2, three entries of which the second is dropped by the filter: two sends, then nil at the limit test;
   and: no limit, the decoder reports the passes sentinel after one delivery: nil; before any delivery: ErrNoAmmo *)
Definition ex_o (l : list Z) (n : Z) : Z := nth (Z.to_nat n) l 0.
Example bridge_fullscan_example :
  code_run (ex_o [0;0;7;1;1;0;  0;0;8;0;  0;0;7;1;1;0;  0]) (fun n => n) 2 99 9 =
    Ret [VInt 0; VInt 17;
         VRecs [("ctx.Err", []); ("p.Decoder.Scan", []); ("ammo.Tag", [1]); ("confutil.IsChosenCase", [7; 99]);
                ("select#0", []); ("p.Sink<-", [1]);
                ("ctx.Err", []); ("p.Decoder.Scan", []); ("ammo.Tag", [7]); ("confutil.IsChosenCase", [8; 99]);
                ("ctx.Err", []); ("p.Decoder.Scan", []); ("ammo.Tag", [11]); ("confutil.IsChosenCase", [7; 99]);
                ("select#0", []); ("p.Sink<-", [11]);
                ("ctx.Err", [])]]
  /\ (exists n tr, code_run (ex_o [0;0;7;1;1;0; 0;2003]) (fun n => n) 0 99 9 = Ret [VInt 0; VInt n; VRecs tr])
  /\ (exists n tr, code_run (ex_o [0;2003]) (fun n => n) 0 99 9 = Ret [VInt 2004; VInt n; VRecs tr]).
Proof. repeat split; try (do 2 eexists); vm_compute; reflexivity. Qed.

Print Assumptions bridge_fullscan_shape.
Print Assumptions bridge_fullscan.
Print Assumptions bridge_fullscan_model.
Print Assumptions bridge_fullscan_limit.
