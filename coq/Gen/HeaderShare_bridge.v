(* Bridge of harness/cmd/trC11 headershare (property C11): what Model/AmmoShare.v takes for granted about the
   source, re-read on every run into Gen/HeaderShareGen.v - util.EnrichRequestWithHeaders stores the ammo's value
   slices into the request with the capacity clipped to the length (and writes nothing through them), the only
   registered provider middleware is header/date and its UpdateRequest only Adds its header, Provider.Acquire is
   BuildRequest followed by the middlewares.  With these, C11_share_isolated applies to every provider
   configuration: any number of header/date middlewares with any header names, any ammo / config headers, any
   spare capacities left by the decoders.  If the source drifts (capacity no longer clipped, a middleware assigning
   through req.Header.Values) the translator stops or this file no longer checks. *)
From Coq Require Import List Bool.
From PV Require Import Model.AmmoShare Proofs.AmmoShareProofs Gen.HeaderShareGen.
Import ListNotations.

Lemma bridge_header_share_source :
  gen_enrich_clip = true /\ (forall K k, gen_headerdate_mw K k = [MwAdd k]) /\
  gen_http_mw_kinds = 1 /\ gen_headerdate_registered = true /\ gen_acquire_builds_then_updates = true.
Proof. repeat split; reflexivity. Qed.
Print Assumptions bridge_header_share_source.

Lemma gen_mws_safe K (names : list K) : Forall (safe_mw K) (concat (map (gen_headerdate_mw K) names)).
Proof.
  induction names as [|k t IH]; cbn [concat map]; [constructor|].
  apply Forall_app. split; [unfold gen_headerdate_mw; repeat constructor|exact IH].
Qed.

Theorem bridge_share_isolated_for_source : forall (K V : Type) (keqb : K -> K -> bool),
  (forall a b, keqb a b = true <-> a = b) ->
  forall (names : list K) gc own stored (ops : list (pop V)),
  let c := {| p_clip := gen_enrich_clip; p_gc := gc; p_mws := concat (map (gen_headerdate_mw K) names); p_own := own; p_stored := stored |} in
  prun K V keqb c pinit ops = spec_run K V keqb c (fun _ => false) (fun _ => None) ops.
Proof. intros K V keqb Hk names gc own stored ops c. apply share_isolated; [exact Hk|reflexivity|apply gen_mws_safe]. Qed.
Print Assumptions bridge_share_isolated_for_source.
