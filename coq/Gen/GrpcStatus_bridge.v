(* Bridge: the switch regenerated from the source equals the documented table, for every
   status code (all of uint32 and beyond: the statement is over N). *)
From Coq Require Import List NArith Bool.
From PV Require Import Lib.Table Gen.GrpcStatusGen Model.GrpcStatus.
Import ListNotations.
Local Open Scope N_scope.

Lemma grpc_tables_equiv : table_equiv_b gen_switch gen_switch_default doc_table doc_default = true.
Proof. vm_compute. reflexivity. Qed.

Lemma grpc_switch_no_dup : nodup_b (keys gen_switch) = true /\ nodup_b (keys doc_table) = true.
Proof. split; vm_compute; reflexivity. Qed.

Lemma grpc_code_is_documented : forall c, grpc_code c = doc_code c.
Proof. intro c. apply table_equiv_sound. exact grpc_tables_equiv. Qed.
