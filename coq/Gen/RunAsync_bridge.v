(* Bridge (property C05): the statement order of instancePool.runAsync and the early error
   returns of instancePool.Run, re-read from core/engine/engine.go by `translate runasync`
   (Gen/RunAsyncGen.v), are the ones the model and its theorems are about. *)
From Coq Require Import List Bool.
From PV Require Import Model.Pool Model.PoolLaunch Proofs.PoolLaunchProofs Gen.RunAsyncGen.
Import ListNotations.

(* runAsync builds the instance schedule before it launches anything *)
Theorem run_async_source_is_model : gen_run_async_prog = run_async_prog.
Proof. reflexivity. Qed.
Print Assumptions run_async_source_is_model.

(* hence: when the source's runAsync returns an error, no goroutine has been launched, and when
   it succeeds provider, aggregator and start loop have been launched exactly once each *)
Theorem run_async_source_fail_launches_nothing : ra_exec gen_run_async_prog false [] = ([], false).
Proof. exact run_async_fail_launches_nothing. Qed.
Print Assumptions run_async_source_fail_launches_nothing.

Theorem run_async_source_ok_launches_each_once :
  snd (ra_exec gen_run_async_prog true []) = true /\
  forall pr, count_pr pr (fst (ra_exec gen_run_async_prog true [])) = 1.
Proof. exact run_async_ok_launches_each_once. Qed.
Print Assumptions run_async_source_ok_launches_each_once.

(* instancePool.Run releases the engine's WaitGroup on both early error returns, as the variant
   [fixed] of the model says (pre_failed ... true / v_waitdone_on_sched_fail) *)
Theorem run_early_returns_source_is_model :
  gen_warmup_fail_calls_waitdone = true /\ gen_runasync_fail_calls_waitdone = v_waitdone_on_sched_fail current.
Proof. split; reflexivity. Qed.
Print Assumptions run_early_returns_source_is_model.
