(* Bridges for the `gofn` translator: the Go functions that harness/cmd/translate gofn re-reads
   from /repo on every run (Gen/GoFnGen.v, abstract syntax of Lib/Imp.v) compute, under the
   semantics of Lib/Imp.v, exactly what the hand-written model functions compute:

     lib/math GCD, GCDM (LCM)            Model/Scenario.v  gcd_go, gcdm_go            (C15)
     lib/mp calcIndex                    Model/AmmoRobust.v calc_index (C13), Model/Robust.v calc_index (C19)
     guns/http autotag                   Model/Sample.v    autotag_go                 (C10)
     schedule.NewInstanceStep            Model/StartLoop.v new_instance_step          (C12)
     coreutil.Waiter IsSlowDown, Wait    Model/Waiter.v    is_slow_down, wait wfixed  (C04)

   Go integers are unbounded Z here (see Lib/Imp.v).  If the source drifts (another operand
   order, another comparison, a dropped guard) the lemma about that function no longer checks. *)
From Coq Require Import ZArith NArith List String Bool Lia.
From PV Require Import Lib.AmmoBytes Lib.AmmoDecimal Model.Scenario Model.Sample Model.StartLoop Model.Waiter.
From PV Require Model.AmmoRobust Model.Robust.
From PV Require Import Proofs.ScenarioRingProofs Proofs.StartLoopProofs Proofs.SampleProofs.
From PV Require Import Lib.Imp Gen.GoFnGen.
Import ListNotations.
Local Open Scope string_scope.
Local Open Scope list_scope.
Local Open Scope Z_scope.

(* no external call is made *)
Definition no_ext : string -> list val -> option (list val) := fun _ _ => None.

(* ==================================================================================== *)
(* lib/math/gcd_lcm.go *)

Lemma find_GCD : find_func "GCD" gen_prog_math = Some gen_GCD.
Proof. reflexivity. Qed.
Lemma find_GCDM : find_func "GCDM" gen_prog_math = Some gen_GCDM.
Proof. reflexivity. Qed.
Lemma find_LCM : find_func "LCM" gen_prog_math = Some gen_LCM.
Proof. reflexivity. Qed.

Definition gcd_loop_stmt : stmt :=
  SFor (EBin OAnd (EBin OGt (EVar "a") (ELit 0)) (EBin OGt (EVar "b") (ELit 0)))
       (SIf (EBin OGe (EVar "a") (EVar "b"))
            (SAssign ["a"] [EBin ORem (EVar "a") (EVar "b")])
            (SAssign ["b"] [EBin ORem (EVar "b") (EVar "a")]))
       SSkip.

(* the loop of GCD follows gcd_loop step by step *)
Lemma gcd_loop_imp : forall f a b v, gcd_loop f a b = Some v ->
  exists fuel a' b',
    exec gen_prog_math no_ext fuel gcd_loop_stmt [("a", VInt a); ("b", VInt b)]
      = SNormal [("a", VInt a'); ("b", VInt b')] /\ v = (if b' <? a' then a' else b').
Proof.
  induction f as [|f IH]; intros a b v H; cbn [gcd_loop] in H.
  - destruct (0 <? a) eqn:Ha, (0 <? b) eqn:Hb; cbn [andb] in H; try discriminate;
      injection H as <-; exists O, a, b; (split; [|reflexivity]);
      unfold gcd_loop_stmt; rewrite exec_eq; imp_eval; rewrite ?Ha, ?Hb; reflexivity.
  - destruct (0 <? a) eqn:Ha, (0 <? b) eqn:Hb; cbn [andb] in H;
      try (injection H as <-; exists O, a, b; (split; [|reflexivity]);
           unfold gcd_loop_stmt; rewrite exec_eq; imp_eval; rewrite ?Ha, ?Hb; reflexivity).
    b2p.
    destruct (b <=? a) eqn:Hab; b2p;
      destruct (IH _ _ _ H) as (fuel & a' & b' & E & Hv);
      exists (S fuel), a', b'; (split; [|exact Hv]);
      unfold gcd_loop_stmt in *;
      (eapply for_unroll; [imp_go; reflexivity|imp_nz|imp_go; reflexivity|imp_go; reflexivity|exact E]).
Qed.

Lemma gcd_go_total a b : exists v, gcd_go a b = Some v.
Proof.
  destruct (0 <? a) eqn:Ha; [destruct (0 <? b) eqn:Hb|].
  - b2p. eexists. apply gcd_go_correct; assumption.
  - eexists. unfold gcd_go. cbn [gcd_loop]. rewrite Ha, Hb. reflexivity.
  - eexists. unfold gcd_go. cbn [gcd_loop]. rewrite Ha. reflexivity.
Qed.

(* the body of GCD, as a callee *)
Lemma gcd_body_imp a b v : gcd_go a b = Some v ->
  exists fuel, exec gen_prog_math no_ext fuel (f_body gen_GCD) [("a", VInt a); ("b", VInt b)] = SRet [VInt v].
Proof.
  intros Hv. destruct (gcd_loop_imp _ _ _ _ Hv) as (fuel & a' & b' & E & Hr).
  exists fuel. unfold gen_GCD. imp_eval. fold gcd_loop_stmt.
  rewrite exec_eq, E. imp_go; subst; reflexivity.
Qed.

(* GCD: for ALL a, b the translated function returns what the model returns *)
Lemma bridge_GCD a b :
  exists fuel v, gcd_go a b = Some v /\ run gen_prog_math no_ext fuel "GCD" [VInt a; VInt b] = Ret [VInt v].
Proof.
  destruct (gcd_go_total a b) as (v & Hv). destruct (gcd_body_imp a b v Hv) as (fuel & E).
  exists fuel, v. split; [exact Hv|]. unfold run. rewrite find_GCD.
  unfold gen_GCD in *. cbn [f_body f_params] in *. imp_eval. rewrite E. reflexivity.
Qed.

(* ---- GCDM (recursive, on the slice weights[:l-1]) ---- *)
Lemma index_last2 pre y z :
  index (pre ++ [y; z]) (Z.of_nat (List.length (pre ++ [y; z])) - 2) = Ok (VInt y).
Proof.
  replace (Z.of_nat (List.length (pre ++ [y; z])) - 2) with (Z.of_nat (List.length pre))
    by (rewrite app_length; cbn [List.length]; lia).
  apply index_app_mid.
Qed.

Lemma index_last1 pre y z :
  index (pre ++ [y; z]) (Z.of_nat (List.length (pre ++ [y; z])) - 1) = Ok (VInt z).
Proof.
  replace (Z.of_nat (List.length (pre ++ [y; z])) - 1) with (Z.of_nat (List.length (pre ++ [y])))
    by (rewrite !app_length; cbn [List.length]; lia).
  change (pre ++ [y; z]) with (pre ++ [y] ++ [z]). rewrite app_assoc. apply index_app_mid.
Qed.

Lemma slice_init pre y z :
  slice (pre ++ [y; z]) 0 (Z.of_nat (List.length (pre ++ [y; z])) - 1) = Ok (VArr (pre ++ [y])).
Proof.
  replace (Z.of_nat (List.length (pre ++ [y; z])) - 1) with (Z.of_nat (List.length (pre ++ [y])))
    by (rewrite !app_length; cbn [List.length]; lia).
  change (pre ++ [y; z]) with (pre ++ [y] ++ [z]). rewrite app_assoc. apply slice_app_prefix.
Qed.

Lemma gcdm_body_imp : forall rw v, gcdm_rev rw = Some v ->
  exists fuel, exec gen_prog_math no_ext fuel (f_body gen_GCDM) [("weights", VArr (rev rw))] = SRet [VInt v].
Proof.
  induction rw as [|z rw IH]; intros v H.
  - injection H as <-. exists O. unfold gen_GCDM. cbn [rev f_body]. imp_go. reflexivity.
  - destruct rw as [|y rest'].
    + injection H as <-. exists O. unfold gen_GCDM. cbn [rev app f_body]. imp_go. reflexivity.
    + rewrite gcdm_rev_eq in H.
      destruct (gcd_go y z) as [res|] eqn:Eg; [|discriminate].
      destruct (gcd_body_imp y z res Eg) as (f1 & E1).
      assert (Hrev : rev (z :: y :: rest') = rev rest' ++ [y; z]).
      { cbn [rev]. rewrite <- app_assoc. reflexivity. }
      rewrite Hrev. set (pre := rev rest') in *.
      assert (Hlen : Z.of_nat (List.length (pre ++ [y; z])) = Z.of_nat (List.length pre) + 2).
      { rewrite app_length. cbn [List.length]. lia. }
      destruct rest' as [|x rest''].
      * (* l == 2 *)
        injection H as <-. exists (S f1). unfold gen_GCDM. cbn [f_body].
        subst pre. cbn [rev app] in *.
        imp_go.
        erewrite call_ret; [|imp_eval; reflexivity|apply find_GCD|reflexivity|
                            apply (exec_mono_eq _ _ f1); [exact E1|discriminate|lia]].
        imp_go. reflexivity.
      * destruct (gcdm_rev (y :: x :: rest'')) as [g|] eqn:Em; [|discriminate].
        destruct (IH g eq_refl) as (f2 & E2).
        destruct (gcd_body_imp g res v H) as (f3 & E3).
        assert (Hpre : rev (y :: x :: rest'') = pre ++ [y]) by reflexivity.
        rewrite Hpre in E2.
        assert (Hl : 1 <= Z.of_nat (List.length pre)).
        { subst pre. cbn [rev]. rewrite app_length. cbn [List.length]. lia. }
        set (F := Nat.max f1 (Nat.max f2 f3)).
        exists (S F). unfold gen_GCDM. cbn [f_body].
        imp_go.
        erewrite call_ret; [|imp_eval; rewrite index_last2, index_last1; reflexivity|apply find_GCD|reflexivity|
                            apply (exec_mono_eq _ _ f1); [exact E1|discriminate|subst F; lia]].
        imp_go.
        erewrite call_ret; [|imp_eval; rewrite slice_init; reflexivity|apply find_GCDM|reflexivity|
                            apply (exec_mono_eq _ _ f2); [exact E2|discriminate|subst F; lia]].
        imp_go.
        erewrite call_ret; [|imp_eval; reflexivity|apply find_GCD|reflexivity|
                            apply (exec_mono_eq _ _ f3); [exact E3|discriminate|subst F; lia]].
        imp_go. reflexivity.
Qed.

Lemma gcdm_rev_total rw : exists v, gcdm_rev rw = Some v.
Proof.
  induction rw as [|z rw IH]; [eexists; reflexivity|].
  destruct rw as [|y rest']; [eexists; reflexivity|].
  rewrite gcdm_rev_eq. destruct (gcd_go_total y z) as (res & ->).
  destruct rest' as [|x r]; [eexists; reflexivity|].
  destruct IH as (g & ->). apply gcd_go_total.
Qed.

(* GCDM: for ALL weight lists the translated function returns what the model returns *)
Lemma bridge_GCDM ws :
  exists fuel v, gcdm_go ws = Some v /\ run gen_prog_math no_ext fuel "GCDM" [VArr ws] = Ret [VInt v].
Proof.
  unfold gcdm_go. destruct (gcdm_rev_total (rev ws)) as (v & Hv).
  destruct (gcdm_body_imp _ _ Hv) as (fuel & E). rewrite rev_involutive in E.
  exists fuel, v. split; [exact Hv|]. unfold run. rewrite find_GCDM.
  unfold gen_GCDM in *. cbn [f_body f_params] in *. imp_eval. rewrite E. reflexivity.
Qed.

(* LCM has no model (pandora does not call it): (a*b)/GCD(a,b), dividing by zero when GCD = 0 *)
Lemma bridge_LCM a b :
  exists fuel g, gcd_go a b = Some g /\
    run gen_prog_math no_ext fuel "LCM" [VInt a; VInt b] = (if g =? 0 then Panic else Ret [VInt (Z.quot (a * b) g)]).
Proof.
  destruct (gcd_go_total a b) as (g & Hg). destruct (gcd_body_imp a b g Hg) as (fuel & E).
  exists (S fuel), g. split; [exact Hg|]. unfold run. rewrite find_LCM.
  unfold gen_LCM. cbn [f_body f_params]. imp_go;
  (erewrite call_ret; [|imp_eval; reflexivity|apply find_GCD|reflexivity|exact E]);
  imp_go; reflexivity.
Qed.

(* ==================================================================================== *)
(* lib/mp/map.go calcIndex *)

(* byte strings of the models (list N) as IMP arrays *)
Definition zs (b : list N) : list Z := map Z.of_N b.

Lemma list_eqb_zs a b : list_eqb (zs a) (zs b) = AmmoBytes.beq a b.
Proof.
  revert b; induction a as [|x a IH]; intros [|y b]; cbn [zs map list_eqb AmmoBytes.beq]; try reflexivity.
  fold (zs a) (zs b). rewrite IH. f_equal.
  destruct (N.eqb_spec x y) as [->|Hne]; [apply Z.eqb_refl|].
  apply Z.eqb_neq. intros E. apply Hne. apply N2Z.inj. exact E.
Qed.

Lemma find_calcIndex : find_func "calcIndex" gen_prog_mp = Some gen_calcIndex.
Proof. reflexivity. Qed.

(* the externals of calcIndex: strconv.Atoi answers [at_] (on an error Go returns some value
   [junk] together with a non-nil error), iter.Rand(n) is rand.Intn(n): panics for n <= 0 and
   otherwise returns [rnd n], iter.Next returns [nxt] *)
Definition mp_ext (at_ : option Z) (junk nxt : Z) (rnd : Z -> Z) : string -> list val -> option (list val) :=
  fun f args =>
    if String.eqb f "strconv.Atoi"
    then Some (match at_ with Some i => [VInt i; VInt 0] | None => [VInt junk; VInt 1] end)
    else if String.eqb f "iter.Rand"
    then match args with [VInt l] => if l <=? 0 then None else Some [VInt (rnd l)] | _ => None end
    else if String.eqb f "iter.Next" then Some [VInt nxt]
    else None.

Definition enc_rres (r : AmmoRobust.rres Z) : outcome :=
  match r with
  | AmmoRobust.VOk i => Ret [VInt i; VInt 0]       (* index, nil *)
  | AmmoRobust.VErr => Ret [VInt 0; VInt 1]        (* 0, error *)
  | AmmoRobust.VPanic => Panic
  end.

Ltac zs_rw := repeat match goal with |- context [list_eqb (zs ?a) (zs ?b)] => rewrite (list_eqb_zs a b) end.

(* C13's model: for ALL index texts, lengths, counter and random values *)
Lemma bridge_calcIndex0 idx seg len nxt rnd junk :
  run gen_prog_mp (mp_ext (AmmoDecimal.atoi idx) junk nxt (fun _ => rnd)) 0 "calcIndex" [VArr (zs idx); VArr seg; VInt len]
  = enc_rres (AmmoRobust.calc_index idx len nxt rnd).
Proof.
  unfold run. rewrite find_calcIndex. unfold gen_calcIndex, AmmoRobust.calc_index, enc_rres.
  cbn [f_body f_params].
  change [110; 101; 120; 116] with (zs AmmoRobust.NEXT).
  change [114; 97; 110; 100] with (zs AmmoRobust.RAND).
  change [108; 97; 115; 116] with (zs AmmoRobust.LAST).
  destruct (len =? 0) eqn:Hl0; destruct (AmmoDecimal.atoi idx) as [i|] eqn:Hat; b2p;
    imp_cbn; unfold mp_ext; imp_cbn; zs_rw; imp_rw;
    repeat (imp_case; imp_cbn; zs_rw; imp_rw); try reflexivity; try lia.
Qed.

Lemma bridge_calcIndex idx seg len nxt rnd junk fuel :
  run gen_prog_mp (mp_ext (AmmoDecimal.atoi idx) junk nxt (fun _ => rnd)) fuel "calcIndex" [VArr (zs idx); VArr seg; VInt len]
  = enc_rres (AmmoRobust.calc_index idx len nxt rnd).
Proof.
  rewrite (run_mono _ _ 0 fuel); [apply bridge_calcIndex0|lia|].
  rewrite bridge_calcIndex0. destruct (AmmoRobust.calc_index idx len nxt rnd); discriminate.
Qed.

(* C19's model (Model/Robust.v) abstracts the index text to an [index_spec]; [repr ix s] says which
   texts an index_spec stands for and what strconv.Atoi answers on them *)
Definition next_z : list Z := [110; 101; 120; 116].
Definition rand_z : list Z := [114; 97; 110; 100].
Definition last_z : list Z := [108; 97; 115; 116].

Definition not_keyword (s : list Z) : Prop :=
  list_eqb s next_z = false /\ list_eqb s rand_z = false /\ list_eqb s last_z = false.

Definition repr (ix : Robust.index_spec) (s : list Z) (at_ : option Z) : Prop :=
  match ix with
  | Robust.INum i => not_keyword s /\ at_ = Some i
  | Robust.IBad => not_keyword s /\ at_ = None
  | Robust.INext => s = next_z /\ at_ = None
  | Robust.IRand => s = rand_z /\ at_ = None
  | Robust.ILast => s = last_z /\ at_ = None
  end.

Definition enc_outcome (r : Robust.outcome Z) : outcome :=
  match r with
  | Robust.Done i => Ret [VInt i; VInt 0]
  | Robust.Failed => Ret [VInt 0; VInt 1]
  | Robust.Panicked => Panic
  end.

Ltac leq_closed :=
  repeat match goal with
         | |- context [list_eqb ?a ?b] =>
             let v := eval vm_compute in (list_eqb a b) in
             lazymatch v with
             | true => change (list_eqb a b) with true
             | false => change (list_eqb a b) with false
             end
         end.

Lemma bridge_calcIndex_C19_0 ix s at_ seg len counter rnd junk :
  repr ix s at_ ->
  run gen_prog_mp (mp_ext at_ junk counter (fun n => rnd mod n)) 0 "calcIndex" [VArr s; VArr seg; VInt len]
  = enc_outcome (Robust.calc_index ix len counter rnd).
Proof.
  intros Hr. unfold run. rewrite find_calcIndex.
  unfold gen_calcIndex, Robust.calc_index, Robust.go_rem, Robust.go_intn, enc_outcome. cbn [f_body f_params].
  rewrite ?Z.geb_leb.
  unfold repr, not_keyword, next_z, rand_z, last_z in Hr.
  destruct ix; destruct Hr as (Hs & ->);
    try (destruct Hs as (Hn & Hr & Hl)); try subst s;
    destruct (len =? 0) eqn:Hl0; b2p;
    imp_cbn; unfold mp_ext;
    repeat (progress (imp_cbn; rewrite ?Hn, ?Hr, ?Hl; leq_closed; cbn [negb andb orb]; imp_rw));
    repeat (imp_case; repeat (progress (imp_cbn; rewrite ?Hn, ?Hr, ?Hl; leq_closed; cbn [negb andb orb]; imp_rw)));
    try reflexivity; try lia.
Qed.

Lemma bridge_calcIndex_C19 ix s at_ seg len counter rnd junk fuel :
  repr ix s at_ ->
  run gen_prog_mp (mp_ext at_ junk counter (fun n => rnd mod n)) fuel "calcIndex" [VArr s; VArr seg; VInt len]
  = enc_outcome (Robust.calc_index ix len counter rnd).
Proof.
  intros Hr. rewrite (run_mono _ _ 0 fuel); [apply bridge_calcIndex_C19_0; exact Hr|lia|].
  rewrite (bridge_calcIndex_C19_0 _ _ _ _ _ _ _ _ Hr).
  destruct (Robust.calc_index ix len counter rnd); discriminate.
Qed.

(* ==================================================================================== *)
(* components/guns/http/base.go autotag *)

Lemma find_autotag : find_func "autotag" gen_prog_httpgun = Some gen_autotag.
Proof. reflexivity. Qed.

Definition autotag_loop : stmt :=
  SFor (EBin OLt (EVar "ind") (ELen (EVar "path")))
       (SIf (EBin OEq (EIdx (EVar "path") (EVar "ind")) (ELit 47))
            (SSeq (SIf (EBin OEq (EVar "depth") (ELit 0)) SBreak SSkip)
                  (SAssign ["depth"] [EBin OSub (EVar "depth") (ELit 1)]))
            SSkip)
       (SAssign ["ind"] [EBin OAdd (EVar "ind") (ELit 1)]).

Definition autotag_env (d : Z) (P : list Z) (ind : Z) : env :=
  [("depth", VInt d); ("URL.Path", VArr P); ("path", VArr P); ("ind", VInt ind)].

Lemma zs_app a b : zs (a ++ b) = zs a ++ zs b.
Proof. apply map_app. Qed.
Lemma zs_length a : List.length (zs a) = List.length a.
Proof. apply map_length. Qed.

(* the scan follows autotag_go byte by byte: from position |pre| with depth d left, it stops
   at position |pre| + |autotag_go d rest| *)
Lemma autotag_loop_imp : forall rest pre d,
  exists fuel d',
    exec gen_prog_httpgun no_ext fuel autotag_loop
         (autotag_env (Z.of_nat d) (zs (pre ++ rest)) (Z.of_nat (List.length pre)))
    = SNormal (autotag_env d' (zs (pre ++ rest))
                 (Z.of_nat (List.length pre + List.length (autotag_go d rest)))).
Proof.
  induction rest as [|c r IH]; intros pre d.
  - exists O, (Z.of_nat d). unfold autotag_loop, autotag_env. cbn [autotag_go List.length].
    rewrite Nat.add_0_r, app_nil_r. apply for_exit. imp_eval. rewrite zs_length.
    rewrite Z.ltb_irrefl. reflexivity.
  - assert (Hidx : index (zs (pre ++ c :: r)) (Z.of_nat (List.length pre)) = Ok (VInt (Z.of_N c))).
    { rewrite zs_app. cbn [zs map]. rewrite <- (zs_length pre). apply index_app_mid. }
    assert (Hlt : (Z.of_nat (List.length pre) <? Z.of_nat (List.length (zs (pre ++ c :: r)))) = true).
    { apply Z.ltb_lt. rewrite zs_length, app_length. cbn [List.length]. lia. }
    assert (Hpre : pre ++ c :: r = (pre ++ [c]) ++ r) by (rewrite <- app_assoc; reflexivity).
    assert (Hlen : Z.of_nat (List.length pre) + 1 = Z.of_nat (List.length (pre ++ [c]))).
    { rewrite app_length. cbn [List.length]. lia. }
    cbn [autotag_go]. unfold slash.
    destruct (N.eqb_spec c 47) as [->|Hc].
    + destruct d as [|d].
      * (* depth == 0 at a '/': break *)
        exists 1%nat, 0. unfold autotag_loop, autotag_env. cbn [List.length]. rewrite Nat.add_0_r.
        eapply for_break; [imp_eval; rewrite Hlt; reflexivity|discriminate|].
        imp_cbn. rewrite Hidx. imp_cbn. reflexivity.
      * destruct (IH (pre ++ [47%N]) d) as (fuel & d' & E).
        exists (S fuel), d'. unfold autotag_loop, autotag_env in *.
        rewrite Hpre. cbn [List.length].
        replace (List.length pre + S (List.length (autotag_go d r)))%nat
          with (List.length (pre ++ [47%N]) + List.length (autotag_go d r))%nat
          by (rewrite app_length; cbn [List.length]; lia).
        rewrite <- Hpre.
        eapply for_unroll; [imp_eval; rewrite Hlt; reflexivity|discriminate| | |rewrite Hpre; exact E].
        -- imp_cbn. rewrite Hidx. imp_cbn. imp_rw.
           replace (Z.of_nat (S d) =? 0) with false by (symmetry; apply Z.eqb_neq; lia).
           cbn [negb]. reflexivity.
        -- imp_cbn. rewrite <- Hpre. repeat f_equal; lia.
    + destruct (IH (pre ++ [c]) d) as (fuel & d' & E).
      exists (S fuel), d'. unfold autotag_loop, autotag_env in *.
      rewrite Hpre. cbn [List.length].
      replace (List.length pre + S (List.length (autotag_go d r)))%nat
        with (List.length (pre ++ [c]) + List.length (autotag_go d r))%nat
        by (rewrite app_length; cbn [List.length]; lia).
      rewrite <- Hpre.
      eapply for_unroll; [imp_eval; rewrite Hlt; reflexivity|discriminate| | |rewrite Hpre; exact E].
      -- imp_cbn. rewrite Hidx. imp_cbn. imp_rw.
         replace (Z.of_N c =? 47) with false by (symmetry; apply Z.eqb_neq; lia).
         cbn [negb]. reflexivity.
      -- imp_cbn. rewrite <- Hpre. repeat f_equal; lia.
Qed.

(* autotag: for ALL depths >= 0 and ALL paths the translated function returns autotag_go *)
Lemma bridge_autotag depth path :
  exists fuel,
    run gen_prog_httpgun no_ext fuel "autotag" [VInt (Z.of_nat depth); VArr (zs path)]
    = Ret [VArr (zs (autotag_go depth path))].
Proof.
  destruct (autotag_loop_imp path [] depth) as (fuel & d' & E).
  destruct (autotag_prefix depth path) as (rest & Hp).
  exists fuel. unfold run. rewrite find_autotag. unfold gen_autotag. cbn [f_body f_params].
  imp_eval. imp_go. fold autotag_loop.
  cbn [app List.length Nat.add] in E. unfold autotag_env in E. cbn [Z.of_nat] in E.
  rewrite E. imp_go.
  rewrite Hp at 1. rewrite zs_app, <- (zs_length (autotag_go depth path)), slice_app_prefix. reflexivity.
Qed.

(* ==================================================================================== *)
(* core/schedule/instance_step.go NewInstanceStep *)

Lemma find_istep : find_func "NewInstanceStep" gen_prog_istep = Some gen_NewInstanceStep.
Proof. reflexivity. Qed.

(* the constructor calls appended to `nexts`, as the parts of Model/StartLoop.v:
   NewOnce(n) = POnce n, NewConst(0, d) = PPause d *)
Definition enc_part (p : part) : string * list Z :=
  match p with
  | POnce n => ("NewOnce", [n])
  | PPause d => ("NewConst", [0; d])
  | PConst n period d => ("PConst", [n; period; d])   (* never built by NewInstanceStep *)
  end.

Definition istep_loop_stmt : stmt :=
  SFor (EBin OLe (EVar "i") (EVar "to"))
       (SSeq (SAppend "nexts" "NewConst" [ELit 0; EVar "stepDuration"])
             (SAppend "nexts" "NewOnce" [EVar "step"]))
       (SAssign ["i"] [EBin OAdd (EVar "i") (EVar "step")]).

Definition istep_env (from to step dur : Z) (acc : list (string * list Z)) (i : Z) : env :=
  [("from", VInt from); ("to", VInt to); ("step", VInt step); ("stepDuration", VInt dur);
   ("nexts", VRecs acc); ("i", VInt i)].

Lemma istep_loop_imp : forall f i to step dur ps from acc,
  istep_loop f i to step dur = Some ps ->
  exists fuel i',
    exec gen_prog_istep no_ext fuel istep_loop_stmt (istep_env from to step dur acc i)
    = SNormal (istep_env from to step dur (acc ++ map enc_part ps) i').
Proof.
  induction f as [|f IH]; intros i to step dur ps from acc H; cbn [istep_loop] in H;
    destruct (i <=? to) eqn:Hi; try discriminate.
  - injection H as <-. exists O, i. cbn [map]. rewrite app_nil_r.
    apply for_exit. unfold istep_env. imp_eval. rewrite Hi. reflexivity.
  - destruct (istep_loop f (i + step) to step dur) as [r|] eqn:Er; [|discriminate].
    injection H as <-.
    destruct (IH _ _ _ _ _ from (acc ++ [("NewConst", [0; dur]); ("NewOnce", [step])]) Er) as (fuel & i' & E).
    exists (S fuel), i'. unfold istep_loop_stmt, istep_env in *.
    eapply for_unroll; [imp_eval; rewrite Hi; reflexivity|discriminate| | |].
    + imp_cbn. reflexivity.
    + imp_cbn. reflexivity.
    + repeat rewrite <- app_assoc. repeat rewrite <- app_assoc in E. cbn [app map enc_part] in *. exact E.
  - injection H as <-. exists O, i. cbn [map]. rewrite app_nil_r.
    apply for_exit. unfold istep_env. imp_eval. rewrite Hi. reflexivity.
Qed.

(* NewInstanceStep: whenever the model's loop ends with [parts], so does the translated function,
   for ALL from, to, step, stepDuration *)
Lemma bridge_NewInstanceStep f from to step dur parts :
  new_instance_step f from to step dur = Some parts ->
  exists fuel,
    run gen_prog_istep no_ext fuel "NewInstanceStep" [VInt from; VInt to; VInt step; VInt dur]
    = Ret [VRecs (map enc_part parts)].
Proof.
  unfold new_instance_step. intros H.
  destruct (istep_loop f (from + step) to step dur) as [r|] eqn:Er; [|discriminate].
  injection H as <-.
  destruct (istep_loop_imp _ _ _ _ _ _ from [("NewOnce", [from])] Er) as (fuel & i' & E).
  exists fuel. unfold run. rewrite find_istep. unfold gen_NewInstanceStep. cbn [f_body f_params].
  imp_eval. imp_go. fold istep_loop_stmt. unfold istep_env in E. cbn [app]. rewrite E. imp_go. reflexivity.
Qed.

(* ... and the model's loop does end for the configurations validation admits (from >= 0, step >= 1) *)
Lemma bridge_NewInstanceStep_total from to step dur :
  0 <= from -> 1 <= step ->
  exists fuel parts,
    new_instance_step (S (Z.to_nat to)) from to step dur = Some parts /\
    run gen_prog_istep no_ext fuel "NewInstanceStep" [VInt from; VInt to; VInt step; VInt dur]
    = Ret [VRecs (map enc_part parts)].
Proof.
  intros Hf Hs.
  destruct (new_instance_step (S (Z.to_nat to)) from to step dur) as [parts|] eqn:E.
  - destruct (bridge_NewInstanceStep _ _ _ _ _ _ E) as (fuel & R). exists fuel, parts. split; [reflexivity|exact R].
  - exfalso. unfold new_instance_step in E.
    destruct (istep_loop_spec dur step to Hs (S (Z.to_nat to)) (from + step) 0) as (ps & E' & _); [|rewrite E' in E; discriminate].
    lia.
Qed.

(* ==================================================================================== *)
(* core/coreutil/waiter.go Waiter.IsSlowDown, Waiter.Wait *)

Lemma find_IsSlowDown : find_func "Waiter.IsSlowDown" gen_prog_waiter = Some gen_Waiter_IsSlowDown.
Proof. reflexivity. Qed.
Lemma find_Wait : find_func "Waiter.Wait" gen_prog_waiter = Some gen_Waiter_Wait.
Proof. reflexivity. Qed.

(* which select clause an input "$sel<k>" = 0, 1, ... names *)
Lemma bridge_Waiter_selects :
  gen_Waiter_IsSlowDown_selects = [["ctx.Done"; "default"]] /\
  gen_Waiter_Wait_selects = [["ctx.Done"; "default"]; ["w.timer.C"; "ctx.Done"]] /\
  gen_Waiter_Wait_returns = ["result0"; "w.overdueDuration"; "w.lastNow"; "w.timer"; "$timer"].
Proof. repeat split; reflexivity. Qed.

(* IsSlowDown: ctx done ($sel0 = 0) -> false; otherwise overdueDuration >= MaxOverdueDuration *)
Lemma bridge_IsSlowDown st sel fuel :
  run gen_prog_waiter no_ext fuel "Waiter.IsSlowDown" [VInt sel; VInt (overdue st)]
  = Ret [VInt (if sel =? 0 then 0 else b2z (is_slow_down st))].
Proof.
  rewrite (run_mono _ _ 0 fuel); [| lia |];
    unfold run; rewrite find_IsSlowDown; unfold gen_Waiter_IsSlowDown, is_slow_down, max_overdue;
    cbn [f_body f_params]; imp_run; try reflexivity; discriminate.
Qed.

(* the externals of Wait: sched.Next() answers the token of the call, time.Now() its clock reading *)
Definition wait_ext (c : wcall) (junk : Z) : string -> list val -> option (list val) :=
  fun f _ =>
    if String.eqb f "w.sched.Next"
    then Some (match c_tok c with Some n => [VInt n; VInt 1] | None => [VInt junk; VInt 0] end)
    else if String.eqb f "time.Now" then Some [VInt (c_now c)]
    else if String.eqb f "time.NewTimer" then Some [VInt 1]
    else if String.eqb f "w.timer.Reset" then Some []
    else None.

(* w.lastNow as an integer: the model's [None] is the zero time.Time, which is before every token *)
Definition last_repr (st : wstate) (c : wcall) (L : Z) : Prop :=
  match lastNow st with
  | Some l => L = l
  | None => match c_tok c with Some next => L < next | None => True end
  end.

(* the duration the timer is armed with, if this call gets as far as sleeping *)
Definition wait_sleeps (st : wstate) (c : wcall) : option Z :=
  if c_ctx_done c then None
  else match c_tok c with
       | None => None
       | Some next =>
           if match lastNow st with Some l => next - l <=? 0 | None => false end then None
           else if next - c_now c <=? 0 then None else Some (next - c_now c)
       end.

Lemma bridge_Wait0 st c L tm junk :
  last_repr st c L ->
  run gen_prog_waiter (wait_ext c junk) 0 "Waiter.Wait"
      [VInt (if c_ctx_done c then 0 else 1); VInt (overdue st); VInt L; VInt tm;
       VInt (if c_cancel_in_sleep c then 1 else 0)]
  = Ret [VInt (b2z (w_ok (snd (wait wfixed st c))));
         VInt (overdue (fst (wait wfixed st c)));
         VInt (match lastNow (fst (wait wfixed st c)) with Some l => l | None => L end);
         VInt (match wait_sleeps st c with Some _ => if tm =? 0 then 1 else tm | None => tm end);
         VInt (match wait_sleeps st c with Some d => d | None => 0 end)].
Proof.
  unfold last_repr, run. rewrite find_Wait.
  unfold gen_Waiter_Wait, wait, wait_sleeps, max_overdue, wait_ext.
  cbn [f_body f_params]. intros HL.
  destruct (c_tok c) as [next|], (lastNow st) as [l|]; try subst L;
    imp_run; cbn [fst snd w_ok overdue lastNow];
    repeat match goal with
           | H : ?x = true |- context [?x] => rewrite H
           | H : ?x = false |- context [?x] => rewrite H
           end; cbn [b2z negb];
    try reflexivity; try lia; repeat f_equal; try lia.
  Show.
Qed.
