(* Index of the bridges of the `gofn` translator (harness/cmd/translate/gofn.go): small Go loops
   and branchy helpers that several models copied by hand are re-read from /repo on every run as
   abstract syntax of Lib/Imp.v, and proved to compute what the hand-written model computes.
   One generated file and one bridge file per property served, so that a change of one function
   breaks the obligations of the property it belongs to and of no other:

     translator     generated file        bridge file                 Go function(s)                     model
     gofn-math      Gen/GoFnMathGen.v     Gen/GoFnMath_bridge.v       lib/math GCD, GCDM (LCM)           Model/Scenario.v gcd_go, gcdm_go (C15)
     gofn-mp        Gen/GoFnMpGen.v       Gen/GoFnMp_bridge.v         lib/mp calcIndex                   Model/AmmoRobust.v calc_index (C13), Model/Robust.v calc_index (C19)
     gofn-httpgun   Gen/GoFnHttpgunGen.v  Gen/GoFnHttpgun_bridge.v    guns/http autotag                  Model/Sample.v autotag_go (C10)
     gofn-istep     Gen/GoFnIstepGen.v    Gen/GoFnIstep_bridge.v      schedule.NewInstanceStep           Model/StartLoop.v new_instance_step (C12)
     gofn-waiter    Gen/GoFnWaiterGen.v   Gen/GoFnWaiter_bridge.v     coreutil.Waiter IsSlowDown, Wait   Model/Waiter.v is_slow_down, wait wfixed (C04)

   This file only collects them (it is not an obligation of any check). *)
From PV Require Export Gen.GoFnMath_bridge Gen.GoFnMp_bridge Gen.GoFnHttpgun_bridge Gen.GoFnIstep_bridge Gen.GoFnWaiter_bridge.

