(* Bridge (property C05): the run loop of the encoder aggregator as re-read from core/aggregator/encoder.go by
   `translate encaggr` (Gen/EncAggrGen.v) is the one the model (Model/EncAggrRun.v) and its theorems are about: an
   error of a sample and an error of a periodic flush both `return` (the named result carries them through the
   deferred joins), the drain loop returns the error of a queued sample. *)
From Coq Require Import List Bool.
From PV Require Import Model.EncAggrRun Proofs.EncAggrRunProofs Gen.EncAggrGen.
Import ListNotations.

Theorem enc_aggr_source_is_model : gen_epolicy = tree_epolicy /\ gen_drain_act = EaReturn.
Proof. split; reflexivity. Qed.
Print Assumptions enc_aggr_source_is_model.

(* hence the source's loop never swallows something that went wrong ... *)
Theorem enc_aggr_source_never_swallows : forall e, ea_spec_fails e = true -> ea_run gen_epolicy e <> [].
Proof. exact (proj2 (ea_policy_never_swallows_iff gen_epolicy) (conj eq_refl eq_refl)). Qed.
Print Assumptions enc_aggr_source_never_swallows.

(* ... and reports the first thing that did *)
Theorem enc_aggr_source_reports_first_cause : forall e, hd_error (ea_run gen_epolicy e) = ea_spec_first e.
Proof. exact ea_run_first_cause. Qed.
Print Assumptions enc_aggr_source_reports_first_cause.
