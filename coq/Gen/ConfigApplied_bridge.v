(* Side conditions on the table gen_applied regenerated from the source (what the products of every built-in component
   hold of configuration), closed by computation. *)
From Coq Require Import List NArith ZArith Bool QArith String Ascii.
From PV Require Import Model.ConfigDecode Model.ConfigApplied Gen.ConfigSchemaGen.
Import ListNotations.
Local Open Scope N_scope.

(* every held configuration receives each of its options from exactly one rule *)
Lemma gen_applied_functional : table_functional gen_applied = true.
Proof. vm_compute. reflexivity. Qed.

(* every rule resolves: its source is an option of the component's own config; a component's own config is held
   option for option (dst = src); for a wrapped component the destination is an option of ITS registered config, of
   the same type as the source *)
Lemma gen_applied_resolves : table_resolves gen_registry gen_applied = true.
Proof. vm_compute. reflexivity. Qed.

(* the wrappers among the built-in components, pinned: which component assembles a configuration for which other
   component, and from which of its own options each option of the wrapped component comes *)
Fixpoint a_to_string (s : str) : string :=
  match s with [] => EmptyString | c :: r => String (ascii_of_N c) (a_to_string r) end.
Fixpoint a_path (p : list str) : string :=
  match p with
  | [] => EmptyString
  | [k] => a_to_string k
  | k :: r => (a_to_string k ++ "." ++ a_path r)%string
  end.
Definition wrappers_table : list (string * string * list (string * list (string * string))) :=
  map (fun e => match e with (i, n, hs) =>
         (a_to_string i, a_to_string n,
          map (fun h : held => (a_to_string (fst h), map (fun r : fwd_rule => (a_path (fst r), a_path (snd r))) (snd h))) hs) end)
      (wrappers gen_applied).

Local Open Scope string_scope.
Lemma gen_wrappers_documented : wrappers_table =
  [ ("core.Gun", "grpc/scenario",
     [ ("grpc",
        [ ("Target", "Target"); ("reflect_port", "reflect_port"); ("reflect_metadata", "reflect_metadata");
          ("timeout", "timeout"); ("tls", "tls");
          ("dial_options.authority", "dial_options.authority"); ("dial_options.timeout", "dial_options.timeout");
          ("answlog.enabled", "answlog.enabled"); ("answlog.path", "answlog.path"); ("answlog.filter", "answlog.filter") ]) ]) ].
Proof. vm_compute. reflexivity. Qed.
