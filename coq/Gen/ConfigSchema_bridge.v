(* Side conditions on the schema regenerated from the source (closed by computation). *)
From Coq Require Import List NArith ZArith Bool QArith.
From PV Require Import Model.ConfigDecode Gen.ConfigSchemaGen.
Import ListNotations.
Local Open Scope N_scope.

(* the registry has no two entries for one (interface, name) *)
Fixpoint entries_nodup (l : list entry) : bool :=
  match l with
  | [] => true
  | e :: r => negb (existsb (fun e' => str_eqb (e_iface e) (e_iface e') && str_eqb (e_name e) (e_name e')) r) && entries_nodup r
  end.

Lemma gen_registry_nodup : entries_nodup gen_registry = true.
Proof. vm_compute. reflexivity. Qed.
