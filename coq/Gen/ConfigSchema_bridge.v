(* Side conditions on the schema regenerated from the source (closed by computation on the generated table). *)
From Coq Require Import List NArith ZArith Bool QArith.
From PV Require Import Model.ConfigDecode Proofs.ConfigDecodeProofs Proofs.ConfigFuelProofs Gen.ConfigSchemaGen.
Import ListNotations.
Local Open Scope N_scope.

(* the registry has no two entries for one (interface, name) *)
Fixpoint entries_nodup (l : list entry) : bool :=
  match l with
  | [] => true
  | e :: r => negb (existsb (fun e' => str_eqb (e_iface e) (e_iface e') && str_eqb (e_name e) (e_name e')) r) && entries_nodup r
  end.

Lemma gen_registry_nodup : entries_nodup gen_registry = true.
Proof. vm_compute. reflexivity. Qed.

(* every component config is a struct: no component takes a catch-all map as its whole config, so every plugin
   node of a written tree is a strict node *)
Definition confs_are_structs (l : list entry) : bool :=
  forallb (fun e => match e_conf e with Some (cs, _) => is_struct_schema cs | None => true end) l.

Lemma gen_confs_are_structs : confs_are_structs gen_registry = true /\ is_struct_schema gen_root_schema = true.
Proof. vm_compute. split; reflexivity. Qed.

(* no schema node is outside the model (unsupported Go kinds, opaque scalars) *)
Fixpoint supported (s : schema) : bool :=
  match s with
  | SStruct _ fs => (fix go (l : list fld) : bool := match l with [] => true | f :: r => supported (f_schema f) && go r end) fs
  | SMap e | SSlice e => supported e
  | SScalar KOpaque => false
  | SUnsupported => false
  | _ => true
  end.

Lemma gen_all_supported :
  forallb (fun e => match e_conf e with Some (cs, _) => supported cs | None => true end) gen_registry = true
  /\ supported gen_root_schema = true.
Proof. vm_compute. split; reflexivity. Qed.

(* the two shorthand hooks land on what the model assumes: the composite schedule has a `nested` list of
   schedules, the file sink has a scalar `path` *)
Definition composite_ok (l : list entry) : bool :=
  match lookup_entry l i_schedule s_composite with
  | Some e =>
      match e_conf e with
      | Some (cs, _) =>
          match find_field s_nested (flat_fields cs) with
          | Some f => match f_schema f with SSlice (SPlugin i 0) => str_eqb i i_schedule | _ => false end
          | None => false
          end
      | None => false
      end
  | None => false
  end.

Definition file_sink_ok (l : list entry) : bool :=
  match lookup_entry l i_datasink s_file with
  | Some e =>
      match e_conf e with
      | Some (cs, _) =>
          match find_field s_path (flat_fields cs) with
          | Some f => match f_schema f with SScalar KString => true | _ => false end
          | None => false
          end
      | None => false
      end
  | None => false
  end.

Lemma gen_shorthands_ok : composite_ok gen_registry = true /\ file_sink_ok gen_registry = true.
Proof. vm_compute. split; reflexivity. Qed.

(* the registry condition of the fuel bound: component configs are structs and the fields fed by the two shorthand
   hooks (`nested`, `path`) are not themselves a schedule / a sink, so a hook never fires on its own expansion *)
Lemma gen_shorthand_safe : shorthand_safe gen_registry = true.
Proof. vm_compute. reflexivity. Qed.

(* the pool has the documented keys, and discard_overflow defaults to false in the decoder itself
   (the CLI pre-pass is what turns the absent key into true) *)
Definition pool_schema : option schema :=
  match find_field s_pools (flat_fields gen_root_schema) with
  | Some f => match f_schema f with SSlice e => Some e | _ => None end
  | None => None
  end.

Definition str_of_keys (s : schema) : list str := map f_key (flat_fields s).

Lemma gen_pool_keys :
  match pool_schema with
  | Some ps =>
      forallb (fun k => accepted_b k (str_of_keys ps))
        [ [97;109;109;111] (* ammo *); [114;101;115;117;108;116] (* result *); [103;117;110] (* gun *);
          [114;112;115] (* rps *); [115;116;97;114;116;117;112] (* startup *); s_discard;
          [114;112;115;45;112;101;114;45;105;110;115;116;97;110;99;101] (* rps-per-instance *); [105;100] (* id *) ]
      && match nth_field s_discard (flat_fields ps) (struct_cur ps (zero_of ps)) with
         | Some (f, CBool false) => match f_schema f with SScalar KBool => true | _ => false end
         | _ => false
         end
  | None => false
  end = true.
Proof. vm_compute. reflexivity. Qed.

(* ---------------------------------------------------------------- the documented constraints
   Every validate tag of every built-in component config and of the CLI config, as it stands in the source the
   properties were written against.  The translator regenerates the left-hand side from the tags of the current
   tree; dropping or weakening a constraint no longer matches this table. *)
From Coq Require Import String Ascii.

Fixpoint to_string (s : str) : string :=
  match s with [] => EmptyString | c :: r => String (ascii_of_N c) (to_string r) end.

Fixpoint tagged (prefix : string) (s : schema) : list (string * list vtag) :=
  match s with
  | SStruct _ fs =>
      (fix go (l : list fld) : list (string * list vtag) :=
         match l with
         | [] => []
         | f :: r =>
             let name := (prefix ++ to_string (f_key f))%string in
             ((match f_tags f with [] => [] | t => if f_squash f then [] else [(name, t)] end)
              ++ tagged (if f_squash f then prefix else (name ++ ".")%string) (f_schema f)) ++ go r
         end) fs
  | SSlice e | SMap e => tagged prefix e
  | _ => []
  end.

Definition constraint_table : list (string * string * list (string * list vtag)) :=
  ("cli"%string, "config"%string, tagged "" gen_root_schema) ::
  flat_map (fun e => match e_conf e with
                     | Some (cs, _) => match tagged "" cs with [] => [] | t => [(to_string (e_iface e), to_string (e_name e), t)] end
                     | None => [] end) gen_registry.

Local Open Scope string_scope.
Lemma gen_constraints_documented : constraint_table =
  ("cli"%string, "config"%string, ("pools"%string, TRequired :: TDive :: nil)
  :: ("pools.ammo"%string, TRequired :: nil)
  :: ("pools.result"%string, TRequired :: nil)
  :: ("pools.gun"%string, TRequired :: nil)
  :: ("pools.rps"%string, TRequired :: nil)
  :: ("pools.startup"%string, TRequired :: nil)
  :: ("monitoring.Expvar.port"%string, TRequired :: nil) :: nil)
  :: ("core.Aggregator"%string, "json"%string, ("sink"%string, TRequired :: nil)
  :: ("sample-queue-size"%string, TMin 1 :: nil) :: nil)
  :: ("core.Aggregator"%string, "jsonlines"%string, ("sink"%string, TRequired :: nil)
  :: ("sample-queue-size"%string, TMin 1 :: nil) :: nil)
  :: ("core.DataSink"%string, "file"%string, ("path"%string, TRequired :: nil) :: nil)
  :: ("core.DataSource"%string, "file"%string, ("path"%string, TRequired :: nil) :: nil)
  :: ("core.DataSource"%string, "inline"%string, ("Data"%string, TRequired :: nil) :: nil)
  :: ("core.Gun"%string, "connect"%string, ("Target"%string, TEndpoint :: TRequired :: nil)
  :: ("auto-tag.uri-elements"%string, TMin 1 :: nil) :: nil)
  :: ("core.Gun"%string, "grpc"%string, ("Target"%string, TRequired :: nil) :: nil)
  :: ("core.Gun"%string, "grpc/scenario"%string, ("Target"%string, TRequired :: nil) :: nil)
  :: ("core.Gun"%string, "http"%string, ("Target"%string, TEndpoint :: TRequired :: nil)
  :: ("auto-tag.uri-elements"%string, TMin 1 :: nil) :: nil)
  :: ("core.Gun"%string, "http/scenario"%string, ("Target"%string, TEndpoint :: TRequired :: nil)
  :: ("auto-tag.uri-elements"%string, TMin 1 :: nil) :: nil)
  :: ("core.Gun"%string, "http2"%string, ("Target"%string, TEndpoint :: TRequired :: nil)
  :: ("auto-tag.uri-elements"%string, TMin 1 :: nil) :: nil)
  :: ("core.Gun"%string, "http2/scenario"%string, ("Target"%string, TEndpoint :: TRequired :: nil)
  :: ("auto-tag.uri-elements"%string, TMin 1 :: nil) :: nil)
  :: ("core.Provider"%string, "grpc/json"%string, ("Limit"%string, TMin 0 :: nil)
  :: ("Passes"%string, TMin 0 :: nil) :: nil) :: ( "core.Provider"%string, "json"%string, ( "ammo-queue-size"%string, TMin 1 :: nil) :: ( "source"%string, TRequired :: nil) :: ( "Limit"%string, TMin 0 :: nil) :: ( "Passes"%string, TMin 0 :: nil) :: nil) :: ( "core.Schedule"%string, "const"%string, ( "Ops"%string, TMin 0 :: nil) :: ( "Duration"%string, TMinTime 1000000 :: nil) :: nil) :: ( "core.Schedule"%string, "instance_step"%string, ( "From"%string, TMin 0 :: nil) :: ( "To"%string, TMin 0 :: nil) :: ( "Step"%string, TMin 1 :: nil) :: ( "StepDuration"%string, TMinTime 1000000 :: nil) :: nil) :: ( "core.Schedule"%string, "line"%string, ( "From"%string, TMin 0 :: nil) :: ( "To"%string, TMin 0 :: nil) :: ( "Duration"%string, TMinTime 1000000 :: nil) :: nil) :: ( "core.Schedule"%string, "once"%string, ( "Times"%string, TMin 1 :: nil) :: nil) :: ( "core.Schedule"%string, "step"%string, ( "From"%string, TMin 0 :: nil) :: ( "To"%string, TMin 0 :: nil) :: ( "Step"%string, TMin 1 :: nil) :: ( "Duration"%string, TMinTime 1000000 :: nil) :: nil) :: ( "core.Schedule"%string, "unlimited"%string, ( "Duration"%string, TMinTime 1000000 :: nil) :: nil) :: nil.
Proof. vm_compute. reflexivity. Qed.
