(* Side conditions on the schema regenerated from the source (closed by computation on the generated table). *)
From Coq Require Import List NArith ZArith Bool QArith.
From PV Require Import Model.ConfigDecode Proofs.ConfigDecodeProofs Proofs.ConfigFuelProofs Gen.ConfigSchemaGen.
Import ListNotations.
Local Open Scope N_scope.

(* the registry has no two entries for one (interface, name) *)
Fixpoint entries_nodup (l : list entry) : bool :=
  match l with
  | [] => true
  | e :: r => negb (existsb (fun e' => str_eqb (e_iface e) (e_iface e') && str_eqb (e_name e) (e_name e')) r) && entries_nodup r
  end.

Lemma gen_registry_nodup : entries_nodup gen_registry = true.
Proof. vm_compute. reflexivity. Qed.

(* every component config is a struct: no component takes a catch-all map as its whole config, so every plugin
   node of a written tree is a strict node *)
Definition confs_are_structs (l : list entry) : bool :=
  forallb (fun e => match e_conf e with Some (cs, _) => is_struct_schema cs | None => true end) l.

Lemma gen_confs_are_structs : confs_are_structs gen_registry = true /\ is_struct_schema gen_root_schema = true.
Proof. vm_compute. split; reflexivity. Qed.

(* no schema node is outside the model (unsupported Go kinds, opaque scalars) *)
Fixpoint supported (s : schema) : bool :=
  match s with
  | SStruct _ fs => (fix go (l : list fld) : bool := match l with [] => true | f :: r => supported (f_schema f) && go r end) fs
  | SMap e | SSlice e => supported e
  | SScalar KOpaque => false
  | SUnsupported => false
  | _ => true
  end.

Lemma gen_all_supported :
  forallb (fun e => match e_conf e with Some (cs, _) => supported cs | None => true end) gen_registry = true
  /\ supported gen_root_schema = true.
Proof. vm_compute. split; reflexivity. Qed.

(* the two shorthand hooks land on what the model assumes: the composite schedule has a `nested` list of
   schedules, the file sink has a scalar `path` *)
Definition composite_ok (l : list entry) : bool :=
  match lookup_entry l i_schedule s_composite with
  | Some e =>
      match e_conf e with
      | Some (cs, _) =>
          match find_field s_nested (flat_fields cs) with
          | Some f => match f_schema f with SSlice (SPlugin i 0) => str_eqb i i_schedule | _ => false end
          | None => false
          end
      | None => false
      end
  | None => false
  end.

Definition file_sink_ok (l : list entry) : bool :=
  match lookup_entry l i_datasink s_file with
  | Some e =>
      match e_conf e with
      | Some (cs, _) =>
          match find_field s_path (flat_fields cs) with
          | Some f => match f_schema f with SScalar KString => true | _ => false end
          | None => false
          end
      | None => false
      end
  | None => false
  end.

Lemma gen_shorthands_ok : composite_ok gen_registry = true /\ file_sink_ok gen_registry = true.
Proof. vm_compute. split; reflexivity. Qed.

(* the registry condition of the fuel bound: component configs are structs and the fields fed by the two shorthand
   hooks (`nested`, `path`) are not themselves a schedule / a sink, so a hook never fires on its own expansion *)
Lemma gen_shorthand_safe : shorthand_safe gen_registry = true.
Proof. vm_compute. reflexivity. Qed.

(* the pool has the documented keys, and discard_overflow defaults to false in the decoder itself
   (the CLI pre-pass is what turns the absent key into true) *)
Definition pool_schema : option schema :=
  match find_field s_pools (flat_fields gen_root_schema) with
  | Some f => match f_schema f with SSlice e => Some e | _ => None end
  | None => None
  end.

Definition str_of_keys (s : schema) : list str := map f_key (flat_fields s).

Lemma gen_pool_keys :
  match pool_schema with
  | Some ps =>
      forallb (fun k => accepted_b k (str_of_keys ps))
        [ [97;109;109;111] (* ammo *); [114;101;115;117;108;116] (* result *); [103;117;110] (* gun *);
          [114;112;115] (* rps *); [115;116;97;114;116;117;112] (* startup *); s_discard;
          [114;112;115;45;112;101;114;45;105;110;115;116;97;110;99;101] (* rps-per-instance *); [105;100] (* id *) ]
      && match nth_field s_discard (flat_fields ps) (struct_cur ps (zero_of ps)) with
         | Some (f, CBool false) => match f_schema f with SScalar KBool => true | _ => false end
         | _ => false
         end
  | None => false
  end = true.
Proof. vm_compute. reflexivity. Qed.

(* ---------------------------------------------------------------- the documented constraints
   Every validate tag of every built-in component config and of the CLI config (and every constraint enforced by a
   constructor that the translator attaches: TCtorHeaders on the `Headers` of the http providers), as it stands in the source the
   properties were written against.  The translator regenerates the left-hand side from the tags of the current
   tree; dropping or weakening a constraint no longer matches this table. *)
From Coq Require Import String Ascii.

Fixpoint to_string (s : str) : string :=
  match s with [] => EmptyString | c :: r => String (ascii_of_N c) (to_string r) end.

Fixpoint tagged (prefix : string) (s : schema) : list (string * list vtag) :=
  match s with
  | SStruct _ fs =>
      (fix go (l : list fld) : list (string * list vtag) :=
         match l with
         | [] => []
         | f :: r =>
             let name := (prefix ++ to_string (f_key f))%string in
             ((match f_tags f with [] => [] | t => if f_squash f then [] else [(name, t)] end)
              ++ tagged (if f_squash f then prefix else (name ++ ".")%string) (f_schema f)) ++ go r
         end) fs
  | SSlice e | SMap e => tagged prefix e
  | _ => []
  end.

Definition constraint_table : list (string * string * list (string * list vtag)) :=
  ("cli"%string, "config"%string, tagged "" gen_root_schema) ::
  flat_map (fun e => match e_conf e with
                     | Some (cs, _) => match tagged "" cs with [] => [] | t => [(to_string (e_iface e), to_string (e_name e), t)] end
                     | None => [] end) gen_registry.

Fixpoint of_string (s : string) : str :=
  match s with EmptyString => [] | String c r => N_of_ascii c :: of_string r end.
(* round 7 -- the ammo source of the http providers (relations between options enforced by NewProvider) *)
Definition rel_excl : vtag := TCtorRel (OSet (of_string "Uris")) (ONot (OSet (of_string "File"))).
Definition rel_one_of : vtag := TCtorRel (ONot (OSet (of_string "Uris"))) (OSet (of_string "File")).
Definition rel_no_uris : vtag := TCtorRel (OSet (of_string "Uris")) OFalse.
Definition rel_uris_uri : vtag := TCtorRel (OSet (of_string "Uris")) (OIs (of_string "Decoder") (of_string "uri")).
Definition rel_decoder : vtag :=
  TCtorRel OTrue (OOr (OOr (OIs (of_string "Decoder") (of_string "uri")) (OIs (of_string "Decoder") (of_string "uripost")))
                      (OOr (OIs (of_string "Decoder") (of_string "raw")) (OIs (of_string "Decoder") (of_string "jsonline")))).

Local Open Scope string_scope.
Lemma gen_constraints_documented : constraint_table =
  ("cli"%string, "config"%string, ("pools"%string, TRequired :: TDive :: nil)
  :: ("pools.ammo"%string, TRequired :: nil)
  :: ("pools.result"%string, TRequired :: nil)
  :: ("pools.gun"%string, TRequired :: nil)
  :: ("pools.rps"%string, TRequired :: nil)
  :: ("pools.startup"%string, TRequired :: nil)
  :: ("monitoring.Expvar.port"%string, TRequired :: nil) :: nil)
  :: ("core.Aggregator"%string, "json"%string, ("sink"%string, TRequired :: nil)
  :: ("sample-queue-size"%string, TMin 1 :: nil) :: nil)
  :: ("core.Aggregator"%string, "jsonlines"%string, ("sink"%string, TRequired :: nil)
  :: ("sample-queue-size"%string, TMin 1 :: nil) :: nil)
  :: ("core.DataSink"%string, "file"%string, ("path"%string, TRequired :: nil) :: nil)
  :: ("core.DataSource"%string, "file"%string, ("path"%string, TRequired :: nil) :: nil)
  :: ("core.DataSource"%string, "inline"%string, ("Data"%string, TRequired :: nil) :: nil)
  :: ("core.Gun"%string, "connect"%string, ("Target"%string, TEndpoint :: TRequired :: nil)
  :: ("auto-tag.uri-elements"%string, TMin 1 :: nil) :: nil)
  :: ("core.Gun"%string, "grpc"%string, ("Target"%string, TRequired :: nil) :: nil)
  :: ("core.Gun"%string, "grpc/scenario"%string, ("Target"%string, TRequired :: nil) :: nil)
  :: ("core.Gun"%string, "http"%string, ("Target"%string, TEndpoint :: TRequired :: nil)
  :: ("auto-tag.uri-elements"%string, TMin 1 :: nil) :: nil)
  :: ("core.Gun"%string, "http/scenario"%string, ("Target"%string, TEndpoint :: TRequired :: nil)
  :: ("auto-tag.uri-elements"%string, TMin 1 :: nil) :: nil)
  :: ("core.Gun"%string, "http2"%string, ("Target"%string, TEndpoint :: TRequired :: nil)
  :: ("auto-tag.uri-elements"%string, TMin 1 :: nil) :: nil)
  :: ("core.Gun"%string, "http2/scenario"%string, ("Target"%string, TEndpoint :: TRequired :: nil)
  :: ("auto-tag.uri-elements"%string, TMin 1 :: nil) :: nil)
  :: ("core.Provider"%string, "grpc/json"%string, ("Limit"%string, TMin 0 :: nil)
  :: ("Passes"%string, TMin 0 :: nil) :: nil)
  :: ("core.Provider"%string, "http"%string, ("Decoder"%string, rel_decoder :: nil) :: ("Headers"%string, TCtorHeaders :: nil)
       :: ("Uris"%string, rel_excl :: rel_one_of :: rel_uris_uri :: nil) :: nil)
  :: ("core.Provider"%string, "http/json"%string, ("Headers"%string, TCtorHeaders :: nil)
       :: ("Uris"%string, rel_excl :: rel_one_of :: rel_no_uris :: nil) :: nil)
  :: ( "core.Provider"%string, "json"%string, ( "ammo-queue-size"%string, TMin 1 :: nil) :: ( "source"%string, TRequired :: nil) :: ( "Limit"%string, TMin 0 :: nil) :: ( "Passes"%string, TMin 0 :: nil) :: nil)
  :: ("core.Provider"%string, "raw"%string, ("Headers"%string, TCtorHeaders :: nil)
       :: ("Uris"%string, rel_excl :: rel_one_of :: rel_no_uris :: nil) :: nil)
  :: ("core.Provider"%string, "uri"%string, ("Headers"%string, TCtorHeaders :: nil)
       :: ("Uris"%string, rel_excl :: rel_one_of :: nil) :: nil)
  :: ("core.Provider"%string, "uripost"%string, ("Headers"%string, TCtorHeaders :: nil)
       :: ("Uris"%string, rel_excl :: rel_one_of :: rel_no_uris :: nil) :: nil)
  :: ( "core.Schedule"%string, "const"%string, ( "Ops"%string, TMin 0 :: nil) :: ( "Duration"%string, TMinTime 1000000 :: nil) :: nil) :: ( "core.Schedule"%string, "instance_step"%string, ( "From"%string, TMin 0 :: nil) :: ( "To"%string, TMin 0 :: nil) :: ( "Step"%string, TMin 1 :: nil) :: ( "StepDuration"%string, TMinTime 1000000 :: nil) :: nil) :: ( "core.Schedule"%string, "line"%string, ( "From"%string, TMin 0 :: nil) :: ( "To"%string, TMin 0 :: nil) :: ( "Duration"%string, TMinTime 1000000 :: nil) :: nil) :: ( "core.Schedule"%string, "once"%string, ( "Times"%string, TMin 1 :: nil) :: nil) :: ( "core.Schedule"%string, "step"%string, ( "From"%string, TMin 0 :: nil) :: ( "To"%string, TMin 0 :: nil) :: ( "Step"%string, TMin 1 :: nil) :: ( "Duration"%string, TMinTime 1000000 :: nil) :: nil) :: ( "core.Schedule"%string, "unlimited"%string, ( "Duration"%string, TMinTime 1000000 :: nil) :: nil) :: nil.
Proof. vm_compute. reflexivity. Qed.

(* ---------------------------------------------------------------- constraints enforced by constructors
   The model applies them (ctor_ok) to the options of the component's own config struct, after squashing.  Computed on
   the generated table: every such tag sits on a flat option of a component config whose type is a list of strings,
   none is buried in a nested struct / list / map, none is in the CLI config. *)
Definition is_ctor_tag (t : vtag) : bool := match t with TCtorHeaders => true | _ => false end.
Definition ctor_count (l : list (string * list vtag)) : nat :=
  List.length (filter (fun nt => existsb is_ctor_tag (snd nt)) l).
Definition ctor_flat_count (s : schema) : nat :=
  List.length (filter (fun f => existsb is_ctor_tag (f_tags f) &&
                           match f_schema f with SSlice (SScalar KString) => true | _ => false end) (flat_fields s)).

Lemma gen_ctor_tags_placed :
  ctor_count (tagged "" gen_root_schema) = O
  /\ forallb (fun e => match e_conf e with
                       | Some (cs, _) => Nat.eqb (ctor_count (tagged "" cs)) (ctor_flat_count cs)
                       | None => true end) gen_registry = true.
Proof. vm_compute. split; reflexivity. Qed.

(* round 7 -- relations between options (TCtorRel).  Computed on the generated table: every relation sits on a flat
   option of a component config (none nested, none in the CLI config), every option its conditions mention is a flat
   option of the SAME config struct, and an option compared with a text is a string option. *)
Definition is_rel_tag (t : vtag) : bool := match t with TCtorRel _ _ => true | _ => false end.
Definition rel_count (l : list (string * list vtag)) : nat :=
  List.length (filter (fun nt => existsb is_rel_tag (snd nt)) l).
Fixpoint has_opt (k : str) (strings_only : bool) (ffs : list fld) : bool :=
  match ffs with
  | [] => false
  | f :: r => if str_eqb (f_key f) k
              then (negb strings_only || match f_schema f with SScalar KString => true | _ => false end)
              else has_opt k strings_only r
  end.
Fixpoint cond_resolves (ffs : list fld) (c : ocond) : bool :=
  match c with
  | OTrue | OFalse => true
  | OSet k => has_opt k false ffs
  | OIs k _ => has_opt k true ffs
  | ONot a => cond_resolves ffs a
  | OAnd a b | OOr a b => cond_resolves ffs a && cond_resolves ffs b
  end.
Definition rels_resolve (s : schema) : bool :=
  forallb (fun f => forallb (fun t => match t with
                                      | TCtorRel pre post => cond_resolves (flat_fields s) pre && cond_resolves (flat_fields s) post
                                      | _ => true end) (f_tags f)) (flat_fields s).
Definition rel_flat_count (s : schema) : nat :=
  List.length (filter (fun f => existsb is_rel_tag (f_tags f)) (flat_fields s)).

Lemma gen_rel_tags_placed :
  rel_count (tagged "" gen_root_schema) = O
  /\ forallb (fun e => match e_conf e with
                       | Some (cs, _) => Nat.eqb (rel_count (tagged "" cs)) (rel_flat_count cs) && rels_resolve cs
                       | None => true end) gen_registry = true
  /\ List.length (filter (fun e => match e_conf e with Some (cs, _) => negb (Nat.eqb (rel_flat_count cs) 0) | None => false end)
                         gen_registry) = 5%nat.
Proof. vm_compute. repeat split; reflexivity. Qed.

(* ---------------------------------------------------------------- the documented defaults
   The registered default value of every option of every built-in component and of the CLI config, as they stand
   in the source the properties were written against (ssl on for the http2 guns, no-tag-only on, queue sizes,
   timeouts, ...).  The translator regenerates the left-hand side from the default-config functions of the current
   tree; registering a component with another default no longer matches this table. *)
Inductive dval :=
| DNil | DBool (b : bool) | DInt (z : Z) | DFloat (q : Q) | DStr (s : string)
| DStruct (l : list dval) | DList (l : list dval) | DMap (l : list (string * dval)) | DOther.

Fixpoint show_cval (c : cval) : dval :=
  match c with
  | CNil => DNil
  | CBool x => DBool x
  | CInt z => DInt z
  | CFloat q => DFloat q
  | CStr x => DStr (to_string x)
  | CStruct l => DStruct (map show_cval l)
  | CSlice l => DList (map show_cval l)
  | CMap kvs => DMap (map (fun kc => (to_string (fst kc), show_cval (snd kc))) kvs)
  | _ => DOther
  end.

(* option name (nested structs dotted) with its default *)
Fixpoint named_defaults (prefix : string) (ffs : list fld) (cs : list cval) : list (string * dval) :=
  match ffs, cs with
  | f :: ffs', c :: cs' => ((prefix ++ to_string (f_key f))%string, show_cval c) :: named_defaults prefix ffs' cs'
  | _, _ => []
  end.

Definition defaults_table : list (string * string * list (string * dval)) :=
  ("cli"%string, "config"%string,
   named_defaults "" (flat_fields gen_root_schema) (match gen_root_default with CStruct l => l | _ => [] end)) ::
  flat_map (fun e => match e_conf e with
                     | Some (cs, CStruct l) => [(to_string (e_iface e), to_string (e_name e), named_defaults "" (flat_fields cs) l)]
                     | _ => [] end) gen_registry.

Lemma gen_defaults_documented : defaults_table =
  ("cli"%string, "config"%string, ("pools"%string, DNil)
  :: ("log"%string, DStruct (DInt 0 :: DStr "stdout" :: nil))
  :: ("monitoring"%string, DStruct (DStruct (DBool false :: DInt 1234 :: nil) :: DStruct (DBool false :: DStr "cpuprofile.log" :: nil) :: DStruct (DBool false :: DStr "memprofile.log" :: nil) :: nil)) :: nil)
  :: ("core.Aggregator"%string, "json"%string, ("sink"%string, DNil)
  :: ("buffer-size"%string, DInt 0)
  :: ("flush-interval"%string, DInt 1000000000)
  :: ("sample-queue-size"%string, DInt 131072)
  :: ("marshal-float-with-6-digits"%string, DBool false)
  :: ("sort-map-keys"%string, DBool false)
  :: ("buffer-size"%string, DInt 0) :: nil)
  :: ("core.Aggregator"%string, "jsonlines"%string, ("sink"%string, DNil)
  :: ("buffer-size"%string, DInt 0)
  :: ("flush-interval"%string, DInt 1000000000)
  :: ("sample-queue-size"%string, DInt 131072)
  :: ("marshal-float-with-6-digits"%string, DBool false)
  :: ("sort-map-keys"%string, DBool false)
  :: ("buffer-size"%string, DInt 0) :: nil)
  :: ("core.Aggregator"%string, "phout"%string, ("Destination"%string, DStr "")
  :: ("ID"%string, DBool false)
  :: ("flush-time"%string, DInt 1000000000)
  :: ("sample-queue-size"%string, DInt 262144)
  :: ("buffer-size"%string, DInt 8388608) :: nil)
  :: ("core.DataSink"%string, "file"%string, ("path"%string, DStr "") :: nil)
  :: ("core.DataSource"%string, "file"%string, ("path"%string, DStr "") :: nil)
  :: ("core.DataSource"%string, "inline"%string, ("Data"%string, DStr "") :: nil)
  :: ("core.Gun"%string, "connect"%string, ("Redirect"%string, DBool false)
  :: ("dial"%string, DStruct (DBool true :: DInt 3000000000 :: DBool true :: DInt 0 :: DInt 120000000000 :: nil))
  :: ("tls-handshake-timeout"%string, DInt 1000000000)
  :: ("disable-keep-alives"%string, DBool false)
  :: ("disable-compression"%string, DBool true)
  :: ("max-idle-conns"%string, DInt 0)
  :: ("max-idle-conns-per-host"%string, DInt 0)
  :: ("idle-conn-timeout"%string, DInt 90000000000)
  :: ("response-header-timeout"%string, DInt 0)
  :: ("expect-continue-timeout"%string, DInt 1000000000)
  :: ("connect-ssl"%string, DBool false)
  :: ("Target"%string, DStr "")
  :: ("-"%string, DStr "")
  :: ("SSL"%string, DBool false)
  :: ("auto-tag"%string, DStruct (DBool false :: DInt 2 :: DBool true :: nil))
  :: ("answlog"%string, DStruct (DBool false :: DStr "answ.log" :: DStr "error" :: nil))
  :: ("httptrace"%string, DStruct (DBool false :: DBool false :: nil))
  :: ("shared-client"%string, DStruct (DInt 0 :: DBool false :: nil)) :: nil)
  :: ("core.Gun"%string, "grpc"%string, ("Target"%string, DStr "default target")
  :: ("reflect_port"%string, DInt 0)
  :: ("reflect_metadata"%string, DNil)
  :: ("timeout"%string, DInt 0)
  :: ("tls"%string, DBool false)
  :: ("dial_options"%string, DStruct (DStr "" :: DInt 0 :: nil))
  :: ("answlog"%string, DStruct (DBool false :: DStr "answ.log" :: DStr "all" :: nil))
  :: ("shared-client"%string, DStruct (DInt 0 :: DBool false :: nil)) :: nil)
  :: ("core.Gun"%string, "grpc/scenario"%string, ("Target"%string, DStr "default target")
  :: ("reflect_port"%string, DInt 0)
  :: ("reflect_metadata"%string, DNil)
  :: ("timeout"%string, DInt 0)
  :: ("tls"%string, DBool false)
  :: ("dial_options"%string, DStruct (DStr "" :: DInt 0 :: nil))
  :: ("answlog"%string, DStruct (DBool false :: DStr "answ.log" :: DStr "all" :: nil)) :: nil)
  :: ("core.Gun"%string, "http"%string, ("Redirect"%string, DBool false)
  :: ("dial"%string, DStruct (DBool true :: DInt 3000000000 :: DBool true :: DInt 0 :: DInt 120000000000 :: nil))
  :: ("tls-handshake-timeout"%string, DInt 1000000000)
  :: ("disable-keep-alives"%string, DBool false)
  :: ("disable-compression"%string, DBool true)
  :: ("max-idle-conns"%string, DInt 0)
  :: ("max-idle-conns-per-host"%string, DInt 0)
  :: ("idle-conn-timeout"%string, DInt 90000000000)
  :: ("response-header-timeout"%string, DInt 0)
  :: ("expect-continue-timeout"%string, DInt 1000000000)
  :: ("connect-ssl"%string, DBool false)
  :: ("Target"%string, DStr "")
  :: ("-"%string, DStr "")
  :: ("SSL"%string, DBool false)
  :: ("auto-tag"%string, DStruct (DBool false :: DInt 2 :: DBool true :: nil))
  :: ("answlog"%string, DStruct (DBool false :: DStr "answ.log" :: DStr "error" :: nil))
  :: ("httptrace"%string, DStruct (DBool false :: DBool false :: nil))
  :: ("shared-client"%string, DStruct (DInt 0 :: DBool false :: nil)) :: nil)
  :: ("core.Gun"%string, "http/scenario"%string, ("Redirect"%string, DBool false)
  :: ("dial"%string, DStruct (DBool true :: DInt 3000000000 :: DBool true :: DInt 0 :: DInt 120000000000 :: nil))
  :: ("tls-handshake-timeout"%string, DInt 1000000000)
  :: ("disable-keep-alives"%string, DBool false)
  :: ("disable-compression"%string, DBool true)
  :: ("max-idle-conns"%string, DInt 0)
  :: ("max-idle-conns-per-host"%string, DInt 0)
  :: ("idle-conn-timeout"%string, DInt 90000000000)
  :: ("response-header-timeout"%string, DInt 0)
  :: ("expect-continue-timeout"%string, DInt 1000000000)
  :: ("connect-ssl"%string, DBool false)
  :: ("Target"%string, DStr "")
  :: ("-"%string, DStr "")
  :: ("SSL"%string, DBool false)
  :: ("auto-tag"%string, DStruct (DBool false :: DInt 2 :: DBool true :: nil))
  :: ("answlog"%string, DStruct (DBool false :: DStr "answ.log" :: DStr "error" :: nil))
  :: ("httptrace"%string, DStruct (DBool false :: DBool false :: nil))
  :: ("shared-client"%string, DStruct (DInt 0 :: DBool false :: nil)) :: nil)
  :: ("core.Gun"%string, "http2"%string, ("Redirect"%string, DBool false)
  :: ("dial"%string, DStruct (DBool true :: DInt 3000000000 :: DBool true :: DInt 0 :: DInt 120000000000 :: nil))
  :: ("tls-handshake-timeout"%string, DInt 1000000000)
  :: ("disable-keep-alives"%string, DBool false)
  :: ("disable-compression"%string, DBool true)
  :: ("max-idle-conns"%string, DInt 0)
  :: ("max-idle-conns-per-host"%string, DInt 0)
  :: ("idle-conn-timeout"%string, DInt 90000000000)
  :: ("response-header-timeout"%string, DInt 0)
  :: ("expect-continue-timeout"%string, DInt 1000000000)
  :: ("connect-ssl"%string, DBool false)
  :: ("Target"%string, DStr "")
  :: ("-"%string, DStr "")
  :: ("SSL"%string, DBool true)
  :: ("auto-tag"%string, DStruct (DBool false :: DInt 2 :: DBool true :: nil))
  :: ("answlog"%string, DStruct (DBool false :: DStr "answ.log" :: DStr "error" :: nil))
  :: ("httptrace"%string, DStruct (DBool false :: DBool false :: nil))
  :: ("shared-client"%string, DStruct (DInt 0 :: DBool false :: nil)) :: nil)
  :: ("core.Gun"%string, "http2/scenario"%string, ("Redirect"%string, DBool false)
  :: ("dial"%string, DStruct (DBool true :: DInt 3000000000 :: DBool true :: DInt 0 :: DInt 120000000000 :: nil))
  :: ("tls-handshake-timeout"%string, DInt 1000000000)
  :: ("disable-keep-alives"%string, DBool false)
  :: ("disable-compression"%string, DBool true)
  :: ("max-idle-conns"%string, DInt 0)
  :: ("max-idle-conns-per-host"%string, DInt 0)
  :: ("idle-conn-timeout"%string, DInt 90000000000)
  :: ("response-header-timeout"%string, DInt 0)
  :: ("expect-continue-timeout"%string, DInt 1000000000)
  :: ("connect-ssl"%string, DBool false)
  :: ("Target"%string, DStr "")
  :: ("-"%string, DStr "")
  :: ("SSL"%string, DBool true)
  :: ("auto-tag"%string, DStruct (DBool false :: DInt 2 :: DBool true :: nil))
  :: ("answlog"%string, DStruct (DBool false :: DStr "answ.log" :: DStr "error" :: nil))
  :: ("httptrace"%string, DStruct (DBool false :: DBool false :: nil))
  :: ("shared-client"%string, DStruct (DInt 0 :: DBool false :: nil)) :: nil) :: ( "core.Provider"%string, "grpc/json"%string, ( "File"%string, DStr "") :: ( "Limit"%string, DInt 0) :: ( "Passes"%string, DInt 0) :: ( "ContinueOnError"%string, DBool false) :: ( "MaxAmmoSize"%string, DInt 0) :: ( "source"%string, DStruct (DStr "" :: DStr "" :: nil)) :: ( "ChosenCases"%string, DNil) :: nil) :: ( "core.Provider"%string, "grpc/scenario"%string, ( "File"%string, DStr "") :: ( "Limit"%string, DInt 0) :: ( "Passes"%string, DInt 0) :: ( "ContinueOnError"%string, DBool false) :: ( "MaxAmmoSize"%string, DInt 0) :: nil) :: ( "core.Provider"%string, "http"%string, ( "Decoder"%string, DStr "") :: ( "File"%string, DStr "") :: ( "Limit"%string, DInt 0) :: ( "Headers"%string, DNil) :: ( "Passes"%string, DInt 0) :: ( "Uris"%string, DNil) :: ( "ContinueOnError"%string, DBool false) :: ( "MaxAmmoSize"%string, DInt 0) :: ( "ChosenCases"%string, DNil) :: ( "Middlewares"%string, DNil) :: ( "Preload"%string, DBool false) :: nil) :: ( "core.Provider"%string, "http/json"%string, ( "Decoder"%string, DStr "") :: ( "File"%string, DStr "") :: ( "Limit"%string, DInt 0) :: ( "Headers"%string, DNil) :: ( "Passes"%string, DInt 0) :: ( "Uris"%string, DNil) :: ( "ContinueOnError"%string, DBool false) :: ( "MaxAmmoSize"%string, DInt 0) :: ( "ChosenCases"%string, DNil) :: ( "Middlewares"%string, DNil) :: ( "Preload"%string, DBool false) :: nil) :: ( "core.Provider"%string, "http/scenario"%string, ( "File"%string, DStr "") :: ( "Limit"%string, DInt 0) :: ( "Passes"%string, DInt 0) :: ( "ContinueOnError"%string, DBool false) :: ( "MaxAmmoSize"%string, DInt 0) :: nil) :: ( "core.Provider"%string, "json"%string, ( "ammo-queue-size"%string, DInt 8192) :: ( "source"%string, DNil) :: ( "Limit"%string, DInt 0) :: ( "Passes"%string, DInt 0) :: ( "buffer-size"%string, DInt 0) :: nil) :: ( "core.Provider"%string, "raw"%string, ( "Decoder"%string, DStr "") :: ( "File"%string, DStr "") :: ( "Limit"%string, DInt 0) :: ( "Headers"%string, DNil) :: ( "Passes"%string, DInt 0) :: ( "Uris"%string, DNil) :: ( "ContinueOnError"%string, DBool false) :: ( "MaxAmmoSize"%string, DInt 0) :: ( "ChosenCases"%string, DNil) :: ( "Middlewares"%string, DNil) :: ( "Preload"%string, DBool false) :: nil) :: ( "core.Provider"%string, "uri"%string, ( "Decoder"%string, DStr "") :: ( "File"%string, DStr "") :: ( "Limit"%string, DInt 0) :: ( "Headers"%string, DNil) :: ( "Passes"%string, DInt 0) :: ( "Uris"%string, DNil) :: ( "ContinueOnError"%string, DBool false) :: ( "MaxAmmoSize"%string, DInt 0) :: ( "ChosenCases"%string, DNil) :: ( "Middlewares"%string, DNil) :: ( "Preload"%string, DBool false) :: nil) :: ( "core.Provider"%string, "uripost"%string, ( "Decoder"%string, DStr "") :: ( "File"%string, DStr "") :: ( "Limit"%string, DInt 0) :: ( "Headers"%string, DNil) :: ( "Passes"%string, DInt 0) :: ( "Uris"%string, DNil) :: ( "ContinueOnError"%string, DBool false) :: ( "MaxAmmoSize"%string, DInt 0) :: ( "ChosenCases"%string, DNil) :: ( "Middlewares"%string, DNil) :: ( "Preload"%string, DBool false) :: nil) :: ( "core.Schedule"%string, "composite"%string, ( "nested"%string, DNil) :: nil) :: ( "core.Schedule"%string, "const"%string, ( "Ops"%string, DFloat 0) :: ( "Duration"%string, DInt 0) :: nil) :: ( "core.Schedule"%string, "instance_step"%string, ( "From"%string, DInt 0) :: ( "To"%string, DInt 0) :: ( "Step"%string, DInt 0) :: ( "StepDuration"%string, DInt 0) :: nil) :: ( "core.Schedule"%string, "line"%string, ( "From"%string, DFloat 0) :: ( "To"%string, DFloat 0) :: ( "Duration"%string, DInt 0) :: nil) :: ( "core.Schedule"%string, "once"%string, ( "Times"%string, DInt 0) :: nil) :: ( "core.Schedule"%string, "step"%string, ( "From"%string, DFloat 0) :: ( "To"%string, DFloat 0) :: ( "Step"%string, DInt 0) :: ( "Duration"%string, DInt 0) :: nil) :: ( "core.Schedule"%string, "unlimited"%string, ( "Duration"%string, DInt 0) :: nil) :: ( "httpscenario.Postprocessor"%string, "assert/response"%string, ( "Headers"%string, DNil) :: ( "Body"%string, DNil) :: ( "status_code"%string, DInt 0) :: ( "Size"%string, DNil) :: nil) :: ( "httpscenario.Postprocessor"%string, "var/header"%string, ( "Mapping"%string, DNil) :: nil) :: ( "httpscenario.Postprocessor"%string, "var/jsonpath"%string, ( "Mapping"%string, DNil) :: nil) :: ( "httpscenario.Postprocessor"%string, "var/xpath"%string, ( "Mapping"%string, DNil) :: nil) :: ( "middleware.Middleware"%string, "header/date"%string, ( "Location"%string, DStr "") :: ( "HeaderName"%string, DStr "") :: nil) :: ( "scenario.Postprocessor"%string, "assert/response"%string, ( "Payload"%string, DNil) :: ( "status_code"%string, DInt 0) :: nil) :: ( "scenario.Preprocessor"%string, "prepare"%string, ( "Mapping"%string, DNil) :: nil) :: ( "vs.VariableSource"%string, "file/csv"%string, ( "Name"%string, DStr "") :: ( "File"%string, DStr "") :: ( "Fields"%string, DNil) :: ( "ignore_first_line"%string, DBool false) :: ( "Delimiter"%string, DStr "") :: nil) :: ( "vs.VariableSource"%string, "file/json"%string, ( "Name"%string, DStr "") :: ( "File"%string, DStr "") :: nil) :: ( "vs.VariableSource"%string, "variables"%string, ( "Name"%string, DStr "") :: ( "Variables"%string, DNil) :: nil) :: nil.
Proof. vm_compute. reflexivity. Qed.
