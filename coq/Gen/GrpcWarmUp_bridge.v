(* Bridge (property C05): the warm-up of the grpc gun as re-read from components/guns/grpc/core.go by
   `translate grpcwarmup` (Gen/GrpcWarmUpGen.v) is the one the model (Model/GrpcWarmUp.v) and its theorems
   are about: which steps can fail and that their error is returned, and what the loop over the listed
   services does with an error of ResolveService -- skip the service only when the error says it is not
   there, return every other error. *)
From Coq Require Import List Bool.
From PV Require Import Model.Pool Model.GrpcWarmUp Proofs.GrpcWarmUpProofs Gen.GrpcWarmUpGen.
Import ListNotations.

Theorem grpc_warmup_source_is_model :
  gen_resolve_policy = tree_policy /\
  gen_shared_deps_steps = tree_shared_deps_steps /\
  gen_method_list_prelude = tree_method_list_prelude /\
  gen_methods_recorded = true.
Proof. repeat split; reflexivity. Qed.
Print Assumptions grpc_warmup_source_is_model.

(* hence the source's loop never swallows a refusal that counts ... *)
Theorem grpc_warmup_source_never_swallows : forall rf cp,
  gw_spec_fails rf = true -> wres_failed (warm_up gen_resolve_policy rf cp) = true.
Proof. exact (proj2 (policy_never_swallows_iff gen_resolve_policy) eq_refl). Qed.
Print Assumptions grpc_warmup_source_never_swallows.

(* ... and does not fail against an endpoint that only lacks services it lists *)
Theorem grpc_warmup_source_tolerates_not_found : forall rf cp,
  gw_spec_fails rf = false -> wres_failed (warm_up gen_resolve_policy rf cp) = false.
Proof. exact (proj2 (policy_tolerates_not_found_iff gen_resolve_policy) eq_refl). Qed.
Print Assumptions grpc_warmup_source_tolerates_not_found.
