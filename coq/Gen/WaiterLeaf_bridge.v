(* Bridge (property C04): the leaf programs Properties/C04_leaf.v is about ARE the synchronisation skeleton of
   core/schedule/do_at.go as re-read from the source on this run (harness/cmd/trC02 schedsync ->
   Gen/SchedSyncGen.v): Next enters the Once FIRST (no look at the started flag in front of it), MarkStarted and
   the store of the start time are inside it; start_sync.go's MarkStarted is the swap-and-panic and IsStarted
   the atomic load.  A fast path around the Once, or the store moved out of it, and this no longer checks. *)
From Coq Require Import List.
From PV Require Import Model.SchedLeafConc Gen.SchedSyncGen.
Import ListNotations.

Lemma waiter_leaf_next_bridge : gen_doat_next = p_next doat_progs.
Proof. reflexivity. Qed.
Print Assumptions waiter_leaf_next_bridge.

Lemma waiter_leaf_progs_bridge :
  {| p_next := gen_doat_next; p_start := gen_doat_start; p_left := gen_doat_left |} = doat_progs /\
  gen_doat_fields_ok = true /\ gen_markstarted_swap_panics = true /\ gen_isstarted_is_load = true.
Proof. repeat split; reflexivity. Qed.
Print Assumptions waiter_leaf_progs_bridge.
