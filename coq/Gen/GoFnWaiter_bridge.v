(* Bridge of the `gofn` translator, property C04: coreutil.Waiter IsSlowDown, Wait = Model/Waiter.v is_slow_down, wait wfixed.
   harness/cmd/translate gofn-waiter re-reads the Go source on every run into Gen/GoFnWaiterGen.v (abstract syntax
   of Lib/Imp.v); the lemmas below say that running that syntax (Go integers = unbounded Z, see
   Lib/Imp.v) gives what the hand-written model gives.  If the source drifts (another operand order,
   another comparison, a dropped guard) the lemma about that function no longer checks. *)
From Coq Require Import ZArith NArith List String Bool Lia.
From PV Require Import Model.Waiter.
From PV Require Import Lib.Imp Gen.GoFnWaiterGen.
Import ListNotations.
Local Open Scope string_scope.
Local Open Scope list_scope.
Local Open Scope Z_scope.

(* core/coreutil/waiter.go Waiter.IsSlowDown, Waiter.Wait *)

Lemma find_IsSlowDown : find_func "Waiter.IsSlowDown" gen_prog_waiter = Some gen_Waiter_IsSlowDown.
Proof. reflexivity. Qed.
Lemma find_Wait : find_func "Waiter.Wait" gen_prog_waiter = Some gen_Waiter_Wait.
Proof. reflexivity. Qed.

(* which select clause an input "$sel<k>" = 0, 1, ... names *)
Lemma bridge_Waiter_selects :
  gen_Waiter_IsSlowDown_selects = [["ctx.Done"; "default"]] /\
  gen_Waiter_Wait_selects = [["ctx.Done"; "default"]; ["w.timer.C"; "ctx.Done"]] /\
  gen_Waiter_Wait_returns = ["result0"; "w.overdueDuration"; "w.lastNow"; "w.timer"; "$timer"].
Proof. repeat split; reflexivity. Qed.

(* IsSlowDown: ctx done ($sel0 = 0) -> false; otherwise overdueDuration >= MaxOverdueDuration *)
Lemma bridge_IsSlowDown st sel fuel :
  run gen_prog_waiter no_ext fuel "Waiter.IsSlowDown" [VInt sel; VInt (overdue st)]
  = Ret [VInt (if sel =? 0 then 0 else b2z (is_slow_down st))].
Proof.
  rewrite (run_mono _ _ 0 fuel); [| lia |];
    unfold run; rewrite find_IsSlowDown; unfold gen_Waiter_IsSlowDown, is_slow_down, max_overdue;
    cbn [f_body f_params]; imp_run; try reflexivity; discriminate.
Qed.

(* the externals of Wait: sched.Next() answers the token of the call, time.Now() its clock reading *)
Definition wait_ext (c : wcall) (junk : Z) : string -> list val -> option (list val) :=
  fun f _ =>
    if String.eqb f "w.sched.Next"
    then Some (match c_tok c with Some n => [VInt n; VInt 1] | None => [VInt junk; VInt 0] end)
    else if String.eqb f "time.Now" then Some [VInt (c_now c)]
    else if String.eqb f "time.NewTimer" then Some [VInt 1]
    else if String.eqb f "w.timer.Reset" then Some []
    else None.

(* w.lastNow as an integer: the model's [None] is the zero time.Time, which is before every token *)
Definition last_repr (st : wstate) (c : wcall) (L : Z) : Prop :=
  match lastNow st with
  | Some l => L = l
  | None => match c_tok c with Some next => L < next | None => True end
  end.

(* the duration the timer is armed with, if this call gets as far as sleeping *)
Definition wait_sleeps (st : wstate) (c : wcall) : option Z :=
  if c_ctx_done c then None
  else match c_tok c with
       | None => None
       | Some next =>
           if match lastNow st with Some l => next - l <=? 0 | None => false end then None
           else if next - c_now c <=? 0 then None else Some (next - c_now c)
       end.

Lemma bridge_Wait0 st c L tm junk :
  last_repr st c L ->
  run gen_prog_waiter (wait_ext c junk) 0 "Waiter.Wait"
      [VInt (if c_ctx_done c then 0 else 1); VInt (overdue st); VInt L; VInt tm;
       VInt (if c_cancel_in_sleep c then 1 else 0)]
  = Ret [VInt (b2z (w_ok (snd (wait wfixed st c))));
         VInt (overdue (fst (wait wfixed st c)));
         VInt (match lastNow (fst (wait wfixed st c)) with Some l => l | None => L end);
         VInt (match wait_sleeps st c with Some _ => if tm =? 0 then 1 else tm | None => tm end);
         VInt (match wait_sleeps st c with Some d => d | None => 0 end)].
Proof.
  unfold last_repr, run. rewrite find_Wait.
  unfold gen_Waiter_Wait, wait, wait_sleeps, max_overdue, wait_ext.
  cbn [f_body f_params]. intros HL.
  destruct (c_tok c) as [next|], (lastNow st) as [l|]; try subst L;
    imp_run; cbn [fst snd w_ok overdue lastNow];
    repeat match goal with
           | H : ?x = true |- context [?x] => rewrite H
           | H : ?x = false |- context [?x] => rewrite H
           end; cbn [b2z negb];
    try reflexivity; try lia;
    repeat match goal with |- _ = _ => first [reflexivity | lia | progress f_equal] end;
    destruct (c_cancel_in_sleep c); cbv beta iota in *; cbn [b2z negb]; first [reflexivity | lia].
Qed.

Lemma bridge_Wait st c L tm junk fuel :
  last_repr st c L ->
  run gen_prog_waiter (wait_ext c junk) fuel "Waiter.Wait"
      [VInt (if c_ctx_done c then 0 else 1); VInt (overdue st); VInt L; VInt tm;
       VInt (if c_cancel_in_sleep c then 1 else 0)]
  = Ret [VInt (b2z (w_ok (snd (wait wfixed st c))));
         VInt (overdue (fst (wait wfixed st c)));
         VInt (match lastNow (fst (wait wfixed st c)) with Some l => l | None => L end);
         VInt (match wait_sleeps st c with Some _ => if tm =? 0 then 1 else tm | None => tm end);
         VInt (match wait_sleeps st c with Some d => d | None => 0 end)].
Proof.
  intros HL. rewrite (run_mono _ _ 0 fuel); [apply bridge_Wait0; exact HL|lia|].
  rewrite (bridge_Wait0 _ _ _ _ _ HL). discriminate.
Qed.

(* a call that sleeps (w_slept) armed its timer with exactly token - clock reading > 0 *)
Lemma bridge_Wait_timer st c :
  w_slept (snd (wait wfixed st c)) = true ->
  exists next, c_tok c = Some next /\ wait_sleeps st c = Some (next - c_now c) /\ 0 < next - c_now c.
Proof.
  unfold wait, wait_sleeps.
  destruct (c_ctx_done c); [discriminate|]. destruct (c_tok c) as [next|]; [|discriminate].
  destruct (lastNow st) as [l|].
  - destruct (next - l <=? 0).
    + destruct (l - next <? max_overdue); discriminate.
    + destruct (next - c_now c <=? 0) eqn:E; [discriminate|]. b2p. intros _. exists next. repeat split. lia.
  - destruct (next - c_now c <=? 0) eqn:E; [discriminate|]. b2p. intros _. exists next. repeat split. lia.
Qed.


(* IsFinished (the Check section of Model/Instance.v: `left_of = 0`): ctx done -> true; otherwise sched.Left() == 0.
   The oracle answers Left() with [left]. *)
Lemma find_IsFinished : find_func "Waiter.IsFinished" gen_prog_waiter = Some gen_Waiter_IsFinished.
Proof. reflexivity. Qed.

Definition left_ext (left : Z) : string -> list val -> option (list val) :=
  fun f _ => if String.eqb f "w.sched.Left" then Some [VInt left] else None.

Lemma bridge_IsFinished sel left fuel :
  run gen_prog_waiter (left_ext left) fuel "Waiter.IsFinished" [VInt sel]
  = Ret [VInt (if sel =? 0 then 1 else b2z (left =? 0))].
Proof.
  rewrite (run_mono _ _ 0 fuel); [| lia |];
    unfold run; rewrite find_IsFinished; unfold gen_Waiter_IsFinished, left_ext;
    cbn [f_body f_params]; imp_run; try reflexivity; discriminate.
Qed.

Lemma bridge_IsFinished_selects :
  gen_Waiter_IsFinished_selects = [["ctx.Done"; "default"]].
Proof. reflexivity. Qed.

Print Assumptions bridge_IsSlowDown.
Print Assumptions bridge_IsFinished.
Print Assumptions bridge_Wait.
Print Assumptions bridge_Wait_timer.
