(* Bridge of the `gofn` translator, property C12: schedule.NewInstanceStep = Model/StartLoop.v new_instance_step.
   harness/cmd/translate gofn-istep re-reads the Go source on every run into Gen/GoFnIstepGen.v (abstract syntax
   of Lib/Imp.v); the lemmas below say that running that syntax (Go integers = unbounded Z, see
   Lib/Imp.v) gives what the hand-written model gives.  If the source drifts (another operand order,
   another comparison, a dropped guard) the lemma about that function no longer checks. *)
From Coq Require Import ZArith NArith List String Bool Lia.
From PV Require Import Model.StartLoop Proofs.StartLoopProofs.
From PV Require Import Lib.Imp Gen.GoFnIstepGen.
Import ListNotations.
Local Open Scope string_scope.
Local Open Scope list_scope.
Local Open Scope Z_scope.

(* core/schedule/instance_step.go NewInstanceStep *)

Lemma find_istep : find_func "NewInstanceStep" gen_prog_istep = Some gen_NewInstanceStep.
Proof. reflexivity. Qed.

(* the constructor calls appended to `nexts`, as the parts of Model/StartLoop.v:
   NewOnce(n) = POnce n, NewConst(0, d) = PPause d *)
Definition enc_part (p : part) : string * list Z :=
  match p with
  | POnce n => ("NewOnce", [n])
  | PPause d => ("NewConst", [0; d])
  | PConst n period d => ("PConst", [n; period; d])   (* never built by NewInstanceStep *)
  end.

Definition istep_loop_stmt : stmt :=
  SFor (EBin OLe (EVar "i") (EVar "to"))
       (SSeq (SAppend "nexts" "NewConst" [ELit 0; EVar "stepDuration"])
             (SAppend "nexts" "NewOnce" [EVar "step"]))
       (SAssign ["i"] [EBin OAdd (EVar "i") (EVar "step")]).

Definition istep_env (from to step dur : Z) (acc : list (string * list Z)) (i : Z) : env :=
  [("from", VInt from); ("to", VInt to); ("step", VInt step); ("stepDuration", VInt dur);
   ("nexts", VRecs acc); ("i", VInt i)].

Lemma istep_loop_imp : forall f i to step dur ps from acc,
  istep_loop f i to step dur = Some ps ->
  exists fuel i',
    exec gen_prog_istep no_ext fuel istep_loop_stmt (istep_env from to step dur acc i)
    = SNormal (istep_env from to step dur (acc ++ map enc_part ps) i').
Proof.
  induction f as [|f IH]; intros i to step dur ps from acc H; cbn [istep_loop] in H;
    destruct (i <=? to) eqn:Hi; try discriminate.
  - injection H as <-. exists O, i. cbn [map]. rewrite app_nil_r.
    apply for_exit. unfold istep_env. imp_eval. rewrite Hi. reflexivity.
  - destruct (istep_loop f (i + step) to step dur) as [r|] eqn:Er; [|discriminate].
    injection H as <-.
    destruct (IH _ _ _ _ _ from (acc ++ [("NewConst", [0; dur]); ("NewOnce", [step])]) Er) as (fuel & i' & E).
    exists (S fuel), i'. unfold istep_loop_stmt, istep_env in *.
    eapply for_unroll; [imp_eval; rewrite Hi; reflexivity|discriminate| | |].
    + imp_cbn. reflexivity.
    + imp_cbn. reflexivity.
    + repeat rewrite <- app_assoc. repeat rewrite <- app_assoc in E. cbn [app map enc_part] in *. exact E.
  - injection H as <-. exists O, i. cbn [map]. rewrite app_nil_r.
    apply for_exit. unfold istep_env. imp_eval. rewrite Hi. reflexivity.
Qed.

(* NewInstanceStep: whenever the model's loop ends with [parts], so does the translated function,
   for ALL from, to, step, stepDuration *)
Lemma bridge_NewInstanceStep f from to step dur parts :
  new_instance_step f from to step dur = Some parts ->
  exists fuel,
    run gen_prog_istep no_ext fuel "NewInstanceStep" [VInt from; VInt to; VInt step; VInt dur]
    = Ret [VRecs (map enc_part parts)].
Proof.
  unfold new_instance_step. intros H.
  destruct (istep_loop f (from + step) to step dur) as [r|] eqn:Er; [|discriminate].
  injection H as <-.
  destruct (istep_loop_imp _ _ _ _ _ _ from [("NewOnce", [from])] Er) as (fuel & i' & E).
  exists fuel. unfold run. rewrite find_istep. unfold gen_NewInstanceStep. cbn [f_body f_params].
  imp_eval. imp_go. fold istep_loop_stmt. unfold istep_env in E. cbn [app]. rewrite E. imp_go. reflexivity.
Qed.

(* ... and the model's loop does end for the configurations validation admits (from >= 0, step >= 1) *)
Lemma bridge_NewInstanceStep_total from to step dur :
  0 <= from -> 1 <= step ->
  exists fuel parts,
    new_instance_step (S (Z.to_nat to)) from to step dur = Some parts /\
    run gen_prog_istep no_ext fuel "NewInstanceStep" [VInt from; VInt to; VInt step; VInt dur]
    = Ret [VRecs (map enc_part parts)].
Proof.
  intros Hf Hs.
  destruct (new_instance_step (S (Z.to_nat to)) from to step dur) as [parts|] eqn:E.
  - destruct (bridge_NewInstanceStep _ _ _ _ _ _ E) as (fuel & R). exists fuel, parts. split; [reflexivity|exact R].
  - exfalso. unfold new_instance_step in E.
    destruct (istep_loop_spec dur step to Hs (S (Z.to_nat to)) (from + step) 0) as (ps & E' & _); [|rewrite E' in E; discriminate].
    lia.
Qed.

Print Assumptions bridge_NewInstanceStep.
Print Assumptions bridge_NewInstanceStep_total.
