(* Bridge (property C05): the error-tracking reader of NewJSONAmmoDecoder / JSONAmmoDecoder.Decode (core/provider/json.go)
   and the statement of DecodeProvider.Run that installs the empty-pass guard (core/provider/decoder.go), as re-read by
   `translate jsondecode` (Gen/JsonDecodeGen.v), are the variant the model (Model/JsonDecode.v, jd_current = jd_tree) and
   its theorems are about: an error that comes with data is not noted, the guard is installed whatever passes says, and
   the guard has a Read of its own that keeps an io.EOF that comes with data back (repair c78f643; a tree without
   that method reads jv_defers_eof = false and json_decode_source_is_model no longer checks). *)
From Coq Require Import List Arith Bool Lia.
From PV Require Import Model.JsonDecode Proofs.JsonDecodeProofs Gen.JsonDecodeGen.
Import ListNotations.

Theorem json_decode_source_is_model : gen_jd_variant = jd_current.
Proof. reflexivity. Qed.
Print Assumptions json_decode_source_is_model.

(* hence, on the source's variant: data that does not decode is reported however the source hands it out ... *)
Theorem json_decode_source_reports : forall chunks eofwl d,
  jd_spec_fails (concat chunks) = true -> fst (jd_pass gen_jd_variant 0 eofwl chunks false d) = JdFail.
Proof.
  intros chunks eofwl d H. rewrite json_decode_source_is_model. unfold jd_current.
  rewrite jd_pass_tree_spec, H. reflexivity.
Qed.
Print Assumptions json_decode_source_reports.

(* ... and a source without ammo ends the provider whatever passes and limit say *)
Theorem json_decode_source_no_ammo_terminates : forall passes limit pend nonempty fuel,
  jd_passes (S fuel) gen_jd_variant passes limit 0 pend nonempty 0 0 0 = (JdNil, 0).
Proof. intros. apply jd_passes_no_ammo_ends. reflexivity. Qed.
Print Assumptions json_decode_source_no_ammo_terminates.

(* ... and every source that can be sought, whichever way it reports its end, is read `passes` times *)
Theorem json_decode_source_passes_counted : forall a pend passes n pc d db fuel,
  0 < a -> 0 < n -> pc + n = passes -> db <= d -> n <= fuel ->
  jd_passes fuel gen_jd_variant passes 0 a pend true pc d db = (JdNil, d + n * a).
Proof. intros a pend passes n pc d db fuel. apply jd_passes_counts. left. reflexivity. Qed.
Print Assumptions json_decode_source_passes_counted.
