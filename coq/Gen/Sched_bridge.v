(* Bridge for property C01: the schedule formulas as core/schedule/{const,line,once,step}.go
   state them NOW (Gen/SchedGen.v, regenerated from the source on every run) are the formulas
   of the hand-written model Model/Sched.v, for every rate, duration and operation index and
   for every interpretation of the square root. Each lemma is tried syntactically first, then
   up to the field laws of Q, so harmless rewrites of the source (commuted factors, an inlined
   constant) still pass, while an integer quotient where the model divides reals, another
   constant, a changed loop bound or a dropped clamp do not. *)
From Coq Require Import ZArith QArith Qround String List Qfield Lia.
From PV Require Import Model.Sched Model.SchedExpr Gen.SchedGen Proofs.SchedQ.
Import ListNotations.
Local Open Scope string_scope.

Ltac ev := cbn [evalQ env_of fold_right String.eqb Ascii.eqb Bool.eqb fst snd nth
                 gen_const_n gen_const_at gen_line_n gen_line_at gen_line_doat_args
                 m_line_at m_line_a m_line_b m_secs billion].
Ltac nz := repeat split; try (apply qz_nonzero; unfold ns_per_s; lia); try assumption.
Ltac bridge_trunc unf :=
  first [ reflexivity
        | ev; unfold unf, line_a, secs, qz, ns_per_s; f_equal; apply Qtrunc_comp;
          change (inject_Z 1000000000) with (1000000000 # 1); field; nz ].
Ltac bridge_q unf :=
  first [ reflexivity
        | ev; unfold unf, line_a, secs, qz, ns_per_s;
          change (inject_Z 1000000000) with (1000000000 # 1); field; nz ].

(* ---- const.go ---- *)
Lemma bridge_const_shape :
  gen_const_clamp = "ops<0=>ops=0" /\ gen_const_dur = Var "duration" /\ gen_const_doat_args = [Var "ops"].
Proof. repeat split; reflexivity. Qed.

Lemma bridge_const_n : forall sq ops D, ~ (qz D == 0)%Q ->
  evalQ sq (env_of [("ops", ops); ("duration", qz D)]) gen_const_n = qz (const_n ops D).
Proof. intros sq ops D HD. bridge_trunc const_n. Qed.

Lemma bridge_const_at : forall sq ops k, ~ (ops == 0)%Q ->
  evalQ sq (env_of [("ops", ops); ("i", qz k)]) gen_const_at = qz (const_at ops k).
Proof. intros sq ops k Ho. bridge_trunc const_at. Qed.

(* ---- line.go ---- *)
Lemma bridge_line_shape :
  gen_line_flat = "from==to" /\ gen_line_flat_args = [Var "from"; Var "duration"] /\
  gen_line_dur = Var "duration" /\ length gen_line_doat_args = 2%nat.
Proof. repeat split; reflexivity. Qed.

(* the slope and intercept handed to lineDoAt *)
Lemma bridge_line_a : forall sq f t D, ~ (qz D == 0)%Q ->
  (evalQ sq (env_of [("from", f); ("to", t); ("duration", qz D)]) (nth 0 gen_line_doat_args (Lit 0))
   == line_a f t D)%Q.
Proof. intros sq f t D HD. bridge_q line_a. Qed.

Lemma bridge_line_b : forall sq f t D,
  evalQ sq (env_of [("from", f); ("to", t); ("duration", qz D)]) (nth 1 gen_line_doat_args (Lit 0)) = f.
Proof. intros. reflexivity. Qed.

Lemma bridge_line_n : forall sq f t D, ~ (qz D == 0)%Q -> ~ (t - f == 0)%Q ->
  evalQ sq (env_of [("from", f); ("to", t); ("duration", qz D)]) gen_line_n = qz (line_n f t D).
Proof. intros sq f t D HD Hft. bridge_trunc line_n. Qed.

(* lineDoAt: the expression whose truncation Model/Sched.v line_at computes
   (Proofs/SchedReal.v relates m_line_at, read over the reals, to line_at) *)
Lemma bridge_line_at : forall sq env, (forall x y, (x == y)%Q -> (sq x == sq y)%Q) ->
  ~ (env "a" == 0)%Q ->
  evalQ sq env gen_line_at = evalQ sq env m_line_at.
Proof.
  intros sq env Hsq Ha.
  first [ reflexivity
        | ev; unfold qz; f_equal; apply Qtrunc_comp;
          first [ field; nz
                | (* the radicand may have been rewritten too: bring it to the model's form *)
                  match goal with |- context [sq ?x] =>
                    lazymatch x with
                    | ((2 # 1) * env "a" * env "i" + env "b" * env "b")%Q => fail
                    | _ => assert (E : (x == (2 # 1) * env "a" * env "i" + env "b" * env "b")%Q) by (field; nz);
                           rewrite (Hsq _ _ E); clear E
                    end
                  end; field; nz ] ].
Qed.

(* ---- once.go ---- *)
Lemma bridge_once : gen_once_dur = Lit 0 /\ gen_once_n = Var "n" /\ gen_once_at = Lit 0.
Proof. repeat split; reflexivity. Qed.

(* ---- step.go ---- *)
Lemma bridge_step :
  gen_step_flat = "from==to" /\ gen_step_flat_args = [Var "from"; Var "duration"] /\
  gen_step_init = Var "from" /\ gen_step_cond = "i<=to" /\ gen_step_incr = ToFloat (Var "step") /\
  gen_step_level_args = [Var "i"; Var "duration"].
Proof. repeat split; reflexivity. Qed.
