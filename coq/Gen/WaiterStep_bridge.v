(* Bridge for property C04 (round 8): the staircase of Model/WaiterProfile.v ([cstep_levels], [const_seg]) is what
   core/schedule/step.go NewStep and const.go NewConst build, as re-read from the source on every run by C01's
   translator `harness/cmd/translate sched` (Gen/SchedGen.v; used read-only here).
   The translator accepts NewStep only in the shape: optional `if <flat> { return NewConst(..) }`, ONE loop
   `for i := <init>; <cond>; i += <incr>` whose body is exactly `nexts = append(nexts, NewConst(<level args>))`
   - an unconditional append per level - and `return NewCompositeConf(CompositeConf{nexts})`.  A level that is
   skipped, filtered or replaced is outside that grammar: the translator refuses, the tie is reported broken. *)
From Coq Require Import ZArith QArith String List Lia.
From PV Require Import Model.Sched Model.SchedExpr Gen.SchedGen Proofs.SchedQ Model.Waiter Model.WaiterProfile.
Import ListNotations.
Local Open Scope string_scope.

(* levels i = from; i <= to; i += step, each NewConst(i, duration); from == to: the single level NewConst(from, duration) *)
Lemma waiter_step_loop_bridge :
  gen_step_init = Var "from" /\ gen_step_cond = "i<=to" /\ gen_step_incr = ToFloat (Var "step") /\
  gen_step_level_args = [Var "i"; Var "duration"] /\
  gen_step_flat = "from==to" /\ gen_step_flat_args = [Var "from"; Var "duration"].
Proof. repeat split; reflexivity. Qed.

(* a level: n = int64(ops * duration/1e9) tokens, the i-th at i * (1e9/ops), lasting `duration` *)
Lemma waiter_const_level_bridge :
  gen_const_n = m_const_n /\ gen_const_at = m_const_at /\ gen_const_dur = Var "duration" /\
  gen_const_clamp = "ops<0=>ops=0".
Proof. repeat split; reflexivity. Qed.

Local Open Scope Z_scope.

(* For every positive rate (milli-rps) and duration: the number of tokens of a level is the re-read expression
   int64(ops * (float64(duration) / 1e9)) (exact rational reading), ... *)
Lemma waiter_const_tokens_bridge : forall sq p dur, 0 <= dur ->
  evalQ sq (env_of [("ops", Zpos p # 1000); ("duration", inject_Z dur)]) gen_const_n
  = inject_Z (const_tokens (Zpos p) dur).
Proof.
  intros sq p dur Hd.
  cbn [evalQ env_of fold_right String.eqb Ascii.eqb Bool.eqb fst snd gen_const_n].
  unfold qz. f_equal.
  rewrite (Qtrunc_comp _ ((Zpos p * dur) # 1000000000000)).
  - unfold Qtrunc, const_tokens, ns_mrps. cbn [Qnum Qden Z.leb Z.compare].
    apply Z.quot_div_nonneg; lia.
  - unfold Qeq, Qdiv, Qmult, Qinv, inject_Z. cbn [Qnum Qden]. lia.
Qed.

(* ... and the i-th token of the level is the re-read expression Duration(float64(i) * (1e9 / ops)) = i * period when the
   rate has a whole number of ns between two tokens (the rates the correspondence cases use). *)
Lemma waiter_const_at_bridge : forall sq p i, 0 <= i -> ns_mrps mod Zpos p = 0 ->
  evalQ sq (env_of [("ops", Zpos p # 1000); ("i", inject_Z i)]) gen_const_at
  = inject_Z (i * (ns_mrps / Zpos p)).
Proof.
  intros sq p i Hi Hm.
  cbn [evalQ env_of fold_right String.eqb Ascii.eqb Bool.eqb fst snd gen_const_at].
  unfold qz. f_equal.
  rewrite (Qtrunc_comp _ ((i * ns_mrps) # p)).
  - unfold Qtrunc. cbn [Qnum Qden]. rewrite Z.quot_div_nonneg by (unfold ns_mrps; lia).
    apply Z.div_exact in Hm; [|lia]. rewrite Hm at 1.
    rewrite Z.mul_assoc, (Z.mul_comm i), <- Z.mul_assoc, Z.mul_comm, Z.div_mul by lia. lia.
  - unfold Qeq, Qdiv, Qmult, Qinv, inject_Z, ns_mrps. cbn [Qnum Qden]. lia.
Qed.

(* hence a level of the model is the level NewConst builds: as many tokens as the source's n, one source period apart,
   and a PAUSE of the level's duration when n = 0 *)
Lemma waiter_const_seg_bridge : forall sq p dur, 0 <= dur -> ns_mrps mod Zpos p = 0 ->
  let n := Qnum (evalQ sq (env_of [("ops", Zpos p # 1000); ("duration", inject_Z dur)]) gen_const_n) in
  let per := Qnum (evalQ sq (env_of [("ops", Zpos p # 1000); ("i", inject_Z 1)]) gen_const_at) in
  const_seg (Zpos p) dur = if n <=? 0 then SPause dur else SConst per (Z.to_nat n) dur.
Proof.
  intros sq p dur Hd Hm. rewrite waiter_const_tokens_bridge by exact Hd.
  rewrite waiter_const_at_bridge by (try exact Hm; lia).
  cbn [Qnum inject_Z]. rewrite Z.mul_1_l. reflexivity.
Qed.

(* [const_seg] computes those two expressions (rates in milli-rps): spot values through the evaluator of the
   re-read expressions - 2.5 rps for 1 s: 2 tokens, the second at +400 ms; 0.5 rps for 1 s and 0 rps: none *)
Definition ev_n (mrps dur : Z) : Q :=
  evalQ (fun x => x) (env_of [("ops", mrps # 1000); ("duration", inject_Z dur)]) gen_const_n.
Definition ev_at (mrps i : Z) : Q :=
  evalQ (fun x => x) (env_of [("ops", mrps # 1000); ("i", inject_Z i)]) gen_const_at.

Lemma waiter_const_seg_values :
  const_seg 2500 1000000000 = SConst (Qnum (ev_at 2500 1)) (Z.to_nat (Qnum (ev_n 2500 1000000000))) 1000000000 /\
  Qnum (ev_n 500 1000000000) = 0 /\ const_seg 500 1000000000 = SPause 1000000000 /\
  const_seg 0 1000000000 = SPause 1000000000 /\
  const_seg 4000 500000000 = SConst (Qnum (ev_at 4000 1)) (Z.to_nat (Qnum (ev_n 4000 500000000))) 500000000.
Proof. vm_compute. repeat split; reflexivity. Qed.
