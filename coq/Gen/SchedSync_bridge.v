(* Bridge of harness/cmd/trC02 (property C02): the synchronisation skeleton of
   core/schedule/do_at.go and unlilmited.go - which shared accesses Next / Start / Left make, in which order, which of
   them inside s.startOnce.Do - re-read from the source on every run into Gen/SchedSyncGen.v, IS the
   programs [doat_progs] / [unl_progs] that Properties/C02_leaf.v is about; start_sync.go's MarkStarted is the
   swap-and-panic and IsStarted the atomic load the model takes them for.  If the source drifts (an
   access moved out of the Once, a fast path around it, another order of MarkStarted and the store of
   the start time) this lemma no longer checks. *)
From Coq Require Import List.
From PV Require Import Model.SchedLeafConc Gen.SchedSyncGen.
Import ListNotations.

(* unlilmited.go: the store of the finish time comes BEFORE MarkStarted inside the Once of Next, after
   the Once in Start; Left looks at the flag first *)
Lemma bridge_unl_sync :
  {| p_next := gen_unl_next; p_start := gen_unl_start; p_left := gen_unl_left |} = unl_progs /\
  gen_unl_fields_ok = true.
Proof. split; reflexivity. Qed.
Print Assumptions bridge_unl_sync.

Lemma bridge_doat_sync :
  {| p_next := gen_doat_next; p_start := gen_doat_start; p_left := gen_doat_left |} = doat_progs /\
  gen_doat_fields_ok = true /\ gen_markstarted_swap_panics = true /\ gen_isstarted_is_load = true.
Proof. repeat split; reflexivity. Qed.
Print Assumptions bridge_doat_sync.
