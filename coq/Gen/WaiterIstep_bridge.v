(* Bridge for property C04 (round 8): the `instance_step` part of Model/WaiterProfile.v ([CInstStep]: once(from), then per
   increment a pause of the step duration and once(step)) is what core/schedule/instance_step.go NewInstanceStep builds.
   The Go function is re-read on every run by `harness/cmd/translate gofn-istep` (C12's translator, used read-only) into
   Gen/GoFnIstepGen.v (abstract syntax of Lib/Imp.v); C12's Gen/GoFnIstep_bridge.v proves that running it returns the parts of
   Model/StartLoop.v new_instance_step; here those parts are shown to be, one for one, the segments [part_segments] gives a
   CInstStep entry - for ALL from >= 0, to, step >= 1, durations. *)
From Coq Require Import ZArith NArith List String Bool Lia.
From PV Require Import Model.StartLoop Proofs.StartLoopProofs Lib.Imp Gen.GoFnIstepGen Gen.GoFnIstep_bridge.
From PV Require Import Model.Waiter Model.WaiterProfile.
Import ListNotations.
Local Open Scope Z_scope.

(* NewOnce(n) = once n ; NewConst(0, d) = a pause of d ; (a const part with tokens is never built by NewInstanceStep) *)
Definition seg_of_part (p : StartLoop.part) : segment :=
  match p with
  | POnce n => SOnce (Z.to_nat n)
  | PPause d => SPause d
  | PConst n period d => SConst period (Z.to_nat n) d
  end.

Lemma istep_loop_segments dur step to (Hs : 1 <= step) : forall fuel i,
  (Z.to_nat (to - i + 1) <= fuel)%nat ->
  exists ps, istep_loop fuel i to step dur = Some ps /\
    map seg_of_part ps = cinst_levels (Z.to_nat step) dur (Z.to_nat ((to - i) / step + 1)).
Proof.
  induction fuel as [|f IH]; intros i Hf.
  - cbn [istep_loop]. destruct (Z.leb_spec i to); [lia|].
    exists []. split; [reflexivity|].
    assert ((to - i) / step + 1 <= 0).
    { assert ((to - i) / step < 0) by (apply Z.div_lt_upper_bound; lia). lia. }
    rewrite (to_nat_nonpos ((to - i) / step + 1)) by assumption. reflexivity.
  - cbn [istep_loop]. destruct (Z.leb_spec i to).
    + destruct (IH (i + step)) as (ps & E & F); [lia|].
      rewrite E. eexists. split; [reflexivity|].
      cbn [map seg_of_part]. rewrite F.
      assert (D : (to - i) / step + 1 = ((to - (i + step)) / step + 1) + 1).
      { replace (to - (i + step)) with ((to - i) + (-1) * step) by lia.
        rewrite Z.div_add by lia. lia. }
      assert (NN : 0 <= (to - (i + step)) / step + 1).
      { assert (-1 <= (to - (i + step)) / step); [|lia].
        apply Z.div_le_lower_bound; lia. }
      rewrite D. rewrite (Z2Nat.inj_add ((to - (i + step)) / step + 1) 1) by lia. change (Z.to_nat 1) with 1%nat.
      rewrite Nat.add_comm. reflexivity.
    + exists []. split; [reflexivity|].
      assert ((to - i) / step + 1 <= 0).
      { assert ((to - i) / step < 0) by (apply Z.div_lt_upper_bound; lia). lia. }
      rewrite (to_nat_nonpos ((to - i) / step + 1)) by assumption. reflexivity.
Qed.

(* the re-read NewInstanceStep returns, part for part, the segments of the configured instance_step entry *)
Lemma waiter_istep_bridge : forall from to step dur segs,
  part_segments (CInstStep from to step dur) = Some segs ->
  exists fuel parts,
    run gen_prog_istep no_ext fuel "NewInstanceStep" [VInt from; VInt to; VInt step; VInt dur]
      = Ret [VRecs (map enc_part parts)] /\
    map seg_of_part parts = segs.
Proof.
  intros from to step dur segs H. cbn [part_segments] in H.
  destruct ((from <? 0) || (to <? 0) || (step <? 1) || (dur <? 0)) eqn:E; [discriminate|].
  injection H as <-.
  apply orb_false_iff in E. destruct E as [E _]. apply orb_false_iff in E. destruct E as [E Es].
  apply orb_false_iff in E. destruct E as [Ef _]. apply Z.ltb_ge in Ef, Es.
  destruct (istep_loop_segments dur step to Es (S (Z.to_nat to)) (from + step)) as (ps & El & Em); [lia|].
  assert (Hn : new_instance_step (S (Z.to_nat to)) from to step dur = Some (POnce from :: ps)).
  { unfold new_instance_step. rewrite El. reflexivity. }
  destruct (bridge_NewInstanceStep _ _ _ _ _ _ Hn) as (fuel & R).
  exists fuel, (POnce from :: ps). split; [exact R|].
  cbn [map seg_of_part]. rewrite Em. do 3 f_equal.
  replace (to - (from + step)) with ((to - from) + (-1) * step) by lia.
  rewrite Z.div_add by lia. lia.
Qed.
