(* Bridge (property C05): the end-of-input branch of ScanAmmoDecoder.Decode as re-read from
   core/provider/chunk_decoder.go by `translate scandecode` (Gen/ScanDecodeGen.v) is the repaired one the model
   (Model/ScanDecode.v, sd_current = sd_fixed) and its theorems are about. *)
From Coq Require Import List Bool Lia.
From PV Require Import Model.ScanDecode Proofs.ScanDecodeProofs Gen.ScanDecodeGen.
Import ListNotations.

Theorem scan_decode_source_is_model : gen_sd_variant = sd_current.
Proof. reflexivity. Qed.
Print Assumptions scan_decode_source_is_model.

(* hence a decode provider on the source's scan decoder ends on every input *)
Theorem scan_decode_source_terminates : forall l e, fst (dp_run (S (length l)) gen_sd_variant l e 0) <> POutOfFuel.
Proof. exact dp_run_fixed_terminates. Qed.
Print Assumptions scan_decode_source_terminates.
