(* Bridge: the constants of Model/Waiter.v are the values compiled from the source
   (core/coreutil.MaxOverdueDuration, netsample.DiscardedShootCodeError, netsample.DiscardedShootTag). *)
From Coq Require Import List NArith ZArith.
From PV Require Import Gen.ConstGen Model.Waiter.
Import ListNotations.

Lemma max_overdue_bridge : max_overdue = gen_max_overdue_ns.
Proof. reflexivity. Qed.
Lemma discarded_code_bridge : discarded_code = gen_discarded_code.
Proof. reflexivity. Qed.
Lemma discarded_tag_bridge : discarded_tag = gen_discarded_tag.
Proof. reflexivity. Qed.
