(* Bridge of the `gofn` translator, property C03: core/engine/instance.go instance.Run = the atomic sections of
   Model/Instance.v (local_step), call by call.

   harness/cmd/translate gofn-instance re-reads instance.Run on every run into Gen/GoFnInstanceGen.v (abstract
   syntax of Lib/Imp.v).  The target is TRACED: every call the function makes on its collaborators
   (waiter.IsFinished / Wait / IsSlowDown, provider.Acquire / Release, gun.Shoot, aggregator.Report,
   metrics.*.Add, ctx.Err) is recorded, in order, with its integer arguments in the ghost list "$trace" and
   receives the running call number "$n" as an extra argument, so that the oracle answers every call on
   its own (the collaborators have effects).  The immediately invoked func literal of the loop body is inlined
   (its `defer provider.Release(ammo)` runs before each of its returns), the function-level deferred func
   literal runs before every return, logging calls (and the `if tag.Debug` statements that only log) are dropped,
   `recover()` is nil (a panic is the outcome
   Panic of IMP; panics are property C05).

   What is proved, for EVERY oracle (answer of every call) and both values of discard_overflow:
   the sequence of calls of instance.Run and its result are exactly those of walking the model's sections
       Check -> Acq -> Wait a -> Dec a -> Shoot a -> Resp a -> Rel a -> Check ... -> Done
   where the successor of a section is COMPUTED BY THE MODEL's [local_step] (on a synthetic shared state that
   realises the collaborator's answer) and the calls of a section are given by the table [sec] below:
     bridge_instance_iter   one loop iteration of the code = the model's sections from Check back to Check / Done
     bridge_instance_Run    model walk ends  -> the code returns the same result, call count and trace
     bridge_instance_Run_conv  the code returns -> the model walk ends (with the same result, by the former)
   If the source drifts (Release moved before the ok check, Request counted before the discard decision, the
   discard branch falling through to Shoot, IsFinished skipped, another call order) a lemma here no longer checks. *)
From Coq Require Import ZArith NArith List String Bool Lia.
From PV Require Model.Instance.
From PV Require Import Lib.Imp Gen.GoFnInstanceGen Proofs.InstanceRunProofs.
Import ListNotations.
Local Open Scope string_scope.
Local Open Scope list_scope.
Local Open Scope Z_scope.

(* the generated function has the expected interface: one input (discardOverflow), returns (error, number of
   calls, calls); outOfAmmoErr is a non-nil error *)
Lemma bridge_instance_shape :
  gen_instance_Run_returns = ["result0"; "$n"; "$trace"] /\
  f_params gen_instance_Run = ["i.discardOverflow"] /\
  gen_err_outOfAmmoErr <> 0.
Proof. exact InstanceRunProofs.bridge_instance_shape. Qed.

(* the successor of a section is the model's: [mnext] is literally local_step on a synthetic shared state *)
Lemma bridge_instance_mnext_is_local_step dov p b item :
  mnext dov p b item =
    match I.local_step (I.mkCfg false dov 0 0) 0 b
            (I.mkSh (if b then 1 else 0) (if b then 1 else 0) item 0 0 0 0 0 0 []) (I.mkInst p 0) with
    | Some (_, x) => Some (I.pc x)
    | None => None
    end.
Proof. reflexivity. Qed.

(* one loop iteration of the code = the model's sections from Check back to Check, or out of the loop *)
Lemma bridge_instance_iter (o : Z -> Z) (it : Z -> nat) dov f re n tr r t1 err ammo ok t2 c1 t3 t4 t5 :
  match miter o it dov 8 I.Check n tr with
  | IterAgain n' tr' =>
      exists re' r' t1' err' ammo' ok' t2' c1' t3' t4' t5',
        exec gen_prog_instance (iext o it) (S f) the_loop (cenv (b2z dov) re n tr r t1 err ammo ok t2 c1 t3 t4 t5)
        = exec gen_prog_instance (iext o it) f the_loop (cenv (b2z dov) re' n' tr' r' t1' err' ammo' ok' t2' c1' t3' t4' t5')
  | IterDone I.Check n' tr' =>
      exists t1',
        exec gen_prog_instance (iext o it) (S f) the_loop (cenv (b2z dov) re n tr r t1 err ammo ok t2 c1 t3 t4 t5)
        = SNormal (cenv (b2z dov) re n' tr' r t1' err ammo ok t2 c1 t3 t4 t5)
  | IterDone I.Acq n' tr' =>
      exec gen_prog_instance (iext o it) (S f) the_loop (cenv (b2z dov) re n tr r t1 err ammo ok t2 c1 t3 t4 t5)
      = SRet [VInt gen_err_outOfAmmoErr; VInt (n' + 1); VRecs (tr' ++ [("i.metrics.InstanceFinish.Add", [1])])]
  | _ => False
  end.
Proof. exact (InstanceRunProofs.bridge_instance_iter o it dov f re n tr r t1 err ammo ok t2 c1 t3 t4 t5). Qed.

(* instance.Run, for EVERY oracle, both values of discard_overflow and EVERY fuel: the result, the number of calls and
   the calls themselves are those of the model walk; the code runs out of fuel exactly when the walk does *)
Theorem bridge_instance_Run (o : Z -> Z) (it : Z -> nat) dov fuel :
  code_run o it dov fuel = enc (mrun o it dov fuel 2 start_trace).
Proof. exact (InstanceRunProofs.bridge_instance_Run o it dov fuel). Qed.

Corollary bridge_instance_Run_sound (o : Z -> Z) (it : Z -> nat) dov fuel e n tr :
  mrun o it dov fuel 2 start_trace = Some (e, n, tr) ->
  code_run o it dov fuel = Ret [VInt e; VInt n; VRecs tr].
Proof. exact (InstanceRunProofs.bridge_instance_Run_sound o it dov fuel e n tr). Qed.

Corollary bridge_instance_Run_conv (o : Z -> Z) (it : Z -> nat) dov fuel vs :
  code_run o it dov fuel = Ret vs ->
  exists e n tr, mrun o it dov fuel 2 start_trace = Some (e, n, tr) /\ vs = [VInt e; VInt n; VRecs tr].
Proof. exact (InstanceRunProofs.bridge_instance_Run_conv o it dov fuel vs). Qed.

(* whatever the collaborators answer, instance.Run itself neither panics nor gets stuck (a panic of a collaborator -
   an oracle answering None - is outside this statement: property C05) *)
Corollary bridge_instance_Run_never_panics (o : Z -> Z) (it : Z -> nat) dov fuel :
  code_run o it dov fuel <> Panic /\ code_run o it dov fuel <> Stuck.
Proof. exact (InstanceRunProofs.bridge_instance_Run_never_panics o it dov fuel). Qed.

(* non-vacuity: a concrete oracle (three loop iterations: one shot, one discard, one item released unfired because
   Wait found no token; then the schedule is finished and ctx.Err() answers 5): the model walk ends, and the code
   makes exactly these 24 calls *)
Definition ex_oracle (n : Z) : Z :=
  nth (Z.to_nat n) [0;0;0;1;1;0;0;0;0;0;0;1;1;1;77;0;0;0;1;0;0;1;5;0] 0.
Example bridge_instance_example :
  mrun ex_oracle Z.to_nat true 20 2 start_trace =
    Some (5, 24,
          [("i.metrics.InstanceStart.Add", [1]); ("coreutil.NewWaiter", []);
           ("waiter.IsFinished", []); ("i.provider.Acquire", []); ("waiter.Wait", []); ("waiter.IsSlowDown", []);
           ("i.metrics.Request.Add", [1]); ("i.gun.Shoot", [3]); ("i.metrics.Response.Add", [1]);
           ("i.provider.Release", [3]);
           ("waiter.IsFinished", []); ("i.provider.Acquire", []); ("waiter.Wait", []); ("waiter.IsSlowDown", []);
           ("netsample.DiscardedShootSample", []); ("i.aggregator.Report", [77]); ("i.provider.Release", [11]);
           ("waiter.IsFinished", []); ("i.provider.Acquire", []); ("waiter.Wait", []); ("i.provider.Release", [18]);
           ("waiter.IsFinished", []); ("ctx.Err", []); ("i.metrics.InstanceFinish.Add", [1])])
  /\ code_run ex_oracle Z.to_nat true 20 = enc (mrun ex_oracle Z.to_nat true 20 2 start_trace)
  /\ code_run ex_oracle Z.to_nat true 2 = OutOfFuel.
Proof. repeat split; vm_compute; reflexivity. Qed.

Print Assumptions bridge_instance_shape.
Print Assumptions bridge_instance_mnext_is_local_step.
Print Assumptions bridge_instance_iter.
Print Assumptions bridge_instance_Run.
Print Assumptions bridge_instance_Run_sound.
Print Assumptions bridge_instance_Run_conv.
Print Assumptions bridge_instance_Run_never_panics.
