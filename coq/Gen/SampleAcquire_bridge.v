(* Bridge of the `sampleacquire` translator, property C19: netsample.Acquire replaces the pooled object as a whole.
   harness/cmd/translate sampleacquire re-reads core/aggregator/netsample/sample.go on every run into
   Gen/SampleAcquireGen.v: the statements of Acquire classified (get from the pool, `*s = Sample{...}`, return) and the
   fields the literal sets.  The lemmas say: that is all Acquire does and the literal does not touch the reported fields
   (the code array `fields`, `err`) - i.e. the code is Model/RobustRecycle.v `acquire`, so the theorems of
   Properties/C19_recycle.v (a recycled sample carries its own outcome, whatever it was used for before) speak about
   it.  If the source drifts (a field-by-field reset) they no longer check. *)
From Coq Require Import List String Bool ZArith.
From PV Require Import Model.Robust Model.RobustRecycle Proofs.RobustRecycleProofs Gen.SampleAcquireGen.
Import ListNotations.
Local Open Scope string_scope.

Theorem bridge_acquire_overwrites_whole_C19 :
  gen_acquire_shape = ["get"; "overwrite"; "return"] /\
  forallb (fun f => negb (String.eqb f "fields" || String.eqb f "err" || String.eqb f "<positional>")) gen_acquire_fields = true.
Proof. split; [reflexivity|vm_compute; reflexivity]. Qed.
Print Assumptions bridge_acquire_overwrites_whole_C19.

(* hence, over any history of requests sharing one pooled object, every report is the one a fresh object would give *)
Theorem bridge_recycled_reports_independent_C19 : forall hist prev, run_pool acquire prev hist = map (report acquire fresh) hist.
Proof. exact run_pool_independent. Qed.
Print Assumptions bridge_recycled_reports_independent_C19.
