(* Bridge of the `register` translator, property C18: the registration helpers of core/register.
   harness/cmd/translate register re-reads core/register/register.go on every run into
   Gen/RegisterHelpersGen.v (one row per function: declared interface, callee, what each argument of the
   call is).  The lemmas say: the file is exactly the table of Model/RegisterHelpers.v, about which
   C18_register_helpers is proved (type, name, constructor and default-config functions are handed to
   plugin.Register unchanged), and - checked on the re-read rows themselves - every helper forwards a
   default-config function it is given.  A helper that drops or replaces an argument no longer checks. *)
From Coq Require Import List String Bool.
From PV Require Import Model.RegisterHelpers Gen.RegisterHelpersGen.
Import ListNotations.
Local Open Scope string_scope.

Theorem bridge_register_helpers_C18 : gen_register_helpers = register_helpers.
Proof. reflexivity. Qed.
Print Assumptions bridge_register_helpers_C18.

Theorem bridge_register_helpers_forward_C18 :
  match gen_register_helpers with
  | hp :: hks => forallb (helper_forwards hp) hks && Nat.eqb (List.length hks) 6
  | [] => false
  end = true.
Proof. vm_compute. reflexivity. Qed.
Print Assumptions bridge_register_helpers_forward_C18.
