(* Bridge for property C12 (round 7): the token count and the token instants of a const profile as
   core/schedule/const.go states them NOW (Gen/SchedGen.v, regenerated from the source on every run by the
   `sched` translator; Gen/Sched_bridge.v - C01 - proves them equal to Model/Sched.v const_n / const_at) are
   Model/StartProfile.v const_count / const_offset for every rational rate opn/opd > 0 and every duration:
   the count is the TRUNCATED product rate x seconds. *)
From Coq Require Import ZArith QArith Qround String List Qfield Lia.
From PV Require Import Model.Sched Model.SchedExpr Gen.SchedGen Proofs.SchedQ Gen.Sched_bridge.
From PV Require Model.StartProfile.
Import ListNotations.
Local Open Scope string_scope.
Local Open Scope Z_scope.

Lemma q_const_product opn p d :
  ((opn # p) * secs d == qz (opn * d) / qz (Zpos p * StartProfile.ns_per_s))%Q.
Proof.
  unfold secs, qz, ns_per_s, StartProfile.ns_per_s. rewrite !inject_Z_mult.
  setoid_replace (opn # p)%Q with (inject_Z opn / inject_Z (Zpos p))%Q by (apply Qmake_Qdiv).
  field. repeat split; intros H; unfold Qeq in H; cbn in H; lia.
Qed.

Lemma bridge_const_count_C12 : forall sq opn p d, 0 < opn -> 0 < d ->
  evalQ sq (env_of [("ops", (opn # p)%Q); ("duration", qz d)]) gen_const_n
  = qz (StartProfile.const_count opn (Zpos p) d).
Proof.
  intros sq opn p d Hn Hd. rewrite bridge_const_n by (apply qz_nonzero; lia). f_equal.
  unfold const_n. rewrite (Qtrunc_comp _ _ (q_const_product opn p d)).
  assert (Hc : 0 < Zpos p * StartProfile.ns_per_s) by (unfold StartProfile.ns_per_s; lia).
  rewrite Qtrunc_floor.
  - rewrite Qfloor_div_z by exact Hc.
    unfold StartProfile.const_count, StartProfile.const_count_by.
    destruct (opn <=? 0) eqn:E; [apply Z.leb_le in E; lia|reflexivity].
  - apply Qle_shift_div_l; [unfold qz; change 0%Q with (inject_Z 0); rewrite <- Zlt_Qlt; exact Hc|].
    rewrite Qmult_0_l. unfold qz. change 0%Q with (inject_Z 0). rewrite <- Zle_Qle. nia.
Qed.

Lemma q_const_instant opn p k :  0 < opn ->
  (qz k * (qz ns_per_s / (opn # p)) == qz (k * (Zpos p * StartProfile.ns_per_s)) / qz opn)%Q.
Proof.
  intros Hn. unfold qz, ns_per_s, StartProfile.ns_per_s. rewrite !inject_Z_mult.
  setoid_replace (opn # p)%Q with (inject_Z opn / inject_Z (Zpos p))%Q by (apply Qmake_Qdiv).
  field. repeat split; intros H; unfold Qeq in H; cbn in H; lia.
Qed.

Lemma bridge_const_offset_C12 : forall sq opn p k, 0 < opn -> 0 <= k ->
  evalQ sq (env_of [("ops", (opn # p)%Q); ("i", qz k)]) gen_const_at
  = qz (StartProfile.const_offset opn (Zpos p) k).
Proof.
  intros sq opn p k Hn Hk.
  rewrite bridge_const_at.
  2:{ intros H. unfold Qeq in H. cbn in H. lia. }
  f_equal. unfold const_at. rewrite (Qtrunc_comp _ _ (q_const_instant opn p k Hn)).
  assert (Hc : 0 < Zpos p * StartProfile.ns_per_s) by (unfold StartProfile.ns_per_s; lia).
  rewrite Qtrunc_floor.
  - rewrite Qfloor_div_z by exact Hn. reflexivity.
  - apply Qle_shift_div_l; [unfold qz; change 0%Q with (inject_Z 0); rewrite <- Zlt_Qlt; exact Hn|].
    rewrite Qmult_0_l. unfold qz. change 0%Q with (inject_Z 0). rewrite <- Zle_Qle. nia.
Qed.
