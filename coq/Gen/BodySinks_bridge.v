(* Bridge of the `bodysinks` translator, property C19: how the http-family guns consume a body.
   harness/cmd/translate bodysinks re-reads components/guns/http and components/guns/http_scenario on every run into
   Gen/BodySinksGen.v: every call that is handed `<x>.Body` (or a response, for httputil.DumpResponse), classified as
   one of the two sinks of Model/RobustWire.v (io.Copy to Discard, ReadAll) or as something else, and every look at an
   announced length (.ContentLength).  The lemmas say: only the modelled sinks occur, the shot functions use them, and
   the guns never look at the announced length - so the theorems of Properties/C19_wire.v (memory asked for is bounded
   by what arrived, whatever was announced) speak about every place where these packages read a body.  If the source
   drifts (another reader, a buffer sized from Content-Length) they no longer check. *)
From Coq Require Import List String Bool ZArith.
From PV Require Import Model.Robust Model.RobustWire Proofs.RobustWireProofs Gen.BodySinksGen.
Import ListNotations.
Local Open Scope string_scope.

Definition use_modelled (u : sink_use) : bool := match u with UseSink _ | UseHeaders => true | UseOther _ => false end.

Theorem bridge_body_sinks_modelled_C19 : forallb (fun e => use_modelled (snd e)) gen_body_sinks = true.
Proof. vm_compute. reflexivity. Qed.
Print Assumptions bridge_body_sinks_modelled_C19.

Theorem bridge_announced_length_unused_C19 : gen_announced_uses = [].
Proof. reflexivity. Qed.
Print Assumptions bridge_announced_length_unused_C19.

(* the body stage of the two shot functions is in the table: Shoot discards (after an optional drain into memory),
   shootStep reads into memory or discards *)
Definition has_use (file fn : string) (k : body_sink) : bool :=
  existsb (fun e => match e with
                    | (f, g, UseSink k') => String.eqb f file && String.eqb g fn &&
                                            match k, k' with SinkDiscard, SinkDiscard | SinkReadAll, SinkReadAll => true | _, _ => false end
                    | _ => false
                    end) gen_body_sinks.

Theorem bridge_shot_sinks_present_C19 :
  has_use "components/guns/http/base.go" "BaseGun.Shoot" SinkDiscard = true /\
  has_use "components/guns/http_scenario/gun.go" "ScenarioGun.shootStep" SinkReadAll = true /\
  has_use "components/guns/http_scenario/gun.go" "ScenarioGun.shootStep" SinkDiscard = true.
Proof. vm_compute. repeat split. Qed.
Print Assumptions bridge_shot_sinks_present_C19.

(* the dial path (connect gun: the CONNECT exchange inside the transport's dial function) runs with no deadline beyond the
   TCP connect, so it must not consume a body - how long that takes would be up to the tunnel endpoint: a rejected
   CONNECT is reported from its status line and headers only *)
Definition is_headers_only (u : sink_use) : bool := match u with UseHeaders => true | _ => false end.
Theorem bridge_dial_path_reads_no_body_C19 :
  forallb (fun e => match e with (_, g, u) => negb (String.eqb g "newConnectDialFunc") || is_headers_only u end) gen_body_sinks = true /\
  existsb (fun e => match e with (_, g, _) => String.eqb g "newConnectDialFunc" end) gen_body_sinks = true.
Proof. vm_compute. split; reflexivity. Qed.
Print Assumptions bridge_dial_path_reads_no_body_C19.

(* every place that consumes a body, for every wire: what it asks the runtime for is bounded by what arrived, and with
   that much memory the read neither panics nor kills the process *)
Local Open Scope Z_scope.
Theorem bridge_every_body_read_bounded_C19 : forall e k w mem, In e gen_body_sinks -> snd e = UseSink k -> wire_wf w ->
  sink_request k w <= 2 * bw_arrives w + discard_buf /\
  (2 * bw_arrives w + discard_buf <= mem -> mem <= max_alloc -> read_body mem k w = BodyRead (body_complete w)).
Proof.
  intros e k w mem _ _ Hw. split; [apply sink_request_bound, Hw|]. intros; apply read_body_safe; assumption.
Qed.
Print Assumptions bridge_every_body_read_bounded_C19.
