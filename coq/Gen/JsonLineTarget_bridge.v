(* Bridge (property C10, round 8): what `translate jsontarget` re-reads from
   components/providers/http/decoders/jsonline.go Scan - how the value a line is decoded into is held -
   is a target that is the zero entity before every line: declared inside the loop (`var da entity`), or a
   reused one with ALL six fields reset.  Then the decoder of the source is Model/ShootJsonLine.v line_entity
   on every line (scan_entities_zeroed), which C10_jsonline_tag_of_own_line speaks of. *)
From Coq Require Import List Bool.
From PV Require Import Gen.JsonLineTargetGen Model.AmmoJson Model.ShootJsonLine Proofs.ShootJsonLineProofs.
Import ListNotations.

Lemma c10_jsonline_target_zeroed : target_zeroed gen_jsonline_target = true.
Proof. reflexivity. Qed.

Lemma c10_jsonline_scan_is_model : forall ls, scan_entities gen_jsonline_target ls = lines_entities ls.
Proof. exact (scan_entities_zeroed gen_jsonline_target c10_jsonline_target_zeroed). Qed.
