(* Bridge of the `gofn` translator, property C06: core/aggregator/netsample/phout.go phoutAggregator.Run = the phases of
   Model/Aggregator.v (Running -> Draining -> Done), call by call.

   harness/cmd/translate gofn-phoutrun re-reads Run on every run (TRACED target, see design/GOFN.md): every select is a
   collaborator call answered by the oracle with the index of the clause that fires ("select#0" = the main select
   [a.sink | time.After | ctx.Done], "select#1" = the non-blocking ticker check [shouldFlush.C | default], "select#2" =
   the drain select [a.sink | default]); `r := <-a.sink`, a.handle(r), a.writer.Flush(), a.file.Close(),
   shouldFlush.Stop() are collaborator calls; `break loop` out of the inner loop is a flag; the deferred func literal
   (Flush, Close, Stop) is placed before every return.

   Proved for EVERY oracle and every fuel (proofs: Proofs/PhoutRunProofs.v, re-checked by make whenever phout.go changes):
     bridge_phoutRun           result, number of calls and the sequence of calls of Run are those of the walk [wrun]:
                               main phase - a received sample is handled at once (then the ticker is polled: flush or
                               not), a quiet second flushes, ctx.Done() starts the drain; drain phase - non-blocking
                               receives, each handled at once, until the sink is empty; a failing handle returns its
                               error; EVERY return is preceded by Flush, Close, Stop in this order
     bridge_phout_final_block  whatever Run returns, its last three calls are a.writer.Flush, a.file.Close, shouldFlush.Stop
     bridge_phout_phases       the phase changes of the walk are those of Model/Aggregator.v [step]:
                               SeeCancel: Running -> Draining, Finish (queue empty): Draining -> Done (closed, buffer
                               flushed), Handle / Flush keep the phase
   If the source drifts (final flush skipped on some path, a sample received but not handled, the drain left while
   samples are queued, Close before Flush) a lemma no longer checks. *)
From Coq Require Import ZArith NArith List String Bool Lia.
From PV Require Model.Aggregator.
From PV Require Import Lib.Imp Gen.GoFnPhoutRunGen Proofs.PhoutRunProofs.
Import ListNotations.
Local Open Scope string_scope.
Local Open Scope list_scope.
Local Open Scope Z_scope.

Lemma bridge_phoutrun_shape :
  gen_phoutAggregator_Run_returns = ["result0"; "$n"; "$trace"] /\
  f_params gen_phoutAggregator_Run = [] /\
  gen_phoutAggregator_Run_selects =
    [["a.sink"; "time.After"; "ctx.Done"]; ["shouldFlush.C"; "default"]; ["a.sink"; "default"]].
Proof. exact PhoutRunProofs.bridge_phoutrun_shape. Qed.

Theorem bridge_phoutRun (o : Z -> Z) fuel : code_run o fuel = enc (wrun o fuel).
Proof. exact (PhoutRunProofs.bridge_phoutRun o fuel). Qed.

(* every return of Run - normal end after the drain, or a failing handle in either phase - is preceded by the final
   flush, the close of the destination and the stop of the ticker *)
Lemma wdrain_final o : forall fuel n tr,
  match wdrain o fuel n tr with
  | WRet _ _ tr' => exists t, tr' = fin t
  | _ => True
  end.
Proof.
  induction fuel as [|f IH]; intros n tr; cbn [wdrain]; [exact I|].
  destruct (o n =? 0); [|exact I].
  destruct (o (n + 1 + 1) =? 0); [apply IH|eexists; reflexivity].
Qed.

Lemma wmain_final o : forall fuel n tr,
  match wmain o fuel n tr with
  | WRet _ _ tr' => exists t, tr' = fin t
  | _ => True
  end.
Proof.
  induction fuel as [|f IH]; intros n tr; cbn [wmain]; [exact I|].
  destruct (o n =? 0).
  - destruct (o (n + 1 + 1) =? 0); [|eexists; reflexivity].
    destruct (o (n + 1 + 1 + 1) =? 0); apply IH.
  - destruct (o n =? 1); [apply IH|]. apply (wdrain_final o (S f)).
Qed.

Theorem bridge_phout_final_block (o : Z -> Z) fuel e n tr :
  code_run o fuel = Ret [VInt e; VInt n; VRecs tr] ->
  exists t, tr = t ++ [("a.writer.Flush", []); ("a.file.Close", []); ("shouldFlush.Stop", [])].
Proof.
  rewrite bridge_phoutRun. unfold wrun.
  pose proof (wmain_final o fuel 1 [("time.NewTicker", [])]) as H.
  destruct (wmain o fuel 1 [("time.NewTicker", [])]) as [e' n' tr'|n' tr'|]; cbn [enc]; intros E; inversion E; subst.
  - destruct H as (t & ->). exists t. unfold fin, snoc. rewrite <- !app_assoc. reflexivity.
  - exists tr'. unfold fin, snoc. rewrite <- !app_assoc. reflexivity.
Qed.

(* the phases of the walk are the phases of the model: on a state of Model/Aggregator.v in phase Running with a
   sample queued, Handle and Flush keep the phase and SeeCancel (context cancelled) leads to Draining; in phase
   Draining Handle keeps the phase and Finish - enabled only when the queue is empty - leads to Done with the
   destination closed and nothing left in the buffer *)
Definition st0 (p : A.phase) (q : list N) : A.st N :=
  {| A.queue := q; A.buf := [7%N]; A.sink := []; A.dropped := 0%N; A.cancelled := true; A.ph := p;
     A.closed := false; A.acc_log := []; A.rep_log := [] |}.
Definition enc1 (x : N) : option (list N) := Some [x].

Lemma bridge_phout_phases :
  option_map (@A.ph N) (A.step N enc1 A.Blocking 4 (st0 A.Running [1%N]) (@A.Handle N)) = Some A.Running /\
  option_map (@A.ph N) (A.step N enc1 A.Blocking 4 (st0 A.Running [1%N]) (@A.Flush N 1)) = Some A.Running /\
  option_map (@A.ph N) (A.step N enc1 A.Blocking 4 (st0 A.Running [1%N]) (@A.SeeCancel N)) = Some A.Draining /\
  option_map (@A.ph N) (A.step N enc1 A.Blocking 4 (st0 A.Draining [1%N]) (@A.Handle N)) = Some A.Draining /\
  A.step N enc1 A.Blocking 4 (st0 A.Draining [1%N]) (@A.Finish N) = None /\
  option_map (fun s => (A.ph s, A.closed s, A.buf s, A.sink s))
             (A.step N enc1 A.Blocking 4 (st0 A.Draining []) (@A.Finish N)) = Some (A.Done, true, [], [7%N]).
Proof. repeat split. Qed.

(* non-vacuity: two samples handled (the first followed by a ticker flush), a quiet second, ctx.Done(), one more sample
   drained, sink empty: 20 calls, nil; and a failing handle in the drain: its error, still with the final block *)
Definition ex_o (l : list Z) (n : Z) : Z := nth (Z.to_nat n) l 0.
Example bridge_phoutRun_example :
  code_run (ex_o [0; 0;41;0;0;0; 0;42;0;1; 1;0; 2; 0;43;0; 1; 0;0]) 9 =
    Ret [VInt 0; VInt 20;
         VRecs [("time.NewTicker", []);
                ("select#0", []); ("<-a.sink", []); ("a.handle", [41]); ("select#1", []); ("a.writer.Flush", []);
                ("select#0", []); ("<-a.sink", []); ("a.handle", [42]); ("select#1", []);
                ("select#0", []); ("a.writer.Flush", []);
                ("select#0", []);
                ("select#2", []); ("<-a.sink", []); ("a.handle", [43]);
                ("select#2", []);
                ("a.writer.Flush", []); ("a.file.Close", []); ("shouldFlush.Stop", [])]]
  /\ code_run (ex_o [0; 2; 0;44;9]) 3 =
       Ret [VInt 9; VInt 8;
            VRecs [("time.NewTicker", []); ("select#0", []); ("select#2", []); ("<-a.sink", []); ("a.handle", [44]);
                   ("a.writer.Flush", []); ("a.file.Close", []); ("shouldFlush.Stop", [])]]
  /\ code_run (ex_o [0; 1; 1; 1]) 2 = OutOfFuel.
Proof. repeat split; vm_compute; reflexivity. Qed.

Print Assumptions bridge_phoutrun_shape.
Print Assumptions bridge_phoutRun.
Print Assumptions bridge_phout_final_block.
Print Assumptions bridge_phout_phases.
