(* Bridge: constants of the hand-written models equal the values compiled from the source. *)
From Coq Require Import List NArith ZArith.
From PV Require Import Gen.ConstGen Model.Sample.
Import ListNotations.

Lemma empty_tag_bridge : empty_tag = gen_empty_tag.
Proof. reflexivity. Qed.
Lemma proto_code_error_bridge : proto_code_error = gen_proto_code_error.
Proof. reflexivity. Qed.
