(* Bridge (property C06): what the source says now is what the hand-written model assumes. *)
From Coq Require Import List NArith ZArith Bool.
From PV Require Import Gen.PhoutGen Model.Phout Model.Shutdown Proofs.ShutdownProofs.
Import ListNotations.
Local Open Scope N_scope.

(* the iota block of core/aggregator/netsample/sample.go gives the documented column order *)
Lemma phout_keys_bridge :
  [gen_key_rtt_micro; gen_key_connect_micro; gen_key_send_micro; gen_key_latency_micro; gen_key_receive_micro;
   gen_key_interval_event_micro; gen_key_request_bytes; gen_key_response_bytes; gen_key_errno; gen_key_proto_code]
  = [0; 1; 2; 3; 4; 5; 6; 7; 8; 9] /\ gen_fields_num = 10.
Proof. split; reflexivity. Qed.

(* cli.awaitPandoraTermination, signal branch: pandora.Wait() is called between receiving
   Run's result and log.Fatal (read from cli/cli.go by the translator). *)
Lemma cli_waits_bridge : cli_waits = true.
Proof. reflexivity. Qed.

(* failed-run branch: pandora.Wait() before the final log.Fatal; the time budgets are the
   documented 3 s (failed run, SIGTERM) and 30 s (SIGINT), as time.Duration values in ns *)
Lemma cli_failed_waits_bridge : cli_failed_waits = true.
Proof. reflexivity. Qed.

Lemma cli_timeouts_bridge :
  gen_cli_await_timeout_ns = await_timeout_ns /\ gen_cli_sigterm_timeout_ns = sigterm_timeout_ns
  /\ gen_cli_sigint_timeout_ns = sigint_timeout_ns.
Proof. repeat split; reflexivity. Qed.

(* engine.go: runCancel() (the aggregator's context) is called in checkAllInstancesAreFinished
   and nowhere else - the only place the pool model sets run_cancelled without an outside cancel *)
Lemma run_cancel_bridge : gen_run_cancel_only_in_check = true.
Proof. reflexivity. Qed.

Lemma signal_flush_now : forall pools h s r,
  crun cli_waits cli_failed_waits (proc_init pools) h = Some s -> exited s = Some r -> orderly r = true ->
  all_true (aggr_closed s) = true.
Proof. rewrite cli_waits_bridge, cli_failed_waits_bridge. exact signal_flush_waiting. Qed.
