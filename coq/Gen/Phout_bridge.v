(* Bridge (property C06): what the source says now is what the hand-written model assumes. *)
From Coq Require Import List NArith Bool.
From PV Require Import Gen.PhoutGen Model.Phout Model.Shutdown Proofs.ShutdownProofs.
Import ListNotations.
Local Open Scope N_scope.

(* the iota block of core/aggregator/netsample/sample.go gives the documented column order *)
Lemma phout_keys_bridge :
  [gen_key_rtt_micro; gen_key_connect_micro; gen_key_send_micro; gen_key_latency_micro; gen_key_receive_micro;
   gen_key_interval_event_micro; gen_key_request_bytes; gen_key_response_bytes; gen_key_errno; gen_key_proto_code]
  = [0; 1; 2; 3; 4; 5; 6; 7; 8; 9] /\ gen_fields_num = 10.
Proof. split; reflexivity. Qed.

(* cli.awaitPandoraTermination, signal branch: pandora.Wait() is called between receiving
   Run's result and log.Fatal (read from cli/cli.go by the translator). *)
Lemma cli_waits_bridge : cli_waits = true.
Proof. reflexivity. Qed.

Lemma signal_flush_now : forall pools h s r,
  crun cli_waits (proc_init pools) h = Some s -> exited s = Some r -> orderly r = true ->
  all_true (aggr_closed s) = true.
Proof. rewrite cli_waits_bridge. exact signal_flush_waiting. Qed.
