(* Bridge of the `redirclient` translator, property C19: which redirect policy the clients of the http-family guns have.
   harness/cmd/translate redirclient re-reads components/guns/http and components/guns/http_scenario on every run into
   Gen/RedirClientGen.v: every net/http Client literal with the fields it sets, and every assignment to a field named
   CheckRedirect.  The lemmas say: every such client leaves the policy to net/http's default, the constructor the guns
   use for `redirect: true` is among them, and therefore (Proofs/RobustRedirectProofs.v) a Do of any of them comes
   back after at most 10 requests whatever graph of redirects the target answers with.  If the source drifts (a
   client with its own CheckRedirect) they no longer check: the model knows nothing about that policy. *)
From Coq Require Import String.
From Coq Require Import List Bool ZArith.
From PV Require Import Model.Robust Model.RobustRedirect Proofs.RobustRedirectProofs Gen.RedirClientGen.
Import ListNotations.
Local Open Scope list_scope.

Definition policy_is_default (p : policy) : bool := match p with PolicyDefault => true | PolicyCustom => false end.

Theorem bridge_redirect_clients_default_policy_C19 :
  forallb (fun e => policy_is_default (policy_of_fields (snd e))) gen_http_clients = true /\
  gen_checkredirect_assignments = [].
Proof. split; [vm_compute; reflexivity|reflexivity]. Qed.
Print Assumptions bridge_redirect_clients_default_policy_C19.

Theorem bridge_redirect_constructor_present_C19 :
  existsb (fun e => match e with (f, g, _) => String.eqb f "components/guns/http/client.go" && String.eqb g "NewRedirectingClient" end)
          gen_http_clients = true.
Proof. vm_compute. reflexivity. Qed.
Print Assumptions bridge_redirect_constructor_present_C19.

(* every client the guns build, every target graph, every start: Do comes back (no OutOfFuel), with the client contract
   (no error => a response), after at most 10 requests *)
Theorem bridge_redirect_chain_bounded_C19 : forall e, In e gen_http_clients -> forall tgt cur,
  exists d, client_loop (check_of (policy_of_fields (snd e))) tgt client_fuel [] cur = Some d /\
            do_ok d /\ (1 <= length (dr_trace d) <= redirect_limit)%nat.
Proof.
  intros e Hin. apply policy_default_bounded.
  pose proof (proj1 bridge_redirect_clients_default_policy_C19) as H.
  rewrite forallb_forall in H. specialize (H e Hin).
  destruct (policy_of_fields (snd e)); [reflexivity|discriminate].
Qed.
Print Assumptions bridge_redirect_chain_bounded_C19.
