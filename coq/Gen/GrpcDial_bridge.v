(* Bridge (property C20): what was re-read from components/guns/grpc/**.go (Gen/GrpcDialGen.v) is what
   the wire model (Model/GrpcWire.v) assumes about the source. *)
From Coq Require Import List NArith Bool.
From PV Require Import Model.GrpcCall Model.GrpcWire Model.GrpcTime Model.GrpcPool Gen.GrpcDialGen.
Import ListNotations.

(* every dial option of MakeGRPCConnect is one that does not touch calls, so the connection policy
   is grpc-go's default: an answered call is never sent again *)
Lemma dial_options_policy : dial_policy gen_dial_options = Some no_retry.
Proof. vm_compute. reflexivity. Qed.

(* every connection of both guns is dialled by MakeGRPCConnect *)
Lemma dial_single_site : gen_dial_sites = [model_dial_site].
Proof. reflexivity. Qed.

(* InvokeRpc is called in Gun.shoot and Gun.shootStep, without call options *)
Lemma invoke_without_call_options :
  map fst gen_invoke_call_options = model_invoke_sites /\
  forallb (fun x => N.eqb (snd x) 0) gen_invoke_call_options = true.
Proof. split; vm_compute; reflexivity. Qed.

(* the outgoing context of the reflection request is built from Conf.ReflectMetadata, that of an
   entry's call from ammo.Metadata, that of a scenario step from the rendered copy — nothing else *)
Lemma outgoing_md_sources : gen_outgoing_md = model_outgoing_md.
Proof. reflexivity. Qed.

(* WHERE the deadline of a call is created (Model/GrpcTime.v): every context.WithTimeout of the two guns
   starts from context.Background() with the configured `timeout`, one in each function that calls
   InvokeRpc (Gun.shoot, Gun.shootStep) and the dial timeout of MakeGRPCConnect — so every call,
   every scenario step included, gets the whole timeout from the moment it is issued (PerCall) *)
Lemma timeout_sites : gen_timeout_sites = model_timeout_sites.
Proof. reflexivity. Qed.

Lemma deadline_is_per_call :
  deadline_scope gen_timeout_sites (map fst gen_invoke_call_options) = Some PerCall.
Proof. vm_compute. reflexivity. Qed.

(* core/engine/instance.go gives an acquired ammo object back to its provider exactly ONCE: the deferred
   provider.Release of instance.Run and no other (Model/GrpcPool.v: extra = 0, the hypothesis of
   C20_pooled_object_is_the_line) *)
Lemma instance_releases_once : extra_releases gen_instance_releases = Some 0%nat.
Proof. vm_compute. reflexivity. Qed.
