(* Bridge (property C10, round 7): the await loop of core/engine/engine.go cancels the run context (the
   aggregator's) in checkAllInstancesAreFinished and nowhere else (re-read by `translate phout`, shared with
   C06) - in particular not in the "out of ammo" branch: the variant C10_engine_one_sample_per_fired_request
   is about is the one of the source. *)
From Coq Require Import Bool.
From PV Require Import Gen.PhoutGen Model.ShootEngine.

Lemma c10_engine_out_of_ammo_keeps_run : engine_variant gen_run_cancel_only_in_check = false.
Proof. reflexivity. Qed.
