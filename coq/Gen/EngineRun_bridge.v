(* Bridge (property C10, round 7): what `translate awaitrun` re-reads from core/engine/engine.go is what
   Model/ShootEngine.v says of the await loop and the contexts:
   - the "out of ammo" branch of awaitRun calls instanceStartCancel() only (the hypothesis no_run_cancel of
     C10_engine_one_sample_per_fired_request holds of the source), no other arm of the select cancels anything,
     the startRes and runRes arms end in checkAllInstancesAreFinished();
   - checkAllInstancesAreFinished goes on only when isStartFinished() && awaitedInstances >= startedInstances and
     then calls runCancel() ([check_all]); no other function of the file calls runCancel();
   - the aggregator and the provider run under the context runCancel cancels, the start context is its child; the end of
     the shared RPS schedule cancels the instance start (the model's ESchedFin). *)
From Coq Require Import List Bool.
From PV Require Import Gen.AwaitRunGen Model.ShootEngine.
Import ListNotations.

Lemma c10_engine_out_of_ammo_calls : gen_ooa_calls = engine_ooa.
Proof. reflexivity. Qed.

Lemma c10_engine_out_of_ammo_keeps_run : no_run_cancel gen_ooa_calls = true.
Proof. reflexivity. Qed.

Lemma c10_engine_await_loop_is_model :
  gen_await_other_calls = [] /\ gen_start_arm_checks = true /\ gen_run_arm_checks = true /\
  gen_check_guard_is_model = true /\ gen_check_calls = [CcRun] /\ gen_run_cancel_sites_only_check = true.
Proof. repeat split; reflexivity. Qed.

Lemma c10_engine_contexts_are_model :
  gen_aggr_ctx_is_run = true /\ gen_prov_ctx_is_run = true /\ gen_start_ctx_child_of_run = true /\
  gen_sched_fin_cancels_start = true.
Proof. repeat split; reflexivity. Qed.
