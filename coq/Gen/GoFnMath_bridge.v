(* Bridge of the `gofn` translator, property C15: lib/math GCD, GCDM (and LCM) = Model/Scenario.v gcd_go, gcdm_go.
   harness/cmd/translate gofn-math re-reads the Go source on every run into Gen/GoFnMathGen.v (abstract syntax
   of Lib/Imp.v); the lemmas below say that running that syntax (Go integers = unbounded Z, see
   Lib/Imp.v) gives what the hand-written model gives.  If the source drifts (another operand order,
   another comparison, a dropped guard) the lemma about that function no longer checks. *)
From Coq Require Import ZArith NArith List String Bool Lia.
From PV Require Import Model.Scenario Proofs.ScenarioRingProofs.
From PV Require Import Lib.Imp Gen.GoFnMathGen.
Import ListNotations.
Local Open Scope string_scope.
Local Open Scope list_scope.
Local Open Scope Z_scope.

(* lib/math/gcd_lcm.go *)

Lemma find_GCD : find_func "GCD" gen_prog_math = Some gen_GCD.
Proof. reflexivity. Qed.
Lemma find_GCDM : find_func "GCDM" gen_prog_math = Some gen_GCDM.
Proof. reflexivity. Qed.
Lemma find_LCM : find_func "LCM" gen_prog_math = Some gen_LCM.
Proof. reflexivity. Qed.

Definition gcd_loop_stmt : stmt :=
  SFor (EBin OAnd (EBin OGt (EVar "a") (ELit 0)) (EBin OGt (EVar "b") (ELit 0)))
       (SIf (EBin OGe (EVar "a") (EVar "b"))
            (SAssign ["a"] [EBin ORem (EVar "a") (EVar "b")])
            (SAssign ["b"] [EBin ORem (EVar "b") (EVar "a")]))
       SSkip.

(* the loop of GCD follows gcd_loop step by step *)
Lemma gcd_loop_imp : forall f a b v, gcd_loop f a b = Some v ->
  exists fuel a' b',
    exec gen_prog_math no_ext fuel gcd_loop_stmt [("a", VInt a); ("b", VInt b)]
      = SNormal [("a", VInt a'); ("b", VInt b')] /\ v = (if b' <? a' then a' else b').
Proof.
  induction f as [|f IH]; intros a b v H; cbn [gcd_loop] in H.
  - destruct (0 <? a) eqn:Ha, (0 <? b) eqn:Hb; cbn [andb] in H; try discriminate;
      injection H as <-; exists O, a, b; (split; [|reflexivity]);
      unfold gcd_loop_stmt; rewrite exec_eq; imp_eval; rewrite ?Ha, ?Hb; reflexivity.
  - destruct (0 <? a) eqn:Ha, (0 <? b) eqn:Hb; cbn [andb] in H;
      try (injection H as <-; exists O, a, b; (split; [|reflexivity]);
           unfold gcd_loop_stmt; rewrite exec_eq; imp_eval; rewrite ?Ha, ?Hb; reflexivity).
    b2p.
    destruct (b <=? a) eqn:Hab; b2p;
      destruct (IH _ _ _ H) as (fuel & a' & b' & E & Hv);
      exists (S fuel), a', b'; (split; [|exact Hv]);
      unfold gcd_loop_stmt in *;
      (eapply for_unroll; [imp_go; reflexivity|imp_nz|imp_go; reflexivity|imp_go; reflexivity|exact E]).
Qed.

Lemma gcd_go_total a b : exists v, gcd_go a b = Some v.
Proof.
  destruct (0 <? a) eqn:Ha; [destruct (0 <? b) eqn:Hb|].
  - b2p. eexists. apply gcd_go_correct; assumption.
  - eexists. unfold gcd_go. cbn [gcd_loop]. rewrite Ha, Hb. reflexivity.
  - eexists. unfold gcd_go. cbn [gcd_loop]. rewrite Ha. reflexivity.
Qed.

(* the body of GCD, as a callee *)
Lemma gcd_body_imp a b v : gcd_go a b = Some v ->
  exists fuel, exec gen_prog_math no_ext fuel (f_body gen_GCD) [("a", VInt a); ("b", VInt b)] = SRet [VInt v].
Proof.
  intros Hv. destruct (gcd_loop_imp _ _ _ _ Hv) as (fuel & a' & b' & E & Hr).
  exists fuel. unfold gen_GCD. imp_eval. fold gcd_loop_stmt.
  rewrite exec_eq, E. imp_go; subst; reflexivity.
Qed.

(* GCD: for ALL a, b the translated function returns what the model returns *)
Lemma bridge_GCD a b :
  exists fuel v, gcd_go a b = Some v /\ run gen_prog_math no_ext fuel "GCD" [VInt a; VInt b] = Ret [VInt v].
Proof.
  destruct (gcd_go_total a b) as (v & Hv). destruct (gcd_body_imp a b v Hv) as (fuel & E).
  exists fuel, v. split; [exact Hv|]. unfold run. rewrite find_GCD.
  unfold gen_GCD in *. cbn [f_body f_params] in *. imp_eval. rewrite E. reflexivity.
Qed.

(* ---- GCDM (recursive, on the slice weights[:l-1]) ---- *)
Lemma index_last2 pre y z :
  index (pre ++ [y; z]) (Z.of_nat (List.length (pre ++ [y; z])) - 2) = Ok (VInt y).
Proof.
  replace (Z.of_nat (List.length (pre ++ [y; z])) - 2) with (Z.of_nat (List.length pre))
    by (rewrite app_length; cbn [List.length]; lia).
  apply index_app_mid.
Qed.

Lemma index_last1 pre y z :
  index (pre ++ [y; z]) (Z.of_nat (List.length (pre ++ [y; z])) - 1) = Ok (VInt z).
Proof.
  replace (Z.of_nat (List.length (pre ++ [y; z])) - 1) with (Z.of_nat (List.length (pre ++ [y])))
    by (rewrite !app_length; cbn [List.length]; lia).
  change (pre ++ [y; z]) with (pre ++ [y] ++ [z]). rewrite app_assoc. apply index_app_mid.
Qed.

Lemma slice_init pre y z :
  slice (pre ++ [y; z]) 0 (Z.of_nat (List.length (pre ++ [y; z])) - 1) = Ok (VArr (pre ++ [y])).
Proof.
  replace (Z.of_nat (List.length (pre ++ [y; z])) - 1) with (Z.of_nat (List.length (pre ++ [y])))
    by (rewrite !app_length; cbn [List.length]; lia).
  change (pre ++ [y; z]) with (pre ++ [y] ++ [z]). rewrite app_assoc. apply slice_app_prefix.
Qed.

Lemma gcdm_body_imp : forall rw v, gcdm_rev rw = Some v ->
  exists fuel, exec gen_prog_math no_ext fuel (f_body gen_GCDM) [("weights", VArr (rev rw))] = SRet [VInt v].
Proof.
  induction rw as [|z rw IH]; intros v H.
  - injection H as <-. exists O. unfold gen_GCDM. cbn [rev f_body]. imp_go. reflexivity.
  - destruct rw as [|y rest'].
    + injection H as <-. exists O. unfold gen_GCDM. cbn [rev app f_body]. imp_go. reflexivity.
    + rewrite gcdm_rev_eq in H.
      destruct (gcd_go y z) as [res|] eqn:Eg; [|discriminate].
      destruct (gcd_body_imp y z res Eg) as (f1 & E1).
      assert (Hrev : rev (z :: y :: rest') = rev rest' ++ [y; z]).
      { cbn [rev]. rewrite <- app_assoc. reflexivity. }
      rewrite Hrev. set (pre := rev rest') in *.
      assert (Hlen : Z.of_nat (List.length (pre ++ [y; z])) = Z.of_nat (List.length pre) + 2).
      { rewrite app_length. cbn [List.length]. lia. }
      destruct rest' as [|x rest''].
      * (* l == 2 *)
        injection H as <-. exists (S f1). unfold gen_GCDM. cbn [f_body].
        subst pre. cbn [rev app] in *.
        imp_go.
        erewrite call_ret; [|imp_eval; reflexivity|apply find_GCD|reflexivity|
                            apply (exec_mono_eq _ _ f1); [exact E1|discriminate|lia]].
        imp_go. reflexivity.
      * destruct (gcdm_rev (y :: x :: rest'')) as [g|] eqn:Em; [|discriminate].
        destruct (IH g eq_refl) as (f2 & E2).
        destruct (gcd_body_imp g res v H) as (f3 & E3).
        assert (Hpre : rev (y :: x :: rest'') = pre ++ [y]) by reflexivity.
        rewrite Hpre in E2.
        assert (Hl : 1 <= Z.of_nat (List.length pre)).
        { subst pre. cbn [rev]. rewrite app_length. cbn [List.length]. lia. }
        set (F := Nat.max f1 (Nat.max f2 f3)).
        exists (S F). unfold gen_GCDM. cbn [f_body].
        imp_go.
        erewrite call_ret; [|imp_eval; rewrite index_last2, index_last1; reflexivity|apply find_GCD|reflexivity|
                            apply (exec_mono_eq _ _ f1); [exact E1|discriminate|subst F; lia]].
        imp_go.
        erewrite call_ret; [|imp_eval; rewrite slice_init; reflexivity|apply find_GCDM|reflexivity|
                            apply (exec_mono_eq _ _ f2); [exact E2|discriminate|subst F; lia]].
        imp_go.
        erewrite call_ret; [|imp_eval; reflexivity|apply find_GCD|reflexivity|
                            apply (exec_mono_eq _ _ f3); [exact E3|discriminate|subst F; lia]].
        imp_go. reflexivity.
Qed.

Lemma gcdm_rev_total rw : exists v, gcdm_rev rw = Some v.
Proof.
  induction rw as [|z rw IH]; [eexists; reflexivity|].
  destruct rw as [|y rest']; [eexists; reflexivity|].
  rewrite gcdm_rev_eq. destruct (gcd_go_total y z) as (res & ->).
  destruct rest' as [|x r]; [eexists; reflexivity|].
  destruct IH as (g & ->). apply gcd_go_total.
Qed.

(* GCDM: for ALL weight lists the translated function returns what the model returns *)
Lemma bridge_GCDM ws :
  exists fuel v, gcdm_go ws = Some v /\ run gen_prog_math no_ext fuel "GCDM" [VArr ws] = Ret [VInt v].
Proof.
  unfold gcdm_go. destruct (gcdm_rev_total (rev ws)) as (v & Hv).
  destruct (gcdm_body_imp _ _ Hv) as (fuel & E). rewrite rev_involutive in E.
  exists fuel, v. split; [exact Hv|]. unfold run. rewrite find_GCDM.
  unfold gen_GCDM in *. cbn [f_body f_params] in *. imp_eval. rewrite E. reflexivity.
Qed.

(* LCM has no model (pandora does not call it): (a*b)/GCD(a,b), dividing by zero when GCD = 0 *)
Lemma bridge_LCM a b :
  exists fuel g, gcd_go a b = Some g /\
    run gen_prog_math no_ext fuel "LCM" [VInt a; VInt b] = (if g =? 0 then Panic else Ret [VInt (Z.quot (a * b) g)]).
Proof.
  destruct (gcd_go_total a b) as (g & Hg). destruct (gcd_body_imp a b g Hg) as (fuel & E).
  exists (S fuel), g. split; [exact Hg|]. unfold run. rewrite find_LCM.
  unfold gen_LCM. cbn [f_body f_params]. imp_go;
  (erewrite call_ret; [|imp_eval; reflexivity|apply find_GCD|reflexivity|exact E]);
  imp_go; reflexivity.
Qed.

Print Assumptions bridge_GCD.
Print Assumptions bridge_GCDM.
Print Assumptions bridge_LCM.
