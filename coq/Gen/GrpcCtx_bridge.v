(* Bridge of the `grpcctx` translator, property C19: with which context the gRPC guns make their calls.
   harness/cmd/translate grpcctx re-reads components/guns/grpc/** on every run into Gen/GrpcCtxGen.v: the context
   argument of every `InvokeRpc` as an expression of Model/RobustGrpcTime.v (resolved through the assignments of the
   function), the duration of the WithTimeout on its spine, how that duration is derived, and the `defaultTimeout`
   constants.  The lemmas say: every call is made with a context that has a WithTimeout on its spine, whose duration
   is `effective_timeout` of the configured value (the configured one unless zero, else the 15 s default); therefore
   (Proofs/RobustGrpcTimeProofs.v) a shot of either gun returns within that time whatever the target does, silence
   included.  If the source drifts (the call made with the instance context, Background, or anything the translator
   cannot resolve) they no longer check. *)
From Coq Require Import String.
From Coq Require Import List Bool NArith ZArith.
From PV Require Import Model.Robust Model.RobustGrpcTime Proofs.RobustGrpcTimeProofs Gen.GrpcCtxGen.
Import ListNotations.
Local Open Scope list_scope.

Definition ctx_of (e : string * string * ctx_expr * string) : ctx_expr := snd (fst e).

Theorem bridge_grpc_calls_have_deadline_C19 :
  forallb (fun e => has_timeout (ctx_of e)) gen_invoke_ctx = true.
Proof. vm_compute. reflexivity. Qed.
Print Assumptions bridge_grpc_calls_have_deadline_C19.

(* the plain gun's shoot and the scenario gun's shootStep are among the translated calls, with exactly the model's context *)
Theorem bridge_grpc_shoot_ctx_is_model_C19 :
  map (fun e => (snd (fst (fst e)), ctx_of e)) gen_invoke_ctx = [("shoot"%string, code_ctx); ("shootStep"%string, code_ctx)].
Proof. vm_compute. reflexivity. Qed.
Print Assumptions bridge_grpc_shoot_ctx_is_model_C19.

(* the duration is the variable `timeout`, initialised with defaultTimeout and replaced by the configured value when that
   is not zero - `effective_timeout` - and defaultTimeout is the model's 15 s *)
Theorem bridge_grpc_timeout_is_effective_C19 :
  forallb (fun e => String.eqb (snd e) "timeout") gen_invoke_ctx = true /\
  forallb (fun d => match snd d with
                    | [i; c; t] => String.eqb i "defaultTimeout" && String.eqb c (t ++ " != 0")
                                   && (String.eqb t "g.Conf.Timeout" || String.eqb t "g.gun.Conf.Timeout")
                    | _ => false end) gen_timeout_derivation = true /\
  length gen_timeout_derivation = length gen_invoke_ctx /\
  forallb (fun c => N.eqb (snd c) default_timeout) gen_default_timeout_ms = true /\
  map fst gen_default_timeout_ms = ["components/guns/grpc/core.go"%string; "components/guns/grpc/scenario/core.go"%string].
Proof. vm_compute. repeat split. Qed.
Print Assumptions bridge_grpc_timeout_is_effective_C19.

(* every translated call, every configured timeout, every call incl. one met with silence for ever: the shot returns
   within the effective timeout *)
Theorem bridge_grpc_shots_return_C19 : forall e, In e gen_invoke_ctx -> forall conv conf c,
  exists t s, grpc_shoot_timed conv (ctx_of e) conf c = TsReturned t s /\ (t <= effective_timeout conf)%N.
Proof.
  intros e Hin conv conf c. apply shot_with_deadline_returns.
  pose proof bridge_grpc_calls_have_deadline_C19 as H. rewrite forallb_forall in H. exact (H e Hin).
Qed.
Print Assumptions bridge_grpc_shots_return_C19.
