(* Bridge of harness/cmd/trC11 (property C11): the synchronisation skeleton of
   core/schedule/unlilmited.go - which shared accesses and clock readings Next / Start / Left make, in
   which order, which of them inside s.startOnce.Do - re-read from the source on every run into
   Gen/SharedSchedGen.v, IS the program [unl_progs] that Properties/C11_sched.v is about; finish is an
   atomic time initialised by the constructor, start_sync.go's MarkStarted is the swap-and-panic and
   IsStarted the atomic load the model takes them for.  If the source drifts (the started flag
   published before the finish time is stored, an access moved out of the Once, a fast path around
   it) this lemma no longer checks. *)
From Coq Require Import List.
From PV Require Import Model.SharedSched Gen.SharedSchedGen.
Import ListNotations.

Lemma bridge_unl_shared_sync :
  {| p_next := gen_unl_next; p_start := gen_unl_start; p_left := gen_unl_left |} = unl_progs /\
  gen_unl_fields_ok = true /\ gen_unl_markstarted_swap_panics = true /\ gen_unl_isstarted_is_load = true.
Proof. repeat split; reflexivity. Qed.
Print Assumptions bridge_unl_shared_sync.
