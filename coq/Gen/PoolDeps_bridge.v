(* Bridge: the boolean expressions of Model/WaiterPool.v and Model/Waiter.v through which
   discard_overflow reaches the fire/discard branch are the ones re-read from the source
   (Gen/PoolDepsGen.v, translate pooldeps: core/engine/engine.go startInstances /
   buildNewInstanceSchedule, core/engine/instance.go Run). *)
From Coq Require Import Bool.
From PV Require Import Gen.PoolDepsGen Model.Waiter Model.WaiterPool Model.ReportQueue.

(* every instance runs with the configured flag -- with its own schedule or the shared one *)
Lemma instance_discard_bridge : forall d r,
  gen_instance_discard d r = instance_discard {| p_discard := d; p_per_instance := r |}.
Proof. intros [|] [|]; reflexivity. Qed.

(* one schedule per instance exactly when rps-per-instance is set *)
Lemma schedules_built_bridge : forall d r n,
  (if gen_own_schedule_cond d r then n else 1) = schedules_built {| p_discard := d; p_per_instance := r |} n.
Proof. intros [|] [|] n; reflexivity. Qed.

(* instance.Run fires exactly when the model's decision is Fire, and otherwise reports the discarded sample *)
Lemma fire_cond_bridge : forall d slow,
  decide d slow = if gen_fire_cond d slow then Fire else Discard.
Proof. intros [|] [|]; reflexivity. Qed.

Lemma else_reports_discarded_bridge : gen_else_reports_discarded = true.
Proof. reflexivity. Qed.

(* the phout aggregator's Report is the blocking send of Model/ReportQueue.v, and its Run drains
   the channel when the pool is done (core/aggregator/netsample/phout.go) *)
Lemma phout_report_bridge : report_variant gen_phout_report_plain_send = qblocking.
Proof. reflexivity. Qed.

Lemma phout_run_drains_bridge : gen_phout_run_drains = true.
Proof. reflexivity. Qed.
