(* Bridge of the `gofn` translator, property C05: core/engine/engine.go runNewInstance (the life of every instance but
   the first: create, run, close).  harness/cmd/translate gofn-runinst re-reads it on every run (traced target: see
   Gen/GoFnInstance_bridge.v / design/GOFN.md): newInstance, instance.Run and instance.Close are collaborator calls
   answered per call by an arbitrary oracle; `defer instance.Close()` is placed before every later return.

   Proved for EVERY oracle (creation result, handle of the created instance, result of Run) and every fuel:
     bridge_runNewInstance          creation fails  -> the calls are [newInstance id], the creation error is returned as is,
                                    nothing is run, nothing is closed;
                                    creation succeeds -> the calls are exactly [newInstance id; instance.Run h; instance.Close h]
                                    (h the created instance) and the result is what Run returned - whatever Run returned
     bridge_runNewInstance_closed_once   an instance that was created is closed exactly once, after its Run
   If the source drifts (an early return between creation and the defer, Close before Run, a swallowed creation
   error) the lemma no longer checks. *)
From Coq Require Import ZArith NArith List String Bool Lia.
From PV Require Import Lib.Imp Lib.ImpStep Gen.GoFnRunInstGen.
Import ListNotations.
Local Open Scope string_scope.
Local Open Scope list_scope.
Local Open Scope Z_scope.

Lemma find_runNewInstance : find_func "runNewInstance" gen_prog_runinst = Some gen_runNewInstance.
Proof. reflexivity. Qed.

Lemma bridge_runinst_shape :
  gen_runNewInstance_returns = ["result0"; "$n"; "$trace"] /\ f_params gen_runNewInstance = ["poolID"; "id"].
Proof. split; reflexivity. Qed.

Section Bridge.
  Variable cerr : Z.       (* error of newInstance (0 = nil) *)
  Variable h : Z.          (* the created instance *)
  Variable rerr : Z.       (* what instance.Run returns *)

  (* the oracle: call number 0 is newInstance, 1 is Run, 2 is Close *)
  Definition rext (f : string) (args : list val) : option (list val) :=
    if String.eqb f "newInstance" then Some [VInt h; VInt cerr]
    else if String.eqb f "instance.Run" then Some [VInt rerr]
    else if String.eqb f "instance.Close" then Some []
    else None.

  Definition rrun (fuel : nat) (poolID : list Z) (id : Z) : outcome :=
    run gen_prog_runinst rext fuel "runNewInstance" [VArr poolID; VInt id].

  Definition expected (id : Z) : outcome :=
    if cerr =? 0
    then Ret [VInt rerr; VInt 3; VRecs [("newInstance", [id]); ("instance.Run", [h]); ("instance.Close", [h])]]
    else Ret [VInt cerr; VInt 1; VRecs [("newInstance", [id])]].
End Bridge.

Ltac sx_ext ::= cbn [rext String.eqb Ascii.eqb Bool.eqb app].

Lemma bridge_runNewInstance cerr h rerr fuel poolID id :
  rrun cerr h rerr fuel poolID id = expected cerr h rerr id.
Proof.
  unfold rrun, expected, run. rewrite find_runNewInstance. unfold gen_runNewInstance; cbn [f_params f_body bind].
  destruct (cerr =? 0) eqn:E.
  - match goal with
    | |- sig_outcome (exec ?p ?x ?fu ?s ?en) = _ =>
        let He := fresh in eassert (He : exec p x fu s en = _); [sx|rewrite He; clear He]
    end.
    reflexivity.
  - match goal with
    | |- sig_outcome (exec ?p ?x ?fu ?s ?en) = _ =>
        let He := fresh in eassert (He : exec p x fu s en = _); [sx|rewrite He; clear He]
    end.
    reflexivity.
Qed.

Definition count_calls (name : string) (tr : list (string * list Z)) : nat :=
  List.length (filter (fun c => String.eqb (fst c) name) tr).

(* an instance that was created is closed exactly once, and after its Run; one that was not created is neither run nor closed *)
Lemma bridge_runNewInstance_closed_once cerr h rerr fuel poolID id e n tr :
  rrun cerr h rerr fuel poolID id = Ret [VInt e; VInt n; VRecs tr] ->
  (cerr = 0 -> count_calls "instance.Close" tr = 1%nat /\ count_calls "instance.Run" tr = 1%nat /\
               e = rerr /\ tr = [("newInstance", [id]); ("instance.Run", [h]); ("instance.Close", [h])]) /\
  (cerr <> 0 -> count_calls "instance.Close" tr = 0%nat /\ count_calls "instance.Run" tr = 0%nat /\ e = cerr).
Proof.
  rewrite bridge_runNewInstance. unfold expected.
  destruct (cerr =? 0) eqn:E; intros H; inversion H; subst; split; intros Hc.
  - repeat split; reflexivity.
  - apply Z.eqb_eq in E. contradiction.
  - apply Z.eqb_neq in E. contradiction.
  - repeat split; reflexivity.
Qed.

Example bridge_runNewInstance_example :
  rrun 0 7 5 0 [112; 48] 3 = Ret [VInt 5; VInt 3; VRecs [("newInstance", [3]); ("instance.Run", [7]); ("instance.Close", [7])]]
  /\ rrun 9 0 5 0 [112; 48] 3 = Ret [VInt 9; VInt 1; VRecs [("newInstance", [3])]].
Proof. split; vm_compute; reflexivity. Qed.

Print Assumptions bridge_runinst_shape.
Print Assumptions bridge_runNewInstance.
Print Assumptions bridge_runNewInstance_closed_once.
