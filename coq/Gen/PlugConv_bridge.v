(* Bridge (property C05): convertFactoryOutParams and the closure of pluginConstructor.NewFactory as re-read from
   core/plugin/constructor.go by `translate plugconv` (Gen/PlugConvGen.v) are the ones the model
   (Model/PlugFactory.v) and its theorems are about. *)
From Coq Require Import List Bool.
From PV Require Import Model.PlugFactory Proofs.PlugFactoryProofs Gen.PlugConvGen.
Import ListNotations.

Theorem plug_conv_source_is_model : gen_cvprog = tree_cvprog /\ gen_factory_closure_ok = true.
Proof. split; reflexivity. Qed.
Print Assumptions plug_conv_source_is_model.

(* hence the factory built from the source's statements gives its caller the constructor's error *)
Theorem plug_conv_source_carries_the_creation_error : forall numOut direct conf out e,
  valid_call numOut direct out -> creation_error (eff_conf direct conf) out = Some e ->
  factory_call gen_cvprog numOut direct conf out = if Nat.eqb numOut 2 then FrErr e else FrPanic e.
Proof. exact creation_error_never_swallowed. Qed.
Print Assumptions plug_conv_source_carries_the_creation_error.
