(* Bridge of the `gofn` translator, properties C13 and C19: lib/mp calcIndex =
   Model/AmmoRobust.v calc_index (C13) = Model/Robust.v calc_index (C19).
   harness/cmd/translate gofn-mp re-reads the Go source on every run into Gen/GoFnMpGen.v (abstract
   syntax of Lib/Imp.v); the lemmas below say that running that syntax (Go integers = unbounded Z, see
   Lib/Imp.v) gives what the hand-written models give.  If the source drifts (another operand order,
   another comparison, a dropped guard) the lemma about that function no longer checks. *)
From Coq Require Import ZArith NArith List String Bool Lia.
From PV Require Import Lib.AmmoBytes Lib.AmmoDecimal.
From PV Require Model.AmmoRobust Model.Robust.
From PV Require Import Lib.Imp Gen.GoFnMpGen.
Import ListNotations.
Local Open Scope string_scope.
Local Open Scope list_scope.
Local Open Scope Z_scope.

Lemma list_eqb_zs a b : list_eqb (zs a) (zs b) = AmmoBytes.beq a b.
Proof.
  revert b; induction a as [|x a IH]; intros [|y b]; cbn [zs map list_eqb AmmoBytes.beq]; try reflexivity.
  fold (zs a) (zs b). rewrite IH. f_equal.
  destruct (N.eqb_spec x y) as [->|Hne]; [apply Z.eqb_refl|].
  apply Z.eqb_neq. intros E. apply Hne. apply N2Z.inj. exact E.
Qed.

Lemma find_calcIndex : find_func "calcIndex" gen_prog_mp = Some gen_calcIndex.
Proof. reflexivity. Qed.

(* the externals of calcIndex: strconv.Atoi answers [at_] (on an error Go returns some value
   [junk] together with a non-nil error), iter.Rand(n) is rand.Intn(n): panics for n <= 0 and
   otherwise returns [rnd n], iter.Next returns [nxt] *)
Definition mp_ext (at_ : option Z) (junk nxt : Z) (rnd : Z -> Z) : string -> list val -> option (list val) :=
  fun f args =>
    if String.eqb f "strconv.Atoi"
    then Some (match at_ with Some i => [VInt i; VInt 0] | None => [VInt junk; VInt 1] end)
    else if String.eqb f "iter.Rand"
    then match args with [VInt l] => if l <=? 0 then None else Some [VInt (rnd l)] | _ => None end
    else if String.eqb f "iter.Next" then Some [VInt nxt]
    else None.

Definition next_z : list Z := [110; 101; 120; 116].
Definition rand_z : list Z := [114; 97; 110; 100].
Definition last_z : list Z := [108; 97; 115; 116].

(* what the translated function computes, as a decision tree over: is the text "next" / "rand" /
   "last", what Atoi says, the length, the iterator's answers (one symbolic execution; the two
   models are then compared with this tree by plain case analysis) *)
Definition calc_tree (n r l : bool) (at_ : option Z) (len nxt : Z) (rnd : Z -> Z) : outcome :=
  if len =? 0 then Ret [VInt 0; VInt 1]
  else if negb (match at_ with Some _ => true | None => false end) && negb n && negb r && negb l
  then Ret [VInt 0; VInt 1]
  else if negb n && negb r && negb l then
    let i := match at_ with Some i => i | None => 0 end in
    if (0 <=? i) && (i <? len) then Ret [VInt i; VInt 0]
    else let m := Z.rem i len in Ret [VInt (if m <? 0 then m + len else m); VInt 0]
  else if l then Ret [VInt (len - 1); VInt 0]
  else if r then (if len <=? 0 then Panic else Ret [VInt (rnd len); VInt 0])
  else if len <=? nxt then Ret [VInt (Z.rem nxt len); VInt 0]
  else Ret [VInt nxt; VInt 0].

Lemma calcIndex_tree s at_ seg len nxt rnd junk :
  run gen_prog_mp (mp_ext at_ junk nxt rnd) 0 "calcIndex" [VArr s; VArr seg; VInt len]
  = calc_tree (list_eqb s next_z) (list_eqb s rand_z) (list_eqb s last_z) at_ len nxt rnd.
Proof.
  unfold run. rewrite find_calcIndex. unfold gen_calcIndex, calc_tree, mp_ext. cbn [f_body f_params].
  fold next_z rand_z last_z.
  destruct at_ as [i|]; imp_run; cbn [negb andb]; try reflexivity; try lia.
Qed.

Lemma calc_tree_not_fuel n r l at_ len nxt rnd : calc_tree n r l at_ len nxt rnd <> OutOfFuel.
Proof.
  unfold calc_tree.
  repeat match goal with |- context [if ?b then _ else _] => destruct b end; discriminate.
Qed.

Lemma calcIndex_tree_fuel s at_ seg len nxt rnd junk fuel :
  run gen_prog_mp (mp_ext at_ junk nxt rnd) fuel "calcIndex" [VArr s; VArr seg; VInt len]
  = calc_tree (list_eqb s next_z) (list_eqb s rand_z) (list_eqb s last_z) at_ len nxt rnd.
Proof.
  rewrite (run_mono _ _ 0 fuel); [apply calcIndex_tree|lia|].
  rewrite calcIndex_tree. apply calc_tree_not_fuel.
Qed.

(* ---- C13: Model/AmmoRobust.v ---- *)
Definition enc_rres (r : AmmoRobust.rres Z) : outcome :=
  match r with
  | AmmoRobust.VOk i => Ret [VInt i; VInt 0]       (* index, nil *)
  | AmmoRobust.VErr => Ret [VInt 0; VInt 1]        (* 0, error *)
  | AmmoRobust.VPanic => Panic
  end.

(* for ALL index texts, lengths, counter and random values *)
Lemma bridge_calcIndex idx seg len nxt rnd junk fuel :
  run gen_prog_mp (mp_ext (AmmoDecimal.atoi idx) junk nxt (fun _ => rnd)) fuel "calcIndex"
      [VArr (zs idx); VArr seg; VInt len]
  = enc_rres (AmmoRobust.calc_index idx len nxt rnd).
Proof.
  rewrite calcIndex_tree_fuel.
  change next_z with (zs AmmoRobust.NEXT). change rand_z with (zs AmmoRobust.RAND).
  change last_z with (zs AmmoRobust.LAST). rewrite !list_eqb_zs.
  unfold calc_tree, AmmoRobust.calc_index, enc_rres.
  destruct (AmmoBytes.beq idx AmmoRobust.NEXT), (AmmoBytes.beq idx AmmoRobust.RAND),
           (AmmoBytes.beq idx AmmoRobust.LAST), (AmmoDecimal.atoi idx) as [i|];
    cbn [negb andb orb];
    repeat match goal with |- context [if ?b then _ else _] => destruct b eqn:?; b2p end;
    try reflexivity; lia.
Qed.

(* ---- C19: Model/Robust.v abstracts the index text to an [index_spec]; [repr ix s at_] says which
   texts an index_spec stands for and what strconv.Atoi answers on them ---- *)
Definition not_keyword (s : list Z) : Prop :=
  list_eqb s next_z = false /\ list_eqb s rand_z = false /\ list_eqb s last_z = false.

Definition repr (ix : Robust.index_spec) (s : list Z) (at_ : option Z) : Prop :=
  match ix with
  | Robust.INum i => not_keyword s /\ at_ = Some i
  | Robust.IBad => not_keyword s /\ at_ = None
  | Robust.INext => s = next_z /\ at_ = None
  | Robust.IRand => s = rand_z /\ at_ = None
  | Robust.ILast => s = last_z /\ at_ = None
  end.

Definition enc_outcome (r : Robust.outcome Z) : outcome :=
  match r with
  | Robust.Done i => Ret [VInt i; VInt 0]
  | Robust.Failed => Ret [VInt 0; VInt 1]
  | Robust.Panicked => Panic
  end.

Lemma bridge_calcIndex_C19 ix s at_ seg len counter rnd junk fuel :
  repr ix s at_ ->
  run gen_prog_mp (mp_ext at_ junk counter (fun n => rnd mod n)) fuel "calcIndex" [VArr s; VArr seg; VInt len]
  = enc_outcome (Robust.calc_index ix len counter rnd).
Proof.
  intros Hr. rewrite calcIndex_tree_fuel.
  unfold calc_tree, Robust.calc_index, Robust.go_rem, Robust.go_intn, enc_outcome.
  rewrite ?Z.geb_leb. unfold repr, not_keyword in Hr.
  destruct ix; destruct Hr as (Hs & ->);
    try (destruct Hs as (-> & -> & ->)); try subst s;
    try change (list_eqb next_z next_z) with true; try change (list_eqb next_z rand_z) with false;
    try change (list_eqb next_z last_z) with false; try change (list_eqb rand_z next_z) with false;
    try change (list_eqb rand_z rand_z) with true; try change (list_eqb rand_z last_z) with false;
    try change (list_eqb last_z next_z) with false; try change (list_eqb last_z rand_z) with false;
    try change (list_eqb last_z last_z) with true;
    cbn [negb andb orb];
    repeat match goal with |- context [if ?b then _ else _] => destruct b eqn:?; b2p end;
    try reflexivity; lia.
Qed.

Print Assumptions bridge_calcIndex.
Print Assumptions bridge_calcIndex_C19.
