(* Bridge of the `lockflow` translator, property C19: the functions on the dial path that guard shared state with a
   mutex (lib/netutil SimpleDNSCache.Get / Add - the process-wide DNS cache behind every new connection of the
   http-family guns whose target could not be pre-resolved).
   harness/cmd/translate lockflow re-reads their control-flow skeleton from /repo on every run into
   Gen/LockFlowGen.v (syntax of Model/LockFlow.v).  The lemmas below evaluate the check on it: every way through
   every such function takes and releases the mutex in pairs and leaves it free.  If the source drifts (an early
   return between Lock and Unlock, a second Lock, an Unlock on a path that did not lock) they no longer check. *)
From Coq Require Import List String Bool.
From PV Require Import Model.LockFlow Proofs.LockFlowProofs Gen.LockFlowGen.
Import ListNotations.
Local Open Scope string_scope.

Theorem bridge_lock_funcs_balanced_C19 : forallb (fun f => lf_check (snd f)) gen_lock_funcs = true.
Proof. vm_compute. reflexivity. Qed.
Print Assumptions bridge_lock_funcs_balanced_C19.

(* the statement is about the DNS cache: its two operations are among the translated functions *)
Theorem bridge_dns_cache_ops_present_C19 :
  existsb (fun f => String.eqb (fst (fst f)) "SimpleDNSCache.Get") gen_lock_funcs = true /\
  existsb (fun f => String.eqb (fst (fst f)) "SimpleDNSCache.Add") gen_lock_funcs = true.
Proof. vm_compute. split; reflexivity. Qed.
Print Assumptions bridge_dns_cache_ops_present_C19.

(* one call of one of the translated functions, along any execution of its skeleton *)
Inductive call_trace : list lk_ev -> Prop :=
| CallTrace : forall f p, In f gen_lock_funcs -> exec (snd f) p -> call_trace (lp_trace p).

Lemma call_trace_ok : forall t, call_trace t -> trace_ok HFree t = true.
Proof.
  intros t [f p Hin X]. apply (lf_check_sound (snd f)); [|exact X].
  pose proof bridge_lock_funcs_balanced_C19 as B. rewrite forallb_forall in B. apply B, Hin.
Qed.

(* Any number of goroutines (instances dialling), each making any sequence of calls of the cache operations, under
   any schedule: the process is never killed by an unlock of an unlocked mutex, a finished system leaves the mutex
   free, and while somebody is unfinished somebody can move (no dial waits for the cache for ever); every move uses
   up one event. *)
Theorem bridge_dns_cache_never_blocks_C19 : forall (goroutines : list (list (list lk_ev))) sched,
  Forall (Forall call_trace) goroutines ->
  let st := sys_run sched (rw_free, map (@List.concat lk_ev) goroutines) in
  some_fatal st = false /\
  (all_done st = true -> fst st = rw_free) /\
  (all_done st = false -> exists i st', sys_step i st = Some st' /\ S (total st') = total st).
Proof.
  intros gs sched H. apply lf_no_deadlock.
  apply Forall_forall. intros t Hin. apply in_map_iff in Hin as (calls & <- & Hc).
  rewrite Forall_forall in H. specialize (H _ Hc). apply trace_ok_concat.
  apply Forall_forall. intros c Hcin. rewrite Forall_forall in H. apply call_trace_ok, H, Hcin.
Qed.
Print Assumptions bridge_dns_cache_never_blocks_C19.
