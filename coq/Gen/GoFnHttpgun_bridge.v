(* Bridge of the `gofn` translator, property C10: components/guns/http autotag = Model/Sample.v autotag_go.
   harness/cmd/translate gofn-httpgun re-reads the Go source on every run into Gen/GoFnHttpgunGen.v (abstract syntax
   of Lib/Imp.v); the lemmas below say that running that syntax (Go integers = unbounded Z, see
   Lib/Imp.v) gives what the hand-written model gives.  If the source drifts (another operand order,
   another comparison, a dropped guard) the lemma about that function no longer checks. *)
From Coq Require Import ZArith NArith List String Bool Lia.
From PV Require Import Model.Sample Proofs.SampleProofs.
From PV Require Import Lib.Imp Gen.GoFnHttpgunGen.
Import ListNotations.
Local Open Scope string_scope.
Local Open Scope list_scope.
Local Open Scope Z_scope.

(* components/guns/http/base.go autotag *)

Lemma find_autotag : find_func "autotag" gen_prog_httpgun = Some gen_autotag.
Proof. reflexivity. Qed.

Definition autotag_loop : stmt :=
  SFor (EBin OLt (EVar "ind") (ELen (EVar "path")))
       (SIf (EBin OEq (EIdx (EVar "path") (EVar "ind")) (ELit 47))
            (SSeq (SIf (EBin OEq (EVar "depth") (ELit 0)) SBreak SSkip)
                  (SAssign ["depth"] [EBin OSub (EVar "depth") (ELit 1)]))
            SSkip)
       (SAssign ["ind"] [EBin OAdd (EVar "ind") (ELit 1)]).

Definition autotag_env (d : Z) (P : list Z) (ind : Z) : env :=
  [("depth", VInt d); ("URL.Path", VArr P); ("path", VArr P); ("ind", VInt ind)].

(* the scan follows autotag_go byte by byte: from position |pre| with depth d left, it stops
   at position |pre| + |autotag_go d rest| *)
Lemma autotag_loop_imp : forall rest pre d,
  exists fuel d',
    exec gen_prog_httpgun no_ext fuel autotag_loop
         (autotag_env (Z.of_nat d) (zs (pre ++ rest)) (Z.of_nat (List.length pre)))
    = SNormal (autotag_env d' (zs (pre ++ rest))
                 (Z.of_nat (List.length pre + List.length (autotag_go d rest)))).
Proof.
  induction rest as [|c r IH]; intros pre d.
  - exists O, (Z.of_nat d). unfold autotag_loop, autotag_env. cbn [autotag_go List.length].
    rewrite Nat.add_0_r, app_nil_r. apply for_exit. imp_eval. rewrite zs_length.
    rewrite Z.ltb_irrefl. reflexivity.
  - assert (Hidx : index (zs (pre ++ c :: r)) (Z.of_nat (List.length pre)) = Ok (VInt (Z.of_N c))).
    { rewrite zs_app. cbn [zs map]. rewrite <- (zs_length pre). apply index_app_mid. }
    assert (Hlt : (Z.of_nat (List.length pre) <? Z.of_nat (List.length (zs (pre ++ c :: r)))) = true).
    { apply Z.ltb_lt. rewrite zs_length, app_length. cbn [List.length]. lia. }
    assert (Hpre : pre ++ c :: r = (pre ++ [c]) ++ r) by (rewrite <- app_assoc; reflexivity).
    assert (Hlen : Z.of_nat (List.length pre) + 1 = Z.of_nat (List.length (pre ++ [c]))).
    { rewrite app_length. cbn [List.length]. lia. }
    cbn [autotag_go]. unfold slash.
    destruct (N.eqb_spec c 47) as [->|Hc].
    + destruct d as [|d].
      * (* depth == 0 at a '/': break *)
        exists 1%nat, 0. unfold autotag_loop, autotag_env. cbn [List.length]. rewrite Nat.add_0_r.
        eapply for_break; [imp_eval; rewrite Hlt; reflexivity|discriminate|].
        imp_cbn. rewrite Hidx. imp_cbn. reflexivity.
      * destruct (IH (pre ++ [47%N]) d) as (fuel & d' & E).
        exists (S fuel), d'. unfold autotag_loop, autotag_env in *.
        rewrite Hpre. cbn [List.length].
        replace (List.length pre + S (List.length (autotag_go d r)))%nat
          with (List.length (pre ++ [47%N]) + List.length (autotag_go d r))%nat
          by (rewrite app_length; cbn [List.length]; lia).
        rewrite <- Hpre.
        eapply for_unroll; [imp_eval; rewrite Hlt; reflexivity|discriminate| | |rewrite Hpre; exact E].
        -- imp_cbn. rewrite Hidx. imp_cbn. imp_rw.
           replace (Z.of_nat (S d) =? 0) with false by (symmetry; apply Z.eqb_neq; lia).
           cbn [negb]. reflexivity.
        -- imp_cbn. rewrite <- Hpre. repeat f_equal; lia.
    + destruct (IH (pre ++ [c]) d) as (fuel & d' & E).
      exists (S fuel), d'. unfold autotag_loop, autotag_env in *.
      rewrite Hpre. cbn [List.length].
      replace (List.length pre + S (List.length (autotag_go d r)))%nat
        with (List.length (pre ++ [c]) + List.length (autotag_go d r))%nat
        by (rewrite app_length; cbn [List.length]; lia).
      rewrite <- Hpre.
      eapply for_unroll; [imp_eval; rewrite Hlt; reflexivity|discriminate| | |rewrite Hpre; exact E].
      -- imp_cbn. rewrite Hidx. imp_cbn. imp_rw.
         replace (Z.of_N c =? 47) with false by (symmetry; apply Z.eqb_neq; lia).
         cbn [negb]. reflexivity.
      -- imp_cbn. rewrite <- Hpre. repeat f_equal; lia.
Qed.

(* autotag: for ALL depths >= 0 and ALL paths the translated function returns autotag_go *)
Lemma bridge_autotag depth path :
  exists fuel,
    run gen_prog_httpgun no_ext fuel "autotag" [VInt (Z.of_nat depth); VArr (zs path)]
    = Ret [VArr (zs (autotag_go depth path))].
Proof.
  destruct (autotag_loop_imp path [] depth) as (fuel & d' & E).
  destruct (autotag_prefix depth path) as (rest & Hp).
  exists fuel. unfold run. rewrite find_autotag. unfold gen_autotag. cbn [f_body f_params].
  imp_eval. imp_go. fold autotag_loop.
  cbn [app List.length Nat.add] in E. unfold autotag_env in E. cbn [Z.of_nat] in E.
  rewrite E. imp_go.
  rewrite Hp at 1. rewrite zs_app, <- (zs_length (autotag_go depth path)), slice_app_prefix. reflexivity.
Qed.

(* Beyond the model (which takes depth : nat): for EVERY int depth, also a negative one, and every
   path the scan terminates without panic and returns a prefix of the path.  Proved with the loop
   rule of Lib/Imp.v: invariant 0 <= ind <= len(path), variant len(path) - ind. *)
Lemma index_nth (P : list Z) (k : nat) :
  (k < List.length P)%nat -> index P (Z.of_nat k) = Ok (VInt (nth k P 0)).
Proof.
  intros Hk. unfold index.
  replace ((0 <=? Z.of_nat k) && (Z.of_nat k <? Z.of_nat (List.length P))) with true.
  - rewrite Nat2Z.id. reflexivity.
  - symmetry. apply andb_true_iff. split; [apply Z.leb_le|apply Z.ltb_lt]; lia.
Qed.

Lemma autotag_safe (depth : Z) (P : list Z) :
  exists fuel k, (k <= List.length P)%nat /\
    run gen_prog_httpgun no_ext fuel "autotag" [VInt depth; VArr P] = Ret [VArr (firstn k P)].
Proof.
  set (I := fun en : env => exists d k, en = autotag_env d P (Z.of_nat k) /\ (k <= List.length P)%nat).
  set (m := fun en : env => match lookup "ind" en with
                            | Some (VInt i) => Z.to_nat (Z.of_nat (List.length P) - i)
                            | _ => O end).
  destruct (for_rule gen_prog_httpgun no_ext
              (EBin OLt (EVar "ind") (ELen (EVar "path")))
              (SIf (EBin OEq (EIdx (EVar "path") (EVar "ind")) (ELit 47))
                   (SSeq (SIf (EBin OEq (EVar "depth") (ELit 0)) SBreak SSkip)
                         (SAssign ["depth"] [EBin OSub (EVar "depth") (ELit 1)]))
                   SSkip)
              (SAssign ["ind"] [EBin OAdd (EVar "ind") (ELit 1)])
              I I m) with (en := autotag_env depth P 0) as (fuel & en' & E & (d' & k & -> & Hk)).
  - intros en (d & k & -> & Hk). unfold autotag_env.
    destruct (Nat.eq_dec k (List.length P)) as [->|Hne].
    + left. split; [|exists d, (List.length P); split; [reflexivity|lia]].
      imp_eval. rewrite Z.ltb_irrefl. reflexivity.
    + right. exists 1. split; [|split; [discriminate|]].
      * imp_eval. replace (Z.of_nat k <? Z.of_nat (List.length P)) with true; [reflexivity|].
        symmetry. apply Z.ltb_lt. lia.
      * exists 1%nat. pose proof (index_nth P k ltac:(lia)) as Hidx.
        destruct (nth k P 0 =? 47) eqn:Hc; [destruct (d =? 0) eqn:Hd|].
        -- left. eexists. split.
           ++ imp_cbn. rewrite Hidx. imp_cbn. imp_rw. rewrite Hc, Hd. reflexivity.
           ++ exists d, k. split; [reflexivity|lia].
        -- right. eexists. eexists. split; [left|split; [|split]].
           ++ imp_cbn. rewrite Hidx. imp_cbn. imp_rw. rewrite Hc, Hd. cbn [negb]. reflexivity.
           ++ imp_cbn. reflexivity.
           ++ exists (d - 1), (S k). split; [|lia]. unfold autotag_env. repeat f_equal. lia.
           ++ unfold m. imp_cbn. lia.
        -- right. eexists. eexists. split; [left|split; [|split]].
           ++ imp_cbn. rewrite Hidx. imp_cbn. imp_rw. rewrite Hc. cbn [negb]. reflexivity.
           ++ imp_cbn. reflexivity.
           ++ exists d, (S k). split; [|lia]. unfold autotag_env. repeat f_equal. lia.
           ++ unfold m. imp_cbn. lia.
  - exists depth, O. split; [reflexivity|lia].
  - exists fuel, k. split; [exact Hk|].
    unfold run. rewrite find_autotag. unfold gen_autotag. cbn [f_body f_params].
    imp_eval. imp_go. unfold autotag_env in E. rewrite E. imp_go.
    unfold slice. replace ((0 <=? 0) && (0 <=? Z.of_nat k) && (Z.of_nat k <=? Z.of_nat (List.length P))) with true.
    + rewrite Z.sub_0_r, Nat2Z.id. reflexivity.
    + symmetry. rewrite !andb_true_iff. repeat split; apply Z.leb_le; lia.
Qed.

Print Assumptions bridge_autotag.
Print Assumptions autotag_safe.
