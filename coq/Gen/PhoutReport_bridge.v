(* Bridge (property C10, "each fired request produces exactly one sample"): the Report of the phout
   aggregator re-read from core/aggregator/netsample/phout.go (translate pooldeps, shared with C04) is
   the blocking send C10_one_line_per_request speaks of, and Run drains the channel at the end. *)
From Coq Require Import Bool.
From PV Require Import Gen.PoolDepsGen Model.ReportQueue.

Lemma c10_phout_report_is_blocking_send : report_variant gen_phout_report_plain_send = qblocking.
Proof. reflexivity. Qed.

Lemma c10_phout_run_drains : gen_phout_run_drains = true.
Proof. reflexivity. Qed.
