(* Forces nat, positive, N and Z into every extracted model so that the shared OCaml
   conversion helpers (ocaml/common/conv.ml) always find the datatypes. *)
From Coq Require Import NArith ZArith.
Definition xb_types (a : nat) (p : positive) (b : N) (c : Z) : nat * positive * N * Z := (a, p, b, c).
