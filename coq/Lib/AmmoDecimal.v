(* strconv.Atoi on bytes (64-bit int) and decimal rendering.  Executable definitions only. *)
From Coq Require Import List NArith ZArith Bool.
From PV Require Import Lib.AmmoBytes.
Import ListNotations.

Local Open Scope Z_scope.

Definition max_int : Z := 9223372036854775807.
Definition min_int : Z := -9223372036854775808.

(* digits only, at least one; value accumulated in Z *)
Fixpoint digits_val (acc : Z) (s : bytes) : option Z :=
  match s with
  | [] => Some acc
  | c :: r => if is_digit c then digits_val (10 * acc + (Z.of_N c - 48)) r else None
  end.

(* strconv.Atoi: optional sign, decimal digits, no underscores, range of int64 *)
Definition atoi (s : bytes) : option Z :=
  let '(neg, body) :=
    match s with
    | c :: r => if N.eqb c 45 then (true, r) else if N.eqb c 43 then (false, r) else (false, s)
    | [] => (false, [])
    end in
  match body with
  | [] => None
  | _ =>
      match digits_val 0 body with
      | None => None
      | Some v =>
          let v' := if neg then - v else v in
          if (min_int <=? v') && (v' <=? max_int) then Some v' else None
      end
  end.

(* decimal rendering of a natural number, most significant digit first (fuel = number of
   binary digits + 1 is more than enough) *)
Fixpoint dec_aux (fuel : nat) (n : N) (acc : bytes) : bytes :=
  match fuel with
  | O => acc
  | S f =>
      let d := (48 + N.modulo n 10)%N in
      let q := N.div n 10 in
      if N.eqb q 0 then d :: acc else dec_aux f q (d :: acc)
  end.

Definition dec (n : N) : bytes := dec_aux (S (N.to_nat (N.size n))) n [].
