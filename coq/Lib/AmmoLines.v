(* Line layer of the ammo decoders: bufio.Scanner with ScanLines (uri), and the
   bufio.Reader primitives ReadString('\n') / io.ReadFull (uripost, raw).  Definitions only. *)
From Coq Require Import List NArith ZArith Bool.
From PV Require Import Lib.AmmoBytes.
Import ListNotations.
Local Open Scope N_scope.

Definition nolf (l : bytes) : bool := negb (has LF l).
(* layout blanks: ASCII white space other than LF *)
Definition lblank (b : bytes) : bool := forallb (fun c => asp c && negb (N.eqb c LF)) b.

(* ---------- bufio.Scanner + ScanLines ----------
   Split at LF; an unterminated, non-empty last line is a line; nothing after a final LF.
   (dropCR is applied by the consumer: [drop_cr].)  A line whose content (terminator
   excluded) does not fit the scanner buffer ends the scan with ErrTooLong. *)
Fixpoint scan (acc : bytes) (bs : bytes) : list bytes :=
  match bs with
  | [] => match acc with [] => [] | _ => [frev acc] end
  | b :: r => if N.eqb b LF then frev acc :: scan [] r else scan (b :: acc) r
  end.

Definition lines (bs : bytes) : list bytes := scan [] bs.

(* bufio.MaxScanTokenSize = 64*1024: a token (line + its LF) must fit into the buffer *)
Definition max_token : N := 65536.

Inductive scan_end := SEof | STooLong.

(* the lines delivered before the scanner stops, and why it stopped *)
Fixpoint cap_lines (maxtok : N) (ls : list bytes) : list bytes * scan_end :=
  match ls with
  | [] => ([], SEof)
  | l :: r =>
      if N.ltb (nlen l) maxtok
      then let '(a, e) := cap_lines maxtok r in (l :: a, e)
      else ([], STooLong)
  end.

Definition scan_lines (maxtok : N) (bs : bytes) : list bytes * scan_end :=
  cap_lines maxtok (lines bs).

(* dropCR of bufio.ScanLines: one trailing CR removed *)
Definition drop_cr (l : bytes) : bytes :=
  match frev l with
  | c :: r => if N.eqb c CR then frev r else l
  | [] => l
  end.

(* ---------- bufio.Reader.ReadString('\n') ----------
   (chunk including the LF, rest, true)  or  (everything, [], false) at end of data: Go
   returns the data read so far together with io.EOF. *)
Fixpoint read_string (bs : bytes) : bytes * bytes * bool :=
  match bs with
  | [] => ([], [], false)
  | b :: r =>
      if N.eqb b LF then ([b], r, true)
      else let '(c, rest, ok) := read_string r in (b :: c, rest, ok)
  end.

(* io.ReadFull(reader, buf[0:n]) for n >= 0: Some (buf, rest) or None (short read:
   io.ErrUnexpectedEOF, or io.EOF when nothing could be read) *)
Fixpoint read_full (n : N) (bs : bytes) : option (bytes * bytes) :=
  if N.eqb n 0 then Some ([], bs)
  else match bs with
       | [] => None
       | b :: r => match read_full (N.pred n) r with
                   | Some (buf, rest) => Some (b :: buf, rest)
                   | None => None
                   end
       end.

(* all lines but the last end in LF; the last one ends in LF iff [final_nl] *)
Fixpoint join_lf (ls : list bytes) (final_nl : bool) : bytes :=
  match ls with
  | [] => []
  | [x] => if final_nl then x ++ [LF] else x
  | x :: r => x ++ LF :: join_lf r final_nl
  end.

