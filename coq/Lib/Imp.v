(* IMP: a tiny imperative language for the small integer / byte loops and branchy helpers of
   pandora that several models copied by hand (lib/math GCD..., lib/mp calcIndex, guns/http
   autotag, schedule.NewInstanceStep, coreutil.Waiter).  harness/cmd/translate gofn re-reads the
   Go functions on every run and emits their IMP abstract syntax into Gen/GoFnGen.v;
   Gen/GoFn_bridge.v proves that running that syntax gives what the hand-written model gives.

   Semantics (what is assumed about Go):
   * Go int / int64 / time.Duration / time.Time(ns) are UNBOUNDED Z: no wrap-around is modelled.
   * `/` and `%` truncate toward zero (Z.quot / Z.rem); a zero divisor is the outcome Panic.
   * bool is Z (0 = false, anything else = true; operators yield 0/1); && and || short-circuit.
   * strings, []byte and []int64 are `VArr (list Z)`; a[i] and a[lo:hi] are bounds-checked
     against len (Go allows re-slicing a slice up to cap: here that is Panic, i.e. stricter);
     == and != also compare two arrays (Go string comparison).
   * a []core.Schedule built by append(nexts, Ctor(args)) is `VRecs` = list of (Ctor, args).
   * assignment is parallel: all right-hand sides are evaluated in the old state.
   * `for init; cond; post { body }` is init ; SFor cond body post ; `continue` runs post.
   * calls of other translated functions (SCall) and every loop iteration consume fuel; calls of
     anything else (strconv.Atoi, time.Now, iter.Rand ...) are answered by the oracle [ext]
     (None = the callee panics), a pure function of the callee's name and arguments.
   * ill-typed programs / unbound variables are the outcome Stuck (never produced by compiled Go;
     every bridge proves Ret or Panic, so Stuck and OutOfFuel are excluded where it matters). *)
From Coq Require Import ZArith NArith List String Bool Lia.
Import ListNotations.
Local Open Scope Z_scope.

Inductive val := VInt (z : Z) | VArr (l : list Z) | VRecs (l : list (string * list Z)).

Inductive binop := OAdd | OSub | OMul | OQuot | ORem | OEq | ONe | OLt | OLe | OGt | OGe | OAnd | OOr.

Inductive expr :=
| ELit (z : Z)
| EStr (l : list Z)                         (* string literal *)
| ENoRecs                                   (* nil []core.Schedule *)
| EVar (x : string)
| EBin (op : binop) (a b : expr)
| ENot (a : expr)
| ENeg (a : expr)
| ELen (a : expr)
| EIdx (a i : expr)                         (* a[i] *)
| ESlice (a : expr) (lo hi : option expr).  (* a[lo:hi] *)

Inductive stmt :=
| SSkip
| SAssign (xs : list string) (es : list expr)             (* "_" on the left discards *)
| SSeq (a b : stmt)
| SIf (c : expr) (t e : stmt)
| SFor (c : expr) (body post : stmt)
| SBreak
| SContinue
| SReturn (es : list expr)
| SCall (xs : list string) (f : string) (args : list expr)  (* xs = f(args), f translated *)
| SExt (xs : list string) (f : string) (args : list expr)   (* xs = f(args), f external *)
| SAppend (x : string) (tag : string) (args : list expr).   (* x = append(x, tag(args)) *)

Record func := { f_params : list string; f_body : stmt }.
Definition prog := list (string * func).

Inductive fail := FPanic | FFuel | FStuck.
Inductive res (A : Type) := Ok (a : A) | Fail (f : fail).
Arguments Ok {A} a.
Arguments Fail {A} f.

Inductive outcome := Ret (vs : list val) | Panic | OutOfFuel | Stuck.

Definition env := list (string * val).

Fixpoint lookup (x : string) (en : env) : option val :=
  match en with
  | [] => None
  | (y, v) :: r => if String.eqb y x then Some v else lookup x r
  end.

Fixpoint upd (x : string) (v : val) (en : env) : env :=
  match en with
  | [] => [(x, v)]
  | (y, w) :: r => if String.eqb y x then (x, v) :: r else (y, w) :: upd x v r
  end.

Fixpoint upds (xs : list string) (vs : list val) (en : env) : option env :=
  match xs, vs with
  | [], [] => Some en
  | x :: xs', v :: vs' => upds xs' vs' (if String.eqb x "_" then en else upd x v en)
  | _, _ => None
  end.

Fixpoint bind (xs : list string) (vs : list val) : option env :=
  match xs, vs with
  | [], [] => Some []
  | x :: xs', v :: vs' => match bind xs' vs' with Some en => Some ((x, v) :: en) | None => None end
  | _, _ => None
  end.

Fixpoint find_func (f : string) (p : prog) : option func :=
  match p with
  | [] => None
  | (g, fd) :: r => if String.eqb g f then Some fd else find_func f r
  end.

Definition b2z (b : bool) : Z := if b then 1 else 0.

Fixpoint list_eqb (a b : list Z) : bool :=
  match a, b with
  | [], [] => true
  | x :: a', y :: b' => Z.eqb x y && list_eqb a' b'
  | _, _ => false
  end.

Definition bin_int (op : binop) (x y : Z) : res val :=
  match op with
  | OAdd => Ok (VInt (x + y))
  | OSub => Ok (VInt (x - y))
  | OMul => Ok (VInt (x * y))
  | OQuot => if y =? 0 then Fail FPanic else Ok (VInt (Z.quot x y))
  | ORem => if y =? 0 then Fail FPanic else Ok (VInt (Z.rem x y))
  | OEq => Ok (VInt (b2z (x =? y)))
  | ONe => Ok (VInt (b2z (negb (x =? y))))
  | OLt => Ok (VInt (b2z (x <? y)))
  | OLe => Ok (VInt (b2z (x <=? y)))
  | OGt => Ok (VInt (b2z (y <? x)))
  | OGe => Ok (VInt (b2z (y <=? x)))
  | OAnd | OOr => Fail FStuck    (* handled by eval (short circuit) *)
  end.

Definition bin_val (op : binop) (a b : val) : res val :=
  match a, b with
  | VInt x, VInt y => bin_int op x y
  | VArr x, VArr y =>
      match op with
      | OEq => Ok (VInt (b2z (list_eqb x y)))
      | ONe => Ok (VInt (b2z (negb (list_eqb x y))))
      | _ => Fail FStuck
      end
  | _, _ => Fail FStuck
  end.

(* a[lo:hi]: 0 <= lo <= hi <= len *)
Definition slice (l : list Z) (lo hi : Z) : res val :=
  if (0 <=? lo) && (lo <=? hi) && (hi <=? Z.of_nat (List.length l))
  then Ok (VArr (firstn (Z.to_nat (hi - lo)) (skipn (Z.to_nat lo) l)))
  else Fail FPanic.

Definition index (l : list Z) (i : Z) : res val :=
  if (0 <=? i) && (i <? Z.of_nat (List.length l))
  then Ok (VInt (nth (Z.to_nat i) l 0))
  else Fail FPanic.

Fixpoint eval (en : env) (e : expr) : res val :=
  match e with
  | ELit z => Ok (VInt z)
  | EStr l => Ok (VArr l)
  | ENoRecs => Ok (VRecs [])
  | EVar x => match lookup x en with Some v => Ok v | None => Fail FStuck end
  | EBin OAnd a b =>
      match eval en a with
      | Ok (VInt x) =>
          if x =? 0 then Ok (VInt 0)
          else match eval en b with
               | Ok (VInt y) => Ok (VInt (b2z (negb (y =? 0))))
               | Ok _ => Fail FStuck
               | Fail f => Fail f
               end
      | Ok _ => Fail FStuck
      | Fail f => Fail f
      end
  | EBin OOr a b =>
      match eval en a with
      | Ok (VInt x) =>
          if x =? 0
          then match eval en b with
               | Ok (VInt y) => Ok (VInt (b2z (negb (y =? 0))))
               | Ok _ => Fail FStuck
               | Fail f => Fail f
               end
          else Ok (VInt 1)
      | Ok _ => Fail FStuck
      | Fail f => Fail f
      end
  | EBin op a b =>
      match eval en a with
      | Ok va => match eval en b with Ok vb => bin_val op va vb | Fail f => Fail f end
      | Fail f => Fail f
      end
  | ENot a =>
      match eval en a with
      | Ok (VInt x) => Ok (VInt (b2z (x =? 0)))
      | Ok _ => Fail FStuck
      | Fail f => Fail f
      end
  | ENeg a =>
      match eval en a with
      | Ok (VInt x) => Ok (VInt (- x))
      | Ok _ => Fail FStuck
      | Fail f => Fail f
      end
  | ELen a =>
      match eval en a with
      | Ok (VArr l) => Ok (VInt (Z.of_nat (List.length l)))
      | Ok (VRecs l) => Ok (VInt (Z.of_nat (List.length l)))
      | Ok _ => Fail FStuck
      | Fail f => Fail f
      end
  | EIdx a i =>
      match eval en a with
      | Ok (VArr l) =>
          match eval en i with
          | Ok (VInt k) => index l k
          | Ok _ => Fail FStuck
          | Fail f => Fail f
          end
      | Ok _ => Fail FStuck
      | Fail f => Fail f
      end
  | ESlice a lo hi =>
      match eval en a with
      | Ok (VArr l) =>
          match (match lo with None => Ok (VInt 0) | Some e' => eval en e' end) with
          | Ok (VInt k) =>
              match (match hi with None => Ok (VInt (Z.of_nat (List.length l))) | Some e' => eval en e' end) with
              | Ok (VInt h) => slice l k h
              | Ok _ => Fail FStuck
              | Fail f => Fail f
              end
          | Ok _ => Fail FStuck
          | Fail f => Fail f
          end
      | Ok _ => Fail FStuck
      | Fail f => Fail f
      end
  end.

Fixpoint evals (en : env) (es : list expr) : res (list val) :=
  match es with
  | [] => Ok []
  | e :: r =>
      match eval en e with
      | Ok v => match evals en r with Ok vs => Ok (v :: vs) | Fail f => Fail f end
      | Fail f => Fail f
      end
  end.

Fixpoint ints (vs : list val) : option (list Z) :=
  match vs with
  | [] => Some []
  | VInt z :: r => match ints r with Some l => Some (z :: l) | None => None end
  | _ :: _ => None
  end.

(* how a statement ends *)
Inductive sig :=
| SNormal (en : env)
| SBrk (en : env)
| SCont (en : env)
| SRet (vs : list val)
| SFail (f : fail).

Definition assign (xs : list string) (vs : list val) (en : env) : sig :=
  match upds xs vs en with Some en' => SNormal en' | None => SFail FStuck end.

Section Exec.
  Variable p : prog.
  Variable ext : string -> list val -> option (list val).

  Fixpoint exec (fuel : nat) : stmt -> env -> sig :=
    fix go (s : stmt) : env -> sig := fun en =>
      match s with
      | SSkip => SNormal en
      | SAssign xs es =>
          match evals en es with Ok vs => assign xs vs en | Fail f => SFail f end
      | SSeq a b =>
          match go a en with SNormal en' => go b en' | r => r end
      | SIf c t e =>
          match eval en c with
          | Ok (VInt z) => if z =? 0 then go e en else go t en
          | Ok _ => SFail FStuck
          | Fail f => SFail f
          end
      | SFor c body post =>
          match eval en c with
          | Ok (VInt z) =>
              if z =? 0 then SNormal en
              else match fuel with
                   | O => SFail FFuel
                   | S f =>
                       match go body en with
                       | SNormal en1 | SCont en1 =>
                           match go post en1 with
                           | SNormal en2 => exec f (SFor c body post) en2
                           | SBrk _ | SCont _ => SFail FStuck
                           | r => r
                           end
                       | SBrk en1 => SNormal en1
                       | r => r
                       end
                   end
          | Ok _ => SFail FStuck
          | Fail f => SFail f
          end
      | SBreak => SBrk en
      | SContinue => SCont en
      | SReturn es =>
          match evals en es with Ok vs => SRet vs | Fail f => SFail f end
      | SCall xs f args =>
          match evals en args with
          | Ok vs =>
              match find_func f p with
              | Some fd =>
                  match bind (f_params fd) vs with
                  | Some en0 =>
                      match fuel with
                      | O => SFail FFuel
                      | S fu =>
                          match exec fu (f_body fd) en0 with
                          | SRet rs => assign xs rs en
                          | SNormal _ => assign xs [] en
                          | SBrk _ | SCont _ => SFail FStuck
                          | SFail e => SFail e
                          end
                      end
                  | None => SFail FStuck
                  end
              | None => SFail FStuck
              end
          | Fail f => SFail f
          end
      | SExt xs f args =>
          match evals en args with
          | Ok vs => match ext f vs with Some rs => assign xs rs en | None => SFail FPanic end
          | Fail f => SFail f
          end
      | SAppend x tag args =>
          match lookup x en with
          | Some (VRecs l) =>
              match evals en args with
              | Ok vs =>
                  match ints vs with
                  | Some zs => SNormal (upd x (VRecs (l ++ [(tag, zs)])) en)
                  | None => SFail FStuck
                  end
              | Fail f => SFail f
              end
          | _ => SFail FStuck
          end
      end.

  Definition sig_outcome (r : sig) : outcome :=
    match r with
    | SRet vs => Ret vs
    | SNormal _ => Ret []
    | SBrk _ | SCont _ => Stuck
    | SFail FPanic => Panic
    | SFail FFuel => OutOfFuel
    | SFail FStuck => Stuck
    end.

  (* run fuel f args: call the translated function f of the program on the argument values *)
  Definition run (fuel : nat) (f : string) (args : list val) : outcome :=
    match find_func f p with
    | Some fd =>
        match bind (f_params fd) args with
        | Some en0 => sig_outcome (exec fuel (f_body fd) en0)
        | None => Stuck
        end
    | None => Stuck
    end.

  (* ---------------------------------------------------------------------------------- *)
  (* unfolding equation (the inner fixpoint is on the statement, so it holds for any fuel) *)
  Lemma exec_eq fuel s en :
    exec fuel s en =
      match s with
      | SSkip => SNormal en
      | SAssign xs es =>
          match evals en es with Ok vs => assign xs vs en | Fail f => SFail f end
      | SSeq a b =>
          match exec fuel a en with SNormal en' => exec fuel b en' | r => r end
      | SIf c t e =>
          match eval en c with
          | Ok (VInt z) => if z =? 0 then exec fuel e en else exec fuel t en
          | Ok _ => SFail FStuck
          | Fail f => SFail f
          end
      | SFor c body post =>
          match eval en c with
          | Ok (VInt z) =>
              if z =? 0 then SNormal en
              else match fuel with
                   | O => SFail FFuel
                   | S f =>
                       match exec fuel body en with
                       | SNormal en1 | SCont en1 =>
                           match exec fuel post en1 with
                           | SNormal en2 => exec f (SFor c body post) en2
                           | SBrk _ | SCont _ => SFail FStuck
                           | r => r
                           end
                       | SBrk en1 => SNormal en1
                       | r => r
                       end
                   end
          | Ok _ => SFail FStuck
          | Fail f => SFail f
          end
      | SBreak => SBrk en
      | SContinue => SCont en
      | SReturn es =>
          match evals en es with Ok vs => SRet vs | Fail f => SFail f end
      | SCall xs f args =>
          match evals en args with
          | Ok vs =>
              match find_func f p with
              | Some fd =>
                  match bind (f_params fd) vs with
                  | Some en0 =>
                      match fuel with
                      | O => SFail FFuel
                      | S fu =>
                          match exec fu (f_body fd) en0 with
                          | SRet rs => assign xs rs en
                          | SNormal _ => assign xs [] en
                          | SBrk _ | SCont _ => SFail FStuck
                          | SFail e => SFail e
                          end
                      end
                  | None => SFail FStuck
                  end
              | None => SFail FStuck
              end
          | Fail f => SFail f
          end
      | SExt xs f args =>
          match evals en args with
          | Ok vs => match ext f vs with Some rs => assign xs rs en | None => SFail FPanic end
          | Fail f => SFail f
          end
      | SAppend x tag args =>
          match lookup x en with
          | Some (VRecs l) =>
              match evals en args with
              | Ok vs =>
                  match ints vs with
                  | Some zs => SNormal (upd x (VRecs (l ++ [(tag, zs)])) en)
                  | None => SFail FStuck
                  end
              | Fail f => SFail f
              end
          | _ => SFail FStuck
          end
      end.
  Proof. destruct fuel; destruct s; reflexivity. Qed.

  Lemma assign_not_fuel xs vs en : assign xs vs en <> SFail FFuel.
  Proof. unfold assign. destruct (upds xs vs en); discriminate. Qed.

  (* fuel monotonicity: a run that did not run out of fuel is unchanged by more fuel *)
  Lemma exec_mono_S : forall fuel s en,
    exec fuel s en <> SFail FFuel -> exec (S fuel) s en = exec fuel s en.
  Proof.
    induction fuel as [|fuel IHf].
    - (* fuel = 0 *)
      induction s; intros en H; rewrite (exec_eq 1); rewrite (exec_eq 0) in H |- *;
        try reflexivity.
      + (* Seq *)
        destruct (exec 0 s1 en) eqn:E1;
          try (rewrite IHs1 by (rewrite E1; discriminate); rewrite E1; reflexivity).
        * rewrite IHs1 by (rewrite E1; discriminate). rewrite E1. apply IHs2. exact H.
        * destruct f; try (rewrite IHs1 by (rewrite E1; discriminate); rewrite E1; reflexivity).
          exfalso; apply H; reflexivity.
      + (* If *)
        destruct (eval en c) as [[z| |]|]; try reflexivity.
        destruct (z =? 0); [apply IHs2|apply IHs1]; exact H.
      + (* For *)
        destruct (eval en c) as [[z| |]|]; try reflexivity.
        destruct (z =? 0); [reflexivity|]. exfalso; apply H; reflexivity.
      + (* Call *)
        destruct (evals en args); try reflexivity.
        destruct (find_func f p); try reflexivity.
        destruct (bind (f_params f0) a); try reflexivity.
        exfalso; apply H; reflexivity.
    - (* fuel = S fuel *)
      induction s; intros en H; rewrite (exec_eq (S (S fuel))); rewrite (exec_eq (S fuel)) in H |- *;
        try reflexivity.
      + (* Seq *)
        destruct (exec (S fuel) s1 en) eqn:E1;
          try (rewrite IHs1 by (rewrite E1; discriminate); rewrite E1; reflexivity).
        * rewrite IHs1 by (rewrite E1; discriminate). rewrite E1. apply IHs2. exact H.
        * destruct f; try (rewrite IHs1 by (rewrite E1; discriminate); rewrite E1; reflexivity).
          exfalso; apply H; reflexivity.
      + (* If *)
        destruct (eval en c) as [[z| |]|]; try reflexivity.
        destruct (z =? 0); [apply IHs2|apply IHs1]; exact H.
      + (* For *)
        destruct (eval en c) as [[z| |]|]; try reflexivity.
        destruct (z =? 0); [reflexivity|].
        assert (Hb : exec (S fuel) s1 en <> SFail FFuel).
        { intros E. rewrite E in H. apply H; reflexivity. }
        rewrite (IHs1 en Hb).
        destruct (exec (S fuel) s1 en) as [en1|en1|en1|vs|f] eqn:E1; try reflexivity.
        * assert (Hp : exec (S fuel) s2 en1 <> SFail FFuel).
          { intros E. rewrite E in H. apply H; reflexivity. }
          rewrite (IHs2 en1 Hp).
          destruct (exec (S fuel) s2 en1) as [en2|?|?|?|?] eqn:E2; try reflexivity.
          apply IHf. exact H.
        * assert (Hp : exec (S fuel) s2 en1 <> SFail FFuel).
          { intros E. rewrite E in H. apply H; reflexivity. }
          rewrite (IHs2 en1 Hp).
          destruct (exec (S fuel) s2 en1) as [en2|?|?|?|?] eqn:E2; try reflexivity.
          apply IHf. exact H.
      + (* Call *)
        destruct (evals en args); try reflexivity.
        destruct (find_func f p) as [fd|]; try reflexivity.
        destruct (bind (f_params fd) a) as [en0|]; try reflexivity.
        assert (Hc : exec fuel (f_body fd) en0 <> SFail FFuel).
        { intros E. rewrite E in H. apply H; reflexivity. }
        rewrite (IHf _ _ Hc). reflexivity.
  Qed.

  Lemma exec_mono : forall f f' s en,
    (f <= f')%nat -> exec f s en <> SFail FFuel -> exec f' s en = exec f s en.
  Proof.
    intros f f' s en Hle. induction Hle as [|f' Hle IH]; intros H; [reflexivity|].
    rewrite exec_mono_S; [apply IH; exact H|]. rewrite (IH H). exact H.
  Qed.

  Lemma exec_mono_eq : forall f f' s en r,
    exec f s en = r -> r <> SFail FFuel -> (f <= f')%nat -> exec f' s en = r.
  Proof. intros f f' s en r E Hr Hle. subst r. apply exec_mono; assumption. Qed.

  Lemma run_mono : forall f f' g args,
    (f <= f')%nat -> run f g args <> OutOfFuel -> run f' g args = run f g args.
  Proof.
    intros f f' g args Hle. unfold run.
    destruct (find_func g p) as [fd|]; [|reflexivity].
    destruct (bind (f_params fd) args) as [en0|]; [|reflexivity].
    intros H. rewrite (exec_mono f f'); [reflexivity|exact Hle|].
    intros E. rewrite E in H. apply H; reflexivity.
  Qed.

  (* ---------------------------------------------------------------------------------- *)
  (* The loop rule (total correctness): an invariant I, a variant m, a postcondition Q.
     From every state satisfying I either the condition is false and Q holds, or it is true and
     the body either breaks into a Q-state, or body;post ends normally (or by `continue`) in an
     I-state with a smaller variant.  Then the loop terminates normally in a Q-state. *)
  Lemma for_rule (c : expr) (body post : stmt) (I Q : env -> Prop) (m : env -> nat) :
    (forall en, I en ->
       (eval en c = Ok (VInt 0) /\ Q en) \/
       (exists z, eval en c = Ok (VInt z) /\ z <> 0 /\
          exists fb,
            (exists en', exec fb body en = SBrk en' /\ Q en') \/
            (exists en1 en', (exec fb body en = SNormal en1 \/ exec fb body en = SCont en1) /\
                             exec fb post en1 = SNormal en' /\ I en' /\ (m en' < m en)%nat))) ->
    forall en, I en -> exists fuel en', exec fuel (SFor c body post) en = SNormal en' /\ Q en'.
  Proof.
    intros Hstep en0.
    remember (m en0) as k eqn:Hk. revert en0 Hk.
    induction k as [k IH] using lt_wf_ind. intros en Hk HI.
    destruct (Hstep en HI) as [[Hc HQ]|(z & Hc & Hz & fb & Hb)].
    - exists O, en. rewrite exec_eq, Hc. cbn [Z.eqb]. split; [reflexivity|exact HQ].
    - apply Z.eqb_neq in Hz.
      destruct Hb as [(en' & Hb & HQ)|(en1 & en' & Hb & Hp & HI' & Hm)].
      + exists (S fb), en'. rewrite exec_eq, Hc, Hz.
        rewrite (exec_mono_eq fb (S fb) _ _ _ Hb); [|discriminate|lia]. split; [reflexivity|exact HQ].
      + subst k. destruct (IH (m en') Hm en' eq_refl HI') as (f2 & en2 & E2 & HQ2).
        exists (S (Nat.max fb f2)), en2. rewrite exec_eq, Hc, Hz.
        assert (Hp' : exec (S (Nat.max fb f2)) post en1 = SNormal en').
        { apply (exec_mono_eq fb); [exact Hp|discriminate|lia]. }
        assert (E2' : exec (Nat.max fb f2) (SFor c body post) en' = SNormal en2).
        { apply (exec_mono_eq f2); [exact E2|discriminate|lia]. }
        destruct Hb as [Hb|Hb];
          (rewrite (exec_mono_eq fb (S (Nat.max fb f2)) _ _ _ Hb); [|discriminate|lia]);
          rewrite Hp', E2'; (split; [reflexivity|exact HQ2]).
  Qed.

  (* one unrolling, for proofs that follow the recursion of a hand-written loop model *)
  Lemma for_unroll c body post fuel en z en1 en2 r :
    eval en c = Ok (VInt z) -> z <> 0 ->
    exec (S fuel) body en = SNormal en1 ->
    exec (S fuel) post en1 = SNormal en2 ->
    exec fuel (SFor c body post) en2 = r ->
    exec (S fuel) (SFor c body post) en = r.
  Proof.
    intros Hc Hz Hb Hp Hr. rewrite exec_eq, Hc. apply Z.eqb_neq in Hz. rewrite Hz, Hb, Hp. exact Hr.
  Qed.

  Lemma for_exit c body post fuel en :
    eval en c = Ok (VInt 0) -> exec fuel (SFor c body post) en = SNormal en.
  Proof. intros Hc. rewrite exec_eq, Hc. reflexivity. Qed.

  Lemma for_break c body post fuel en z en1 :
    eval en c = Ok (VInt z) -> z <> 0 ->
    exec (S fuel) body en = SBrk en1 ->
    exec (S fuel) (SFor c body post) en = SNormal en1.
  Proof.
    intros Hc Hz Hb. rewrite exec_eq, Hc. apply Z.eqb_neq in Hz. rewrite Hz, Hb. reflexivity.
  Qed.

  (* a call of a translated function that returns *)
  Lemma call_ret fuel xs f args en vs fd en0 rs :
    evals en args = Ok vs -> find_func f p = Some fd -> bind (f_params fd) vs = Some en0 ->
    exec fuel (f_body fd) en0 = SRet rs ->
    exec (S fuel) (SCall xs f args) en = assign xs rs en.
  Proof. intros Ha Hf Hb He. rewrite exec_eq, Ha, Hf, Hb, He. reflexivity. Qed.

  Lemma call_fail fuel xs f args en vs fd en0 e :
    evals en args = Ok vs -> find_func f p = Some fd -> bind (f_params fd) vs = Some en0 ->
    exec fuel (f_body fd) en0 = SFail e ->
    exec (S fuel) (SCall xs f args) en = SFail e.
  Proof. intros Ha Hf Hb He. rewrite exec_eq, Ha, Hf, Hb, He. reflexivity. Qed.
End Exec.

(* ------------------------------------------------------------------------------------ *)
(* lists *)
Lemma index_app_mid pre x post :
  index (pre ++ x :: post) (Z.of_nat (List.length pre)) = Ok (VInt x).
Proof.
  unfold index. rewrite app_length. cbn [List.length].
  replace ((0 <=? Z.of_nat (List.length pre)) &&
           (Z.of_nat (List.length pre) <? Z.of_nat (List.length pre + S (List.length post)))) with true.
  - rewrite Nat2Z.id, app_nth2, Nat.sub_diag by lia. reflexivity.
  - symmetry. apply andb_true_iff. split; [apply Z.leb_le|apply Z.ltb_lt]; lia.
Qed.

Lemma slice_app_prefix pre post :
  slice (pre ++ post) 0 (Z.of_nat (List.length pre)) = Ok (VArr pre).
Proof.
  unfold slice. rewrite app_length.
  replace ((0 <=? 0) && (0 <=? Z.of_nat (List.length pre)) &&
           (Z.of_nat (List.length pre) <=? Z.of_nat (List.length pre + List.length post))) with true.
  - rewrite Z.sub_0_r, Nat2Z.id. cbn [Z.to_nat skipn].
    rewrite firstn_app, Nat.sub_diag, firstn_all, app_nil_r. reflexivity.
  - symmetry. rewrite !andb_true_iff. repeat split; apply Z.leb_le; lia.
Qed.

(* byte strings of the models (list N) as IMP arrays *)
Definition zs (b : list N) : list Z := map Z.of_N b.
Lemma zs_app a b : zs (a ++ b) = zs a ++ zs b.
Proof. apply map_app. Qed.
Lemma zs_length a : List.length (zs a) = List.length a.
Proof. apply map_length. Qed.

(* the oracle of a function that makes no external call *)
Definition no_ext : string -> list val -> option (list val) := fun _ _ => None.

Lemma b2z_eqb0 b : (b2z b =? 0) = negb b.
Proof. destruct b; reflexivity. Qed.

(* ------------------------------------------------------------------------------------ *)
(* symbolic execution of straight-line code: unfold one statement (never a loop or a call),
   evaluate expressions, decide or split the conditions *)
Ltac imp_eval :=
  cbn [eval evals lookup upd upds bind find_func assign bin_val bin_int ints
       String.eqb Ascii.eqb Bool.eqb f_params f_body fst snd sig_outcome
       List.length Z.of_nat Pos.of_succ_nat Pos.succ];
  repeat match goal with
         | |- context [b2z ?b =? 0] => rewrite (b2z_eqb0 b)
         | |- context [negb (negb ?b)] => rewrite (negb_involutive b)
         end.

Ltac imp_unfold1 :=
  match goal with
  | |- context [exec ?p ?x ?f (SSeq ?a ?b) ?en] => rewrite (exec_eq p x f (SSeq a b) en)
  | |- context [exec ?p ?x ?f (SIf ?c ?a ?b) ?en] => rewrite (exec_eq p x f (SIf c a b) en)
  | |- context [exec ?p ?x ?f (SAssign ?a ?b) ?en] => rewrite (exec_eq p x f (SAssign a b) en)
  | |- context [exec ?p ?x ?f (SReturn ?a) ?en] => rewrite (exec_eq p x f (SReturn a) en)
  | |- context [exec ?p ?x ?f SSkip ?en] => rewrite (exec_eq p x f SSkip en)
  | |- context [exec ?p ?x ?f SBreak ?en] => rewrite (exec_eq p x f SBreak en)
  | |- context [exec ?p ?x ?f SContinue ?en] => rewrite (exec_eq p x f SContinue en)
  | |- context [exec ?p ?x ?f (SExt ?a ?b ?c) ?en] => rewrite (exec_eq p x f (SExt a b c) en)
  | |- context [exec ?p ?x ?f (SAppend ?a ?b ?c) ?en] => rewrite (exec_eq p x f (SAppend a b c) en)
  end; cbv beta iota.

Ltac imp_atom b :=
  lazymatch b with
  | negb ?c => imp_atom c
  | andb ?c _ => imp_atom c
  | orb ?c _ => imp_atom c
  | _ => b
  end.

Ltac b2p := repeat match goal with
 | H : (_ <? _) = true |- _ => apply Z.ltb_lt in H
 | H : (_ <? _) = false |- _ => apply Z.ltb_ge in H
 | H : (_ <=? _) = true |- _ => apply Z.leb_le in H
 | H : (_ <=? _) = false |- _ => apply Z.leb_gt in H
 | H : (_ =? _) = true |- _ => apply Z.eqb_eq in H
 | H : (_ =? _) = false |- _ => apply Z.eqb_neq in H
 end.

Ltac imp_decide a :=
  first [ match goal with H : a = _ |- _ => rewrite H end
        | let H := fresh in
          assert (H : a = true) by (first [apply Z.ltb_lt | apply Z.leb_le | apply Z.eqb_eq]; lia);
          rewrite H; clear H
        | let H := fresh in
          assert (H : a = false) by (first [apply Z.ltb_ge | apply Z.leb_gt | apply Z.eqb_neq]; lia);
          rewrite H; clear H ].

Ltac imp_case :=
  match goal with
  | |- context [if ?b then _ else _] =>
      let a := imp_atom b in
      lazymatch a with true => fail | false => fail | _ => idtac end;
      first [ imp_decide a | destruct a eqn:?; b2p ]; cbn [negb andb orb]
  end.

Ltac imp_nz := unfold b2z; repeat imp_case; discriminate.

(* loop-free code at a fuel that is 0 or S _: evaluate by conversion, then split the conditions *)
Ltac imp_rw :=
  repeat match goal with
         | |- context [b2z ?b =? 0] => rewrite (b2z_eqb0 b)
         | |- context [negb (negb ?b)] => rewrite (negb_involutive b)
         end.
Ltac imp_cbn :=
  cbn [exec eval evals lookup upd upds bind find_func assign bin_val bin_int ints
       String.eqb Ascii.eqb Bool.eqb f_params f_body fst snd sig_outcome
       List.length Z.of_nat Pos.of_succ_nat Pos.succ].
Ltac imp_run := imp_cbn; imp_rw; repeat (imp_case; imp_cbn; imp_rw).
Ltac imp_go := repeat (first [progress imp_eval | imp_unfold1 | imp_case]).
