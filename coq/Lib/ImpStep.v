(* Goal-directed symbolic execution for Lib/Imp.v: one lemma application per statement, so that every
   computation is done on a small term (one statement and the environment) instead of re-traversing the whole
   remaining program after each step (what `imp_run` / `imp_go` do; fine for a ten-line function, minutes for
   a whole loop body such as instance.Run).

   `sx` solves / advances goals of the form  exec p ext fuel s en = r  where r is an evar or a concrete result:
     SSeq a b : run a (instantiating its outcome), then b or propagate break / return / failure
     SIf c t e : evaluate c, decide it (booleans known from hypotheses `x = true` / `x = false`), run the branch
     SFor at fuel S f : one iteration; a loop whose fuel is a variable is left to the caller
     anything else : by computation
   The tactic `sx_ext` (empty by default) is run to unfold the oracle of external calls: redefine it with
   `Ltac sx_ext ::= cbn [my_ext ...]`. *)
From Coq Require Import ZArith List String Bool Lia.
From PV Require Import Lib.Imp.
Import ListNotations.
Local Open Scope Z_scope.

Section Step.
  Variable p : prog.
  Variable ext : string -> list val -> option (list val).

  Lemma step_seq fuel a b en ra r :
    exec p ext fuel a en = ra ->
    match ra with SNormal en1 => exec p ext fuel b en1 | x => x end = r ->
    exec p ext fuel (SSeq a b) en = r.
  Proof. intros Ha Hr. rewrite (exec_eq p ext fuel (SSeq a b)), Ha. destruct ra; exact Hr. Qed.

  Lemma step_if fuel c t e en z r :
    eval en c = Ok (VInt z) ->
    (if z =? 0 then exec p ext fuel e en else exec p ext fuel t en) = r ->
    exec p ext fuel (SIf c t e) en = r.
  Proof. intros Hc Hr. rewrite (exec_eq p ext fuel (SIf c t e)), Hc. exact Hr. Qed.

  Lemma step_if_t fuel c t e en z r :
    eval en c = Ok (VInt z) -> (z =? 0) = false ->
    exec p ext fuel t en = r -> exec p ext fuel (SIf c t e) en = r.
  Proof. intros Hc Hz Hr. rewrite (exec_eq p ext fuel (SIf c t e)), Hc, Hz. exact Hr. Qed.

  Lemma step_if_f fuel c t e en z r :
    eval en c = Ok (VInt z) -> (z =? 0) = true ->
    exec p ext fuel e en = r -> exec p ext fuel (SIf c t e) en = r.
  Proof. intros Hc Hz Hr. rewrite (exec_eq p ext fuel (SIf c t e)), Hc, Hz. exact Hr. Qed.

  Lemma step_for_next fuel c body post en z en1 en2 r :
    eval en c = Ok (VInt z) -> (z =? 0) = false ->
    exec p ext (S fuel) body en = SNormal en1 ->
    exec p ext (S fuel) post en1 = SNormal en2 ->
    exec p ext fuel (SFor c body post) en2 = r ->
    exec p ext (S fuel) (SFor c body post) en = r.
  Proof.
    intros Hc Hz Hb Hp Hr. rewrite (exec_eq p ext (S fuel) (SFor c body post)), Hc, Hz, Hb, Hp. exact Hr.
  Qed.

  Lemma step_for_cont fuel c body post en z en1 en2 r :
    eval en c = Ok (VInt z) -> (z =? 0) = false ->
    exec p ext (S fuel) body en = SCont en1 ->
    exec p ext (S fuel) post en1 = SNormal en2 ->
    exec p ext fuel (SFor c body post) en2 = r ->
    exec p ext (S fuel) (SFor c body post) en = r.
  Proof.
    intros Hc Hz Hb Hp Hr. rewrite (exec_eq p ext (S fuel) (SFor c body post)), Hc, Hz, Hb, Hp. exact Hr.
  Qed.

  Lemma step_for_brk fuel c body post en z en1 :
    eval en c = Ok (VInt z) -> (z =? 0) = false ->
    exec p ext (S fuel) body en = SBrk en1 ->
    exec p ext (S fuel) (SFor c body post) en = SNormal en1.
  Proof. intros Hc Hz Hb. rewrite (exec_eq p ext (S fuel) (SFor c body post)), Hc, Hz, Hb. reflexivity. Qed.

  Lemma step_for_ret fuel c body post en z vs :
    eval en c = Ok (VInt z) -> (z =? 0) = false ->
    exec p ext (S fuel) body en = SRet vs ->
    exec p ext (S fuel) (SFor c body post) en = SRet vs.
  Proof. intros Hc Hz Hb. rewrite (exec_eq p ext (S fuel) (SFor c body post)), Hc, Hz, Hb. reflexivity. Qed.

  Lemma step_for_fail fuel c body post en z e :
    eval en c = Ok (VInt z) -> (z =? 0) = false ->
    exec p ext (S fuel) body en = SFail e ->
    exec p ext (S fuel) (SFor c body post) en = SFail e.
  Proof. intros Hc Hz Hb. rewrite (exec_eq p ext (S fuel) (SFor c body post)), Hc, Hz, Hb. reflexivity. Qed.

  Lemma step_for_fuel c body post en z :
    eval en c = Ok (VInt z) -> (z =? 0) = false ->
    exec p ext O (SFor c body post) en = SFail FFuel.
  Proof. intros Hc Hz. rewrite (exec_eq p ext O (SFor c body post)), Hc, Hz. reflexivity. Qed.
End Step.

Ltac sx_ext := idtac.

Ltac sx_known :=
  repeat match goal with
         | H : ?x = true |- context [?x] => rewrite H
         | H : ?x = false |- context [?x] => rewrite H
         end.

Ltac sx_cbn0 :=
  cbn [eval evals lookup upd upds bind find_func assign bin_val bin_int ints
       String.eqb Ascii.eqb Bool.eqb f_params f_body fst snd
       List.length Z.of_nat Pos.of_succ_nat Pos.succ].
Ltac sx_cbn := sx_cbn0; sx_ext; sx_cbn0.

(* atomic statement: unfold it once, compute *)
Ltac sx_atom :=
  match goal with
  | |- exec ?p ?x ?f ?s ?en = _ => rewrite (exec_eq p x f s en)
  end; cbv beta iota; sx_cbn; reflexivity.


(* decide the condition of an `if z =? 0`: b2z / negb / literal comparisons, booleans from the hypotheses *)
Ltac sx_decide :=
  repeat (progress (repeat match goal with
                           | |- context [b2z ?b =? 0] => rewrite (b2z_eqb0 b)
                           | |- context [negb (negb ?b)] => rewrite (negb_involutive b)
                           end;
                    sx_known; cbn [negb b2z Z.eqb]));
  cbv beta iota.

(* value of a condition: by computation; a short-circuit && / || whose left operand is a comparison of symbolic
   values is decided from the hypotheses first *)
Ltac sx_eval :=
  sx_cbn;
  first [ reflexivity
        | sx_decide; sx_cbn; first [ reflexivity | sx_decide; sx_cbn; reflexivity ] ].

Ltac sx :=
  lazymatch goal with
  | |- exec _ _ _ (SSeq _ _) _ = _ =>
      eapply step_seq; [sx | cbv beta iota; sx_cont]
  | |- exec _ _ _ (SIf _ _ _) _ = _ =>
      first [ eapply step_if_t; [sx_eval | sx_decide; reflexivity | sx]
            | eapply step_if_f; [sx_eval | sx_decide; reflexivity | sx]
            | eapply step_if; [sx_eval | sx_decide; sx_cont] ]
  | |- exec ?p ?x (S ?fu) (SFor ?c ?b ?q) ?en = _ =>
      let H := fresh "Hbody" in
      eassert (H : exec p x (S fu) b en = _); [sx|];
      lazymatch type of H with
      | _ = SNormal _ =>
          eapply (step_for_next p x fu c b q en); [sx_eval | reflexivity | exact H | sx | clear H]
      | _ = SCont _ =>
          eapply (step_for_cont p x fu c b q en); [sx_eval | reflexivity | exact H | sx | clear H]
      | _ = SBrk _ =>
          etransitivity; [eapply (step_for_brk p x fu c b q en); [sx_eval | reflexivity | exact H]|]; clear H;
          try reflexivity
      | _ = SRet _ =>
          etransitivity; [eapply (step_for_ret p x fu c b q en); [sx_eval | reflexivity | exact H]|]; clear H;
          try reflexivity
      | _ = SFail _ =>
          etransitivity; [eapply (step_for_fail p x fu c b q en); [sx_eval | reflexivity | exact H]|]; clear H;
          try reflexivity
      end
  | |- exec _ _ _ (SFor _ _ _) _ = _ => idtac
  | |- exec _ _ _ _ _ = _ => sx_atom
  end
with sx_cont :=
  lazymatch goal with
  | |- exec _ _ _ _ _ = _ => sx
  | |- _ = _ => reflexivity
  end.
