(* Finite lookup tables keyed by N, with a default: the shape of a Go `switch` over
   constants and of a documentation table. *)
From Coq Require Import List NArith Bool Lia.
Import ListNotations.
Local Open Scope N_scope.

Fixpoint lookup (t : list (N * N)) (k : N) (d : N) : N :=
  match t with
  | [] => d
  | (k', v) :: r => if N.eqb k k' then v else lookup r k d
  end.

Definition keys (t : list (N * N)) : list N := map fst t.

(* Both tables agree on every key mentioned in either, and the defaults agree. *)
Definition table_equiv_b (a : list (N * N)) (da : N) (b : list (N * N)) (db : N) : bool :=
  N.eqb da db
  && forallb (fun k => N.eqb (lookup a k da) (lookup b k db)) (keys a ++ keys b).

Lemma lookup_notin t k d : ~ In k (keys t) -> lookup t k d = d.
Proof.
  induction t as [|[k' v] r IH]; cbn [lookup keys map fst]; intros H; [reflexivity|].
  destruct (N.eqb_spec k k') as [->|Hne].
  - exfalso; apply H; left; reflexivity.
  - apply IH; intros Hin; apply H; right; exact Hin.
Qed.

Lemma table_equiv_sound a da b db :
  table_equiv_b a da b db = true -> forall k, lookup a k da = lookup b k db.
Proof.
  unfold table_equiv_b; intros H k.
  apply andb_prop in H; destruct H as [Hd Hall].
  apply N.eqb_eq in Hd.
  destruct (in_dec N.eq_dec k (keys a ++ keys b)) as [Hin|Hnin].
  - rewrite forallb_forall in Hall. apply N.eqb_eq. apply Hall. exact Hin.
  - rewrite !lookup_notin; [exact Hd| |]; intros Hin; apply Hnin; apply in_or_app; auto.
Qed.

(* No key is listed twice (a Go switch with duplicate constant cases does not compile; a
   documentation table with a repeated row would be ambiguous). *)
Fixpoint nodup_b (l : list N) : bool :=
  match l with
  | [] => true
  | x :: r => negb (existsb (N.eqb x) r) && nodup_b r
  end.
