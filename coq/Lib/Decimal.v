(* Decimal rendering of N and Z as ASCII bytes (what strconv.AppendInt(dst, v, 10) appends)
   and the strict inverse. Executable definitions first, lemmas below (Lib/ holds reusable
   lemmas). Bytes are N. *)
From Coq Require Import List NArith ZArith Bool Lia ZifyN ZifyNat.
Import ListNotations.
Local Open Scope N_scope.

Ltac Zify.zify_post_hook ::= Z.div_mod_to_equations.

Definition digit_byte (d : N) : N := 48 + d.

(* Most significant digit first. The loop divides by ten until the quotient is zero; the
   fuel is the bit size of the number (a decimal numeral is never longer than the binary
   one), see [dec_fuel_enough]. Exhausted fuel yields the digits produced so far; the
   entry point [dec_N] always gives enough. *)
Fixpoint dec_fuel (fuel : nat) (n : N) (acc : list N) : list N :=
  let acc' := digit_byte (n mod 10) :: acc in
  match fuel with
  | O => acc'
  | S f => if n / 10 =? 0 then acc' else dec_fuel f (n / 10) acc'
  end.

Definition dec_N (n : N) : list N := dec_fuel (N.to_nat (N.size n)) n [].

(* strconv.AppendInt on a signed value: '-' then the magnitude. *)
Definition dec_Z (z : Z) : list N :=
  match z with
  | Z0 => dec_N 0
  | Zpos p => dec_N (Npos p)
  | Zneg p => 45 :: dec_N (Npos p)
  end.

Definition is_digit (b : N) : bool := (48 <=? b) && (b <=? 57).

(* Value of a digit string (None when empty or when a byte is not a digit). *)
Fixpoint undec_acc (acc : N) (l : list N) : option N :=
  match l with
  | [] => Some acc
  | b :: r => if is_digit b then undec_acc (acc * 10 + (b - 48)) r else None
  end.

Definition undec_N (l : list N) : option N :=
  match l with
  | [] => None
  | _ => undec_acc 0 l
  end.

Definition undec_Z (l : list N) : option Z :=
  match l with
  | [] => None
  | b :: r =>
      if b =? 45
      then match undec_N r with Some n => Some (- Z.of_N n)%Z | None => None end
      else match undec_N l with Some n => Some (Z.of_N n) | None => None end
  end.

Fixpoint bytes_eqb (a b : list N) : bool :=
  match a, b with
  | [], [] => true
  | x :: a', y :: b' => N.eqb x y && bytes_eqb a' b'
  | _, _ => false
  end.

(* Strict readers: only the canonical numeral of the value is accepted (no leading zeros,
   no "-0", no sign on zero). *)
Definition read_N (l : list N) : option N :=
  match undec_N l with
  | Some n => if bytes_eqb (dec_N n) l then Some n else None
  | None => None
  end.

Definition read_Z (l : list N) : option Z :=
  match undec_Z l with
  | Some z => if bytes_eqb (dec_Z z) l then Some z else None
  | None => None
  end.

(* Three digits, zero padded: the last three digits of a numeral. *)
Definition pad3 (r : N) : list N :=
  [digit_byte (r / 100); digit_byte ((r / 10) mod 10); digit_byte (r mod 10)].

(* ------------------------------------------------------------------------------------ *)

Lemma bytes_eqb_refl l : bytes_eqb l l = true.
Proof. induction l as [|x r IH]; cbn [bytes_eqb]; [reflexivity|]. rewrite N.eqb_refl, IH. reflexivity. Qed.

Lemma bytes_eqb_eq a b : bytes_eqb a b = true -> a = b.
Proof.
  revert b; induction a as [|x r IH]; intros [|y s]; cbn [bytes_eqb]; try discriminate; [reflexivity|].
  intros H. apply andb_prop in H. destruct H as [H1 H2]. apply N.eqb_eq in H1. subst. f_equal. apply IH. exact H2.
Qed.

Lemma dec_fuel_acc fuel n acc : dec_fuel fuel n acc = dec_fuel fuel n [] ++ acc.
Proof.
  revert n acc; induction fuel as [|f IH]; intros n acc; cbn [dec_fuel].
  - reflexivity.
  - destruct (n / 10 =? 0); [reflexivity|].
    rewrite IH. rewrite (IH (n / 10) [digit_byte (n mod 10)]). rewrite <- app_assoc. reflexivity.
Qed.

Lemma size_div10 n : n <> 0 -> (N.to_nat (N.size (n / 10)) < N.to_nat (N.size n))%nat.
Proof.
  intros Hn.
  assert (H2 : n / 10 <= n / 2) by (apply N.div_le_compat_l; lia).
  assert (Hs : N.size (n / 10) < N.size n).
  { destruct (N.eq_dec (n / 10) 0) as [E|E].
    - rewrite E. cbn. destruct n; [congruence|]. cbn. lia.
    - rewrite !N.size_log2 by (try exact E; exact Hn).
      assert (N.log2 (n / 10) <= N.log2 (n / 2)) by (apply N.log2_le_mono; exact H2).
      assert (n / 2 <> 0) by lia.
      assert (N.log2 (n / 2) < N.log2 n).
      { rewrite <- N.div2_div. rewrite N.div2_spec. rewrite N.log2_shiftr.
        assert (0 < N.log2 n).
        { apply N.log2_pos. destruct (N.lt_ge_cases n 2); [|lia]. exfalso. apply H0. apply N.div_small. lia. }
        lia. }
      lia. }
    lia.
Qed.

Lemma size_zero n : (N.to_nat (N.size n) <= 0)%nat -> n = 0.
Proof. destruct n; [reflexivity|]. cbn. lia. Qed.

(* Any sufficient fuel gives the same digits. *)
Lemma dec_fuel_irrel f1 : forall f2 n acc,
  (N.to_nat (N.size n) <= f1)%nat -> (N.to_nat (N.size n) <= f2)%nat -> dec_fuel f1 n acc = dec_fuel f2 n acc.
Proof.
  induction f1 as [|f1 IH]; intros f2 n acc H1 H2.
  - apply size_zero in H1. subst. destruct f2; reflexivity.
  - destruct f2 as [|f2]; [apply size_zero in H2; subst; reflexivity|].
    cbn [dec_fuel]. destruct (N.eqb_spec (n / 10) 0) as [E|E]; [reflexivity|].
    assert (n <> 0) by (intros ->; apply E; reflexivity).
    pose proof (size_div10 n H). apply IH; lia.
Qed.

(* With enough fuel the loop is the textbook recursion. *)
Lemma dec_fuel_step fuel n :
  (N.to_nat (N.size n) <= fuel)%nat ->
  dec_fuel fuel n [] = if n <? 10 then [digit_byte n] else dec_fuel (N.to_nat (N.size (n / 10))) (n / 10) [] ++ [digit_byte (n mod 10)].
Proof.
  intros Hf.
  rewrite (dec_fuel_irrel fuel (S (N.to_nat (N.size n))) n []) by lia.
  cbn [dec_fuel].
  destruct (N.eqb_spec (n / 10) 0) as [E|E].
  - assert (n < 10) by (apply N.div_small_iff in E; lia).
    destruct (N.ltb_spec n 10); [|lia]. rewrite N.mod_small by lia. reflexivity.
  - assert (10 <= n).
    { destruct (N.lt_ge_cases n 10) as [L|L]; [|exact L]. exfalso. apply E. apply N.div_small. exact L. }
    destruct (N.ltb_spec n 10); [lia|].
    rewrite dec_fuel_acc. f_equal.
    pose proof (size_div10 n ltac:(lia)).
    apply dec_fuel_irrel; lia.
Qed.

Lemma dec_N_step n :
  dec_N n = if n <? 10 then [digit_byte n] else dec_N (n / 10) ++ [digit_byte (n mod 10)].
Proof. unfold dec_N. apply dec_fuel_step. lia. Qed.

Lemma dec_N_small n : n < 10 -> dec_N n = [digit_byte n].
Proof. intros H. rewrite dec_N_step. destruct (N.ltb_spec n 10); [reflexivity|lia]. Qed.

Lemma dec_N_big n : 10 <= n -> dec_N n = dec_N (n / 10) ++ [digit_byte (n mod 10)].
Proof. intros H. rewrite dec_N_step. destruct (N.ltb_spec n 10); [lia|reflexivity]. Qed.

(* Strong induction on the value, in the form the digit lemmas need. *)
Lemma dec_ind (P : N -> Prop) :
  (forall n, n < 10 -> P n) -> (forall n, 10 <= n -> P (n / 10) -> P n) -> forall n, P n.
Proof.
  intros Hs Hb n. induction n as [n IH] using (well_founded_induction N.lt_wf_0).
  destruct (N.lt_ge_cases n 10) as [L|L]; [apply Hs; exact L|].
  apply Hb; [exact L|]. apply IH. apply N.div_lt; lia.
Qed.

Lemma dec_N_nonempty n : dec_N n <> [].
Proof.
  rewrite dec_N_step. destruct (n <? 10); [discriminate|]. intros H. apply app_eq_nil in H. destruct H; discriminate.
Qed.

Lemma dec_N_digits n : forallb is_digit (dec_N n) = true.
Proof.
  induction n as [n Hn|n Hn IH] using dec_ind.
  - rewrite dec_N_small by exact Hn. cbn [forallb]. unfold is_digit, digit_byte.
    destruct (N.leb_spec 48 (48 + n)); [|lia]. destruct (N.leb_spec (48 + n) 57); [reflexivity|lia].
  - rewrite dec_N_big by exact Hn. rewrite forallb_app, IH. cbn [forallb]. unfold is_digit, digit_byte.
    assert (n mod 10 < 10) by (apply N.mod_lt; lia).
    destruct (N.leb_spec 48 (48 + n mod 10)); [|lia]. destruct (N.leb_spec (48 + n mod 10) 57); [reflexivity|lia].
Qed.

Lemma undec_acc_app acc l d :
  d < 10 -> forall v, undec_acc acc l = Some v -> undec_acc acc (l ++ [digit_byte d]) = Some (v * 10 + d).
Proof.
  intros Hd. revert acc; induction l as [|b r IH]; intros acc v; cbn [undec_acc app].
  - intros H; injection H as <-. unfold is_digit, digit_byte.
    destruct (N.leb_spec 48 (48 + d)); [|lia]. destruct (N.leb_spec (48 + d) 57); [|lia]. cbn [andb]. f_equal. lia.
  - destruct (is_digit b); [|discriminate]. apply IH.
Qed.

Lemma undec_acc_dec n : undec_acc 0 (dec_N n) = Some n.
Proof.
  induction n as [n Hn|n Hn IH] using dec_ind.
  - rewrite dec_N_small by exact Hn. cbn [undec_acc]. unfold is_digit, digit_byte.
    destruct (N.leb_spec 48 (48 + n)); [|lia]. destruct (N.leb_spec (48 + n) 57); [|lia]. cbn [andb]. f_equal. lia.
  - rewrite dec_N_big by exact Hn.
    rewrite (undec_acc_app 0 (dec_N (n / 10)) (n mod 10) ltac:(apply N.mod_lt; lia) (n / 10) IH).
    f_equal. rewrite (N.div_mod n 10) at 3 by lia. lia.
Qed.

Lemma undec_N_dec n : undec_N (dec_N n) = Some n.
Proof.
  unfold undec_N. destruct (dec_N n) eqn:E; [exfalso; eapply dec_N_nonempty; eauto|]. rewrite <- E. apply undec_acc_dec.
Qed.

Lemma read_N_dec n : read_N (dec_N n) = Some n.
Proof. unfold read_N. rewrite undec_N_dec, bytes_eqb_refl. reflexivity. Qed.

Lemma read_N_sound l n : read_N l = Some n -> l = dec_N n.
Proof.
  unfold read_N. destruct (undec_N l) as [m|]; [|discriminate].
  destruct (bytes_eqb (dec_N m) l) eqn:E; [|discriminate]. intros H; injection H as <-. symmetry. apply bytes_eqb_eq. exact E.
Qed.

Lemma dec_N_head_digit n : exists b r, dec_N n = b :: r /\ is_digit b = true.
Proof.
  pose proof (dec_N_digits n) as H. destruct (dec_N n) as [|b r] eqn:E; [exfalso; eapply dec_N_nonempty; eauto|].
  exists b, r. split; [reflexivity|]. cbn [forallb] in H. apply andb_prop in H. tauto.
Qed.

Lemma undec_Z_dec z : undec_Z (dec_Z z) = Some z.
Proof.
  assert (Hpos : forall n, undec_Z (dec_N n) = Some (Z.of_N n)).
  { intros n. unfold undec_Z. destruct (dec_N_head_digit n) as (b & r & E & Hb). rewrite E.
    destruct (N.eqb_spec b 45) as [->|_]; [discriminate Hb|]. rewrite <- E, undec_N_dec. reflexivity. }
  destruct z as [|p|p]; cbn [dec_Z].
  - apply Hpos.
  - apply (Hpos (N.pos p)).
  - unfold undec_Z. rewrite N.eqb_refl, undec_N_dec. reflexivity.
Qed.

Lemma read_Z_dec z : read_Z (dec_Z z) = Some z.
Proof. unfold read_Z. rewrite undec_Z_dec, bytes_eqb_refl. reflexivity. Qed.

Lemma read_Z_sound l z : read_Z l = Some z -> l = dec_Z z.
Proof.
  unfold read_Z. destruct (undec_Z l) as [m|]; [|discriminate].
  destruct (bytes_eqb (dec_Z m) l) eqn:E; [|discriminate]. intros H; injection H as <-. symmetry. apply bytes_eqb_eq. exact E.
Qed.

(* Bytes of a rendered integer: digits, or '-' in front. None of them is TAB, LF, '.', '#'. *)
Definition num_byte (b : N) : bool := is_digit b || (b =? 45).

Lemma dec_Z_bytes z : forallb num_byte (dec_Z z) = true.
Proof.
  assert (H : forall n, forallb num_byte (dec_N n) = true).
  { intros n. pose proof (dec_N_digits n) as H. rewrite forallb_forall in *. intros x Hx. unfold num_byte. rewrite (H x Hx). reflexivity. }
  destruct z; cbn [dec_Z forallb]; rewrite ?H; reflexivity.
Qed.

(* The last three digits: for n >= 1000 the numeral of n is the numeral of n/1000 followed
   by the zero-padded remainder. *)
Lemma dec_N_split1000 n : 1000 <= n -> dec_N n = dec_N (n / 1000) ++ pad3 (n mod 1000).
Proof.
  intros H.
  rewrite (dec_N_big n) by lia.
  rewrite (dec_N_big (n / 10)) by (apply N.div_le_lower_bound; lia).
  rewrite (dec_N_big (n / 10 / 10)) by (apply N.div_le_lower_bound; [lia|]; apply N.div_le_lower_bound; lia).
  rewrite <- !app_assoc. cbn [app]. unfold pad3.
  replace (n / 10 / 10 / 10) with (n / 1000) by (rewrite !N.div_div by lia; reflexivity).
  assert (E2 : n / 10 / 10 mod 10 = n mod 1000 / 100) by lia.
  assert (E1 : n / 10 mod 10 = n mod 1000 / 10 mod 10) by lia.
  assert (E0 : n mod 10 = n mod 1000 mod 10) by lia.
  rewrite E2, E1, E0. reflexivity.
Qed.

Lemma dec_N_length_ge3 n : 100 <= n -> (3 <= length (dec_N n))%nat.
Proof.
  intros H.
  rewrite (dec_N_big n) by lia.
  rewrite (dec_N_big (n / 10)) by (apply N.div_le_lower_bound; lia).
  rewrite !app_length. cbn [length].
  pose proof (dec_N_nonempty (n / 10 / 10)). destruct (dec_N (n / 10 / 10)); [congruence|]. cbn [length]. lia.
Qed.

Lemma dec_N_length_lt3 n : n < 100 -> (length (dec_N n) < 3)%nat.
Proof.
  intros H. destruct (N.lt_ge_cases n 10).
  - rewrite dec_N_small by assumption. cbn. lia.
  - rewrite dec_N_big by assumption. rewrite (dec_N_small (n / 10)) by (apply N.div_lt_upper_bound; lia). cbn. lia.
Qed.
