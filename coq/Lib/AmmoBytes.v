(* Byte strings for the ammo decoders (C07/C13): equality, Go's strings.TrimSpace / Cut /
   Split / Join on bytes, textproto.CanonicalMIMEHeaderKey.  Executable definitions only;
   lemmas are in Proofs/AmmoBytesProofs.v. *)
From Coq Require Import List NArith ZArith Bool.
Import ListNotations.
Local Open Scope N_scope.

Definition bytes := list N.

Definition LF : N := 10.
Definition CR : N := 13.
Definition SP : N := 32.
Definition LBR : N := 91.   (* '[' *)
Definition RBR : N := 93.   (* ']' *)
Definition COLON : N := 58.

Fixpoint beq (a b : bytes) : bool :=
  match a, b with
  | [], [] => true
  | x :: a', y :: b' => N.eqb x y && beq a' b'
  | _, _ => false
  end.

(* list reversal in linear time (List.rev is quadratic once extracted) *)
Definition frev {A} (l : list A) : list A := rev_append l [].

Definition is_nil {A} (l : list A) : bool := match l with [] => true | _ => false end.

(* length as a binary number (no big nat numerals anywhere) *)
Fixpoint nlen {A} (l : list A) : N :=
  match l with [] => 0 | _ :: r => N.succ (nlen r) end.

(* ---------- strings.TrimSpace ----------
   unicode.IsSpace: '\t' '\n' '\v' '\f' '\r' ' ' U+0085 U+00A0 (Latin-1) and the White_Space
   code points U+1680, U+2000..U+200A, U+2028, U+2029, U+202F, U+205F, U+3000.  Go decodes
   UTF-8; a multi-byte code point is trimmed exactly when its (unique, shortest) encoding
   is a prefix / suffix of the string. *)
Definition asp (b : N) : bool :=
  (N.leb 9 b && N.leb b 13) || N.eqb b 32.

(* two-byte encodings: C2 85, C2 A0 *)
Definition sp2 (a b : N) : bool :=
  N.eqb a 194 && (N.eqb b 133 || N.eqb b 160).

(* three-byte encodings *)
Definition sp3 (a b c : N) : bool :=
  (N.eqb a 225 && N.eqb b 154 && N.eqb c 128)                                   (* U+1680 *)
  || (N.eqb a 226 && N.eqb b 128 &&
        ((N.leb 128 c && N.leb c 138) || N.eqb c 168 || N.eqb c 169 || N.eqb c 175)) (* U+2000-200A, 2028, 2029, 202F *)
  || (N.eqb a 226 && N.eqb b 129 && N.eqb c 159)                                (* U+205F *)
  || (N.eqb a 227 && N.eqb b 128 && N.eqb c 128).                               (* U+3000 *)

Fixpoint ltrim (s : bytes) : bytes :=
  match s with
  | [] => []
  | a :: r =>
      if asp a then ltrim r
      else match r with
           | [] => s
           | b :: r2 =>
               if sp2 a b then ltrim r2
               else match r2 with
                    | [] => s
                    | c :: r3 => if sp3 a b c then ltrim r3 else s
                    end
           end
  end.

(* the same on the reversed string: used for trimming on the right *)
Fixpoint ltrim_rev (s : bytes) : bytes :=
  match s with
  | [] => []
  | a :: r =>
      if asp a then ltrim_rev r
      else match r with
           | [] => s
           | b :: r2 =>
               if sp2 b a then ltrim_rev r2
               else match r2 with
                    | [] => s
                    | c :: r3 => if sp3 c b a then ltrim_rev r3 else s
                    end
           end
  end.

Definition rtrim (s : bytes) : bytes := frev (ltrim_rev (frev s)).
Definition trim (s : bytes) : bytes := rtrim (ltrim s).

(* number of leading bytes forming one space character (0 = none) *)
Definition space_width (s : bytes) : nat :=
  match s with
  | [] => 0
  | a :: r =>
      if asp a then 1
      else match r with
           | [] => 0
           | b :: r2 =>
               if sp2 a b then 2
               else match r2 with
                    | [] => 0
                    | c :: _ => if sp3 a b c then 3 else 0
                    end
           end
  end%nat.

Definition space_width_rev (s : bytes) : nat :=
  match s with
  | [] => 0
  | a :: r =>
      if asp a then 1
      else match r with
           | [] => 0
           | b :: r2 =>
               if sp2 b a then 2
               else match r2 with
                    | [] => 0
                    | c :: _ => if sp3 c b a then 3 else 0
                    end
           end
  end%nat.

(* a string is "tight" when it neither starts nor ends with a space character *)
Definition tight (s : bytes) : bool :=
  negb (is_nil s) && Nat.eqb (space_width s) 0 && Nat.eqb (space_width_rev (frev s)) 0.

(* ---------- strings.Cut / Split / Join on one separator byte ---------- *)
(* cut sep s = (before, after, found) *)
Fixpoint cut (sep : N) (s : bytes) : bytes * bytes * bool :=
  match s with
  | [] => ([], [], false)
  | c :: r =>
      if N.eqb c sep then ([], r, true)
      else let '(a, b, f) := cut sep r in (c :: a, b, f)
  end.

(* strings.Split(s, sep): always at least one piece *)
Fixpoint split (sep : N) (s : bytes) : list bytes :=
  match s with
  | [] => [[]]
  | c :: r =>
      if N.eqb c sep then [] :: split sep r
      else match split sep r with
           | [] => [[c]]          (* unreachable: split never returns [] *)
           | h :: t => (c :: h) :: t
           end
  end.

Fixpoint join (sep : N) (l : list bytes) : bytes :=
  match l with
  | [] => []
  | [x] => x
  | x :: r => x ++ sep :: join sep r
  end.

Fixpoint has (c : N) (s : bytes) : bool :=
  match s with [] => false | x :: r => N.eqb x c || has c r end.

Definition last_byte (s : bytes) : N := last s 0.

(* ---------- textproto.CanonicalMIMEHeaderKey ---------- *)
Definition is_digit (c : N) : bool := N.leb 48 c && N.leb c 57.
Definition is_lower (c : N) : bool := N.leb 97 c && N.leb c 122.
Definition is_upper (c : N) : bool := N.leb 65 c && N.leb c 90.

(* validHeaderFieldByte: RFC 7230 token characters *)
Definition token_byte (c : N) : bool :=
  is_digit c || is_lower c || is_upper c ||
  existsb (N.eqb c) [33; 35; 36; 37; 38; 39; 42; 43; 45; 46; 94; 95; 96; 124; 126].

Fixpoint canon_go (upper : bool) (s : bytes) : bytes :=
  match s with
  | [] => []
  | c :: r =>
      let c' := if upper && is_lower c then c - 32
                else if negb upper && is_upper c then c + 32 else c in
      c' :: canon_go (N.eqb c' 45) r
  end.

(* a key with any non-token byte is left unchanged (a blank makes it "noCanon", any other
   byte returns early: both leave it as it is) *)
Definition canon_key (s : bytes) : bytes :=
  if forallb token_byte s then canon_go true s else s.
