(* C13 (round 7): hostile configuration VALUES of the ammo providers, and descriptions that are not
   even syntactically HCL / YAML.
   (1) numeric provider options as they reach the plugin factory from the pool config:
       `limit`, `passes` (uint in http/* and */scenario, int with validate:"min=0" in grpc/json),
       `maxammosize` (int, no validation).  The Go operations that take a size from such a value are
       explicit: [make_cap] = make([]byte, 0, n) (partial: panics for n < 0 and beyond the maximum
       allocation), [scanner_buffer] = bufio.Scanner.Buffer(buf, max) (total: keeps the numbers, never
       allocates), [scan_limit] = what a Scanner set up like that accepts.
   (2) the grpc/json provider loop (grpcjson.Provider.start) with Limit, Passes and MaxAmmoSize.
   (3) the syntax stage of a scenario description: hclparse.ParseHCL is an error-recovering parser
       (oracle): it returns what it could recover AND diagnostics; config.ParseHCLFile has to look
       at the diagnostics.
   Executable definitions only; lemmas in Proofs/AmmoHostileConfigProofs.v. *)
From Coq Require Import List NArith ZArith Bool.
From PV Require Import Lib.AmmoBytes Lib.AmmoDecimal Lib.AmmoLines Model.AmmoCommon Model.AmmoRobust
  Model.AmmoConfigInput.
Import ListNotations.
Local Open Scope Z_scope.

(* ---------- (1) numeric options ---------- *)

Definition int_min : Z := - 2 ^ 63.
Definition int_max : Z := 2 ^ 63 - 1.
Definition uint_max : Z := 2 ^ 64 - 1.

(* how a field takes the integer the config decoder hands it *)
Inductive ofield :=
| OUint          (* Go uint: http/* and */scenario Limit, Passes *)
| OIntMin0       (* Go int with validate:"min=0": grpc/json Limit, Passes *)
| OInt.          (* Go int, not validated: MaxAmmoSize *)

(* Some z = the field holds z; None = the config is rejected *)
Definition opt_accept (f : ofield) (z : Z) : option Z :=
  match f with
  | OUint => if (0 <=? z) && (z <=? uint_max) then Some z else None
  | OIntMin0 => if (0 <=? z) && (z <=? int_max) then Some z else None
  | OInt => if (int_min <=? z) && (z <=? int_max) then Some z else None
  end.

(* make([]byte, 0, n): runtime.makeslice panics ("cap out of range") for a negative capacity and for
   one beyond the maximum allocation; otherwise n bytes are reserved at once *)
Definition make_cap (n : Z) : rres Z :=
  if (n <? 0) || (max_alloc <? n) then VPanic else VOk n.

(* how a decoder / provider sets up its line scanner from MaxAmmoSize:
   [prealloc = false]: `var buffer []byte; scanner.Buffer(buffer, max)` — the code;
   [prealloc = true]:  `scanner.Buffer(make([]byte, 0, max), max)` — the buffer sized from the option.
   Result: bytes reserved up front *)
Definition scanner_setup (prealloc : bool) (max : Z) : rres Z :=
  if max =? 0 then VOk 0                     (* option not set: bufio's defaults *)
  else if prealloc then make_cap max else VOk 0.

(* what a bufio.Scanner with Buffer(nil, max) accepts: a line is a token when it is SHORTER than the
   limit (line + terminator fit the buffer).  0 = not set = bufio.MaxScanTokenSize; a negative limit
   makes the first Scan fail with ErrTooLong whatever the input (len(buf) = 0 >= max) *)
Definition scan_limit (max : Z) : option N :=
  if max =? 0 then Some max_token
  else if max <? 0 then None
  else Some (Z.to_N max).

Definition scan_lines_opt (max : Z) (file : bytes) : list bytes * scan_end :=
  match scan_limit max with
  | None => ([], STooLong)
  | Some m => scan_lines m file
  end.

(* ---------- (2) grpc/json provider with its options ---------- *)

Inductive pres :=
| PDeliver (tag call : bytes)
| PInvalid       (* ContinueOnError: the undecodable line is delivered as an invalidated ammo *)
| PErr           (* Run returns an error *)
| PDone.         (* Run returns nil: Limit or Passes reached *)

Section GrpcOpts.
  Variable unmarshal : bytes -> option (bytes * bytes).
  Variable continue_on_error : bool.
  Variables limit passes : Z.       (* 0 = unlimited; accepted values are >= 0 *)

  Definition limit_reached (ammo : Z) : bool := negb (limit =? 0) && (limit <=? ammo).

  (* the first k things a consumer sees.  [ammo] = ammoNum, [pass] = passNum (1 in the first pass),
     [left] = the lines of this pass not yet scanned, [all] / [e] = the lines a pass yields and how the
     scanner stops after them.  The loop condition `scanner.Scan() && (Limit == 0 || ammoNum < Limit)`
     calls Scan first. *)
  Fixpoint grpc_run_opts (k : nat) (all : list bytes) (e : scan_end) (ammo pass : Z) (left : list bytes) : list pres :=
    match k with
    | O => []
    | S k' =>
        let step l r ps :=
          if limit_reached ammo then [PDone]
          else match unmarshal (drop_cr l) with
               | Some (t, c) => PDeliver t c :: grpc_run_opts k' all e (ammo + 1) ps r
               | None => if continue_on_error then PInvalid :: grpc_run_opts k' all e (ammo + 1) ps r else [PErr]
               end in
        match left with
        | l :: r => step l r pass
        | [] =>
            match e with
            | STooLong => [PErr]                         (* scanner.Err() *)
            | SEof =>
                if ammo =? 0 then [PErr]                  (* "no ammo in file" *)
                else if limit_reached ammo then [PDone]
                else if negb (passes =? 0) && (passes <=? pass) then [PDone]
                else match all with
                     | [] => [PErr]                       (* not reachable: ammo > 0 needs a line *)
                     | l :: r => step l r (pass + 1)
                     end
            end
        end
    end.
End GrpcOpts.

(* the provider as the plugin factory + Run make it: the three numbers as the decoder hands them over *)
Definition grpc_provider (unmarshal : bytes -> option (bytes * bytes)) (cont : bool)
    (limit passes max : Z) (k : nat) (file : bytes) : option (list pres) :=
  match opt_accept OIntMin0 limit, opt_accept OIntMin0 passes, opt_accept OInt max with
  | Some l, Some p, Some m =>
      match scanner_setup false m with
      | VOk _ => let '(ls, e) := scan_lines_opt m file in Some (grpc_run_opts unmarshal cont l p k ls e 0 1 ls)
      | _ => None
      end
  | _, _, _ => None                                    (* the config is rejected *)
  end.

(* the http providers: Limit / Passes are unsigned; MaxAmmoSize reaches only the jsonline decoder,
   which hands it to its scanner (the entities are read by encoding/json, the scanner is never
   advanced: the option has no effect on deliveries).  Result: Some reserved-bytes = constructed *)
Definition http_provider_opts (prealloc : bool) (limit passes max : Z) : rres Z :=
  match opt_accept OUint limit, opt_accept OUint passes, opt_accept OInt max with
  | Some _, Some _, Some m => scanner_setup prealloc m
  | _, _, _ => VErr
  end.

(* ---------- (3) syntax stage of a scenario description ---------- *)

Section DescSyntax.
  Variable A : Type.                 (* a parsed description *)

  (* hclparse.ParseHCL (oracle): whether the diagnostics contain an error, and the file it returns
     all the same — everything it could recover; None = no file at all *)
  Record hcl_parse := { hp_errors : bool; hp_file : option A }.

  (* config.ParseHCLFile's first stage.  [diag_checked = true]: `if diag.HasErrors()` — the code;
     false: `if f == nil || f.Body == nil`. *)
  Definition hcl_syntax_stage (diag_checked : bool) (p : hcl_parse) : rres A :=
    if diag_checked then
      if hp_errors p then VErr
      else match hp_file p with Some a => VOk a | None => VPanic (* f.Body of a nil file *) end
    else
      match hp_file p with Some a => VOk a | None => VErr end.

  (* config.ReadAmmoConfig: the extension selects the parser; [yaml] = yaml.Unmarshal (None = error);
     [decode] = everything after the syntax stage (locals, gohcl.DecodeBody, DecodeMap, decodeAmmo) *)
  Definition read_description (diag_checked : bool) (f : sfmt) (hcl : bytes -> hcl_parse) (yaml : bytes -> option A)
      (decode : A -> rres (list Z)) (text : bytes) : rres (list Z) :=
    match f with
    | FOther => VErr
    | FHcl => match hcl_syntax_stage diag_checked (hcl text) with
              | VOk a => decode a
              | VErr => VErr
              | VPanic => VPanic
              end
    | FYaml | FYml => match yaml text with Some a => decode a | None => VErr end
    end.
End DescSyntax.
Arguments hp_errors {A} _.
Arguments hp_file {A} _.

(* ---------- (4) round 8: a pass of the grpc/json provider that ends at an entry the scanner refuses ----------
   bufio.Scanner stops for good at a line that does not fit its buffer (longer than MaxAmmoSize, or than
   bufio.MaxScanTokenSize when the option is not set): Scan returns false, Err() = ErrTooLong.  The entries
   behind that line can never be delivered, so the run has to END WITH AN ERROR whatever Limit / Passes say —
   unless the limit ended it before the scanner got that far. *)

Section GrpcRefused.
  Variable unmarshal : bytes -> option (bytes * bytes).
  Variable continue_on_error : bool.
  Variable limit : Z.

  (* SPECIFICATION (no pass loop, no pass counter): what a consumer sees of a file whose accepted lines are
     [left] and whose next line is refused, [ammo] entries having been delivered already *)
  Fixpoint refused_spec (ammo : Z) (left : list bytes) : list pres :=
    match left with
    | [] => [PErr]                                        (* the refused entry: rejected with an error *)
    | l :: r =>
        if limit_reached limit ammo then [PDone]
        else match unmarshal (drop_cr l) with
             | Some (t, c) => PDeliver t c :: refused_spec (ammo + 1) r
             | None => if continue_on_error then PInvalid :: refused_spec (ammo + 1) r else [PErr]
             end
    end.

  (* the pass loop with the ORDER of the checks behind the line loop as a parameter.
     [err_first = true]: scanner.Err() is looked at first, then "no ammo", Limit, Passes — the code;
     [err_first = false]: "no ammo", Limit, Passes first and scanner.Err() only before the file is rewound. *)
  Fixpoint grpc_run_ord (err_first : bool) (passes : Z) (k : nat) (all : list bytes) (e : scan_end)
      (ammo pass : Z) (left : list bytes) : list pres :=
    match k with
    | O => []
    | S k' =>
        let step l r ps :=
          if limit_reached limit ammo then [PDone]
          else match unmarshal (drop_cr l) with
               | Some (t, c) => PDeliver t c :: grpc_run_ord err_first passes k' all e (ammo + 1) ps r
               | None => if continue_on_error then PInvalid :: grpc_run_ord err_first passes k' all e (ammo + 1) ps r else [PErr]
               end in
        let rewind :=
          match all with
          | [] => [PErr]
          | l :: r => step l r (pass + 1)
          end in
        let scan_err (next : list pres) := match e with STooLong => [PErr] | SEof => next end in
        let bounds (next : list pres) :=
          if ammo =? 0 then [PErr]
          else if limit_reached limit ammo then [PDone]
          else if negb (passes =? 0) && (passes <=? pass) then [PDone]
          else next in
        match left with
        | l :: r => step l r pass
        | [] => if err_first then scan_err (bounds rewind) else bounds (scan_err rewind)
        end
    end.
End GrpcRefused.

(* what the driver judges a grpc/json run by when the file has a refused entry: Some expected first-k results *)
Definition grpc_refused_expected (unmarshal : bytes -> option (bytes * bytes)) (cont : bool)
    (limit passes max : Z) (k : nat) (file : bytes) : option (list pres) :=
  match opt_accept OIntMin0 limit, opt_accept OIntMin0 passes, opt_accept OInt max with
  | Some l, Some _, Some m =>
      match scan_lines_opt m file with
      | (a, STooLong) => Some (firstn k (refused_spec unmarshal cont l 0 a))
      | (_, SEof) => None
      end
  | _, _, _ => None
  end.

(* ---------- (5) round 8: a source that FAILS while it is read (grpc/json) ----------
   The file hands out its first n bytes and then Read returns an I/O error (not EOF), in every pass.
   bufio.Scanner keeps delivering the complete lines it has buffered; when it needs more data it meets the
   error, remembers it (Err() is non-nil from then on), hands out the unterminated rest — if there is one and
   it fits the buffer — as a last token, and stops.  Whatever Limit / Passes say, the run must END WITH THE
   ERROR once the scanner has met it: the entries behind byte n were never read. *)

Section GrpcReadError.
  Variable unmarshal : bytes -> option (bytes * bytes).
  Variable continue_on_error : bool.
  Variable limit : Z.

  (* the unterminated rest [partial] ([] = the error fell on a line boundary; None = the rest does not fit the
     scanner's buffer): the scanner has met the error when this token is handed out, so even a run the limit
     ends here ends with the error *)
  Definition rerr_tail (ammo : Z) (partial : option bytes) : list pres :=
    match partial with
    | None | Some [] => [PErr]
    | Some l =>
        if limit_reached limit ammo then [PErr]
        else match unmarshal (drop_cr l) with
             | Some (t, c) => [PDeliver t c; PErr]
             | None => if continue_on_error then [PInvalid; PErr] else [PErr]
             end
    end.

  (* SPECIFICATION: [complete] = the complete lines read before the error *)
  Fixpoint rerr_spec (ammo : Z) (complete : list bytes) (partial : option bytes) : list pres :=
    match complete with
    | [] => rerr_tail ammo partial
    | l :: r =>
        if limit_reached limit ammo then [PDone]
        else match unmarshal (drop_cr l) with
             | Some (t, c) => PDeliver t c :: rerr_spec (ammo + 1) r partial
             | None => if continue_on_error then PInvalid :: rerr_spec (ammo + 1) r partial else [PErr]
             end
    end.
End GrpcReadError.

(* the bytes read before the error, cut into complete lines and the unterminated rest *)
Definition split_read (pre : bytes) : list bytes * bytes :=
  match frev pre with
  | [] => ([], [])
  | c :: _ => if N.eqb c LF then (lines pre, [])
              else match frev (lines pre) with
                   | last :: r => (frev r, last)
                   | [] => ([], [])
                   end
  end.

(* what the driver judges a grpc/json run over a failing source by *)
Definition grpc_read_error_expected (unmarshal : bytes -> option (bytes * bytes)) (cont : bool)
    (limit passes max : Z) (k : nat) (file : bytes) (n : nat) : option (list pres) :=
  match opt_accept OIntMin0 limit, opt_accept OIntMin0 passes, opt_accept OInt max with
  | Some l, Some _, Some m =>
      let '(complete, partial) := split_read (firstn n file) in
      match scan_limit m with
      | None => Some (firstn k [PErr])
      | Some tok =>
          match cap_lines tok complete with
          | (a, STooLong) => Some (firstn k (refused_spec unmarshal cont l 0 a))
          | (a, SEof) =>
              Some (firstn k (rerr_spec unmarshal cont l 0 a (if N.ltb (nlen partial) tok then Some partial else None)))
          end
      end
  | _, _, _ => None
  end.
