(* C13: configuration-side input of the ammo providers.
   (1) the `headers` list of the http provider config (util.DecodeHTTPConfigHeaders, called by
       decoders.NewDecoder for every decoder type) and how the decoded list reaches a request
       (uri/uripost decoder loop over decodedConfigHeaders + util.EnrichRequestWithHeaders);
   (2) the scenario description file: dispatch on the file extension (config.ReadAmmoConfig),
       the HCL and the YAML path both ending in config.DecodeMap, which validates the scenario
       weights before config.SpreadNames / decodeAmmo size a slice with them.
   Executable definitions only; lemmas in Proofs/AmmoConfigInputProofs.v. *)
From Coq Require Import List NArith ZArith Bool.
From PV Require Import Lib.AmmoBytes Lib.AmmoDecimal Lib.AmmoLines Model.AmmoCommon Model.AmmoRobust.
Import ListNotations.

(* ---------- (1) config headers ---------- *)

(* http.Header: canonical key -> values in the order added *)
Definition mheaders := list (bytes * list bytes).

(* http.Header.Add on a canonical key *)
Fixpoint madd (k v : bytes) (h : mheaders) : mheaders :=
  match h with
  | [] => [(k, [v])]
  | (k', vs) :: r => if beq k k' then (k', vs ++ [v]) :: r else (k', vs) :: madd k v r
  end.

(* util.DecodeHTTPConfigHeaders: left to right; the first entry that DecodeHeader rejects ends
   the loop and its error is the result *)
Fixpoint config_headers (hs : list bytes) (acc : mheaders) : mheaders + err :=
  match hs with
  | [] => inl acc
  | h :: r =>
      match decode_header h with
      | inl (k, v) => config_headers r (madd (canon_key k) v acc)
      | inr e => inr e
      end
  end.

(* a request built from an ammo entry without header lines of its own: every configured key
   is copied with all its values; util.EnrichRequestWithHeaders then moves "Host" (first value)
   into req.Host when the URL / request gave none.  Result: (host, headers). *)
Fixpoint apply_config_headers (host : bytes) (m : mheaders) : bytes * mheaders :=
  match m with
  | [] => (host, [])
  | (k, vs) :: r =>
      let k' := canon_key k in
      if beq k' HOST
      then apply_config_headers (if is_nil host then hd [] vs else host) r
      else let '(h, out) := apply_config_headers host r in (h, (k', vs) :: out)
  end.

(* the outcome of provider construction as far as the list decides it *)
Inductive newres := NewErr | NewOk (host : bytes) (hs : mheaders).

Definition provider_new_headers (url_host : bytes) (hs : list bytes) : newres :=
  match config_headers hs [] with
  | inr _ => NewErr
  | inl m => let '(h, out) := apply_config_headers url_host m in NewOk h out
  end.

(* SPECIFICATION of one entry, written from the documented form "[Name: value]" and not from
   DecodeHeader: an opening and a closing bracket, a colon in between, and a name that is not
   blank.  (Proofs: equivalent to [wf_header_entry], and DecodeHeader accepts exactly these.) *)
Definition header_entry_okb (h : bytes) : bool :=
  match h with
  | a :: r =>
      N.eqb a LBR &&
      match frev r with
      | z :: ri =>
          let inner := frev ri in
          N.eqb z RBR && has COLON inner && negb (is_nil (trim (fst (fst (cut COLON inner)))))
      | [] => false
      end
  | [] => false
  end.

(* the list is acceptable exactly when every entry is, wherever it stands *)
Definition header_list_okb (hs : list bytes) : bool := forallb header_entry_okb hs.

(* ---------- (2) scenario description file ---------- *)
Local Open Scope Z_scope.

(* the file name's extension, lower-cased by ReadAmmoConfig *)
Inductive sfmt := FHcl | FYaml | FYml | FOther.

(* config.DecodeMap: a negative scenario weight is an error of the document *)
Definition weights_valid (ws : list Z) : bool := negb (existsb (fun w => w <? 0) ws).

(* config.SpreadNames + make([]*Scenario, 0, total) of decodeAmmo, as written, on whatever
   weights reach it: a negative total is a makeslice panic *)
Definition spread_raw (weights : list Z) : rres (list Z) :=
  match weights with
  | [] => VOk []
  | [_] => VOk [1]
  | _ =>
      let ws := map (fun w => if w =? 0 then 1 else w) weights in
      let g := go_gcdm_rev (rev ws) in
      if g =? 0 then VPanic
      else
        let cs := map (fun w => Z.quot w g) ws in
        let total := fold_left Z.add cs 0 in
        if (total <? 0) || (max_alloc <? 8 * total) then VPanic
        else VOk cs
  end.

(* config.ReadAmmoConfig -> {ParseHCLFile; ConvertHCLToAmmo | ParseAmmoConfig} -> DecodeMap,
   then decodeAmmo: the copies per scenario *)
Definition scenario_weights (f : sfmt) (ws : list Z) : rres (list Z) :=
  match f with
  | FOther => VErr                                         (* unknown file extension *)
  | FHcl => if weights_valid ws then spread_raw ws else VErr          (* ConvertHCLToAmmo -> DecodeMap *)
  | FYaml | FYml => if weights_valid ws then spread_raw ws else VErr  (* ParseAmmoConfig -> DecodeMap *)
  end.

(* the request list of a scenario through the same dispatch: both parsers hand the strings of
   `requests` unchanged to convertScenarioToAmmo *)
Definition scenario_requests (f : sfmt) (known : bytes -> bool) (reqs : list bytes) : rres (list step * list Z) :=
  match f with
  | FOther => VErr
  | FHcl | FYaml | FYml => convert known reqs [] []
  end.
