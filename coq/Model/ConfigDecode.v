(* Model of pandora's config decoding (property C17).
   core/config/config.go (mapstructure with ErrorUnused, no zeroing, no weak typing, tag "config"),
   core/config/hooks.go (hook chain), lib/confutil (placeholder substitution),
   core/plugin/pluginconfig/hooks.go (plugin / factory hooks), core/import/import.go (sink-string and
   schedule-list hooks), core/config/validator.go (validate tags), cli/cli.go (discard_overflow pre-pass).
   The schema and the registry content are regenerated from the source by `translate schema`
   (Gen/ConfigSchemaGen.v).  Executable definitions only. *)
From Coq Require Import List NArith ZArith Bool QArith.
Import ListNotations.
Local Open Scope N_scope.

(* ---------------------------------------------------------------- strings = byte lists *)
Definition str := list N.

Fixpoint str_eqb (a b : str) : bool :=
  match a, b with
  | [], [] => true
  | x :: a', y :: b' => N.eqb x y && str_eqb a' b'
  | _, _ => false
  end.

Definition lower_b (c : N) : N := if (65 <=? c) && (c <=? 90) then c + 32 else c.
Definition lower (s : str) : str := map lower_b s.
(* strings.EqualFold restricted to ASCII (mapstructure's MatchName) *)
Definition fold_eqb (a b : str) : bool := str_eqb (lower a) (lower b).

Fixpoint mem_str (k : str) (l : list str) : bool :=
  match l with [] => false | x :: r => str_eqb k x || mem_str k r end.

Fixpoint prefix_of (p s : str) : option str :=
  match p, s with
  | [], _ => Some s
  | x :: p', y :: s' => if N.eqb x y then prefix_of p' s' else None
  | _ :: _, [] => None
  end.

Definition is_space (c : N) : bool :=
  (c =? 32) || (c =? 9) || (c =? 10) || (c =? 11) || (c =? 12) || (c =? 13).
Fixpoint trim_left (s : str) : str :=
  match s with c :: r => if is_space c then trim_left r else s | [] => [] end.
Definition trim (s : str) : str := rev (trim_left (rev (trim_left s))).

(* ---------------------------------------------------------------- generic value tree (what YAML/viper yields) *)
Inductive value :=
| VNull
| VBool (b : bool)
| VInt (z : Z)
| VFloat (q : Q)
| VStr (s : str)
| VList (l : list value)
| VMap (kvs : list (str * value)).

(* ---------------------------------------------------------------- schema (regenerated from the Go types) *)
Inductive skind :=
| KBool | KInt (bits : N) | KUint (bits : N) | KFloat | KString
| KDuration              (* time.Duration: int64 + StringToTimeDurationHook *)
| KSize                  (* datasize.ByteSize: uint64 + text unmarshalling *)
| KText (bits : N)       (* other encoding.TextUnmarshaler of integer kind (zapcore.Level) *)
| KOpaque.               (* url.URL, net.IP, ... : not modelled, decode is an explicit error *)

(* round 7: a condition on the options of ONE config struct, named by their accepted keys (used by TCtorRel) *)
Inductive ocond :=
| OTrue | OFalse
| OSet (k : str)              (* option k holds something: a non-empty string / list / map, a non-zero number, true *)
| OIs (k : str) (v : str)     (* the string option k holds exactly v *)
| ONot (c : ocond) | OAnd (a b : ocond) | OOr (a b : ocond).

Inductive vtag :=
| TRequired | TMin (n : Z) | TMax (n : Z)
| TMinTime (ns : Z) | TMaxTime (ns : Z) | TMinSize (b : Z) | TMaxSize (b : Z)
| TEndpoint | TUrlPath | TDive
| TCtorHeaders           (* not a validate tag: the documented form of the option (a list of "[Name: value]" lines) is
                            enforced by the component's constructor (decoders.NewDecoder -> util.DecodeHTTPConfigHeaders),
                            which plugin.New runs while the component's section is being decoded *)
| TCtorRel (pre post : ocond)
                         (* round 7, not a validate tag either: a RELATION between options of the component's config that its
                            constructor enforces -- when `pre` holds of the filled config, `post` has to hold as well
                            (http providers: `uris` and `file` exclude each other, one of them is needed, `uris` only
                            with the uri decoder).  Carried by the option the relation is documented at. *)
.

(* a struct field: accepted key (config tag or Go field name), squash flag, validate tags, type *)
Inductive schema :=
| SStruct (nullable : bool) (fs : list (str * bool * list vtag * schema))
| SMap (e : schema)
| SSlice (e : schema)
| SScalar (k : skind)
| SAny
| SPlugin (iface : str) (fk : N)   (* fk: 0 = interface value, 1 = func() P, 2 = func() (P, error) *)
| SUnsupported.

Definition fld := (str * bool * list vtag * schema)%type.
Definition f_key (f : fld) : str := fst (fst (fst f)).
Definition f_squash (f : fld) : bool := snd (fst (fst f)).
Definition f_tags (f : fld) : list vtag := snd (fst f).
Definition f_schema (f : fld) : schema := snd f.

(* fields of a struct after squashing embedded structs (depth first, source order) *)
Fixpoint flat_fields (s : schema) : list fld :=
  match s with
  | SStruct _ fs =>
      (fix go (l : list fld) : list fld :=
         match l with
         | [] => []
         | f :: r => (if f_squash f then flat_fields (f_schema f) else [f]) ++ go r
         end) fs
  | _ => []
  end.

(* decoded configuration values; a struct value lists the values of flat_fields in order *)
Inductive cval :=
| CNil
| CBool (b : bool)
| CInt (z : Z)
| CFloat (q : Q)
| CStr (s : str)
| CStruct (fs : list cval)
| CSlice (l : list cval)
| CMap (kvs : list (str * cval))
| CAny (v : value)
| CPlugin (name : str) (lazy : bool) (conf : cval).

(* one registered component *)
Record entry := {
  e_iface : str;
  e_name : str;
  e_factory : bool;                       (* the registered constructor returns func() (P[, error]) *)
  e_conf : option (schema * cval)         (* config schema and registered default; None: constructor takes no config *)
}.

Inductive err := EType | EUnused | EValidate | EPlaceholder | EPlugin | EHook | EUnsupported | EPanic | ECtor.
Inductive res (A : Type) := Ok (a : A) | Err (e : err) | Fuel.
Arguments Ok {A} a.
Arguments Err {A} e.
Arguments Fuel {A}.

Definition rmap {A B} (f : A -> B) (r : res A) : res B :=
  match r with Ok a => Ok (f a) | Err e => Err e | Fuel => Fuel end.

(* errors are accumulated by mapstructure: every sibling is still decoded; out-of-fuel dominates *)
Definition rcons {A} (r1 : res A) (r2 : res (list A)) : res (list A) :=
  match r1, r2 with
  | Fuel, _ => Fuel
  | _, Fuel => Fuel
  | Err e, _ => Err e
  | _, Err e => Err e
  | Ok a, Ok l => Ok (a :: l)
  end.

Fixpoint zero_of (s : schema) : cval :=
  match s with
  | SStruct nl fs =>
      if nl then CNil else
      CStruct ((fix go (l : list fld) : list cval :=
                  match l with
                  | [] => []
                  | f :: r => (if f_squash f
                               then match zero_of (f_schema f) with CStruct cs => cs | _ => [] end
                               else [zero_of (f_schema f)]) ++ go r
                  end) fs)
  | SScalar KBool => CBool false
  | SScalar KFloat => CFloat 0
  | SScalar KString => CStr []
  | SScalar KOpaque => CNil
  | SScalar _ => CInt 0
  | _ => CNil
  end.

(* the value a non-nullable view of a struct starts from (decodePtr allocates a zero struct for nil) *)
Definition struct_cur (s : schema) (cur : cval) : list cval :=
  match cur with
  | CStruct cs => cs
  | _ => match zero_of (match s with SStruct _ fs => SStruct false fs | _ => s end) with CStruct cs => cs | _ => [] end
  end.

(* ---------------------------------------------------------------- integer conversions *)
Definition pow2 (bits : N) : Z := Z.pow 2 (Z.of_N bits).
Definition wrap_uint (bits : N) (z : Z) : Z := Z.modulo z (pow2 bits).
Definition wrap_int (bits : N) (z : Z) : Z :=
  let m := Z.modulo z (pow2 bits) in
  if Z.ltb m (pow2 (bits - 1)) then m else (m - pow2 bits)%Z.
(* int64(float): truncation toward zero *)
Definition qtrunc (q : Q) : Z := Z.quot (Qnum q) (Zpos (Qden q)).
Definition qneg (q : Q) : bool := Z.ltb (Qnum q) 0.

(* ---------------------------------------------------------------- placeholders (lib/confutil/custom_tag_resolver.go) *)
Section Decode.

(* oracles: the environment / property files, and library parsers *)
Variable env : str -> option str.                    (* os.LookupEnv *)
Variable prop : str -> str -> option str.            (* property file -> key -> value (None: file or key missing) *)
Inductive okind := ODur | OSize | OText | OInt (bits : N) | OUint (bits : N) | OEndpoint | OUrlPath.
Variable orc : okind -> str -> option Z.             (* time.ParseDuration, datasize, TextUnmarshaler, strconv.ParseInt(s,0,bits), strconv.ParseUint(s,0,bits), validators *)
Variable orcq : str -> option Q.                     (* strconv.ParseFloat *)
Variable reg : list entry.                           (* the plugin registry *)
Variable factory_lazy : bool.                        (* Registry.NewFactory decodes a plugin constructor's config only at the first factory call *)

Definition c_dollar : N := 36. Definition c_lbrace : N := 123. Definition c_rbrace : N := 125.
Definition c_colon : N := 58. Definition c_hash : N := 35.

(* `([^{}]+?)\}` : a non-empty run of non-brace bytes followed by '}' *)
Fixpoint var_end (acc : str) (r : str) : option (str * str) :=
  match r with
  | [] => None
  | c :: r' =>
      if c =? c_rbrace then (match acc with [] => None | _ => Some (rev acc, r') end)
      else if c =? c_lbrace then None
      else var_end (c :: acc) r'
  end.

(* `(?:([^}]+?):)?` tried first, shortest group first (leftmost-first / backtracking order) *)
Fixpoint grp (acc : str) (r : str) : option (str * str * str) :=
  match r with
  | [] => None
  | c :: r' =>
      if c =? c_rbrace then None
      else if (c =? c_colon) && negb (match acc with [] => true | _ => false end) then
        match var_end [] r' with
        | Some (v, rem) => Some (rev acc, v, rem)
        | None => grp (c :: acc) r'
        end
      else grp (c :: acc) r'
  end.

Record tagent := { t_whole : str; t_type : str; t_var : str }.

Definition match_at (r : str) : option (tagent * str) :=   (* r = text after "${" *)
  match grp [] r with
  | Some (g, v, rem) =>
      Some ({| t_whole := c_dollar :: c_lbrace :: g ++ c_colon :: v ++ [c_rbrace]; t_type := trim g; t_var := trim v |}, rem)
  | None =>
      match var_end [] r with
      | Some (v, rem) => Some ({| t_whole := c_dollar :: c_lbrace :: v ++ [c_rbrace]; t_type := []; t_var := trim v |}, rem)
      | None => None
      end
  end.

(* FindAllStringSubmatch: successive non-overlapping leftmost matches; fuel = length of the text *)
Fixpoint find_tags (n : nat) (s : str) : list tagent :=
  match n with
  | O => []
  | S n' =>
      match s with
      | [] => []
      | c :: r =>
          if c =? c_dollar then
            match r with
            | c2 :: r2 =>
                if c2 =? c_lbrace then
                  match match_at r2 with
                  | Some (t, rem) => t :: find_tags n' rem
                  | None => find_tags n' r
                  end
                else find_tags n' r
            | [] => []
            end
          else find_tags n' r
      end
  end.

(* strings.ReplaceAll with a non-empty pattern *)
Fixpoint replace_all (n : nat) (s pat rep : str) : str :=
  match n with
  | O => s
  | S n' =>
      match s with
      | [] => []
      | c :: r =>
          match prefix_of pat s with
          | Some rest => rep ++ replace_all n' rest pat rep
          | None => c :: replace_all n' r pat rep
          end
      end
  end.

Fixpoint split_hash (acc : str) (s : str) : option (str * str) :=
  match s with
  | [] => None
  | c :: r => if c =? c_hash then Some (rev acc, r) else split_hash (c :: acc) r
  end.

Inductive rres := RNone (* no resolver registered for the tag type *) | RErr (e : err) | RVal (s : str).

Definition s_env : str := [101;110;118].
Definition s_property : str := [112;114;111;112;101;114;116;121].

Definition resolve (ty var : str) : rres :=
  let t := lower ty in
  if str_eqb t [] || str_eqb t s_env then
    match env var with Some v => RVal v | None => RErr EPlaceholder end
  else if str_eqb t s_property then
    match split_hash [] var with
    | None => RErr EPlaceholder                (* "property name is missing": an error since fix 502dfdc (before: split[1] out of range, a panic) *)
    | Some (file, key) => match prop file key with Some v => RVal v | None => RErr EPlaceholder end
    end
  else RNone.

Fixpoint subst_tokens (cur : str) (toks : list tagent) : res str :=
  match toks with
  | [] => Ok cur
  | t :: r =>
      match resolve (t_type t) (t_var t) with
      | RNone => subst_tokens cur r
      | RErr e => Err e
      | RVal v => subst_tokens (replace_all (S (length cur)) cur (t_whole t) v) r
      end
  end.

(* target kind as seen by confutil.cast *)
Inductive ckind := CKBool | CKInt (bits : N) | CKUint (bits : N) | CKFloat | CKString | CKOther.

Definition cast_kind (s : schema) : ckind :=
  match s with
  | SScalar KBool => CKBool
  | SScalar (KInt b) => CKInt b
  | SScalar (KText b) => CKInt b
  | SScalar KDuration => CKInt 64
  | SScalar (KUint b) => CKUint b
  | SScalar KSize => CKUint 64
  | SScalar KFloat => CKFloat
  | SScalar KString => CKString
  | _ => CKOther
  end.

(* strconv.ParseBool *)
Definition parse_bool (s : str) : option bool :=
  if mem_str s [[49]; [116]; [84]; [84;82;85;69]; [116;114;117;101]; [84;114;117;101]] then Some true
  else if mem_str s [[48]; [102]; [70]; [70;65;76;83;69]; [102;97;108;115;101]; [70;97;108;115;101]] then Some false
  else None.

Inductive hres := HVal (v : value) | HErr (e : err).

(* confutil.cast: the substituted text of a whole-string placeholder is cast by the target's kind *)
Definition cast_text (target : schema) (r : str) : hres :=
  match cast_kind target with
  | CKBool => match parse_bool r with Some x => HVal (VBool x) | None => HVal (VStr r) end
  | CKInt bits => match orc (OInt bits) r with Some z => HVal (VInt z) | None => HVal (VStr r) end
  | CKUint bits => match orc (OUint bits) r with Some z => HVal (VInt z) | None => HVal (VStr r) end   (* ParseUint: no sign, the whole unsigned range (df402fa) *)
  | CKFloat => match orcq r with Some q => HVal (VFloat q) | None => HVal (VStr r) end
  | CKString => HVal (VStr r)
  | CKOther => HErr EPlaceholder            (* ErrUnsupportedKind is returned as the hook's error *)
  end.

(* VariableInjectHook: only for string input *)
Definition inject (target : schema) (s : str) : hres :=
  let toks := find_tags (length s) s in
  match toks with
  | [] => HVal (VStr s)
  | _ =>
      match subst_tokens s toks with
      | Err e => HErr e
      | Fuel => HErr EHook
      | Ok r =>
          match toks with
          | [t] =>
              if str_eqb (trim s) (t_whole t) then
                cast_text target r
              else HVal (VStr r)
          | _ => HVal (VStr r)
          end
      end
  end.

(* the documented placeholder form ${property:FILE#KEY} *)
Definition ph_tagged (tag var : str) : str := c_dollar :: c_lbrace :: tag ++ c_colon :: var ++ [c_rbrace].
Definition ph_prop (file key : str) : str := ph_tagged s_property (file ++ c_hash :: key).
Definition no_hash (s : str) : bool := forallb (fun c => negb (c =? c_hash)) s.

(* the documented placeholder form ${env:NAME} for a plain name *)
Definition ph_env (name : str) : str := c_dollar :: c_lbrace :: s_env ++ c_colon :: name ++ [c_rbrace].
Definition name_char (c : N) : bool :=
  negb (c =? c_lbrace) && negb (c =? c_rbrace) && negb (c =? c_colon) && negb (is_space c).
Definition simple_name (s : str) : bool := match s with [] => false | _ => forallb name_char s end.

Definition s_type : str := [116;121;112;101].
Definition s_path : str := [112;97;116;104].
Definition s_file : str := [102;105;108;101].
Definition s_stdout : str := [115;116;100;111;117;116].
Definition s_stderr : str := [115;116;100;101;114;114].
Definition s_stdin : str := [115;116;100;105;110].
Definition s_nested : str := [110;101;115;116;101;100].
Definition s_composite : str := [99;111;109;112;111;115;105;116;101].
Definition i_datasink : str := [99;111;114;101;46;68;97;116;97;83;105;110;107].          (* core.DataSink *)
Definition i_schedule : str := [99;111;114;101;46;83;99;104;101;100;117;108;101].        (* core.Schedule *)

(* the string hooks after the injection: text unmarshalling, durations, sizes, sink shorthands *)
Definition string_hooks (target : schema) (s : str) : hres :=
  match target with
  | SScalar (KText _) => match orc OText s with Some z => HVal (VInt z) | None => HErr EHook end
  | SScalar KSize => match orc OSize s with Some z => HVal (VInt z) | None => HErr EHook end
  | SScalar KDuration => match orc ODur s with Some z => HVal (VInt z) | None => HErr EHook end
  | SPlugin iface _ =>
      if str_eqb iface i_datasink then
        (* core/import sinkStringHook with the hooks registered by Import: stdout, stderr, stdin; file as fallback *)
        if str_eqb s s_stdout || str_eqb s s_stderr || str_eqb s s_stdin
        then HVal (VMap [(s_type, VStr s)])
        else HVal (VMap [(s_path, VStr s); (s_type, VStr s_file)])
      else HVal (VStr s)
  | _ => HVal (VStr s)
  end.

Definition hooks (target : schema) (v : value) : hres :=
  match v with
  | VStr s =>
      match inject target s with
      | HVal (VStr s') => string_hooks target s'
      | r => r
      end
  | VList l =>
      match target with
      | SPlugin iface _ =>
          if str_eqb iface i_schedule then HVal (VMap [(s_type, VStr s_composite); (s_nested, v)]) else HVal v
      | _ => HVal v
      end
  | _ => HVal v
  end.

(* ---------------------------------------------------------------- scalars (mapstructure decodeBool/Int/Uint/Float/String, no weak typing) *)
Definition dec_scalar (k : skind) (v : value) : res cval :=
  match k, v with
  | KBool, VBool x => Ok (CBool x)
  | KInt bits, VInt z => Ok (CInt (wrap_int bits z))
  | KInt bits, VFloat q => Ok (CInt (wrap_int bits (qtrunc q)))
  | KText bits, VInt z => Ok (CInt (wrap_int bits z))
  | KText bits, VFloat q => Ok (CInt (wrap_int bits (qtrunc q)))
  | KDuration, VInt z => Ok (CInt (wrap_int 64 z))
  | KDuration, VFloat q => Ok (CInt (wrap_int 64 (qtrunc q)))
  | KUint bits, VInt z => if Z.ltb z 0 then Err EType else Ok (CInt (wrap_uint bits z))
  | KUint bits, VFloat q => if qneg q then Err EType else Ok (CInt (wrap_uint bits (qtrunc q)))
  | KSize, VInt z => if Z.ltb z 0 then Err EType else Ok (CInt (wrap_uint 64 z))
  | KSize, VFloat q => if qneg q then Err EType else Ok (CInt (wrap_uint 64 (qtrunc q)))
  | KFloat, VInt z => Ok (CFloat (inject_Z z))
  | KFloat, VFloat q => Ok (CFloat (Qred q))
  | KString, VStr s => Ok (CStr s)
  | KOpaque, _ => Err EUnsupported
  | _, _ => Err EType
  end.

(* ---------------------------------------------------------------- validation (validator.v9 with pandora's custom tags) *)
Definition is_nil (c : cval) : bool := match c with CNil => true | _ => false end.
Definition is_struct_schema (s : schema) : bool := match s with SStruct _ _ => true | _ => false end.

Definition has_value (s : schema) (c : cval) : bool :=
  match c with
  | CNil => false
  | CBool x => x
  | CInt z => negb (Z.eqb z 0)
  | CFloat q => negb (Z.eqb (Qnum q) 0)
  | CStr x => match x with [] => false | _ => true end
  | _ => true
  end.

Definition num_ge (c : cval) (n : Z) : bool :=
  match c with
  | CInt z => Z.leb n z
  | CFloat q => Qle_bool (inject_Z n) q
  | CStr x => Z.leb n (Z.of_nat (length x))      (* rune count; bytes for ASCII *)
  | CSlice l => Z.leb n (Z.of_nat (length l))
  | CMap l => Z.leb n (Z.of_nat (length l))
  | CNil => Z.leb n 0
  | _ => false
  end.
Definition num_le (c : cval) (n : Z) : bool :=
  match c with
  | CInt z => Z.leb z n
  | CFloat q => Qle_bool q (inject_Z n)
  | CStr x => Z.leb (Z.of_nat (length x)) n
  | CSlice l => Z.leb (Z.of_nat (length l)) n
  | CMap l => Z.leb (Z.of_nat (length l)) n
  | CNil => Z.leb 0 n
  | _ => false
  end.

(* core/config/validations.go EndpointStringValidation: net.SplitHostPort, then
   (host == "" || govalidator.IsHost(host)) && govalidator.IsPort(port).
   Modelled for the plain form host:port (exactly one colon, no brackets); bracketed IPv6 literals and anything
   with more colons go to the oracle.  IsPort = strconv.Atoi in 1..65535; IsHost of a colon-free host = the
   DNS-name pattern of govalidator (dotted decimals match it too). *)
Definition is_digit (c : N) : bool := (48 <=? c) && (c <=? 57).
Definition is_alnum_us (c : N) : bool :=
  is_digit c || ((65 <=? c) && (c <=? 90)) || ((97 <=? c) && (c <=? 122)) || (c =? 95).

Fixpoint digits_val (acc : Z) (s : str) : option Z :=
  match s with
  | [] => Some acc
  | c :: r => if is_digit c then digits_val (acc * 10 + Z.of_N (c - 48))%Z r else None
  end.

(* strconv.Atoi: optional sign, at least one digit *)
Definition atoi (s : str) : option Z :=
  match s with
  | [] => None
  | c :: r =>
      if c =? 43 then match r with [] => None | _ => digits_val 0 r end
      else if c =? 45 then match r with [] => None | _ => option_map Z.opp (digits_val 0 r) end
      else digits_val 0 s
  end.

Definition port_ok (s : str) : bool :=
  match atoi s with Some z => Z.ltb 0 z && Z.ltb z 65536 | None => false end.

Fixpoint split_dots (acc : str) (s : str) : list str :=
  match s with
  | [] => [rev acc]
  | c :: r => if c =? 46 then rev acc :: split_dots [] r else split_dots (c :: acc) r
  end.

Definition label_ok (l : str) : bool :=
  match l with
  | [] => false
  | c :: r => is_alnum_us c && forallb (fun x => is_alnum_us x || (x =? 45)) r && Nat.leb (length l) 63
  end.

Definition dns_ok (h : str) : bool :=
  let body := match rev h with c :: r => if c =? 46 then rev r else h | [] => h end in   (* one optional trailing dot *)
  match body with
  | [] => false
  | _ => forallb label_ok (split_dots [] body) && Nat.leb (length (filter (fun c => negb (c =? 46)) h)) 255
  end.

Fixpoint count_byte (b : N) (s : str) : nat :=
  match s with [] => O | c :: r => if c =? b then S (count_byte b r) else count_byte b r end.

Fixpoint split_colon (acc : str) (s : str) : option (str * str) :=
  match s with
  | [] => None
  | c :: r => if c =? c_colon then Some (rev acc, r) else split_colon (c :: acc) r
  end.

Definition endpoint_ok (s : str) : bool :=
  if Nat.eqb (count_byte c_colon s) 1 && Nat.eqb (count_byte 91 s) 0 && Nat.eqb (count_byte 93 s) 0 then
    match split_colon [] s with
    | Some (host, port) => (match host with [] => true | _ => dns_ok host end) && port_ok port
    | None => false
    end
  else if Nat.eqb (count_byte c_colon s) 0 then false            (* missing port in address *)
  else match orc OEndpoint s with Some _ => true | None => false end.

Definition check_tag (s : schema) (c : cval) (t : vtag) : bool :=
  match t with
  | TRequired => has_value s c
  | TMin n => num_ge c n
  | TMax n => num_le c n
  | TMinTime ns => match s, c with SScalar KDuration, CInt z => Z.leb ns z | _, _ => false end
  | TMaxTime ns => match s, c with SScalar KDuration, CInt z => Z.leb z ns | _, _ => false end
  | TMinSize n => match s, c with SScalar KSize, CInt z => Z.leb n z | _, _ => false end
  | TMaxSize n => match s, c with SScalar KSize, CInt z => Z.leb z n | _, _ => false end
  | TEndpoint => match c with CStr x => endpoint_ok x | _ => false end
  | TUrlPath => match c with CStr x => match orc OUrlPath x with Some _ => true | None => false end | _ => false end
  | TDive => true
  | TCtorHeaders => true        (* validator.v9 never sees it: see ctor_ok *)
  | TCtorRel _ _ => true
  end.

Fixpoint has_dive (l : list vtag) : bool :=
  match l with [] => false | TDive :: _ => true | _ :: r => has_dive r end.
Fixpoint tags_before_dive (l : list vtag) : list vtag :=
  match l with [] => [] | TDive :: _ => [] | t :: r => t :: tags_before_dive r end.

(* A field of struct kind: validator.v9 skips the first tag and descends.  A nil pointer / interface
   with any tag is an error.  Slices are entered only with `dive`. *)
Definition check_field (s : schema) (c : cval) (tags : list vtag) : bool :=
  match tags with
  | [] => true
  | _ =>
      match s with
      | SStruct true _ => negb (is_nil c)
      | SStruct false _ => true
      | SPlugin _ 0 => negb (is_nil c)
      | SAny => negb (is_nil c)
      | _ => forallb (check_tag s c) (tags_before_dive tags)
      end
  end.

(* one struct level; rec validates nested values *)
Definition descend (rec : cval -> schema -> bool) (f : fld) (c' : cval) : bool :=
  match f_schema f with
  | SStruct _ _ => rec c' (f_schema f)
  | SSlice e =>
      if has_dive (f_tags f) then
        match c' with
        | CSlice l => forallb (fun x => rec x e) l
        | _ => true
        end
      else true
  | _ => true
  end.

Fixpoint vfields (rec : cval -> schema -> bool) (cs : list cval) (ffs : list fld) : bool :=
  match cs, ffs with
  | c' :: cs', f :: ffs' =>
      check_field (f_schema f) c' (f_tags f) && descend rec f c' && vfields rec cs' ffs'
  | _, _ => true
  end.

Fixpoint validate (c : cval) (s : schema) {struct c} : bool :=
  match c with
  | CStruct cs =>
      (fix go (cs : list cval) (ffs : list fld) : bool :=
         match cs, ffs with
         | c' :: cs', f :: ffs' =>
             check_field (f_schema f) c' (f_tags f)
             && (match f_schema f with
                 | SStruct _ _ => validate c' (f_schema f)
                 | SSlice e =>
                     if has_dive (f_tags f) then
                       match c' with
                       | CSlice l => (fix all (l : list cval) : bool := match l with [] => true | x :: r => validate x e && all r end) l
                       | _ => true
                       end
                     else true
                 | _ => true
                 end)
             && go cs' ffs'
         | _, _ => true
         end) cs (flat_fields s)
  | _ => true
  end.

(* ---------------------------------------------------------------- constraints enforced by constructors
   components/providers/http/util/request.go.  DecodeHeader: a line is "[" name ":" value "]" -- at least three bytes,
   first '[' and last ']', the text between them is cut at its FIRST colon, name and value are trimmed
   (strings.TrimSpace, ASCII blanks here), an empty name is an error. *)
Inductive herr := HFormat | HEmptyKey.

Definition hdr_line (h : str) : (str * str) + herr :=
  if Nat.ltb (length h) 3 then inr HFormat else
  match h with
  | [] => inr HFormat
  | c :: r =>
      if negb (c =? 91) then inr HFormat else
      match rev r with
      | [] => inr HFormat
      | z :: ri =>
          if negb (z =? 93) then inr HFormat else
          match split_colon [] (rev ri) with
          | None => inr HFormat
          | Some (k, v) => match trim k with [] => inr HEmptyKey | k' => inl (k', trim v) end
          end
      end
  end.

(* DecodeHTTPConfigHeaders: the lines are decoded in order into the header set; the first line that does not decode
   ends the loop and its error is the function's error. *)
Fixpoint hdr_loop (acc : list (str * str)) (l : list str) : list (str * str) * option herr :=
  match l with
  | [] => (acc, None)
  | h :: r =>
      match hdr_line h with
      | inr e => (acc, Some e)
      | inl kv => hdr_loop (acc ++ [kv]) r
      end
  end.
Definition hdr_decode (l : list str) : list (str * str) * option herr := hdr_loop [] l.

Fixpoint strs_of (l : list cval) : option (list str) :=
  match l with
  | [] => Some []
  | CStr x :: r => match strs_of r with Some xs => Some (x :: xs) | None => None end
  | _ :: _ => None
  end.

Definition ctor_tag_ok (t : vtag) (c : cval) : bool :=
  match t with
  | TCtorHeaders =>
      match c with
      | CNil => true                     (* option not written, nil default: no lines *)
      | CSlice l =>
          match strs_of l with
          | Some ls => match snd (hdr_decode ls) with None => true | Some _ => false end
          | None => false
          end
      | _ => false
      end
  | _ => true
  end.
Definition ctor_field_ok (tags : list vtag) (c : cval) : bool := forallb (fun t => ctor_tag_ok t c) tags.

(* the constructor of a component looks at the options of its own config struct *)
Fixpoint ctor_fields (cs : list cval) (ffs : list fld) : bool :=
  match cs, ffs with
  | c' :: cs', f :: ffs' => ctor_field_ok (f_tags f) c' && ctor_fields cs' ffs'
  | _, _ => true
  end.

(* round 7 -- relations between options.  The value of the option with key k in a filled config struct (first flat
   field carrying the key), whether an option "holds something" (Go: s != "", len(l) > 0, n != 0, b), and the
   evaluation of a condition on the filled struct. *)
Fixpoint opt_val (k : str) (ffs : list fld) (cs : list cval) : option cval :=
  match ffs, cs with
  | f :: ffs', c :: cs' => if str_eqb (f_key f) k then Some c else opt_val k ffs' cs'
  | _, _ => None
  end.

Definition opt_set (c : cval) : bool :=
  match c with
  | CNil => false
  | CBool b => b
  | CInt z => negb (Z.eqb z 0)
  | CFloat q => negb (Z.eqb (Qnum q) 0)
  | CStr x => match x with [] => false | _ => true end
  | CSlice l => match l with [] => false | _ => true end
  | CMap l => match l with [] => false | _ => true end
  | _ => true
  end.

Fixpoint ocond_b (ffs : list fld) (cs : list cval) (c : ocond) : bool :=
  match c with
  | OTrue => true
  | OFalse => false
  | OSet k => match opt_val k ffs cs with Some x => opt_set x | None => false end
  | OIs k v => match opt_val k ffs cs with Some (CStr x) => str_eqb x v | _ => false end
  | ONot a => negb (ocond_b ffs cs a)
  | OAnd a b => ocond_b ffs cs a && ocond_b ffs cs b
  | OOr a b => ocond_b ffs cs a || ocond_b ffs cs b
  end.

Definition rel_tag_ok (ffs : list fld) (cs : list cval) (t : vtag) : bool :=
  match t with
  | TCtorRel pre post => implb (ocond_b ffs cs pre) (ocond_b ffs cs post)
  | _ => true
  end.
Definition ctor_rels (ffs : list fld) (cs : list cval) : bool :=
  forallb (fun f => forallb (rel_tag_ok ffs cs) (f_tags f)) ffs.

Definition ctor_ok (s : schema) (c : cval) : bool :=
  match c with CStruct cs => ctor_fields cs (flat_fields s) && ctor_rels (flat_fields s) cs | _ => true end.

(* ---------------------------------------------------------------- structs, slices, maps, plugins *)
Fixpoint find_exact (k : str) (kvs : list (str * value)) : option (str * value) :=
  match kvs with [] => None | (k', x) :: r => if str_eqb k k' then Some (k', x) else find_exact k r end.
Fixpoint find_fold (k : str) (kvs : list (str * value)) : option (str * value) :=
  match kvs with [] => None | (k', x) :: r => if fold_eqb k k' then Some (k', x) else find_fold k r end.
(* exact key first, then a case-insensitive match *)
Definition find_key (k : str) (kvs : list (str * value)) : option (str * value) :=
  match find_exact k kvs with Some r => Some r | None => find_fold k kvs end.

Section WithDec.
Variable dec : schema -> cval -> value -> res cval.

Fixpoint dec_fields (ffs : list fld) (cs : list cval) (kvs : list (str * value)) : res (list cval) * list str :=
  match ffs with
  | [] => (Ok [], [])
  | f :: ffs' =>
      let c := match cs with c :: _ => c | [] => zero_of (f_schema f) end in
      let '(r1, u1) :=
        match find_key (f_key f) kvs with
        | None => (Ok c, [])
        | Some (k', x) => (dec (f_schema f) c x, [k'])
        end in
      let '(r2, u2) := dec_fields ffs' (tl cs) kvs in
      (rcons r1 r2, u1 ++ u2)
  end.

Definition all_used (used : list str) (kvs : list (str * value)) : bool :=
  forallb (fun kv => mem_str (fst kv) used) kvs.

Definition dec_struct (s : schema) (cur : cval) (kvs : list (str * value)) : res cval :=
  let '(r, used) := dec_fields (flat_fields s) (struct_cur s cur) kvs in
  match r with
  | Fuel => Fuel
  | Err e => Err e
  | Ok cs => if all_used used kvs then Ok (CStruct cs) else Err EUnused
  end.

Fixpoint dec_elems (e : schema) (cur : list cval) (l : list value) : res (list cval) :=
  match l with
  | [] => Ok []
  | x :: r =>
      let c := match cur with c :: _ => c | [] => zero_of e end in
      rcons (dec e c x) (dec_elems e (tl cur) r)
  end.

Definition dec_slice (e : schema) (cur : cval) (l : list value) : res cval :=
  rmap CSlice (dec_elems e (match cur with CSlice cs => cs | _ => [] end) l).

Fixpoint map_set (k : str) (c : cval) (m : list (str * cval)) : list (str * cval) :=
  match m with
  | [] => [(k, c)]
  | (k', c') :: r => if str_eqb k k' then (k, c) :: r else (k', c') :: map_set k c r
  end.

(* decodeMapFromMap: key and value are decoded (hooks included) into fresh zero values *)
Fixpoint dec_entries (e : schema) (kvs : list (str * value)) : res (list (str * cval)) :=
  match kvs with
  | [] => Ok []
  | (k, x) :: r =>
      let rk := match dec (SScalar KString) (CStr []) (VStr k) with
                | Ok (CStr k') => Ok k' | Ok _ => Err EType | Err e => Err e | Fuel => Fuel end in
      let rv := dec e (zero_of e) x in
      let r1 := match rk, rv with
                | Fuel, _ => Fuel | _, Fuel => Fuel
                | Err e1, _ => Err e1 | _, Err e2 => Err e2
                | Ok k', Ok c => Ok (k', c) end in
      rcons r1 (dec_entries e r)
  end.

Definition dec_map (e : schema) (cur : cval) (kvs : list (str * value)) : res cval :=
  match dec_entries e kvs with
  | Ok l => Ok (CMap (fold_left (fun m kc => map_set (fst kc) (snd kc) m) l (match cur with CMap m => m | _ => [] end)))
  | Err e' => Err e'
  | Fuel => Fuel
  end.

Fixpoint lookup_entry (l : list entry) (iface name : str) : option entry :=
  match l with
  | [] => None
  | e :: r => if str_eqb (e_iface e) iface && str_eqb (e_name e) name then Some e else lookup_entry r iface name
  end.

Definition is_type_key (kv : str * value) : bool := str_eqb (lower (fst kv)) s_type.

(* pluginconfig.parseConf + plugin.New / plugin.NewFactory *)
Definition dec_plugin (iface : str) (fk : N) (kvs : list (str * value)) : res cval :=
  match filter is_type_key kvs with
  | [(_, VStr name)] =>
      let conf := filter (fun kv => negb (is_type_key kv)) kvs in
      match lookup_entry reg iface name with
      | None => Err EPlugin
      | Some e =>
          match e_conf e with
          | None =>
              (* fillConf is run on an empty struct: every remaining key is unused *)
              match conf with [] => Ok (CPlugin name false CNil) | _ => Err EUnused end
          | Some (cs, d) =>
              if factory_lazy && negb (fk =? 0) && negb (e_factory e) then Ok (CPlugin name true CNil)
              else
                match dec cs d (VMap conf) with
                | Ok c =>
                    if validate c cs then
                      (* plugin.New calls the constructor with the filled config *)
                      if ctor_ok cs c then Ok (CPlugin name false c) else Err ECtor
                    else Err EValidate
                | Err e' => Err e'
                | Fuel => Fuel
                end
          end
      end
  | _ => Err EPlugin        (* no type key, several type keys, or a non-string type *)
  end.

End WithDec.

Fixpoint decode (F : nat) (s : schema) (cur : cval) (v : value) : res cval :=
  match F with
  | O => Fuel
  | S f =>
      match v with
      | VNull => Ok cur                                   (* nil input: nothing is set (ZeroFields = false) *)
      | _ =>
          match hooks s v with
          | HErr e => Err e
          | HVal v1 =>
              match s with
              | SScalar k => dec_scalar k v1
              | SAny => Ok (CAny v1)
              | SUnsupported => Err EUnsupported
              | SStruct _ _ => match v1 with VMap kvs => dec_struct (decode f) s cur kvs | _ => Err EType end
              | SSlice e => match v1 with VList l => dec_slice (decode f) e cur l | _ => Err EType end
              | SMap e => match v1 with VMap kvs => dec_map (decode f) e cur kvs | _ => Err EType end
              | SPlugin iface fk => match v1 with VMap kvs => dec_plugin (decode f) iface fk kvs | _ => Err EPlugin end
              end
          end
      end
  end.

(* config.DecodeAndValidate *)
Definition decode_and_validate (F : nat) (s : schema) (cur : cval) (v : value) : res cval :=
  match decode F s cur v with
  | Ok c => if validate c s then Ok c else Err EValidate
  | r => r
  end.

End Decode.

(* ---------------------------------------------------------------- property files (lib/confutil/property_var_resolver.go)
   The file is read line by line (bufio.Scanner with ScanLines: lines end at '\n', one trailing '\r' is dropped, a
   last line without '\n' counts when it is not empty; a line of 65536 bytes or more ends the scan with ErrTooLong).
   A line containing '=' is KEY=data, cut at its FIRST '=' (strings.SplitN(line, "=", 2)): everything after it is the
   data.  The first line whose KEY is the asked one answers; lines without '=' are skipped.
   `prop_of_files files` is what the oracle `prop` of the decoder is for a given file system. *)
Fixpoint raw_lines (acc : str) (s : str) : list str :=      (* acc: the current line, reversed *)
  match s with
  | [] => match acc with [] => [] | _ => [rev_append acc []] end
  | c :: r => if c =? 10 then rev_append acc [] :: raw_lines [] r else raw_lines (c :: acc) r
  end.

Fixpoint drop_cr (l : str) : str :=
  match l with
  | [] => []
  | c :: r => match r with [] => if c =? 13 then [] else [c] | _ => c :: drop_cr r end
  end.

Fixpoint len_N (s : str) : N := match s with [] => 0 | _ :: r => N.succ (len_N r) end.
Definition max_token : N := 65536.                       (* bufio.MaxScanTokenSize *)
Definition line_fits (l : str) : bool := len_N l <? max_token.

Fixpoint split_eq (acc : str) (s : str) : option (str * str) :=
  match s with
  | [] => None
  | c :: r => if c =? 61 then Some (rev_append acc [], r) else split_eq (c :: acc) r
  end.

Fixpoint prop_scan (key : str) (lines : list str) : option str :=
  match lines with
  | [] => None
  | l :: r =>
      if line_fits l then
        match split_eq [] (drop_cr l) with
        | Some (k, data) => if str_eqb k key then Some data else prop_scan key r
        | None => prop_scan key r
        end
      else None
  end.

Definition prop_of_files (files : str -> option str) (file key : str) : option str :=
  match files file with
  | None => None                                          (* cannot open file *)
  | Some content => prop_scan key (raw_lines [] content)
  end.

(* ---------------------------------------------------------------- the environment (lib/confutil/env_var_resolver.go), round 7
   os.LookupEnv on the process environment: a list of NAME=value entries; the answer is the value of the first entry
   whose NAME is exactly -- byte for byte -- the asked one (Go's syscall.copyenv keeps the first of repeated names);
   names differing in letter case, proper prefixes and extensions of the name are other variables.
   `env_of_list l` is what the oracle `env` of the decoder is for a given environment. *)
Fixpoint env_of_list (l : list (str * str)) (name : str) : option str :=
  match l with
  | [] => None
  | (k, v) :: r => if str_eqb k name then Some v else env_of_list r name
  end.

(* ---------------------------------------------------------------- fuel: three times the depth of the value tree plus three
   (a shorthand hook costs two extra levels; bound proved in Proofs/ConfigFuelProofs.v) *)
Fixpoint vdepth (v : value) : nat :=
  match v with
  | VList l => S ((fix go (l : list value) : nat := match l with [] => O | x :: r => Nat.max (vdepth x) (go r) end) l)
  | VMap kvs => S ((fix go (l : list (str * value)) : nat := match l with [] => O | (_, x) :: r => Nat.max (vdepth x) (go r) end) kvs)
  | _ => O
  end.
Definition fuel_for (v : value) : nat := (3 * vdepth v + 3)%nat.

(* ---------------------------------------------------------------- cli.readConfig pre-pass *)
Definition s_pools : str := [112;111;111;108;115].
Definition s_discard : str := [100;105;115;99;97;114;100;95;111;118;101;114;102;108;111;119].

Fixpoint has_key (k : str) (kvs : list (str * value)) : bool :=
  match kvs with [] => false | (k', _) :: r => str_eqb k k' || has_key k r end.

Definition prepass_pool (p : value) : value :=
  match p with
  | VMap kvs => if has_key s_discard kvs then p else VMap (kvs ++ [(s_discard, VBool true)])
  | _ => p
  end.

Definition cli_prepass (v : value) : value :=
  match v with
  | VMap kvs =>
      VMap (map (fun kv => if str_eqb (fst kv) s_pools
                           then (fst kv, match snd kv with VList l => VList (map prepass_pool l) | x => x end)
                           else kv) kvs)
  | _ => v
  end.

(* ---------------------------------------------------------------- specification side: what is in force at a path of the written tree *)
Inductive step := SKey (k : str) | SIdx (i : nat).

Inductive pclass :=
| PStrict (accepted : list str)    (* a struct-like node: exactly these keys (case-insensitively) are accepted *)
| PFree                            (* free-form region: any key is data (map[string]T, interface{}) *)
| PBad.                            (* the path does not address a map node of a well-typed tree *)

Fixpoint find_field (k : str) (ffs : list fld) : option fld :=
  match ffs with [] => None | f :: r => if fold_eqb (f_key f) k then Some f else find_field k r end.

(* the field accepting key k together with its current (default) value *)
Fixpoint nth_field (k : str) (ffs : list fld) (cs : list cval) : option (fld * cval) :=
  match ffs with
  | [] => None
  | f :: r =>
      if fold_eqb (f_key f) k then Some (f, match cs with c :: _ => c | [] => zero_of (f_schema f) end)
      else nth_field k r (tl cs)
  end.

Fixpoint count_fold (k : str) (kvs : list (str * value)) : nat :=
  match kvs with [] => O | (k', _) :: r => if fold_eqb k k' then S (count_fold k r) else count_fold k r end.
Definition unique_key (k : str) (kvs : list (str * value)) : bool := Nat.eqb (count_fold k kvs) 1.

Section Reach.
Variable reg : list entry.
(* lz = true: a plugin constructor's config behind a factory-typed field is out of reach of the decoder
   (it is decoded when the factory is first called).  The specification uses lz = false. *)
Variable lz : bool.
(* uq = true: additionally, the written key must be taken by exactly ONE field of the struct (two fields sharing a key
   -- jsonlines' buffer-size -- decode the same written value against two types; the congruence theorem excludes them) *)
Variable uq : bool.

Fixpoint count_fields (k : str) (ffs : list fld) : nat :=
  match ffs with [] => O | f :: r => if fold_eqb (f_key f) k then S (count_fields k r) else count_fields k r end.
Definition field_ok (k : str) (ffs : list fld) : bool := negb uq || Nat.eqb (count_fields k ffs) 1.

Definition plugin_entry (iface : str) (kvs : list (str * value)) : option entry :=
  match filter is_type_key kvs with
  | [(_, VStr name)] => lookup_entry reg iface name
  | _ => None
  end.

Definition entry_lazy (fk : N) (e : entry) : bool := lz && negb (fk =? 0) && negb (e_factory e).

(* the decoding sub-problem met at path p: schema, validate tags, default (current) value, written value *)
Fixpoint reach (p : list step) (tags : list vtag) (s : schema) (cur : cval) (v : value)
  : option (schema * list vtag * cval * value) :=
  match p with
  | [] => Some (s, tags, cur, v)
  | SKey k :: p' =>
      match s, v with
      | SStruct _ _, VMap kvs =>
          if unique_key k kvs && field_ok k (flat_fields s) then
            match find_exact k kvs, nth_field k (flat_fields s) (struct_cur s cur) with
            | Some (_, x), Some (f, c) => reach p' (f_tags f) (f_schema f) c x
            | _, _ => None
            end
          else None
      | SPlugin iface fk, VMap kvs =>
          if unique_key k kvs && negb (is_type_key (k, VNull)) then
            match plugin_entry iface kvs, find_exact k kvs with
            | Some e, Some (_, x) =>
                match e_conf e with
                | Some (cs, d) =>
                    if entry_lazy fk e || negb (field_ok k (flat_fields cs)) then None
                    else match nth_field k (flat_fields cs) (struct_cur cs d) with
                         | Some (f, c) => reach p' (f_tags f) (f_schema f) c x
                         | None => None
                         end
                | None => None
                end
            | _, _ => None
            end
          else None
      | SMap e, VMap kvs =>
          if unique_key k kvs then
            match find_exact k kvs with Some (_, x) => reach p' [] e (zero_of e) x | None => None end
          else None
      | SAny, _ => Some (SAny, [], CNil, VNull)
      | _, _ => None
      end
  | SIdx i :: p' =>
      match s, v with
      | SSlice e, VList l =>
          match nth_error l i with
          | Some x => reach p' [] e (match cur with CSlice cs => nth i cs (zero_of e) | _ => zero_of e end) x
          | None => None
          end
      | SPlugin iface fk, VList l =>
          (* schedule list shorthand: the elements are decoded as the `nested` field of the composite schedule *)
          if str_eqb iface i_schedule then
            match lookup_entry reg iface s_composite with
            | Some e =>
                match e_conf e with
                | Some (cs, d) =>
                    if entry_lazy fk e || negb (field_ok s_nested (flat_fields cs)) then None
                    else match find_field s_nested (flat_fields cs) with
                         | Some f =>
                             match f_schema f, nth_error l i with
                             | SSlice el, Some x => reach p' [] el (zero_of el) x
                             | _, _ => None
                             end
                         | None => None
                         end
                | None => None
                end
            | None => None
            end
          else None
      | SAny, _ => Some (SAny, [], CNil, VNull)
      | _, _ => None
      end
  end.

(* a path that stays inside nested plain structs of one validation unit (the root config, or one component config) *)
Fixpoint sreach (q : list step) (tags : list vtag) (s : schema) (v : value) : option (schema * list vtag * value) :=
  match q with
  | [] => Some (s, tags, v)
  | SKey k :: q' =>
      match s, v with
      | SStruct _ _, VMap kvs =>
          if unique_key k kvs then
            match find_exact k kvs, find_field k (flat_fields s) with
            | Some (_, x), Some f => sreach q' (f_tags f) (f_schema f) x
            | _, _ => None
            end
          else None
      | _, _ => None
      end
  | SIdx _ :: _ => None
  end.

(* which keys the node accepts *)
Definition classify_node (s : schema) (v : value) : pclass :=
  match s, v with
  | SStruct _ _, VMap _ => PStrict (map f_key (flat_fields s))
  | SPlugin iface fk, VMap kvs =>
      match plugin_entry iface kvs with
      | Some e =>
          match e_conf e with
          | Some (cs, _) =>
              if entry_lazy fk e then PFree
              else if is_struct_schema cs then PStrict (s_type :: map f_key (flat_fields cs)) else PBad
          | None => PStrict [s_type]
          end
      | None => PBad
      end
  | SMap _, VMap _ => PFree
  | SAny, _ => PFree
  | _, _ => PBad
  end.

Definition classify (p : list step) (s : schema) (cur : cval) (v : value) : pclass :=
  match reach p [] s cur v with
  | Some (s', _, _, x) => classify_node s' x
  | None => PBad
  end.

Definition schema_at (p : list step) (s : schema) (cur : cval) (v : value) : option (schema * list vtag * cval) :=
  match reach p [] s cur v with
  | Some (s', tags, d, _) => Some (s', tags, d)
  | None => None
  end.

End Reach.

Fixpoint accepted_b (k : str) (acc : list str) : bool :=
  match acc with [] => false | a :: r => fold_eqb a k || accepted_b k r end.

(* insertion / replacement at a path of the written tree *)
Fixpoint kv_update (k : str) (f : value -> option value) (kvs : list (str * value)) : option (list (str * value)) :=
  match kvs with
  | [] => None
  | (k', x) :: r =>
      if str_eqb k k' then match f x with Some x' => Some ((k', x') :: r) | None => None end
      else match kv_update k f r with Some r' => Some ((k', x) :: r') | None => None end
  end.

Fixpoint list_update (i : nat) (f : value -> option value) (l : list value) : option (list value) :=
  match l, i with
  | [], _ => None
  | x :: r, O => match f x with Some x' => Some (x' :: r) | None => None end
  | x :: r, S i' => match list_update i' f r with Some r' => Some (x :: r') | None => None end
  end.

Fixpoint update_at (p : list step) (f : value -> option value) (v : value) : option value :=
  match p with
  | [] => f v
  | SKey k :: p' => match v with VMap kvs => option_map VMap (kv_update k (update_at p' f) kvs) | _ => None end
  | SIdx i :: p' => match v with VList l => option_map VList (list_update i (update_at p' f) l) | _ => None end
  end.

(* plain navigation in the written tree *)
Fixpoint value_at (p : list step) (v : value) : option value :=
  match p with
  | [] => Some v
  | SKey k :: p' => match v with VMap kvs => match find_exact k kvs with Some (_, x) => value_at p' x | None => None end | _ => None end
  | SIdx i :: p' => match v with VList l => match nth_error l i with Some x => value_at p' x | None => None end | _ => None end
  end.

Definition insert_key (p : list step) (k : str) (x : value) (v : value) : option value :=
  update_at p (fun node => match node with
                           | VMap kvs => if has_key k kvs then None else Some (VMap (kvs ++ [(k, x)]))
                           | _ => None end) v.

Definition replace_at (p : list step) (x : value) (v : value) : option value :=
  update_at p (fun _ => Some x) v.

(* "wrongly typed": the written value is of a YAML kind the documented field type does not take.
   (A number for a duration or a float for an integer is accepted by mapstructure and is not counted.) *)
Definition wrong_type_b (s : schema) (x : value) : bool :=
  match x with
  | VNull => false
  | _ =>
      match s with
      | SScalar KBool => match x with VBool _ => false | VStr _ => false | _ => true end
      | SScalar KString => match x with VStr _ => false | _ => true end
      | SScalar KFloat | SScalar (KInt _) | SScalar (KUint _) | SScalar KDuration | SScalar KSize | SScalar (KText _) =>
          match x with VInt _ | VFloat _ | VStr _ => false | _ => true end
      | SScalar KOpaque => false
      | SStruct _ _ | SMap _ => match x with VMap _ => false | VStr _ => false | _ => true end
      | SSlice _ => match x with VList _ => false | VStr _ => false | _ => true end
      | SPlugin iface _ =>
          match x with
          | VMap _ => false
          | VStr _ => false
          | VList _ => negb (str_eqb iface i_schedule)
          | _ => true
          end
      | SAny | SUnsupported => false
      end
  end.
(* strings are excluded above because a string may be a placeholder; a string WITHOUT "${" in a
   non-string position is wrongly typed unless a text hook parses it *)
Fixpoint has_dollar_brace (s : str) : bool :=
  match s with
  | c :: ((c2 :: _) as r) => ((c =? 36) && (c2 =? 123)) || has_dollar_brace r
  | _ => false
  end.

Definition wrong_type_str_b (s : schema) (x : str) : bool :=
  negb (has_dollar_brace x) &&
  match s with
  | SScalar KBool | SScalar KFloat | SScalar (KInt _) | SScalar (KUint _) => true
  | SStruct _ _ | SMap _ | SSlice _ => true
  | SPlugin iface _ => negb (str_eqb iface i_datasink)
  | _ => false
  end.

(* plugin instances and free-form values are opaque in observations *)
Fixpoint erase (c : cval) : cval :=
  match c with
  | CPlugin _ _ _ => CPlugin [] false CNil
  | CAny _ => CAny VNull
  | CStruct l => CStruct (map erase l)
  | CSlice l => CSlice (map erase l)
  | CMap kvs => CMap (map (fun kc => (fst kc, erase (snd kc))) kvs)
  | _ => c
  end.

Fixpoint cval_eqb (a c : cval) {struct a} : bool :=
  match a, c with
  | CNil, CNil => true
  | CBool x, CBool y => Bool.eqb x y
  | CInt x, CInt y => Z.eqb x y
  | CFloat x, CFloat y => Qeq_bool x y
  | CStr x, CStr y => str_eqb x y
  | CStruct l, CStruct m | CSlice l, CSlice m =>
      (fix go (l m : list cval) : bool :=
         match l, m with [], [] => true | x :: l', y :: m' => cval_eqb x y && go l' m' | _, _ => false end) l m
  | CMap l, CMap m =>
      (fix go (l m : list (str * cval)) : bool :=
         match l, m with
         | [], [] => true
         | (k, x) :: l', (k', y) :: m' => str_eqb k k' && cval_eqb x y && go l' m'
         | _, _ => false end) l m
  | CAny _, CAny _ => true
  | CPlugin _ _ _, CPlugin _ _ _ => true
  | _, _ => false
  end.

(* defaults kept: every field whose key is not written keeps the given (default) value; written
   struct fields are checked recursively *)
Fixpoint defaults_kept_b (n : nat) (s : schema) (d c : cval) (v : value) : bool :=
  match n with
  | O => true
  | S n' =>
      match s, v with
      | SStruct _ _, VMap kvs =>
          match c with
          | CStruct cs =>
              (fix go (ffs : list fld) (ds cs : list cval) : bool :=
                 match ffs, ds, cs with
                 | f :: ffs', d' :: ds', c' :: cs' =>
                     (match find_key (f_key f) kvs with
                      | None => cval_eqb (erase d') (erase c')
                      | Some (_, VNull) => cval_eqb (erase d') (erase c')
                      | Some (_, x) => defaults_kept_b n' (f_schema f) d' c' x
                      end) && go ffs' ds' cs'
                 | [], _, _ => true
                 | _, _, _ => false
                 end) (flat_fields s) (struct_cur s d) cs
          | _ => false
          end
      | _, _ => true
      end
  end.

(* core/plugin/registry.go NewFactory (after fix bfeb27f): for a plugin constructor the config is still created
   and filled on every factory call, but it is also filled once when the factory is created, and that error
   is the error of the decode.  (Before the fix this constant was true: the config was first looked at when the
   engine asked for the first product.) *)
Definition model_factory_lazy : bool := false.
