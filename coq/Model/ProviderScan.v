(* The SIZE of the entries and the line scanner of grpc/json (property C08: "for every ammo
   provider ... and every combination of limit and passes" — for every valid configuration, the
   `maxammosize` option included, and every file, whatever the size of its entries).

   Model/Provider.v reads the file at the level of entries: every read of an existing entry
   succeeds.  The grpc/json provider reads lines through a bufio.Scanner, which refuses a token
   that does not fit its buffer limit ("bufio.Scanner: token too long"); the limit is a property
   of the scanner OBJECT (64 KiB unless `scanner.Buffer(nil, MaxAmmoSize)` was called on it), and
   `start` makes a new scanner for every pass over the file.  Whether a pass can read an entry
   therefore depends on how the scanner of THAT pass was set up.  This file adds the scanner as
   state of the grpc/json machine: [z_cap] is the token limit of the scanner in use, assigned at the
   head of the pass loop by [capf pass] ([code_capf]: what provider.go does — the same
   configuration for every pass).

   The other providers have no reader whose limit depends on the configuration: uri uses a
   bufio.Scanner with the default limit in every pass (a line of 64 KiB or more is refused: input
   validity, property C13; [all_fit_b] excludes such files), uripost/raw a bufio.Reader
   (ReadString grows), jsonline / the JSON array / the generic JSON provider a json.Decoder (grows;
   the jsonline decoder builds a scanner from `MaxAmmoSize` but never reads through it), the
   scenario providers read the whole file in the constructor.  For them [run_sz] is [run]: the
   sizes are exercised by the correspondence cells, not modelled.

   Executable definitions only; proofs are in Proofs/ProviderScanProofs.v. *)
From Coq Require Import List Arith Bool NArith.
From PV Require Import Model.Provider Model.ProviderFile.
Import ListNotations.

(* bufio.MaxScanTokenSize = 64 * 1024 *)
Definition default_token_size : N := 65536%N.

(* bufio.Scanner.Scan with ScanLines: a line of [sz] bytes (newline not counted) is delivered iff
   sz < maxTokenSize — the buffer never grows beyond maxTokenSize and must hold the line and its
   newline (or, for a last line without newline, must not be full when end of file is met) *)
Definition token_fits (cap sz : N) : bool := N.ltb sz cap.

(* `scanner := bufio.NewScanner(ammoFile); if p.Config.MaxAmmoSize != 0 { scanner.Buffer(buffer, p.Config.MaxAmmoSize) }` *)
Definition new_scanner_cap (maxsz : N) : N :=
  if N.eqb maxsz 0 then default_token_size else maxsz.

(* grpcjson/provider.go start: the scanner is built inside the pass loop, the same way every time *)
Definition code_capf (maxsz : N) : nat -> N := fun _ => new_scanner_cap maxsz.

Record zstate := { z_g : gstate; z_cap : N }.
Definition zinit : zstate := {| z_g := ginit; z_cap := 0%N |}.   (* no scanner yet *)

Definition zlift (cap : N) (r : sres gstate) : sres zstate :=
  match r with
  | Cont g => Cont {| z_g := g; z_cap := cap |}
  | Emit e g => Emit e {| z_g := g; z_cap := cap |}
  | Stop o c => Stop o c
  end.

(* [szs]: size in bytes of the line of each entry (missing = 0) *)
Definition gz_step (capf : nat -> N) (cf : cfg) (es : list entry) (szs : list N) (c : bool)
           (z : zstate) : sres zstate :=
  let g := z_g z in
  if negb (g_inner g) then
    (* outer loop head: passNum++, the scanner of this pass *)
    zlift (capf (S (g_pass g))) (grpcjson_step cf es c g)
  else
    match nth_error es (g_pos g) with
    | Some _ =>
        if token_fits (z_cap z) (nth (g_pos g) szs 0%N)
        then zlift (z_cap z) (grpcjson_step cf es c g)
        else
          (* scanner.Scan() = false (before the limit test of the loop condition), scanner.Err() =
             bufio.ErrTooLong: `return errors.Wrap(err, "gPRC Provider scan() err")`; sink closed by
             grpc Provider.Run *)
          Stop (Failed EScan) true
    | None => zlift (z_cap z) (grpcjson_step cf es c g)
    end.

Definition gz_run (capf : nat -> N) (cf : cfg) (es : list entry) (szs : list N)
           (cancel : option nat) (fuel : nat) : result :=
  run_steps (gz_step capf cf es szs) cancel fuel 0 zinit.

(* every provider kind with the `maxammosize` option and the sizes of the entries *)
Definition run_sz (k : pkind) (maxsz : N) (cf : cfg) (es : list entry) (szs : list N)
           (cancel : option nat) (fuel : nat) : result :=
  match k with
  | KGrpcJson => gz_run (code_capf maxsz) cf es szs cancel fuel
  | _ => run k cf es cancel fuel
  end.

Definition run_file_sz (fs : fskind) (k : pkind) (maxsz : N) (cf : cfg) (es : list entry)
           (szs : list N) (cancel : option nat) (fuel : nat) : fresult :=
  replay fs (plan_of k (length es)) (run_sz k maxsz cf es szs cancel fuel).

(* the file is one the configuration accepts: every entry fits the token limit the configuration
   asks for (grpc/json) / bufio's default (uri) *)
Definition all_fit_b (k : pkind) (maxsz : N) (szs : list N) : bool :=
  match k with
  | KGrpcJson => forallb (token_fits (new_scanner_cap maxsz)) szs
  | KHttp DUri _ => forallb (token_fits default_token_size) szs
  | _ => true
  end.

(* the executable specification with sizes: a file the configuration accepts is judged by C08
   ([spec_b]: sizes and maxammosize change nothing); a file with an entry the configuration
   refuses is outside C08's quantifier — what remains: consumers not kept blocked, Run returns *)
Definition spec_sz (k : pkind) (maxsz : N) (szs : list N) (lim pas : nat) (es : list entry)
           (cancel : option nat) (ordered : bool) (obs : list nat) (cl : bool) (rc : runclass) : bool :=
  if all_fit_b k maxsz szs then spec_b lim pas es cancel ordered obs cl rc
  else cl && negb (is_rhang rc).

(* A provider that sets the scanner up from the configuration for the first pass only and leaves
   the scanner of the later passes at bufio's default (used to show that the model tells such a
   provider from the present one). *)
Definition first_pass_only_capf (maxsz : N) : nat -> N :=
  fun p => if p =? 1 then new_scanner_cap maxsz else default_token_size.
