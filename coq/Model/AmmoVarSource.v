(* C13: the `file/csv` variable source of a scenario description
   (components/providers/scenario/vs/vs_csv.go readCsv, reached from config.ExtractVariableStorage in the
   http and grpc scenario provider constructors).  encoding/csv is an oracle: the records it yields in
   order and whether the reading ends in an error.  The field list of the description is independent of
   the file: it may be shorter or LONGER than a record; `record[i]` is a partial operation (index out of
   range = run-time panic) and is modelled as such — the code guards it with `i >= len(record)`.
   [guarded = false] is the same loop without that guard (used only to show that the guard is what the
   no-panic theorem rests on).  Executable definitions only; lemmas in Proofs/AmmoVarSourceProofs.v. *)
From Coq Require Import List NArith ZArith Bool Arith.
From PV Require Import Lib.AmmoBytes Lib.AmmoDecimal Lib.AmmoLines Model.AmmoCommon Model.AmmoRobust.
Import ListNotations.

(* strings.Replace(s, " ", "_", -1) *)
Definition underscore (s : bytes) : bytes := map (fun c => if N.eqb c 32 then 95%N else c) s.

(* a row: map[string]string, assignment replaces *)
Definition vrow := list (bytes * bytes).

(* the name under which column i is stored: the field name, or the index when the name is empty *)
Definition field_key (i : nat) (f : bytes) : bytes := if is_nil f then dec (N.of_nat i) else f.

(* for i, field := range fields { ... row[field] = record[i] ... } *)
Fixpoint csv_row (guarded : bool) (fields : list bytes) (i : nat) (record : list bytes) (acc : vrow) : rres vrow :=
  match fields with
  | [] => VOk acc
  | f :: r =>
      if guarded && (length record <=? i)%nat
      then csv_row guarded r (S i) record (hset (field_key i f) [] acc)
      else
        match nth_error record i with
        | None => VPanic                       (* index out of range [i] with length len(record) *)
        | Some v => csv_row guarded r (S i) record (hset (field_key i f) v acc)
        end
  end.

(* the read loop: an empty field list is filled from the first record; the first record is skipped
   when ignore_first_line is set; a csv error discards everything *)
Fixpoint read_csv (guarded : bool) (fields : list bytes) (ignore_first : bool) (recs : list (list bytes))
         (ends_in_error : bool) (acc : list vrow) : rres (list vrow) :=
  match recs with
  | [] => if ends_in_error then VErr else VOk (rev acc)
  | rc :: rest =>
      let fields' := match fields with [] => map underscore rc | _ => fields end in
      if ignore_first then read_csv guarded fields' false rest ends_in_error acc
      else
        match csv_row guarded fields' 0 rc [] with
        | VOk row => read_csv guarded fields' false rest ends_in_error (row :: acc)
        | VErr => VErr
        | VPanic => VPanic
        end
  end.

(* VariableSourceCsv.Init: the file must open; then readCsv *)
Definition csv_source (file_exists : bool) (fields : list bytes) (ignore_first : bool)
           (recs : list (list bytes)) (ends_in_error : bool) : rres (list vrow) :=
  if negb file_exists then VErr
  else read_csv true (map underscore fields) ignore_first recs ends_in_error [].

(* SPECIFICATION of a row, a total function written from the documentation ("a missing column reads as
   the empty string"): column i of the record, or nothing *)
Fixpoint row_spec (fields : list bytes) (i : nat) (record : list bytes) (acc : vrow) : vrow :=
  match fields with
  | [] => acc
  | f :: r => row_spec r (S i) record (hset (field_key i f) (nth i record []) acc)
  end.

(* the rows the specification expects from the records that are not skipped *)
Definition rows_spec (fields : list bytes) (ignore_first : bool) (recs : list (list bytes)) : list vrow :=
  let fs := match fields, recs with
            | [], rc :: _ => map underscore rc
            | _, _ => map underscore fields
            end in
  map (fun rc => row_spec fs 0 rc []) (if ignore_first then tl recs else recs).

(* scenario provider construction as far as the variable sources decide it: sources are initialised in
   order, the first error is the constructor's error *)
Fixpoint init_sources (srcs : list (rres (list vrow))) : rres (list (list vrow)) :=
  match srcs with
  | [] => VOk []
  | VOk rows :: r =>
      match init_sources r with
      | VOk out => VOk (rows :: out)
      | VErr => VErr
      | VPanic => VPanic
      end
  | VErr :: _ => VErr
  | VPanic :: _ => VPanic
  end.
