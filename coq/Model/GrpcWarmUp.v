(* Model of the warm-up of the grpc gun (property C05, "if ... gun warm-up ... fails, the run
   returns an error that carries that cause -- a component error is never swallowed into a
   successful result"; the gun as a component whose own report the engine relies on):
   components/guns/grpc/core.go  Gun.WarmUp = createSharedDeps.

     createSharedDeps:
       services, err := g.prepareMethodList(opts);  if err != nil { return nil, err }
       clientPool, err := g.prepareClientPool();    if err != nil { return nil, err }
       return &SharedDeps{services, clientPool}, nil

     prepareMethodList:
       conn, err := g.makeReflectionConnect();      if err != nil { return nil, "failed to connect to target" }
       listServices, err := refClient.ListServices(); if err != nil { return nil, "refClient.ListServices err" }
       services := map[..]..{}
       for _, s := range listServices {
         service, err := refClient.ResolveService(s)
         if err != nil {
           if grpcreflect.IsElementNotFoundError(err) { continue }
           return nil, "cant resolveService <s>; err: ..."
         }
         for _, m := range service.GetMethods() { services[m.GetFullyQualifiedName()] = *m }
       }
       return services, nil

     prepareClientPool:
       if !SharedClient.Enabled { return nil, nil }
       if ClientNumber < 1 { ClientNumber = 1 }
       clientPool, err := clientpool.New(ClientNumber);   if err != nil { return nil, "create clientpool err" }
       for i := 0; i < ClientNumber; i++ { conn, err := g.makeConnect(); if err != nil { return nil, "makeGRPCConnect fail" }; Add }
       return clientPool, nil

   The target's reflection endpoint is abstracted to what the client library makes of its answers:
   whether the connection can be made, what ListServices returns, and for every listed service what
   ResolveService returns -- the descriptors (its methods) or an error with a status code; code
   NOT_FOUND (5) is the class grpcreflect.IsElementNotFoundError recognises (an ErrorResponse or RPC
   status NOT_FOUND, or an answer that does not contain the symbol).  What the loop does with an error
   of either class is a parameter ([rpolicy]); the tree's policy is re-read from the source
   (Gen/GrpcWarmUpGen.v).  Executable definitions only. *)
From Coq Require Import List Arith Bool.
Import ListNotations.

Definition code_not_found : nat := 5.

Inductive resolve :=
| RsOk (methods : list nat)        (* the service descriptor, with these methods *)
| RsErr (code : nat).              (* ResolveService returned an error of this status code *)

Inductive ract := RaSkip | RaFail.  (* `continue` / `return nil, err` *)

Record rpolicy := { on_not_found : ract; on_other : ract }.

(* components/guns/grpc/core.go as it is *)
Definition tree_policy : rpolicy := {| on_not_found := RaSkip; on_other := RaFail |}.

Record reflsrv := {
  rf_connect : bool;                     (* grpc.DialContext of the gun's configuration succeeds *)
  rf_list : option nat;                  (* ListServices: None = the list below, Some c = an error *)
  rf_services : list (nat * resolve)     (* the listed services in order, and what ResolveService says *)
}.

Record cpconf := { cp_enabled : bool; cp_number : nat }.

Inductive wcause :=
| WcConnect                      (* "failed to connect to target" *)
| WcList (code : nat)            (* "refClient.ListServices err" *)
| WcResolve (svc code : nat)     (* "cant resolveService <svc>" *)
| WcPoolNew                      (* "create clientpool err" *)
| WcPoolConnect.                 (* "makeGRPCConnect fail" *)

(* the method table: keys (service, method), a Go map *)
Definition mkey := (nat * nat)%type.
Definition mkey_eqb (a b : mkey) : bool := (fst a =? fst b) && (snd a =? snd b).

Fixpoint tbl_add (k : mkey) (t : list mkey) : list mkey :=
  match t with
  | [] => [k]
  | x :: r => if mkey_eqb x k then x :: r else x :: tbl_add k r
  end.

Definition tbl_add_all (s : nat) (ms : list nat) (t : list mkey) : list mkey :=
  fold_left (fun t m => tbl_add (s, m) t) ms t.

(* the statements that can fail, as the translator names them (Gen/GrpcWarmUpGen.v): createSharedDeps runs
   [tree_shared_deps_steps] in this order and returns the error of each; prepareMethodList runs
   [tree_method_list_prelude] before the loop and returns the error of each *)
Inductive wstep := WsMethodList | WsClientPool.
Inductive mstep := MsConnect | MsListServices.
Definition tree_shared_deps_steps : list wstep := [WsMethodList; WsClientPool].
Definition tree_method_list_prelude : list mstep := [MsConnect; MsListServices].

Inductive wres (A : Type) := WOk (a : A) | WFail (c : wcause).
Arguments WOk {A} a.
Arguments WFail {A} c.

Definition err_action (pol : rpolicy) (code : nat) : ract :=
  if code =? code_not_found then on_not_found pol else on_other pol.

Fixpoint resolve_loop (pol : rpolicy) (svcs : list (nat * resolve)) (tbl : list mkey) : wres (list mkey) :=
  match svcs with
  | [] => WOk tbl
  | (s, RsOk ms) :: r => resolve_loop pol r (tbl_add_all s ms tbl)
  | (s, RsErr c) :: r =>
      match err_action pol c with
      | RaSkip => resolve_loop pol r tbl
      | RaFail => WFail (WcResolve s c)
      end
  end.

Definition prepare_method_list (pol : rpolicy) (rf : reflsrv) : wres (list mkey) :=
  if negb (rf_connect rf) then WFail WcConnect
  else match rf_list rf with
       | Some c => WFail (WcList c)
       | None => resolve_loop pol (rf_services rf) []
       end.

(* clientpool.New fails on a size <= 0; [fuel]-free: the connect loop makes the same dial every time *)
Definition prepare_client_pool (rf : reflsrv) (cp : cpconf) : wres nat :=
  if negb (cp_enabled cp) then WOk 0
  else
    let n := if cp_number cp <? 1 then 1 else cp_number cp in
    if n <=? 0 then WFail WcPoolNew
    else if negb (rf_connect rf) then WFail WcPoolConnect
    else WOk n.

(* WarmUp: the method table and the number of shared clients, or the cause *)
Definition warm_up (pol : rpolicy) (rf : reflsrv) (cp : cpconf) : wres (list mkey * nat) :=
  match prepare_method_list pol rf with
  | WFail c => WFail c
  | WOk tbl =>
      match prepare_client_pool rf cp with
      | WFail c => WFail c
      | WOk n => WOk (tbl, n)
      end
  end.

Definition wres_failed {A} (r : wres A) : bool := match r with WFail _ => true | WOk _ => false end.

(* ---------------------------------------------------------------------------------------- *)
(* The specification side (not code shaped): does a warm-up against this endpoint have to fail?
   A refusal to hand out the descriptors of a listed service is a failure unless it says the
   service is not there. *)
Definition refusal_is_failure (code : nat) : bool := negb (code =? code_not_found).

Definition svc_refused (sr : nat * resolve) : bool :=
  match snd sr with RsErr c => refusal_is_failure c | RsOk _ => false end.

Definition gw_spec_fails (rf : reflsrv) : bool :=
  negb (rf_connect rf)
  || match rf_list rf with Some _ => true | None => false end
  || existsb svc_refused (rf_services rf).

(* the methods a successful warm-up knows: those of every service whose descriptors were served *)
Definition gw_spec_methods (rf : reflsrv) : list mkey :=
  flat_map (fun sr => match snd sr with RsOk ms => map (pair (fst sr)) ms | RsErr _ => [] end) (rf_services rf).

(* the cause a failing warm-up has to carry: the FIRST thing that went wrong *)
Fixpoint first_refused (svcs : list (nat * resolve)) : option (nat * nat) :=
  match svcs with
  | [] => None
  | (s, RsErr c) :: r => if refusal_is_failure c then Some (s, c) else first_refused r
  | (_, RsOk _) :: r => first_refused r
  end.

Definition gw_spec_cause (rf : reflsrv) : option wcause :=
  if negb (rf_connect rf) then Some WcConnect
  else match rf_list rf with
       | Some c => Some (WcList c)
       | None => match first_refused (rf_services rf) with
                 | Some (s, c) => Some (WcResolve s c)
                 | None => None
                 end
       end.

(* number of distinct keys (what len(services) is) *)
Definition tbl_size (t : list mkey) : nat := length t.

(* the endpoint of the correspondence runs: service i of the list has the given outcome, an outcome
   [RsOk] with m methods lists methods 0..m-1 *)
Definition gw_services (outs : list resolve) : list (nat * resolve) := combine (seq 0 (length outs)) outs.
Definition gw_methods (m : nat) : resolve := RsOk (seq 0 m).

(* ---------------------------------------------------------------------------------------- *)
(* The pool's step: instancePool.warmUpGun turns a WarmUp error into "gun warm up failed: ..." and
   instancePool.Run returns it at once; otherwise it goes on to runAsync (Model/Pool.v, [PvPre]). *)
From PV Require Import Model.Pool.

Definition gw_pre_outcome {A} (r : wres A) : pre_outcome :=
  if wres_failed r then PreWarmFail else PreOk.
