(* Property C18, the registration helpers of core/register (register.go): every built-in and custom
   component is registered through  register.Provider / Limiter / Gun / Aggregator / DataSource /
   DataSink (name, constructor, optional default-config function)  which hand the request on to
   RegisterPtr and so to plugin.Register on the default registry.

   A helper is data (re-read from the source by `translate register`): the interface whose pointer
   type it declares, the function it calls and, argument by argument, what it passes on.  Applying
   a helper to a request gives the request that reaches its callee.

   Executable definitions only. *)
From Coq Require Import List String Arith Bool.
From PV Require Import Model.Registry.
Import ListNotations.
Local Open Scope string_scope.

Inductive harg :=
| HPtr                       (* the local `var ptr *core.X` *)
| HPtrTypeOf (i : nat)       (* plugin.PtrType(<parameter i>) *)
| HParam (i : nat)           (* parameter i as it is *)
| HSpread (i : nat)          (* the variadic parameter i, spread: p... *)
| HOther (s : string).       (* anything else *)

Record reg_helper := mkHelper {
  rh_name : string;          (* exported function of core/register *)
  rh_iface : string;         (* X of `var ptr *core.X` ("" if none) *)
  rh_nparams : nat;
  rh_variadic : bool;        (* the last parameter is variadic *)
  rh_callee : string;
  rh_args : list harg
}.

(* the helpers as the model knows them (the bridge compares the re-read table with this one) *)
Definition kind_helper (name iface : string) : reg_helper :=
  mkHelper name iface 3 true "RegisterPtr" [HPtr; HParam 0; HParam 1; HSpread 2].
Definition register_ptr_helper : reg_helper :=
  mkHelper "RegisterPtr" "" 4 true "plugin.Register" [HPtrTypeOf 0; HParam 1; HParam 2; HSpread 3].
Definition kind_helpers : list reg_helper :=
  [ kind_helper "Provider" "Provider"; kind_helper "Limiter" "Schedule"; kind_helper "Gun" "Gun";
    kind_helper "Aggregator" "Aggregator"; kind_helper "DataSource" "DataSource"; kind_helper "DataSink" "DataSink" ].
Definition register_helpers : list reg_helper := register_ptr_helper :: kind_helpers.

(* values travelling through a registration call *)
Inductive hval :=
| VType (iface : string)     (* pointer-to-interface / the interface type it denotes *)
| VName (n : nat)
| VCtor (c : nat)
| VDef (f : nat).            (* a default-config function *)

(* a registration request: which plugin type, under which name, which constructor, which default
   config functions (Go allows at most one; the list is what the variadic parameter holds) *)
Record regreq := mkReq { rq_type : string; rq_name : nat; rq_ctor : nat; rq_defs : list nat }.

(* the parameters of a helper call, fixed part then the variadic rest *)
Definition eval_harg (h : reg_helper) (fixed : list hval) (rest : list hval) (a : harg) : option (list hval) :=
  match a with
  | HPtr => if String.eqb (rh_iface h) "" then None else Some [VType (rh_iface h)]
  | HPtrTypeOf i => match nth_error fixed i with Some (VType t) => Some [VType t] | _ => None end
  | HParam i => match nth_error fixed i with Some v => Some [v] | None => None end
  | HSpread i => if rh_variadic h && Nat.eqb (S i) (rh_nparams h) then Some rest else None
  | HOther _ => None
  end.

Fixpoint eval_hargs (h : reg_helper) (fixed rest : list hval) (l : list harg) : option (list hval) :=
  match l with
  | [] => Some []
  | a :: r =>
      match eval_harg h fixed rest a, eval_hargs h fixed rest r with
      | Some x, Some y => Some (x ++ y)%list
      | _, _ => None
      end
  end.

Fixpoint all_defs (l : list hval) : option (list nat) :=
  match l with
  | [] => Some []
  | VDef f :: r => match all_defs r with Some x => Some (f :: x) | None => None end
  | _ :: _ => None
  end.

(* what the callee of a kind helper (name, ctor, defaults...) receives *)
Definition apply_kind_helper (h : reg_helper) (name ctor : nat) (defs : list nat) : option regreq :=
  match eval_hargs h [VName name; VCtor ctor] (map VDef defs) (rh_args h) with
  | Some (VType t :: VName n :: VCtor c :: rest) =>
      match all_defs rest with Some ds => Some (mkReq t n c ds) | None => None end
  | _ => None
  end.

(* what plugin.Register receives from RegisterPtr(ptr, name, ctor, defaults...) *)
Definition apply_ptr_helper (h : reg_helper) (r : regreq) : option regreq :=
  match eval_hargs h [VType (rq_type r); VName (rq_name r); VCtor (rq_ctor r)] (map VDef (rq_defs r)) (rh_args h) with
  | Some (VType t :: VName n :: VCtor c :: rest) =>
      match all_defs rest with Some ds => Some (mkReq t n c ds) | None => None end
  | _ => None
  end.

(* register.<Kind>(name, ctor, defaults...) all the way to plugin.Register *)
Definition register_via (hk hp : reg_helper) (name ctor : nat) (defs : list nat) : option regreq :=
  if String.eqb (rh_callee hk) (rh_name hp) && String.eqb (rh_callee hp) "plugin.Register" then
    match apply_kind_helper hk name ctor defs with
    | Some r => apply_ptr_helper hp r
    | None => None
    end
  else None.

(* the shape the registry sees for a constructor of shape [sh] whose default-config function (if
   it has one) is passed to a helper: the default survives iff the helper hands it on *)
Definition shape_via (hk hp : reg_helper) (sh : shape) : option shape :=
  match register_via hk hp 0 0 (if is_defnone (sh_def sh) then [] else [0]) with
  | Some r =>
      Some (mkShape (sh_ret sh) (sh_cfg sh) (sh_cerr sh) (sh_perr sh)
                    (match rq_defs r with [] => DefNone | _ => sh_def sh end)
                    (sh_rt sh) (sh_named sh))
  | None => None
  end.

(* executable check used on a re-read table: every helper forwards type, name, constructor and
   the default-config functions unchanged *)
Definition helper_forwards (hp hk : reg_helper) : bool :=
  match register_via hk hp 1 2 [], register_via hk hp 1 2 [3] with
  | Some r0, Some r1 =>
      String.eqb (rq_type r0) (rh_iface hk) && Nat.eqb (rq_name r0) 1 && Nat.eqb (rq_ctor r0) 2 &&
      match rq_defs r0 with [] => true | _ => false end &&
      String.eqb (rq_type r1) (rh_iface hk) && Nat.eqb (rq_name r1) 1 && Nat.eqb (rq_ctor r1) 2 &&
      match rq_defs r1 with [3] => true | _ => false end
  | _, _ => false
  end.
