(* Property C04, round 8: what a CONFIGURED rps profile means when it is written with the profile
   types that BUILD a composite themselves - `step` (core/schedule/step.go NewStep) and
   `instance_step` (instance_step.go NewInstanceStep) - next to the plain segments of
   Model/Waiter.v ([segment]: once / const / pause / unlimited).

   A `step` profile is a staircase: levels from, from+step, ... <= to, every level lasts
   [duration] and is a const profile of its rate.  A level whose const part holds no token
   (rate 0, or rate * duration < 1) still LASTS its duration: it is the pause of the staircase.
   Rates are in milli-rps (Z), durations and instants in ns. *)
From Coq Require Import List ZArith Bool.
From PV Require Import Model.Waiter.
Import ListNotations.
Local Open Scope Z_scope.

Definition ns_mrps : Z := 1000000000000.   (* 1e9 ns/s * 1000 mrps/rps *)

(* NewConst(ops, duration): n = int64(ops * seconds) tokens, the i-th at i * 1e9/ops; a const part
   without tokens is a pause of that duration.  (mrps <= 0: NewConst clamps the rate to 0.) *)
Definition const_tokens (mrps dur : Z) : Z := if mrps <=? 0 then 0 else mrps * dur / ns_mrps.

Definition const_seg (mrps dur : Z) : segment :=
  let n := const_tokens mrps dur in
  if n <=? 0 then SPause dur else SConst (ns_mrps / mrps) (Z.to_nat n) dur.

(* k levels of a staircase, the first of rate [rate], each [stepm] higher than the previous *)
Fixpoint cstep_levels (rate stepm dur : Z) (k : nat) : list segment :=
  match k with
  | O => []
  | S k' => const_seg rate dur :: cstep_levels (rate + stepm) stepm dur k'
  end.

(* number of i in from, from+step, ... with i <= to (0 when to < from) *)
Definition level_count (from to step : Z) : nat := Z.to_nat ((to - from) / step + 1).

(* k increments of an instance_step profile: pause, then [step] tokens at once *)
Fixpoint cinst_levels (step : nat) (dur : Z) (k : nat) : list segment :=
  match k with
  | O => []
  | S k' => SPause dur :: SOnce step :: cinst_levels step dur k'
  end.

Inductive part :=
| CSeg (s : segment)
| CStep (from_m to_m : Z) (step : Z) (dur : Z)    (* type: step; from/to in milli-rps, step in rps *)
| CInstStep (from to step : Z) (dur : Z).         (* type: instance_step *)

(* None = a config the validation refuses (negative rate, step < 1): not a profile *)
Definition part_segments (p : part) : option (list segment) :=
  match p with
  | CSeg s => Some [s]
  | CStep f t st d =>
      if (f <? 0) || (t <? 0) || (st <? 1) || (d <? 0) then None
      else Some (cstep_levels f (st * 1000) d (level_count f t (st * 1000)))
  | CInstStep f t st d =>
      if (f <? 0) || (t <? 0) || (st <? 1) || (d <? 0) then None
      else Some (SOnce (Z.to_nat f) :: cinst_levels (Z.to_nat st) d (Z.to_nat ((t - f) / st)))
  end.

Fixpoint profile_segments (ps : list part) : option (list segment) :=
  match ps with
  | [] => Some []
  | p :: r =>
      match part_segments p, profile_segments r with
      | Some a, Some b => Some (a ++ b)
      | _, _ => None
      end
  end.

(* the token offsets / unlimited windows of the profile as configured *)
Definition configured_offsets (start : Z) (ps : list part) : option (list Z * list (Z * Z)) :=
  option_map (profile_offsets start) (profile_segments ps).

Definition seg_dur (s : segment) : Z :=
  match s with
  | SOnce _ => 0
  | SConst _ _ d | SPause d | SUnl d => d
  end.

Fixpoint total_dur (segs : list segment) : Z :=
  match segs with
  | [] => 0
  | s :: r => seg_dur s + total_dur r
  end.

(* the variant kept for the refutation: a builder that leaves the token-less parts out *)
Definition is_pause (s : segment) : bool := match s with SPause _ => true | _ => false end.
Definition drop_pauses (segs : list segment) : list segment := filter (fun s => negb (is_pause s)) segs.

(* executable judgement: the i-th observed instant is not before the i-th configured offset *)
Fixpoint not_before_b (offs ats : list Z) : bool :=
  match offs, ats with
  | o :: r, a :: r' => (o <=? a) && not_before_b r r'
  | _, _ => true
  end.
