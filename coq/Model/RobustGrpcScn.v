(* Model for property C19: the grpc/scenario gun (components/guns/grpc/scenario/core.go shoot / shootStep).
   One scenario = calls in order.  Every executed call reports exactly one sample through the deferred
   `sample.SetProtoCode(code); Aggr.Report(sample)` - also when the step returns an error or panics; the gun never
   sets an error on the sample.  A step ERROR (preprocessor, template, unknown method, payload that does not fit the
   input message, a postprocessor that rejects the answer) ends the scenario; a FAILED CALL (any status: Unavailable
   from a refusing / vanished target, Internal, DeadlineExceeded ...) does not: the postprocessors run on (nil, code)
   and the next call follows.  Executable definitions only. *)
From Coq Require Import List ZArith Bool.
From PV Require Import Model.Robust.
Import ListNotations.
Local Open Scope Z_scope.

Record gstep := {
  gs_pre : outcome unit;          (* preprocessors *)
  gs_tmpl_ok : bool;              (* templater.Apply on payload and metadata *)
  gs_method_ok : bool;            (* step.Call is among the methods found by reflection *)
  gs_payload_ok : bool;           (* the rendered payload fits the method's input message *)
  gs_code : Z;                    (* ConvertGrpcStatus of what the call ended with *)
  gs_pps : list (outcome unit)    (* postprocessors on (out, code), in order; out = nil when the call failed *)
}.

Inductive gstep_out := GStepOk (s : sample) | GStepErr (s : sample) | GStepPanic (s : sample).

Definition gsample (code : Z) : sample := {| sm_code := code; sm_err := false |}.

Definition grpc_scn_step (s : gstep) : gstep_out :=
  match gs_pre s with
  | Panicked => GStepPanic (gsample 0)
  | Failed => GStepErr (gsample 0)
  | Done _ =>
      if negb (gs_tmpl_ok s) then GStepErr (gsample 0)
      else if negb (gs_method_ok s) then GStepErr (gsample 0)
      else if negb (gs_payload_ok s) then GStepErr (gsample 400)
      else match run_pps (gs_pps s) with
           | Done _ => GStepOk (gsample (gs_code s))
           | Failed => GStepErr (gsample (gs_code s))
           | Panicked => GStepPanic (gsample (gs_code s))
           end
  end.

Fixpoint grpc_scn_steps (steps : list gstep) (acc : list sample) : shot :=
  match steps with
  | [] => Returned acc
  | s :: r => match grpc_scn_step s with
              | GStepOk sm => grpc_scn_steps r (acc ++ [sm])
              | GStepErr sm => Returned (acc ++ [sm])
              | GStepPanic sm => ShotPanic (acc ++ [sm])
              end
  end.
Definition grpc_scn_shoot (steps : list gstep) : shot := grpc_scn_steps steps [].

(* how many calls a shot executes: up to and including the first step that does not end in GStepOk *)
Fixpoint grpc_scn_executed (steps : list gstep) : nat :=
  match steps with
  | [] => O
  | s :: r => match grpc_scn_step s with GStepOk _ => S (grpc_scn_executed r) | _ => 1%nat end
  end.

(* a step with the modelled postprocessor assert/response (Model/Robust.v grpc_assert) *)
Definition mk_gstep (tmpl method payload : bool) (code : Z) (out : option bstr) (asserts : list (Z * list bstr)) : gstep :=
  {| gs_pre := Done tt; gs_tmpl_ok := tmpl; gs_method_ok := method; gs_payload_ok := payload; gs_code := code;
     gs_pps := map (fun a => grpc_assert (fst a) (snd a) code out) asserts |}.
