(* C12, round 7: the token COUNT of a startup profile, from its configuration.

   schedule.NewConst(ops, duration):   n := int64(ops * seconds(duration))   -- truncation
                                       token i at  duration(float64(i) * 1e9/ops)
   With ops a rational opn/opd (what a decimal written in a config denotes) and the duration in ns:
   n = floor(opn*d / (opd*1e9)), token i at floor(i*opd*1e9 / opn).  (The float evaluation of these two
   formulas is C01's subject; here they are exact.)  Executable definitions only. *)
From Coq Require Import List ZArith Bool.
From PV Require Import Model.StartLoop.
Import ListNotations.
Local Open Scope Z_scope.

Definition ns_per_s : Z := 1000000000.

(* how the fractional product ops*duration becomes a number of tokens *)
Inductive count_rule := Truncate (* the code *) | RoundNearest (* used by one Example only *).

Definition const_count_by (r : count_rule) (opn opd d : Z) : Z :=
  if opn <=? 0 then 0
  else match r with
       | Truncate => (opn * d) / (opd * ns_per_s)
       | RoundNearest => (2 * opn * d + opd * ns_per_s) / (2 * opd * ns_per_s)
       end.

Definition const_count := const_count_by Truncate.

Definition const_offset (opn opd i : Z) : Z := (i * (opd * ns_per_s)) / opn.

Definition const_tokens_by (r : count_rule) (start opn opd d : Z) : list Z :=
  map (fun i => start + const_offset opn opd (Z.of_nat i)) (seq 0 (Z.to_nat (const_count_by r opn opd d))).

Definition const_tokens := const_tokens_by Truncate.

(* a configured profile: the parts of StartLoop.v, or a const part given by its rate *)
Inductive ppart := PP (p : part) | PRate (opn opd d : Z).

Definition part_dur (p : part) : Z :=
  match p with POnce _ => 0 | PPause d => d | PConst _ _ d => d end.

Definition part_count (p : part) : Z :=
  match p with POnce n => Z.max 0 n | PPause _ => 0 | PConst n _ _ => Z.max 0 n end.

Fixpoint pflatten_by (r : count_rule) (start : Z) (ps : list ppart) : list Z :=
  match ps with
  | [] => []
  | PP p :: rest => flatten start [p] ++ pflatten_by r (start + part_dur p) rest
  | PRate opn opd d :: rest => const_tokens_by r start opn opd d ++ pflatten_by r (start + d) rest
  end.

Definition pflatten := pflatten_by Truncate.

Definition ppart_count (p : ppart) : Z :=
  match p with PP q => part_count q | PRate opn opd d => Z.max 0 (const_count opn opd d) end.

(* the number of tokens a configured profile releases *)
Definition profile_count (ps : list ppart) : Z := fold_right (fun p acc => ppart_count p + acc) 0 ps.
