(* Property C14 with the provider's `middlewares:` option: what a gun is handed.

   provider/provider.go Acquire: an ammo object is taken from the sink, ammo.BuildRequest()
   makes a NEW request (http.NewRequest: a new, empty header map; util.EnrichRequestWithHeaders
   copies the ammo's header map into it key by key, `Host` apart), then every configured
   middleware updates that request in place (middleware/headerdate: req.Header.Add(name, now)).

   Header maps are MUTABLE objects ([mheap]: a heap of maps; an ammo object and a request hold
   addresses).  With preload (provider.go runPreloaded) and in the jsonline array form
   (decoders/jsonline.go) the SAME ammo objects are handed out again on every later pass; without
   preload every delivery is a newly set up object (Setup with a cloned map).  The question C14
   asks: does a re-delivered object still yield the request its line of the file describes, i.e.
   does anything a middleware does to a request leak into the kept ammo object?

   Executable definitions only; proofs in Proofs/PreloadMwProofs.v. *)
From Coq Require Import List Arith Bool NArith.
From PV Require Import Lib.AmmoBytes.
From PV Require Model.AmmoCommon.
From PV Require Import Model.Provider Model.Preload Model.PreloadContent.
Import ListNotations.

(* a net/http Header: several values per key *)
Definition rheaders := list (bytes * list bytes).

Definition rhas (k : bytes) (r : rheaders) : bool := existsb (fun p => beq k (fst p)) r.

(* http.Header.Add / Set / Del on the canonical key *)
Fixpoint radd (k v : bytes) (r : rheaders) : rheaders :=
  match r with
  | [] => [(k, [v])]
  | (k', vs) :: t => if beq k k' then (k', vs ++ [v]) :: t else (k', vs) :: radd k v t
  end.

Definition rset (k v : bytes) (r : rheaders) : rheaders :=
  if rhas k r then map (fun p => if beq k (fst p) then (fst p, [v]) else p) r else r ++ [(k, [v])].

Definition rdel (k : bytes) (r : rheaders) : rheaders := filter (fun p => negb (beq k (fst p))) r.

(* the time stamp a header/date middleware adds; observations carry this marker instead of the
   wall-clock value *)
Definition STAMP : bytes := [68%N].
Definition DATE : bytes := [68; 97; 116; 101]%N.

(* a configured middleware *)
Inductive mwop :=
| MDate (name : bytes)     (* middleware/headerdate, HeaderName name ([] = its default, "Date") *)
| MAdd (k v : bytes)       (* req.Header.Add(k, v) *)
| MSet (k v : bytes)       (* req.Header.Set(k, v) *)
| MDel (k : bytes)         (* req.Header.Del(k) *)
| MBadInit                 (* InitMiddleware fails; UpdateRequest does nothing *)
| OCloseFails.             (* not a middleware, an option of the environment: Close of the ammo file fails *)

Definition apply_op (op : mwop) (r : rheaders) : rheaders :=
  match op with
  | MDate name => radd (canon_key (match name with [] => DATE | _ => name end)) STAMP r
  | MAdd k v => radd (canon_key k) v r
  | MSet k v => rset (canon_key k) v r
  | MDel k => rdel (canon_key k) r
  | MBadInit | OCloseFails => r
  end.

Definition apply_mw (ops : list mwop) (r : rheaders) : rheaders := fold_left (fun r op => apply_op op r) ops r.

Definition init_fails (ops : list mwop) : bool :=
  existsb (fun op => match op with MBadInit => true | _ => false end) ops.

Definition close_fails (ops : list mwop) : bool :=
  existsb (fun op => match op with OCloseFails => true | _ => false end) ops.

(* provider.go Run, deferred: the sink is closed, the file is closed; when that fails Run reports
   it (alone, or joined with its own error) *)
Definition end_with (ops : list mwop) (o : outcome) : outcome :=
  if close_fails ops then Failed EUnexpected else o.

(* the header map an ammo object holds: one value per key *)
Definition lift (h : headers) : rheaders := map (fun p => (fst p, [snd p])) h.

(* util.EnrichRequestWithHeaders onto the empty header map of a new request: every key of the
   ammo's map that is not yet there, `Host` apart (it fills req.Host) *)
Definition enrich_r (h : rheaders) : rheaders :=
  fold_left (fun acc p => let k := canon_key (fst p) in
                          if beq k AmmoCommon.HOST then acc
                          else if rhas k acc then acc else acc ++ [(k, snd p)]) h [].

(* what the request of an entry with header set h must be: the middlewares applied, in order, to
   a request carrying exactly the headers of the entry *)
Definition req_spec (ops : list mwop) (h : headers) : rheaders := apply_mw ops (enrich_r (lift h)).

(* ---------- header maps as heap objects ---------- *)

Definition mheap := list rheaders.
Definition mcell (m : mheap) (a : nat) : rheaders := nth a m [].

Fixpoint mupd (a : nat) (f : rheaders -> rheaders) (m : mheap) : mheap :=
  match m, a with
  | [], _ => []
  | c :: r, 0 => f c :: r
  | c :: r, S a' => c :: mupd a' f r
  end.

(* BuildRequest on the ammo object whose header map lives at address a: the request gets a NEW map *)
Definition build_req (m : mheap) (a : nat) : mheap * nat := (m ++ [enrich_r (mcell m a)], length m).

(* for comparison (not what the code does): a BuildRequest that hands the ammo's own map to the
   request when there is nothing to merge key by key (no Host among the keys) *)
Definition build_req_alias (m : mheap) (a : nat) : mheap * nat :=
  let h := mcell m a in
  if negb (rhas AmmoCommon.HOST h) && negb (match h with [] => true | _ => false end) then (m, a)
  else build_req m a.

(* the middlewares update the map at address r in place, one after the other *)
Definition run_mws (ops : list mwop) (m : mheap) (r : nat) : mheap :=
  fold_left (fun m op => mupd r (apply_op op) m) ops m.

(* Provider.Acquire: the heap afterwards and the header map of the request the gun is handed *)
Definition acquire_with (build : mheap -> nat -> mheap * nat) (ops : list mwop) (m : mheap) (a : nat)
  : mheap * rheaders :=
  let '(m1, r) := build m a in
  let m2 := run_mws ops m1 r in
  (m2, mcell m2 r).

Definition acquire := acquire_with build_req.

(* the kept ammo objects are handed out again and again: [refs] = the addresses of their maps in
   delivery order *)
Fixpoint replay_with build (ops : list mwop) (m : mheap) (refs : list nat) : mheap * list rheaders :=
  match refs with
  | [] => (m, [])
  | a :: r => let '(m1, v) := acquire_with build ops m a in
              let '(m2, vs) := replay_with build ops m1 r in
              (m2, v :: vs)
  end.

Definition replay := replay_with build_req.

(* every delivery is a newly set up ammo object with its own map *)
Fixpoint stream_with build (ops : list mwop) (m : mheap) (hs : list rheaders) : mheap * list rheaders :=
  match hs with
  | [] => (m, [])
  | h :: r => let '(m1, v) := acquire_with build ops (m ++ [h]) (length m) in
              let '(m2, vs) := stream_with build ops m1 r in
              (m2, v :: vs)
  end.

Definition stream := stream_with build_req.

(* which providers keep their ammo objects: preload, and the jsonline array form always *)
Definition keeps_objects (k : dkind) (preload : bool) : bool :=
  preload || match k with DJsonArr => true | _ => false end.

(* the header maps of the requests handed out for the deliveries [del] of a file whose entries
   are [cs] *)
Definition requests_with build (k : dkind) (preload : bool) (ops : list mwop) (cs del : list content)
  : list rheaders :=
  if keeps_objects k preload
  then snd (replay_with build ops (map (fun c => lift (c_hdrs c)) cs) (map c_pos del))
  else snd (stream_with build ops [] (map (fun c => lift (c_hdrs c)) del)).

Definition requests_of := requests_with build_req.

(* the provider with middlewares: every delivered content with the header map of its request, how
   Run ends, whether the sink was closed.  A middleware that cannot start ends Run at once
   (provider.go Run: InitMiddleware before anything is read). *)
Definition deliver_m (k : dkind) (preload : bool) (lim pas : nat) (cfgh : headers) (items : list citem)
           (chb : list bytes) (ops : list mwop) (cancel : option nat) (fuel : nat)
  : list (content * rheaders) * outcome * bool :=
  if init_fails ops then ([], Failed EUnexpected, true) else
  let '(del, o, cl) := deliver_c k preload lim pas cfgh items chb cancel fuel in
  (combine del (requests_of k preload ops (contents_of preload cfgh items) del), end_with ops o, cl).

(* ---------- what a gun sees ---------- *)

Fixpoint join0 (vs : list bytes) : bytes :=
  match vs with
  | [] => []
  | [v] => v
  | v :: r => v ++ 0%N :: join0 r
  end.

Definition view_m (uri_like : bool) (c : content) (r : rheaders) : view :=
  {| v_pos := c_pos c; v_tag := c_tag c;
     v_host := v_host (view_of uri_like c);
     v_hdrs := sort_hdrs (map (fun p => (fst p, join0 (snd p))) r) |}.

Definition is_rerr (r : runclass) : bool := match r with RErr => true | _ => false end.

(* The executable specification on the IMPLEMENTATION's observations of the two providers built
   from the same file with the same middlewares: [spec14_b] on the positions, and every acquired
   request carries exactly [req_spec] of the entry at its position — however often that entry was
   delivered before.  The property asks for the SAME end on both paths, not for a particular one:
   with a middleware that cannot start both must end alike, either at once (nothing delivered, sink
   closed) or like a run without that failure; when the ammo file's Close fails both must end
   alike, with what some admissible way of ending allows delivered. *)
Definition spec14m_b (uri_like : bool) (lim pas : nat) (cfgh : headers) (items : list citem) (chb : list bytes)
           (ops : list mwop) (cancel : option nat) (obsS obsP : list view) (clS clP : bool)
           (rcS rcP : runclass) : bool :=
  let cs := file_entries cfgh items [] 0 in
  let tab := tag_table cs chb in
  let okv o := match nth_error cs (v_pos o) with
               | Some c => view_eqb (view_m uri_like c (req_spec ops (c_hdrs c))) o
               | None => false
               end in
  let seq_ok rs rp :=
    spec14_b lim pas (abs_entries tab cs) (abs_chosen tab chb) cancel
             (map v_pos obsS) (map v_pos obsP) clS clP rs rp
    && forallb okv obsS && forallb okv obsP in
  if init_fails ops
  then runclass_eqb rcS rcP && Bool.eqb clS clP
       && (((length obsS =? 0) && (length obsP =? 0) && clS && negb (is_rhang rcS)) || seq_ok rcS rcP)
  else if close_fails ops
  then runclass_eqb rcS rcP
       && (seq_ok rcS rcP
           || (is_rerr rcS && (seq_ok ROk ROk || seq_ok RCanceled RCanceled || seq_ok RNoAmmo RNoAmmo)))
  else seq_ok rcS rcP.
