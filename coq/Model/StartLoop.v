(* Model of the instance start loop (core/engine/engine.go startInstances) driven by a
   coreutil.Waiter over the startup schedule, with the cancel sources of the start context,
   and of schedule.NewInstanceStep.  Executable definitions only; proofs are in
   Proofs/StartLoopProofs.v.

     waiter := NewWaiter(p.StartupSchedule)
     ok := waiter.Wait(startCtx); if !ok { return }            first token
     firstInstance, err := newInstance(runCtx, .., 0, deps); if err != nil { return }
     started++ ; go firstInstance.Run(runCtx)
     for ; waiter.Wait(startCtx); started++ { id := started; go runNewInstance(runCtx, .., id, deps) }

   Waiter.Wait(ctx):  LEntry  ctx done?            -> false
                      LNext   sched.Next()         -> none: false
                      LHave   tk <= cached lastNow -> true (the clock is re-read unless the cached reading
                              already shows more than MaxOverdueDuration of lateness),
                              else lastNow = time.Now(); tk <= lastNow -> true
                      LSleep  select { timer(tk) -> true ; ctx.Done -> false }
   LCreate: the instance (id = started) is created / its goroutine launched.

   Time is Z nanoseconds; [clock] is the current instant, advanced by STick only (monotone);
   a timer never fires before its deadline.  The startup schedule is an abstract stream of
   token times (property C02).  The start context is cancelled by labelled cancel sources. *)
From Coq Require Import List ZArith Bool Arith.
Import ListNotations.
Local Open Scope Z_scope.

Inductive cause :=
| OutOfAmmo        (* an instance returned outOfAmmoErr: awaitRun calls instanceStartCancel *)
| RpsFinished      (* the shared RPS schedule reported its end: cancelStart callback *)
| RunCancelled     (* the run context was cancelled from outside *)
| InstanceFailed.  (* an instance could not be created / failed: the pool fails and cancels everything *)

Inductive endc := EExhausted | ECancelled (c : cause) | EFirstCreateFailed.

Inductive lpc := LEntry | LNext | LHave (tk : Z) | LSleep (tk : Z) | LCreate (tk : Z) | LEnd (e : endc).

Record sstate := mkSS {
  spc : lpc;
  rest : list Z;             (* startup tokens not drawn yet *)
  started : list (nat * Z);  (* (id, creation instant), newest first *)
  lastNow : option Z;        (* the Waiter's cached clock reading (None: zero time.Time) *)
  clock : Z;                 (* current instant *)
  cancelled : option cause   (* start context done, and the first source that did it *)
}.

Inductive saction :=
| STick (d : Z)                              (* time passes *)
| SCancel (c : cause)                        (* a cancel source fires *)
| SLoop (fail : bool) (prefer_cancel : bool). (* the loop performs its next section.
     fail: newInstance fails (honoured for the first, synchronously created instance only);
     prefer_cancel: what select picks when timer and ctx.Done are both ready *)

Definition sinit (toks : list Z) (t0 : Z) : sstate := mkSS LEntry toks [] None t0 None.

Definition set_spc (s : sstate) (p : lpc) : sstate :=
  mkSS p (rest s) (started s) (lastNow s) (clock s) (cancelled s).

(* const MaxOverdueDuration = 2 * time.Second (same constant as Model/Waiter.v, bridged there) *)
Definition max_overdue_ns : Z := 2000000000.

Definition sstep (a : saction) (s : sstate) : option sstate :=
  match a with
  | STick d =>
      if 0 <=? d then Some (mkSS (spc s) (rest s) (started s) (lastNow s) (clock s + d) (cancelled s)) else None
  | SCancel c =>
      Some (mkSS (spc s) (rest s) (started s) (lastNow s) (clock s)
                 (match cancelled s with None => Some c | x => x end))
  | SLoop fail prefer_cancel =>
      match spc s with
      | LEntry =>
          match cancelled s with
          | Some c => Some (set_spc s (LEnd (ECancelled c)))
          | None => Some (set_spc s LNext)
          end
      | LNext =>
          match rest s with
          | [] => Some (set_spc s (LEnd EExhausted))
          | tk :: r => Some (mkSS (LHave tk) r (started s) (lastNow s) (clock s) (cancelled s))
          end
      | LHave tk =>
          let fresh := mkSS (if tk <=? clock s then LCreate tk else LSleep tk) (rest s) (started s)
                            (Some (clock s)) (clock s) (cancelled s) in
          match lastNow s with
          | Some ln =>
              if tk <=? ln then
                if ln - tk <? max_overdue_ns
                then Some (mkSS (LCreate tk) (rest s) (started s) (Some (clock s)) (clock s) (cancelled s))
                else Some (set_spc s (LCreate tk))
              else Some fresh
          | None => Some fresh
          end
      | LSleep tk =>
          let timer := tk <=? clock s in
          match cancelled s with
          | Some c =>
              if timer && negb prefer_cancel then Some (set_spc s (LCreate tk))
              else Some (set_spc s (LEnd (ECancelled c)))
          | None => if timer then Some (set_spc s (LCreate tk)) else None
          end
      | LCreate tk =>
          let id := length (started s) in
          if (id =? 0)%nat && fail then Some (set_spc s (LEnd EFirstCreateFailed))
          else Some (mkSS LEntry (rest s) ((id, clock s) :: started s) (lastNow s) (clock s) (cancelled s))
      | LEnd _ => None
      end
  end.

Fixpoint srun (l : list saction) (s : sstate) : option sstate :=
  match l with
  | [] => Some s
  | a :: r => match sstep a s with Some s' => srun r s' | None => None end
  end.

(* chronological list of (id, creation instant) *)
Definition creations (s : sstate) : list (nat * Z) := rev (started s).

Definition started_by (t : Z) (s : sstate) : nat :=
  length (filter (fun ic => snd ic <=? t) (creations s)).
Definition released_by (t : Z) (toks : list Z) : nat :=
  length (filter (fun tk => tk <=? t) toks).

(* A canonical complete run used by the correspondence driver: no token is waited for longer
   than necessary, the start context is cancelled (cause c) once [n] instances exist
   (never when n >= number of tokens). *)
Definition drive_action (n : nat) (c : option cause) (fail0 : bool) (s : sstate) : saction :=
  match c, cancelled s, (n <=? length (started s))%nat with
  | Some cc, None, true => SCancel cc
  | _, _, _ =>
      match spc s, cancelled s with
      | LSleep tk, None => if tk <=? clock s then SLoop fail0 true else STick (tk - clock s)
      | _, _ => SLoop fail0 true
      end
  end.

Fixpoint drive (fuel : nat) (n : nat) (c : option cause) (fail0 : bool) (s : sstate) : sstate :=
  match fuel with
  | O => s
  | S f => match sstep (drive_action n c fail0 s) s with
           | Some s' => drive f n c fail0 s'
           | None => s
           end
  end.

(* ------------------------------------------------------------------------------------ *)
(* schedule.NewInstanceStep(from, to, step, stepDuration):

     nexts = [NewOnce(from)]
     for i := from + step; i <= to; i += step { nexts += NewConst(0, stepDuration), NewOnce(step) }
     return NewComposite(nexts)

   A composite starts each part at the finish time of the previous one; once(n) emits n tokens
   at its start and lasts 0; const(0, d) emits nothing and lasts d. *)

Inductive part := POnce (n : Z) | PPause (d : Z) | PConst (n period d : Z).
(* PConst: schedule.NewConst with n tokens, token i at i*period after its start, lasting d *)

Fixpoint istep_loop (fuel : nat) (i to step dur : Z) : option (list part) :=
  if i <=? to then
    match fuel with
    | O => None   (* out of fuel: excluded by the bound proved in Proofs *)
    | S f => match istep_loop f (i + step) to step dur with
             | Some r => Some (PPause dur :: POnce step :: r)
             | None => None
             end
    end
  else Some [].

Definition new_instance_step (fuel : nat) (from to step dur : Z) : option (list part) :=
  match istep_loop fuel (from + step) to step dur with
  | Some r => Some (POnce from :: r)
  | None => None
  end.

Fixpoint flatten (start : Z) (ps : list part) : list Z :=
  match ps with
  | [] => []
  | POnce n :: r => repeat start (Z.to_nat n) ++ flatten start r
  | PPause d :: r => flatten (start + d) r
  | PConst n period d :: r =>
      map (fun i => start + Z.of_nat i * period) (seq 0 (Z.to_nat n)) ++ flatten (start + d) r
  end.

(* what docs/eng/startup.md says: `from` instances at 0, then `step` more at j*dur for every
   j >= 1 with from + j*step <= to *)
Definition istep_levels (from to step : Z) : nat := Z.to_nat ((to - from) / step).

Definition istep_spec (from to step dur : Z) : list Z :=
  repeat 0 (Z.to_nat from)
  ++ concat (map (fun j => repeat (Z.of_nat j * dur) (Z.to_nat step)) (seq 1 (istep_levels from to step))).

Definition istep_tokens (from to step dur : Z) : option (list Z) :=
  match new_instance_step (S (Z.to_nat to)) from to step dur with
  | Some ps => Some (flatten 0 ps)
  | None => None
  end.
