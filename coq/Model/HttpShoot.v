(* Model for property C09, round 6: what BaseGun.Shoot does with the request BODY and with the response body under the
   gun options that make it touch them (answlog, httptrace dump / trace, debug logging), before and after Client.Do.
   Executable definitions only.

   req.Body is a ONE-WAY reader.  The request head (Content-Length) was fixed when the request was built
   (http.NewRequest / http.ReadRequest), so anything Shoot reads from the body before Client.Do has to be put back or the
   target receives a head announcing bytes that never come.  [rb_rewind] = the snapshot req.GetBody returns: requests built
   by http.NewRequest from a bytes.Reader (uri / uripost / jsonline, Ammo.BuildRequest) have it, requests parsed by
   http.ReadRequest (raw, raw.DecodeRequest) never do. *)
From Coq Require Import List NArith Bool Arith.
From PV Require Import Model.Headers.
Import ListNotations.

Record req_body := {
  rb_present : bool;             (* false: Body == nil or http.NoBody *)
  rb_unread : str;               (* the bytes a reader of Body still gets *)
  rb_declared : option nat;      (* Content-Length of the head; None = Transfer-Encoding: chunked (raw entries only) *)
  rb_rewind : option str         (* what req.GetBody() would return, when the request has a GetBody *)
}.

Definition no_body : req_body := {| rb_present := false; rb_unread := []; rb_declared := Some 0%nat; rb_rewind := None |}.

(* the Body of the request a decoded ammo of format f builds for an entry with the given body bytes:
   Ammo.BuildRequest: nil / empty bytes.Reader -> NoBody, else bytes.NewReader(body) with GetBody;
   RawAmmo.BuildRequest: http.ReadRequest: no Content-Length and not chunked -> NoBody, else a reader without GetBody *)
Definition body_of (f : fmt) (chunked : bool) (body : str) : req_body :=
  if is_nil body then no_body
  else match f with
       | FRaw => {| rb_present := true; rb_unread := body;
                    rb_declared := if chunked then None else Some (length body); rb_rewind := None |}
       | _ => {| rb_present := true; rb_unread := body; rb_declared := Some (length body); rb_rewind := Some body |}
       end.

(* ioutil.ReadAll(req.Body) *)
Definition read_all (b : req_body) : str * req_body :=
  (rb_unread b, {| rb_present := rb_present b; rb_unread := []; rb_declared := rb_declared b; rb_rewind := rb_rewind b |}).

(* req.Body = ioutil.NopCloser(bytes.NewBuffer(bs)): a fresh reader; head and GetBody are not touched *)
Definition set_body (bs : str) (b : req_body) : req_body :=
  {| rb_present := true; rb_unread := bs; rb_declared := rb_declared b; rb_rewind := rb_rewind b |}.

(* base.go GetBody(req): the copy for the answer log, taken BEFORE the request is sent *)
Definition get_body (b : req_body) : option str * req_body :=
  if rb_present b then let (bs, b') := read_all b in (Some bs, set_body bs b') else (None, b).

(* httputil.DumpRequest(req, true): drainBody reads everything into a buffer and leaves a reader over it in req.Body *)
Definition dump_request (b : req_body) : req_body :=
  if rb_present b then let (bs, b') := read_all b in set_body bs b' else b.

(* the gun options under which Shoot touches the request or the response *)
Record shoot_opts := {
  o_answlog : bool;              (* answlog.enabled *)
  o_filter : N;                  (* answlog.filter: 0 all, 1 warning, 2 error, anything else: never logs *)
  o_dump : bool;                 (* httptrace.dump *)
  o_trace : bool;                (* httptrace.trace: req = req.WithContext(..): a shallow copy sharing Body *)
  o_debug : bool                 (* the logger accepts debug messages: verboseLogging after the response *)
}.

(* Shoot up to Client.Do:  (copy for the answer log, Body handed to the client) *)
Definition pre_send (o : shoot_opts) (b : req_body) : option str * req_body :=
  let (logged, b1) := if o_answlog o then get_body b else (None, b) in
  let b2 := if o_dump o then dump_request b1 else b1 in
  (logged, b2).

(* net/http's transport writes the head (Content-Length as declared) and then what the reader yields; a reader that yields
   another number of bytes than declared breaks the request ("http: ContentLength=9 with Body length 0") *)
Inductive sent := Sent (body : str) | Broken.
Definition send (b : req_body) : sent :=
  if rb_present b then
    match rb_declared b with
    | Some n => if Nat.eqb n (length (rb_unread b)) then Sent (rb_unread b) else Broken
    | None => Sent (rb_unread b)
    end
  else Sent [].

Definition shoot_send (o : shoot_opts) (b : req_body) : sent := send (snd (pre_send o b)).

Definition with_body (w : wire) (bs : str) : wire :=
  {| w_tls := w_tls w; w_addr := w_addr w; w_method := w_method w; w_uri := w_uri w; w_host := w_host w;
     w_hdrs := w_hdrs w; w_body := bs |}.

(* BaseGun.Shoot under gun options o on the request r of a format-f entry: what the target receives, None = broken request *)
Definition shoot_wire (o : shoot_opts) (g : gun_cfg) (f : fmt) (chunked : bool) (r : request) : option wire :=
  match shoot_send o (body_of f chunked (r_body r)) with
  | Sent bs => Some (with_body (on_wire g r) bs)
  | Broken => None
  end.

(* ---- after Client.Do returned a response: who reads res.Body, in order.  Every reader reads to EOF (the network body is
   then drained and the connection can be parked); DumpResponse leaves a buffer copy behind for the next reader. *)
Definition answlog_logs (o : shoot_opts) (status : N) : bool :=
  o_answlog o && match o_filter o with
                 | 0%N => true
                 | 1%N => N.leb 400 status
                 | 2%N => N.leb 500 status
                 | _ => false
                 end.

Inductive resp_ev :=
| RReadAll       (* verboseLogging: ioutil.ReadAll(res.Body) *)
| RDumpResponse  (* answLogging: httputil.DumpResponse(res, true) *)
| RCopyDiscard   (* io.Copy(ioutil.Discard, res.Body) *)
| RClose.        (* deferred res.Body.Close() *)

Definition shoot_resp_events (o : shoot_opts) (status : N) : list resp_ev :=
  (if o_debug o then [RReadAll] else []) ++ (if answlog_logs o status then [RDumpResponse] else []) ++ [RCopyDiscard; RClose].

(* a variant of get_body that puts the body back through GetBody only (no fallback): used by an Example to show that the
   theorems below are about the restore and would be false without it *)
Definition get_body_rewind_only (b : req_body) : option str * req_body :=
  if rb_present b then
    let (bs, b') := read_all b in
    (Some bs, match rb_rewind b with Some s => set_body s b' | None => b' end)
  else (None, b).
