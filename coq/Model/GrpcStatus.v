(* The gRPC status mapping as the source defines it now (Gen/GrpcStatusGen.v is regenerated
   from components/guns/grpc/core.go and docs/eng/grpc-generator.md on every run). *)
From Coq Require Import List NArith.
From PV Require Import Lib.Table Gen.GrpcStatusGen.
Definition grpc_code (c : N) : N := lookup gen_switch c gen_switch_default.
Definition doc_code (c : N) : N := lookup doc_table c doc_default.
