(* Event-level model of the sample reporting of the guns (property C10): a sample is a mutable
   struct shared by pointer; Aggregator.Report HANDS IT OVER - the aggregator (phout: another
   goroutine that renders the struct and puts it back into the sample pool) reads it at some
   later moment of its own choosing.  So the order of the writes relative to Report matters:
   the value the property speaks of is the value the aggregator can see, i.e. the value at the
   moment of Report and at every later moment.
   A shot is the sequence of operations the gun performs on its samples; Model/Shoot.v gives
   the reported VALUES, this file the ORDER (the traces follow the statements of base.go Shoot
   incl. its deferred func, http_scenario/gun.go shootStep + reportErr, grpc/core.go shoot,
   grpc/scenario/core.go shootStep).  Executable definitions only. *)
From Coq Require Import List NArith Bool.
From PV Require Import Lib.Table Model.Sample Model.GrpcStatus Model.Shoot.
Import ListNotations.
Local Open Scope N_scope.

Inductive sev :=
| SvAcquire (tag : bytes) (id : N)      (* netsample.Acquire(tag) [; SetID(id)]: a fresh sample becomes the current one *)
| SvAddTag (t : bytes)                  (* sample.AddTag(t) *)
| SvSetProto (p : N)                    (* sample.SetProtoCode(p) *)
| SvSetErr (timeout : bool) (e : nerr)  (* sample.SetErr(err): net code := getErrno(err) *)
| SvReport.                             (* Aggregator.Report(sample): hand-over *)

Definition sev_write (s : sample) (e : sev) : sample :=
  match e with
  | SvAddTag t => set_tags s (add_tag (sm_tags s) t)
  | SvSetProto p => set_proto s p
  | SvSetErr t e => set_net s (get_errno t e)
  | _ => s
  end.

(* State of a shot.  Only the current sample can be written to (the guns keep no other
   pointer), so the samples acquired earlier are frozen: for each of their hand-overs the pair
   (value at Report, value now).  The current sample: its value and the values it had at each
   of its hand-overs so far. *)
Record sst := mkSst { st_done : list (sample * sample); st_cur : sample; st_snaps : list sample }.

(* for every hand-over so far: (value at the moment of Report, value now) *)
Definition st_pairs (s : sst) : list (sample * sample) :=
  st_done s ++ map (fun sn => (sn, st_cur s)) (st_snaps s).

Definition sev_step (s : sst) (e : sev) : sst :=
  match e with
  | SvAcquire tag id => mkSst (st_pairs s) (mkSample tag 0 0 id) []
  | SvReport => mkSst (st_done s) (st_cur s) (st_snaps s ++ [st_cur s])
  | w => mkSst (st_done s) (sev_write (st_cur s) w) (st_snaps s)
  end.

Definition sst0 : sst := mkSst [] (mkSample [] 0 0 0) [].
Definition sev_run (tr : list sev) : sst := fold_left sev_step tr sst0.

(* what an aggregator that looks at the sample inside Report sees, per hand-over *)
Definition at_report (tr : list sev) : list sample := map fst (st_pairs (sev_run tr)).
(* what an aggregator sees that looks at the handed-over samples when the trace is over *)
Definition at_end (tr : list sev) : list sample := map snd (st_pairs (sev_run tr)).
(* samples written to after they had been handed over *)
Fixpoint tags_eqb (a b : bytes) : bool :=
  match a, b with
  | [], [] => true
  | x :: a', y :: b' => N.eqb x y && tags_eqb a' b'
  | _, _ => false
  end.
Definition sample_eqb (a b : sample) : bool :=
  tags_eqb (sm_tags a) (sm_tags b) && N.eqb (sm_proto a) (sm_proto b)
  && N.eqb (sm_net a) (sm_net b) && N.eqb (sm_id a) (sm_id b).
Definition late_writes (tr : list sev) : nat :=
  length (filter (fun p => negb (sample_eqb (fst p) (snd p))) (st_pairs (sev_run tr))).

(* the discipline: between a Report and the next Acquire nothing is written.
   [reported] = the current sample has been handed over. *)
Fixpoint handoff_ok (reported : bool) (tr : list sev) : bool :=
  match tr with
  | [] => true
  | SvAcquire _ _ :: r => handoff_ok false r
  | SvReport :: r => handoff_ok true r
  | _ :: r => negb reported && handoff_ok reported r
  end.

(* ---------- BaseGun.Shoot ---------- *)

Definition base_tag_events (cfg : autotag_cfg) (ammo_tag path : bytes) : list sev :=
  let auto := at_enabled cfg && (negb (at_notagonly cfg) || is_nil ammo_tag) in
  let t1 := if auto then add_tag ammo_tag (autotag_go (at_depth cfg) path) else ammo_tag in
  (if auto then [SvAddTag (autotag_go (at_depth cfg) path)] else [])       (* if AutoTag...: AddTag(autotag(...)) *)
  ++ (if is_nil t1 then [SvAddTag empty_tag] else []).                      (* if Tags() == "": AddTag(EmptyTag) *)

Definition base_shoot_ev (cfg : autotag_cfg) (h : hook) (invalid : bool) (id : N)
           (ammo_tag path : bytes) (x : exchange) : list sev :=
  match h with
  | HFail => []
  | _ =>
      SvAcquire ammo_tag id ::                                              (* ammo.Request() *)
      if invalid then [SvAddTag empty_tag; SvSetProto 0; SvReport]
      else
        base_tag_events cfg ammo_tag path ++
        match x with
        | XErr t e => [SvSetErr t e; SvReport]                              (* return; deferred: SetErr, Report *)
        | XResp st BodyOk => [SvSetProto st; SvReport]
        | XResp st (BodyErr t e) => [SvSetProto st; SvSetErr t e; SvReport]
        end
  end.

(* ---------- HTTP scenario gun ---------- *)

Fixpoint hscen_ev (name : bytes) (steps : list (bytes * hstep)) : list sev :=
  match steps with
  | [] => []
  | (nm, HStepOk st) :: r =>
      SvAcquire (step_tag name nm) 0 :: SvSetProto st :: SvReport :: hscen_ev name r
  | (nm, HStepFail) :: _ =>
      (* reportErr: AddTag(EmptyTag); SetProtoCode(0); SetErr(err); Report *)
      [SvAcquire (step_tag name nm) 0; SvAddTag empty_tag; SvSetProto 0; SvSetErr false EOther; SvReport]
  end.

(* ---------- gRPC guns: deferred func() { sample.SetProtoCode(code); Report(sample) } ---------- *)

Definition grpc_ev (tag : bytes) (c : gcall) : list sev :=
  [SvAcquire tag 0; SvSetProto (gcall_code c); SvReport].

Fixpoint gscen_ev (name : bytes) (steps : list (bytes * gstep)) : list sev :=
  match steps with
  | [] => []
  | (tg, s) :: r =>
      SvAcquire (step_tag name tg) 0 :: SvSetProto (gstep_code s) :: SvReport ::
      (if gstep_stops s then [] else gscen_ev name r)
  end.
