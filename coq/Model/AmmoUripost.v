(* Model of components/providers/http/decoders/uripost.go (Scan/readBlock),
   uripost/decoder.go (DecodeURI) and the renderer of uripost ammo files. Definitions only. *)
From Coq Require Import List NArith ZArith Bool.
From PV Require Import Lib.AmmoBytes Lib.AmmoDecimal Lib.AmmoLines Model.AmmoCommon.
Import ListNotations.
Local Open Scope N_scope.

(* uripost.DecodeURI: "bodySize uri [tag]" *)
Definition decode_uri (d : bytes) : Z * bytes * bytes + err :=
  match split SP d with
  | p0 :: p1 :: ps =>
      match atoi p0 with
      | None => inr EWrongSize
      | Some sz => inl (sz, p1, join SP ps)
      end
  | _ => inr EAmmoFormat
  end.

Inductive block_res :=
| BSkip (rest : bytes) (h : headers)
| BFound (e : entry) (rest : bytes) (h : headers) (alloc : N * N)
| BEof
| BErr (e : err) (alloc : option (N * N))
| BPanic.

Section Uripost.
  Variable url_parse : bytes -> option (bytes * bytes).

  (* readBlock: one ReadString chunk (+ body) *)
  Definition read_block (rest : bytes) (h : headers) : block_res :=
    let '(data, rest1, ok) := read_string rest in
    (* ReadString fails with io.EOF at the end of the data; with data read so far the
       chunk is an unterminated last line and is still processed *)
    if negb ok && is_nil data then BEof
    else
      let d := trim data in
      match d with
      | [] => BSkip rest1 h
      | c :: _ =>
          if N.eqb c LBR then
            match decode_header d with
            | inl (k, v) => BSkip rest1 (header_set k v h)
            | inr e => BErr e None
            end
          else
            match decode_uri d with
            | inr e => BErr e None
            | inl (size, uri, tag) =>
                if negb (url_ok url_parse uri) then BErr EUrlParse None
                else
                  match alloc_read size rest1 with
                  | APanic => BPanic
                  | AErr e => BErr e None
                  | AShort n => BErr EShortRead (Some (n, nlen rest1))
                  | AOk buf r n =>
                      match setup url_parse POST uri buf h tag with
                      | inl e => BFound e r h (n, nlen rest1)
                      | inr e => BErr e (Some (n, nlen rest1))
                      end
                  end
            end
      end.

  Inductive inner_res :=
  | IFound (e : entry) (rest : bytes) (h : headers) (alloc : N * N)
  | IEof
  | IErr (e : err) (alloc : option (N * N))
  | IPanic
  | IOutOfFuel.

  (* the inner for-loop of Scan: blocks until an entry, an error or EOF *)
  Fixpoint up_inner (fuel : nat) (rest : bytes) (h : headers) : inner_res :=
    match fuel with
    | O => IOutOfFuel
    | S f =>
        match read_block rest h with
        | BSkip r h' => up_inner f r h'
        | BFound e r h' a => IFound e r h' a
        | BEof => IEof
        | BErr e a => IErr e a
        | BPanic => IPanic
        end
    end.

  Record pstate := {
    p_file : bytes;
    p_rest : bytes;
    p_hdr : headers;
    p_ammo : N;
    p_pass : N
  }.

  Definition up_init (file : bytes) : pstate :=
    {| p_file := file; p_rest := file; p_hdr := []; p_ammo := 0; p_pass := 0 |}.

  (* for i := 0; i < 2; i++ { inner loop; wrap around }; "unexpected behavior" *)
  Fixpoint up_outer (i : nat) (c : dcfg) (s : pstate) : sres entry * pstate * option (N * N) :=
    match i with
    | O => (SErr EUnexpected, s, None)
    | S i' =>
        match up_inner (S (length (p_rest s))) (p_rest s) (p_hdr s) with
        | IFound e r h a =>
            (SDeliver e, {| p_file := p_file s; p_rest := r; p_hdr := h;
                            p_ammo := N.succ (p_ammo s); p_pass := p_pass s |}, Some a)
        | IErr e a => (SErr e, s, a)
        | IPanic => (SPanic, s, None)
        | IOutOfFuel => (SOutOfFuel, s, None)
        | IEof =>
            let p := N.succ (p_pass s) in
            let s' := {| p_file := p_file s; p_rest := []; p_hdr := p_hdr s;
                         p_ammo := p_ammo s; p_pass := p |} in
            if passes_hit c p then (SPassLimit, s', None)
            else if N.eqb (p_ammo s) 0 then (SNoAmmo, s', None)
            else up_outer i' c {| p_file := p_file s; p_rest := p_file s; p_hdr := [];
                                  p_ammo := p_ammo s; p_pass := p |}
        end
    end.

  Definition up_scan (c : dcfg) (s : pstate) : sres entry * pstate * option (N * N) :=
    if limit_hit c (p_ammo s) then (SAmmoLimit, s, None) else up_outer 2 c s.

  (* k successive Scan calls (stopping at the first that does not deliver), each with the
     allocation it made: (bytes allocated, bytes of input left at that moment) *)
  Fixpoint up_run (k : nat) (c : dcfg) (s : pstate) : list (sres entry * option (N * N)) :=
    match k with
    | O => []
    | S k' =>
        let '(r, s', a) := up_scan c s in
        match r with
        | SDeliver _ => (r, a) :: up_run k' c s'
        | _ => [(r, a)]
        end
    end.

  Definition uripost_decode (c : dcfg) (k : nat) (file : bytes) : list (sres entry) :=
    map fst (up_run k c (up_init file)).
End Uripost.

(* ---------- rendering ---------- *)
Inductive pitem :=
| PHeader (kl k kt vl v vt : bytes)
| PReq (uri tag body : bytes)
| PBlank.

Definition pitem_text (i : pitem) : bytes :=
  match i with
  | PHeader kl k kt vl v vt => header_text kl k kt vl v vt
  | PReq u t b => dec (nlen b) ++ SP :: u ++ match t with [] => [] | _ => SP :: t end
  | PBlank => []
  end.

Definition pitem_body (i : pitem) : bytes :=
  match i with PReq _ _ b => b | _ => [] end.

(* line, LF, body; the LF of the very last line may be missing when nothing follows it *)
Fixpoint render_uripost (items : list (pitem * lay)) (final_nl : bool) : bytes :=
  match items with
  | [] => []
  | [(i, l)] =>
      wrap_line l (pitem_text i) ++
      (if final_nl || negb (is_nil (pitem_body i)) then [LF] else []) ++ pitem_body i
  | (i, l) :: r => wrap_line l (pitem_text i) ++ LF :: pitem_body i ++ render_uripost r final_nl
  end.

Fixpoint uripost_entries (items : list pitem) (h : headers) : list entry :=
  match items with
  | [] => []
  | PHeader _ k _ _ v _ :: r => uripost_entries r (header_set k v h)
  | PReq u t b :: r =>
      {| e_method := POST; e_url := u; e_body := b; e_tag := t; e_headers := h |} :: uripost_entries r h
  | PBlank :: r => uripost_entries r h
  end.

(* ---------- well-formed uripost files (hypothesis of the round-trip theorem) ---------- *)
Section UripostWf.
  Variable url_parse : bytes -> option (bytes * bytes).

  Definition wf_pitem (il : pitem * lay) : bool :=
    let '(i, l) := il in
    wf_lay l &&
    match i with
    | PBlank => true
    | PHeader kl k kt vl v vt =>
        lblank kl && lblank kt && lblank vl && lblank vt && wf_key k && wf_val v
    | PReq u t b =>
        negb (has SP u) && url_ok url_parse u
        && tight (pitem_text i) && nolf (pitem_text i)
        && Z.leb (Z.of_N (nlen b)) max_alloc
    end.
End UripostWf.
