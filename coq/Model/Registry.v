(* Model of the plugin registry (property C18): core/plugin/registry.go + constructor.go.

   Constructor shapes are data; configs are abstract records with an identity (allocation
   counter) and a content (three fields: A is only ever written by the default-config
   function, B by the default and by the user's fill, C only by the fill).  Registry.New,
   Registry.NewFactory and the call of the produced factory are followed branch by branch;
   every call of user-supplied code (default-config function, fillConf, the registered
   constructor, the factory a factory-constructor returned) is an event.

   User code is an oracle: the n-th invocation of the default function returns [o_dflt n],
   the n-th invocation of fillConf maps the content it finds to [o_fill n seen] or fails when
   [o_ffail n]; the n-th constructor invocation fails when [o_cfail n] (only if the
   constructor has an error result), the m-th invocation of a produced factory fails when
   [o_pfail m] (only if that factory has an error result).

   Executable definitions only. *)
From Coq Require Import List Arith Bool NArith.
Import ListNotations.

(* ---------- shapes ---------- *)

Inductive returns := RPlugin | RFactory.          (* <newPlugin> or <newFactory> *)
Inductive cfgkind := NoCfg | CStruct | CPtr.      (* func() / func(Cfg) / func(pointer to Cfg) *)
Inductive defkind := DefNone | DefVal | DefNil.   (* no default func / one returning a value / one returning a nil pointer *)
Inductive rtype := TIface | TImpl.                (* first result is the plugin interface itself / an implementation type *)

Record shape := mkShape {
  sh_ret : returns;
  sh_cfg : cfgkind;
  sh_cerr : bool;     (* the registered constructor has an error result *)
  sh_perr : bool;     (* RFactory: the factory it returns has an error result *)
  sh_def : defkind;
  sh_rt : rtype;      (* result type of newPlugin / of the factory returned by newFactory *)
  sh_named : bool     (* the function that may be handed out as it is (newPlugin / the factory
                         newFactory returns) has a NAMED func type (type F func() P) *)
}.

Definition is_nocfg (k : cfgkind) : bool := match k with NoCfg => true | _ => false end.
Definition is_defnone (d : defkind) : bool := match d with DefNone => true | _ => false end.
Definition is_iface (t : rtype) : bool := match t with TIface => true | TImpl => false end.

(* registry.go newDefaultConfigContainer: a constructor without argument must not come with a
   default-config function (expect -> panic at registration). *)
Definition reg_register (sh : shape) : bool :=
  match sh_cfg sh, sh_def sh with
  | NoCfg, DefNone => true
  | NoCfg, _ => false
  | _, _ => true
  end.

(* shapes that can be written in Go at all: a nil default needs a pointer config *)
Definition shape_wf (sh : shape) : bool :=
  match sh_def sh, sh_cfg sh with
  | DefNil, CPtr => true
  | DefNil, _ => false
  | _, _ => true
  end.

(* ---------- values ---------- *)

Record cfgv := mkV { va : N; vb : N; vc : N }.
Definition vzero : cfgv := mkV 0 0 0.
Record conf := mkConf { c_id : nat; c_val : cfgv }.
(* what a constructor receives: nothing, a nil pointer, a pointer to the config with this
   identity, or (struct configs travel by value) a copy of the content *)
Inductive carg := ANone | ANil | AConf (c : conf) | AVal (v : cfgv).
Definition mk_arg (k : cfgkind) (id : nat) (v : cfgv) : carg :=
  match k with CStruct => AVal v | _ => AConf (mkConf id v) end.

Record oracle := mkOracle {
  o_dflt : nat -> cfgv;
  o_fill : nat -> cfgv -> cfgv;
  o_ffail : nat -> bool;
  o_cfail : nat -> bool;
  o_pfail : nat -> bool
}.

Record st := mkSt { s_alloc : nat; s_def : nat; s_fill : nat; s_ctor : nat; s_prod : nat }.
Definition st0 : st := mkSt 0 0 0 0 0.
Definition bump_alloc s := mkSt (S (s_alloc s)) (s_def s) (s_fill s) (s_ctor s) (s_prod s).
Definition bump_def s := mkSt (s_alloc s) (S (s_def s)) (s_fill s) (s_ctor s) (s_prod s).
Definition bump_fill s := mkSt (s_alloc s) (s_def s) (S (s_fill s)) (s_ctor s) (s_prod s).
Definition bump_ctor s := mkSt (s_alloc s) (s_def s) (s_fill s) (S (s_ctor s)) (s_prod s).
Definition bump_prod s := mkSt (s_alloc s) (s_def s) (s_fill s) (s_ctor s) (S (s_prod s)).

Inductive err := EFill (n : nat) | ECtor (n : nat) | EProd (n : nat).

Inductive ftarget := FTEmpty | FTConf (id : nat).   (* fillConf got &struct{}{} / the config with this identity *)
Inductive event :=
| EvDefault (n : nat)
| EvFill (n : nat) (t : ftarget) (seen : cfgv)
| EvCtor (n : nat) (a : carg)
| EvProd (m : nat) (by_ctor : nat).

Record product := mkProd { p_ctor : nat; p_arg : carg; p_prod : option nat }.
Inductive outcome := OOk (p : product) | OErr (e : err) | OPanic (e : err).

(* ---------- registry.go ---------- *)

(* defaultConfigContainer.new: call the default function (a synthesized zero-returning one
   when none is registered: no user code runs), make the result addressable / non-nil. *)
Definition new_base (sh : shape) (o : oracle) (s : st) : st * list event * cfgv :=
  match sh_def sh with
  | DefNone => (s, [], vzero)
  | DefVal => (bump_def s, [EvDefault (s_def s)], o_dflt o (s_def s))
  | DefNil => (bump_def s, [EvDefault (s_def s)], vzero)     (* conf.IsNil() -> reflect.New *)
  end.

(* defaultConfigContainer.Get(fillConf) *)
Definition get_conf (sh : shape) (hf : bool) (o : oracle) (s : st) : st * list event * (err + carg) :=
  if is_nocfg (sh_cfg sh) then
    if hf then
      let n := s_fill s in
      if o_ffail o n then (bump_fill s, [EvFill n FTEmpty vzero], inl (EFill n))
      else (bump_fill s, [EvFill n FTEmpty vzero], inr ANone)
    else (s, [], inr ANone)
  else
    let '(s1, ev1, base) := new_base sh o s in
    let id := s_alloc s1 in
    let s2 := bump_alloc s1 in
    if hf then
      let n := s_fill s2 in
      if o_ffail o n then (bump_fill s2, ev1 ++ [EvFill n (FTConf id) base], inl (EFill n))
      else (bump_fill s2, ev1 ++ [EvFill n (FTConf id) base], inr (mk_arg (sh_cfg sh) id (o_fill o n base)))
    else (s2, ev1, inr (mk_arg (sh_cfg sh) id base)).

(* ---------- constructor.go ---------- *)

(* user code can only report a failure through an error result its type has *)
Definition ctor_fails (sh : shape) (o : oracle) (n : nat) : bool := sh_cerr sh && o_cfail o n.
Definition prod_fails (sh : shape) (o : oracle) (m : nat) : bool := sh_perr sh && o_pfail o m.

(* reflect Call of the registered constructor *)
Definition call_ctor (sh : shape) (o : oracle) (s : st) (a : carg) : st * list event * (err + nat) :=
  let n := s_ctor s in
  if ctor_fails sh o n then (bump_ctor s, [EvCtor n a], inl (ECtor n))
  else (bump_ctor s, [EvCtor n a], inr n).

(* Call of the factory that constructor invocation [n] returned *)
Definition call_prod (sh : shape) (o : oracle) (s : st) (n : nat) (a : carg) : st * list event * (err + product) :=
  let m := s_prod s in
  if prod_fails sh o m then (bump_prod s, [EvProd m n], inl (EProd m))
  else (bump_prod s, [EvProd m n], inr (mkProd n a (Some m))).

(* pluginConstructor.NewPlugin / factoryConstructor.NewPlugin *)
Definition new_plugin (sh : shape) (o : oracle) (s : st) (a : carg) : st * list event * outcome :=
  match call_ctor sh o s a with
  | (s1, ev1, inl e) => (s1, ev1, OErr e)
  | (s1, ev1, inr n) =>
      match sh_ret sh with
      | RPlugin => (s1, ev1, OOk (mkProd n a None))
      | RFactory =>
          match call_prod sh o s1 n a with
          | (s2, ev2, inl e) => (s2, ev1 ++ ev2, OErr e)
          | (s2, ev2, inr p) => (s2, ev1 ++ ev2, OOk p)
          end
      end
  end.

(* Registry.New *)
Definition reg_new (sh : shape) (hf : bool) (o : oracle) (s : st) : st * list event * outcome :=
  match get_conf sh hf o s with
  | (s1, ev1, inl e) => (s1, ev1, OErr e)
  | (s1, ev1, inr a) =>
      let '(s2, ev2, out) := new_plugin sh o s1 a in (s2, ev1 ++ ev2, out)
  end.

(* The factories Registry.NewFactory can hand out. *)
Inductive factory :=
| FPluginDirect                      (* the registered newPlugin itself (its type is the requested one) *)
| FPluginWrap (getconf : bool)       (* MakeFunc: [getMaybeConf();] newPlugin(conf); convert results *)
| FFactoryDirect (n : nat) (a : carg)  (* the factory returned by constructor call n, as is *)
| FFactoryWrap (n : nat) (a : carg).   (* MakeFunc around it *)
Inductive created := CrOk (f : factory) | CrErr (e : err).

(* identity of Go func types with the same signature: both unnamed, or the same named type *)
Definition same_type_name (a b : bool) : bool := Bool.eqb a b.

(* error result wanted by the requested factory type: func() (P, error) vs func() P *)
Definition route (we : bool) (e : err) : outcome := if we then OErr e else OPanic e.

(* Registry.NewFactory + implConstructor.NewFactory *)
Definition reg_new_factory (sh : shape) (we named hf : bool) (o : oracle) (s : st) : st * list event * created :=
  let cr := negb (is_nocfg (sh_cfg sh)) in      (* defaultConfig.configRequired() *)
  (* registry.go: without config the fill is only checked once against an empty struct *)
  let '(s0, ev0, pre) :=
    if cr then (s, [], None)
    else if hf then
      let n := s_fill s in
      if o_ffail o n then (bump_fill s, [EvFill n FTEmpty vzero], Some (EFill n))
      else (bump_fill s, [EvFill n FTEmpty vzero], None)
    else (s, [], None) in
  match pre with
  | Some e => (s0, ev0, CrErr e)
  | None =>
      match sh_ret sh with
      | RPlugin =>
          (* registry.go: a plugin constructor's config is made and filled on every factory call;
             one is made and filled right now too (and dropped), so that an invalid config fails
             the creation of the factory and not its first call *)
          let '(s1, ev1, tr) := if cr then get_conf sh hf o s0 else (s0, [], inr ANone) in
          match tr with
          | inl e => (s1, ev0 ++ ev1, CrErr e)
          | inr _ =>
              (* c.newPlugin.Type() == factoryType *)
              if is_nocfg (sh_cfg sh) && is_iface (sh_rt sh) && Bool.eqb (sh_cerr sh) we && same_type_name (sh_named sh) named
              then (s1, ev0 ++ ev1, CrOk FPluginDirect)
              else (s1, ev0 ++ ev1, CrOk (FPluginWrap cr))
          end
      | RFactory =>
          let '(s1, ev1, rc) := if cr then get_conf sh hf o s0 else (s0, [], inr ANone) in
          match rc with
          | inl e => (s1, ev0 ++ ev1, CrErr e)
          | inr a =>
              match call_ctor sh o s1 a with
              | (s2, ev2, inl e) => (s2, ev0 ++ ev1 ++ ev2, CrErr e)
              | (s2, ev2, inr n) =>
                  (* factory.Type() == factoryType *)
                  if is_iface (sh_rt sh) && Bool.eqb (sh_perr sh) we && same_type_name (sh_named sh) named
                  then (s2, ev0 ++ ev1 ++ ev2, CrOk (FFactoryDirect n a))
                  else (s2, ev0 ++ ev1 ++ ev2, CrOk (FFactoryWrap n a))
              end
          end
      end
  end.

(* is the dynamic type of the factory handed out a named func type? *)
Definition factory_named (sh : shape) (named : bool) (f : factory) : bool :=
  match f with
  | FPluginDirect | FFactoryDirect _ _ => sh_named sh      (* the registered function itself *)
  | FPluginWrap _ | FFactoryWrap _ _ => named              (* MakeFunc(factoryType, ...) *)
  end.

(* one call of a produced factory *)
Definition call_factory (sh : shape) (we hf : bool) (o : oracle) (s : st) (f : factory) : st * list event * outcome :=
  match f with
  | FPluginDirect =>
      match call_ctor sh o s ANone with
      | (s1, ev1, inl e) => (s1, ev1, OErr e)      (* only reachable when the types have an error result *)
      | (s1, ev1, inr n) => (s1, ev1, OOk (mkProd n ANone None))
      end
  | FPluginWrap gc =>
      let '(s1, ev1, rc) := if gc then get_conf sh hf o s else (s, [], inr ANone) in
      match rc with
      | inl e => (s1, ev1, route we e)             (* numOut 1: panic(err); 2: return zero, err *)
      | inr a =>
          match call_ctor sh o s1 a with
          | (s2, ev2, inl e) => (s2, ev1 ++ ev2, route we e)   (* convertFactoryOutParams *)
          | (s2, ev2, inr n) => (s2, ev1 ++ ev2, OOk (mkProd n a None))
          end
      end
  | FFactoryDirect n a =>
      match call_prod sh o s n a with
      | (s1, ev1, inl e) => (s1, ev1, OErr e)
      | (s1, ev1, inr p) => (s1, ev1, OOk p)
      end
  | FFactoryWrap n a =>
      match call_prod sh o s n a with
      | (s1, ev1, inl e) => (s1, ev1, route we e)
      | (s1, ev1, inr p) => (s1, ev1, OOk p)
      end
  end.

Definition op := (list event * outcome)%type.

Fixpoint run_calls (sh : shape) (we hf : bool) (o : oracle) (f : factory) (s : st) (k : nat) : list op :=
  match k with
  | O => []
  | S k' =>
      let '(s1, ev, out) := call_factory sh we hf o s f in
      (ev, out) :: run_calls sh we hf o f s1 k'
  end.

Fixpoint run_news (sh : shape) (hf : bool) (o : oracle) (s : st) (k : nat) : list op :=
  match k with
  | O => []
  | S k' =>
      let '(s1, ev, out) := reg_new sh hf o s in
      (ev, out) :: run_news sh hf o s1 k'
  end.

(* ---------- specification side: which config a product must be built from ---------- *)

(* the config the registry must hand to the constructor when the counters of user-code
   invocations and allocations stand at [s]: default (or zero) overlaid by the fill *)
Definition expected_base (sh : shape) (o : oracle) (s : st) : cfgv :=
  match sh_def sh with DefVal => o_dflt o (s_def s) | _ => vzero end.
Definition expected_arg (sh : shape) (hf : bool) (o : oracle) (s : st) : carg :=
  match sh_cfg sh with
  | NoCfg => ANone
  | k => mk_arg k (s_alloc s) (if hf then o_fill o (s_fill s) (expected_base sh o s) else expected_base sh o s)
  end.

(* ---------- cases and observations ---------- *)

(* ReqFactory we named: requested factory type func() P / func() (P, error), unnamed or a named
   func type with that signature *)
Inductive req := ReqNew | ReqFactory (we : bool) (named : bool).
Record case := mkCase { cs_shape : shape; cs_req : req; cs_hf : bool; cs_k : nat }.

Inductive obs :=
| ObsRegPanic                                             (* Register panicked *)
| ObsNew (calls : list op)                                (* k calls of Registry.New *)
| ObsFactory (cev : list event) (cerr : option err) (calls : list op).  (* NewFactory, then k calls *)

Definition run_case_from (c : case) (o : oracle) (s : st) : obs :=
  if negb (reg_register (cs_shape c)) then ObsRegPanic
  else match cs_req c with
       | ReqNew => ObsNew (run_news (cs_shape c) (cs_hf c) o s (cs_k c))
       | ReqFactory we named =>
           match reg_new_factory (cs_shape c) we named (cs_hf c) o s with
           | (s1, ev, CrErr e) => ObsFactory ev (Some e) []
           | (s1, ev, CrOk f) => ObsFactory ev None (run_calls (cs_shape c) we (cs_hf c) o f s1 (cs_k c))
           end
       end.
Definition run_case (c : case) (o : oracle) : obs := run_case_from c o st0.

(* ---------- overlapping creations of the same registered entry ----------
   While the fillConf of one creation runs, another creation of the same (type, name) runs to
   completion: a nested component of the same entry inside the config (the config hooks call
   plugin.New from inside the decode of the outer config), or a second goroutine creating the
   same name whose whole creation falls into the first one's decode window.  Configs are values
   of one creation: the outer constructor must still get ITS config. *)

Record reround := mkRe {
  re_before : list event;      (* outer: default, fill entered *)
  re_inner : op;               (* the whole inner Registry.New (its own fill does not re-enter) *)
  re_after : list event;       (* outer: constructor (and produced factory) *)
  re_out : outcome
}.

(* defaultConfigContainer.Get with a fillConf that performs an inner New before it writes *)
Definition get_conf_re (sh : shape) (o : oracle) (s : st) : st * list event * op * (err + carg) :=
  if is_nocfg (sh_cfg sh) then
    let n := s_fill s in
    let '(s1, evi, outi) := reg_new sh true o (bump_fill s) in
    (s1, [EvFill n FTEmpty vzero], (evi, outi), if o_ffail o n then inl (EFill n) else inr ANone)
  else
    let '(s1, ev1, base) := new_base sh o s in
    let id := s_alloc s1 in
    let s2 := bump_alloc s1 in
    let n := s_fill s2 in
    let '(s3, evi, outi) := reg_new sh true o (bump_fill s2) in
    (s3, ev1 ++ [EvFill n (FTConf id) base], (evi, outi),
     if o_ffail o n then inl (EFill n) else inr (mk_arg (sh_cfg sh) id (o_fill o n base))).

(* Registry.New with such a fill *)
Definition reg_new_re (sh : shape) (o : oracle) (s : st) : st * reround :=
  match get_conf_re sh o s with
  | (s1, ev1, inner, inl e) => (s1, mkRe ev1 inner [] (OErr e))
  | (s1, ev1, inner, inr a) =>
      let '(s2, ev2, out) := new_plugin sh o s1 a in (s2, mkRe ev1 inner ev2 out)
  end.

(* one call of a factory made from a plugin constructor that takes a config, with such a fill *)
Definition call_re (sh : shape) (we : bool) (o : oracle) (s : st) : st * reround :=
  match get_conf_re sh o s with
  | (s1, ev1, inner, inl e) => (s1, mkRe ev1 inner [] (route we e))
  | (s1, ev1, inner, inr a) =>
      match call_ctor sh o s1 a with
      | (s2, ev2, inl e) => (s2, mkRe ev1 inner ev2 (route we e))
      | (s2, ev2, inr n) => (s2, mkRe ev1 inner ev2 (OOk (mkProd n a None)))
      end
  end.

Fixpoint run_re (step : st -> st * reround) (s : st) (k : nat) : list reround :=
  match k with
  | O => []
  | S k' => let '(s1, r) := step s in r :: run_re step s1 k'
  end.

(* observation of a "nest" case: k News, or (plugin constructor with a config) NewFactory - whose
   trial config is got with the same re-entering fill - followed by k calls *)
Inductive nest_obs :=
| NestNew (rounds : list reround)
| NestFactory (cev : list event) (cinner : op) (cerr : option err) (rounds : list reround).

Definition run_nest (sh : shape) (rq : req) (o : oracle) (k : nat) : nest_obs :=
  match rq with
  | ReqNew => NestNew (run_re (reg_new_re sh o) st0 k)
  | ReqFactory we _ =>
      match get_conf_re sh o st0 with
      | (s1, ev1, inner, inl e) => NestFactory ev1 inner (Some e) []
      | (s1, ev1, inner, inr _) => NestFactory ev1 inner None (run_re (call_re sh we o) s1 k)
      end
  end.

(* ====================================================================================
   Executable specification, evaluated on an observation (of the model in the theorems, of
   the implementation in the correspondence run).  It never looks at the model functions
   above: only at the case, the oracle (what the user code would do at its n-th invocation)
   and the observed events and outcomes.
   ==================================================================================== *)

Definition cfgv_eqb (a b : cfgv) : bool :=
  N.eqb (va a) (va b) && N.eqb (vb a) (vb b) && N.eqb (vc a) (vc b).
Definition conf_eqb (a b : conf) : bool := Nat.eqb (c_id a) (c_id b) && cfgv_eqb (c_val a) (c_val b).
Definition carg_eqb (a b : carg) : bool :=
  match a, b with
  | ANone, ANone => true
  | ANil, ANil => true
  | AConf x, AConf y => conf_eqb x y
  | AVal x, AVal y => cfgv_eqb x y
  | _, _ => false
  end.
Definition err_eqb (a b : err) : bool :=
  match a, b with
  | EFill x, EFill y | ECtor x, ECtor y | EProd x, EProd y => Nat.eqb x y
  | _, _ => false
  end.
Definition outcome_eqb (a b : outcome) : bool :=
  match a, b with
  | OErr x, OErr y | OPanic x, OPanic y => err_eqb x y
  | _, _ => false
  end.

(* -- configured -------------------------------------------------------------------- *)

(* [v] is what the registered default provides: the value of a default invocation that took
   place in [evs], or the zero value when no default function is registered or it returned nil *)
Definition base_ok (sh : shape) (o : oracle) (evs : list event) (v : cfgv) : bool :=
  match sh_def sh with
  | DefVal => existsb (fun e => match e with EvDefault n => cfgv_eqb v (o_dflt o n) | _ => false end) evs
  | _ => cfgv_eqb v vzero
  end.

(* the constructor argument [a] is a non-nil config made in [evs] from the default (or zero)
   overlaid by the user's fill *)
Definition arg_configured (sh : shape) (hf : bool) (o : oracle) (evs : list event) (a : carg) : bool :=
  match sh_cfg sh, a with
  | NoCfg, ANone => true
  | NoCfg, _ => false
  | CPtr, AConf c =>
      if hf then
        existsb (fun e => match e with
                          | EvFill n (FTConf id) seen =>
                              Nat.eqb id (c_id c) && base_ok sh o evs seen && cfgv_eqb (c_val c) (o_fill o n seen)
                          | _ => false end) evs
      else base_ok sh o evs (c_val c)
  | CStruct, AVal v =>
      if hf then
        existsb (fun e => match e with
                          | EvFill n (FTConf _) seen => base_ok sh o evs seen && cfgv_eqb v (o_fill o n seen)
                          | _ => false end) evs
      else base_ok sh o evs v
  | _, _ => false
  end.

Definition has_ctor (evs : list event) (n : nat) (a : carg) : bool :=
  existsb (fun e => match e with EvCtor n' a' => Nat.eqb n n' && carg_eqb a a' | _ => false end) evs.
Definition has_prod (evs : list event) (m n : nat) : bool :=
  existsb (fun e => match e with EvProd m' n' => Nat.eqb m m' && Nat.eqb n n' | _ => false end) evs.

(* [cevs]: events where config and constructor call must be found; [pevs]: events where the
   call of the produced factory must be found (the same list for New). *)
Definition product_configured (sh : shape) (hf : bool) (o : oracle) (cevs pevs : list event) (p : product) : bool :=
  arg_configured sh hf o cevs (p_arg p) && has_ctor cevs (p_ctor p) (p_arg p) &&
  match sh_ret sh, p_prod p with
  | RPlugin, None => true
  | RFactory, Some m => has_prod pevs m (p_ctor p)
  | _, _ => false
  end.

(* every constructor call in [evs] (whether it then succeeds or not) got a configured argument:
   "the registered constructor never receives a nil config" *)
Definition ctor_args_configured (sh : shape) (hf : bool) (o : oracle) (evs : list event) : bool :=
  forallb (fun e => match e with EvCtor _ a => arg_configured sh hf o evs a | _ => true end) evs.

Definition op_configured (sh : shape) (hf : bool) (o : oracle) (cevs : option (list event)) (x : op) : bool :=
  match cevs with None => ctor_args_configured sh hf o (fst x) | Some _ => true end &&
  match snd x with
  | OOk p => product_configured sh hf o (match cevs with Some l => l | None => fst x end) (fst x) p
  | _ => true
  end.

(* which list holds config + constructor call of the products of a factory *)
Definition factory_cevs (sh : shape) (cev : list event) : option (list event) :=
  match sh_ret sh with RPlugin => None | RFactory => Some cev end.

Definition configured_b (c : case) (o : oracle) (ob : obs) : bool :=
  match ob with
  | ObsRegPanic => true
  | ObsNew calls => forallb (op_configured (cs_shape c) (cs_hf c) o None) calls
  | ObsFactory cev _ calls =>
      ctor_args_configured (cs_shape c) (cs_hf c) o cev &&
      forallb (op_configured (cs_shape c) (cs_hf c) o (factory_cevs (cs_shape c) cev)) calls
  end.

(* -- errors ------------------------------------------------------------------------ *)

(* the user code invoked at this event fails (according to the oracle and to what the shape
   can express) *)
Definition ev_error (sh : shape) (o : oracle) (e : event) : option err :=
  match e with
  | EvDefault _ => None
  | EvFill n _ _ => if o_ffail o n then Some (EFill n) else None
  | EvCtor n _ => if ctor_fails sh o n then Some (ECtor n) else None
  | EvProd m _ => if prod_fails sh o m then Some (EProd m) else None
  end.

(* Nothing runs after a failure; the failure is the outcome, routed as [how] says
   ([None]: no failure may be swallowed, [Some true]: error result, [Some false]: panic). *)
Fixpoint errors_evs (sh : shape) (o : oracle) (evs : list event) : option err :=
  match evs with
  | [] => None
  | e :: r => match ev_error sh o e with Some x => Some x | None => errors_evs sh o r end
  end.
Fixpoint stops_at_error (sh : shape) (o : oracle) (evs : list event) : bool :=
  match evs with
  | [] => true
  | e :: r => match ev_error sh o e with Some _ => match r with [] => true | _ => false end | None => stops_at_error sh o r end
  end.

Definition op_errors (sh : shape) (o : oracle) (we : bool) (x : op) : bool :=
  stops_at_error sh o (fst x) &&
  match errors_evs sh o (fst x) with
  | None => match snd x with OOk _ => true | _ => false end
  | Some e => outcome_eqb (snd x) (route we e)
  end.

Definition errors_b (c : case) (o : oracle) (ob : obs) : bool :=
  let sh := cs_shape c in
  match ob, cs_req c with
  | ObsRegPanic, _ => negb (reg_register sh)
  | ObsNew calls, ReqNew => reg_register sh && forallb (op_errors sh o true) calls
  | ObsFactory cev cerr calls, ReqFactory we _ =>
      reg_register sh && stops_at_error sh o cev &&
      match errors_evs sh o cev, cerr with
      | None, None => forallb (op_errors sh o we) calls
      | Some e, Some e' => err_eqb e e' && match calls with [] => true | _ => false end
      | _, _ => false
      end
  | _, _ => false
  end.

(* -- fresh per product ------------------------------------------------------------- *)

Definition count_ev (f : event -> bool) (evs : list event) : nat := length (filter f evs).
Definition is_default e := match e with EvDefault _ => true | _ => false end.
Definition is_fill e := match e with EvFill _ _ _ => true | _ => false end.
Definition is_ctor e := match e with EvCtor _ _ => true | _ => false end.
Definition is_prod e := match e with EvProd _ _ => true | _ => false end.

Definition b2n (b : bool) : nat := if b then 1 else 0.

(* events of one "get config, construct" round: default once (if registered and a config is
   needed), fill once (if given), constructor at most once, exactly once unless the fill failed *)
Definition round_counts (sh : shape) (hf : bool) (o : oracle) (evs : list event) : bool :=
  Nat.eqb (count_ev is_default evs) (b2n (negb (is_nocfg (sh_cfg sh)) && negb (is_defnone (sh_def sh)))) &&
  Nat.eqb (count_ev is_fill evs) (b2n hf) &&
  Nat.eqb (count_ev is_ctor evs)
          (b2n (match errors_evs sh o (filter is_fill evs) with None => true | Some _ => false end)).

(* identities of the configs created in these events *)
Fixpoint conf_ids (evs : list event) : list nat :=
  match evs with
  | [] => []
  | EvFill _ (FTConf id) _ :: r => id :: conf_ids r
  | EvCtor _ (AConf c) :: r => c_id c :: conf_ids r
  | _ :: r => conf_ids r
  end.
(* one round creates one config: every identity mentioned is the same *)
Definition one_id (evs : list event) : bool :=
  match conf_ids evs with
  | [] => true
  | i :: r => forallb (Nat.eqb i) r
  end.
Definition round_id (evs : list event) : list nat :=
  match conf_ids evs with [] => [] | i :: _ => [i] end.

Fixpoint nat_nodup_b (l : list nat) : bool :=
  match l with
  | [] => true
  | x :: r => negb (existsb (Nat.eqb x) r) && nat_nodup_b r
  end.

Fixpoint prod_idx (evs : list event) : list nat :=
  match evs with
  | [] => []
  | EvProd m _ :: r => m :: prod_idx r
  | _ :: r => prod_idx r
  end.
Fixpoint ctor_idx (evs : list event) : list nat :=
  match evs with
  | [] => []
  | EvCtor n _ :: r => n :: ctor_idx r
  | _ :: r => ctor_idx r
  end.

(* rounds (New calls, or calls of a factory made from a plugin constructor): each round has
   its own default/fill/constructor invocation and its own config identity *)
Definition rounds_fresh (sh : shape) (hf : bool) (o : oracle) (with_prod : bool) (calls : list op) : bool :=
  forallb (fun x => round_counts sh hf o (fst x) && one_id (fst x) &&
                    (if with_prod then Nat.leb (count_ev is_prod (fst x)) 1 else Nat.eqb (count_ev is_prod (fst x)) 0)) calls &&
  nat_nodup_b (flat_map (fun x => round_id (fst x)) calls) &&
  nat_nodup_b (flat_map (fun x => ctor_idx (fst x)) calls).

Definition fresh_b (c : case) (o : oracle) (ob : obs) : bool :=
  let sh := cs_shape c in
  match ob with
  | ObsRegPanic => true
  | ObsNew calls =>
      rounds_fresh sh (cs_hf c) o (match sh_ret sh with RFactory => true | RPlugin => false end) calls
  | ObsFactory cev cerr calls =>
      match sh_ret sh with
      | RPlugin =>
          (* plugin constructor behind a factory: creation constructs nothing; every call is a round.
             Without config the user's fill is checked once at creation. *)
          Nat.eqb (count_ev is_ctor cev) 0 && Nat.eqb (count_ev is_prod cev) 0 &&
          (if is_nocfg (sh_cfg sh)
           then Nat.eqb (count_ev is_fill cev) (b2n (cs_hf c)) && rounds_fresh sh false o false calls
           else rounds_fresh sh (cs_hf c) o false calls)
      | RFactory =>
          (* factory constructor: config made and decoded once, constructor called once, at
             creation; every call is exactly one invocation of the registered factory *)
          round_counts sh (cs_hf c) o cev && one_id cev && Nat.eqb (count_ev is_prod cev) 0 &&
          forallb (fun x => match fst x with
                            | [EvProd m n] => existsb (Nat.eqb n) (ctor_idx cev)
                            | _ => false end) calls &&
          nat_nodup_b (flat_map (fun x => prod_idx (fst x)) calls)
      end
  end.

Definition spec_b (c : case) (o : oracle) (ob : obs) : bool :=
  configured_b c o ob && errors_b c o ob && fresh_b c o ob.

(* -- overlapping creations --------------------------------------------------------- *)

(* the outer creation, with the inner one cut out, is a correct round of its own: its
   constructor got the config made from ITS default and ITS fill; so is the inner one *)
Definition reround_ok (sh : shape) (o : oracle) (we : bool) (r : reround) : bool :=
  let outer := (re_before r ++ re_after r, re_out r) in
  op_configured sh true o None outer && op_errors sh o we outer &&
  op_configured sh true o None (re_inner r) && op_errors sh o true (re_inner r).

Definition nest_b (sh : shape) (rq : req) (o : oracle) (ob : nest_obs) : bool :=
  match ob, rq with
  | NestNew rounds, ReqNew => forallb (reround_ok sh o true) rounds
  | NestFactory cev cinner cerr rounds, ReqFactory we _ =>
      stops_at_error sh o cev && ctor_args_configured sh true o cev &&
      op_configured sh true o None cinner && op_errors sh o true cinner &&
      match errors_evs sh o cev, cerr with
      | None, None => forallb (reround_ok sh o we) rounds
      | Some e, Some e' => err_eqb e e' && match rounds with [] => true | _ => false end
      | _, _ => false
      end
  | _, _ => false
  end.

