(* Property C18, "constructor or config errors reach the caller as the error result": the step
   BEFORE the registry - pluginconfig.parseConf reads a config section, finds the plugin name under
   the (case-insensitive) key `type`, and Registry.get looks the (plugin type, name) up.  Every way
   a section can be wrong is an error result of the creation, and nothing of the user's code runs.

   Executable definitions only. *)
From Coq Require Import List Arith Bool NArith.
From PV Require Import Model.Registry.
Import ListNotations.

(* the value found under one spelling of the type key (type / Type / TYPE ...) *)
Inductive tkey := TkAbsent | TkName (registered : bool) | TkNonString.
(* what the section is: map[string]interface{}, map[interface{}]interface{} (yaml), anything else *)
Inductive sform := FStrMap | FUntypedMap | FNotMap.
Record section := mkSec {
  sc_form : sform;
  sc_types : list tkey;      (* one entry per spelling of the type key *)
  sc_badkey : bool           (* untyped maps: a key that is not a string *)
}.

Inductive serr := SeNotMap | SeKey | SeTypeValue | SeNoType | SeManyTypes | SeUnknownName.

Definition tk_present (k : tkey) : bool := match k with TkAbsent => false | _ => true end.
Definition tk_nonstring (k : tkey) : bool := match k with TkNonString => true | _ => false end.
Definition is_untyped (f : sform) : bool := match f with FUntypedMap => true | _ => false end.

(* hooks.go toStringKeyMap + parseConf: the name, and whether it is registered *)
Definition parse_section (s : section) : serr + bool :=
  match sc_form s with
  | FNotMap => inl SeNotMap
  | f =>
      if is_untyped f && sc_badkey s then inl SeKey
      else
        let present := filter tk_present (sc_types s) in
        if existsb tk_nonstring present then inl SeTypeValue
        else match present with
             | [] => inl SeNoType
             | [TkName r] => inr r
             | _ => inl SeManyTypes
             end
  end.

(* Hook -> plugin.New(t, name, fillConf): Registry.get, then Registry.New *)
Definition create_by_section (sh : shape) (hf : bool) (o : oracle) (s : st) (sec : section)
  : serr + (st * list event * outcome) :=
  match parse_section sec with
  | inl e => inl e
  | inr false => inl SeUnknownName
  | inr true => inr (reg_new sh hf o s)
  end.

(* specification, stated without following the code: the section is a map, all its keys are
   strings, exactly one spelling of the type key is present, it holds a string, and that name is
   registered for the plugin type *)
Definition section_ok_b (s : section) : bool :=
  match sc_form s with FNotMap => false | _ => true end &&
  negb (is_untyped (sc_form s) && sc_badkey s) &&
  Nat.eqb (length (filter tk_present (sc_types s))) 1 &&
  existsb (fun k => match k with TkName true => true | _ => false end) (sc_types s).

(* Registry.get on a registry holding [content] = (plugin type, names registered for it) *)
Inductive lerr := LeNoType | LeNoName.
Definition reg_get (content : list (nat * list nat)) (t n : nat) : option lerr :=
  match find (fun e => Nat.eqb (fst e) t) content with
  | None => Some LeNoType
  | Some e => if existsb (Nat.eqb n) (snd e) then None else Some LeNoName
  end.
Definition new_by_name (content : list (nat * list nat)) (t n : nat) (sh : shape) (hf : bool) (o : oracle) (s : st)
  : lerr + (st * list event * outcome) :=
  match reg_get content t n with
  | Some e => inl e
  | None => inr (reg_new sh hf o s)
  end.
Definition registered_b (content : list (nat * list nat)) (t n : nat) : bool :=
  existsb (fun e => Nat.eqb (fst e) t && existsb (Nat.eqb n) (snd e)) content.
(* a registry never holds two entries for one plugin type *)
Fixpoint types_unique (content : list (nat * list nat)) : bool :=
  match content with
  | [] => true
  | e :: r => negb (existsb (fun e' => Nat.eqb (fst e') (fst e)) r) && types_unique r
  end.

(* ---------- which Go types are requested forms (plugin.go isFactoryType, FactoryPluginType;
   registry.go LookupFactory / the expectation at the head of NewFactory) ---------- *)
(* a result type: an interface (a plugin type, by number), the interface `error`, anything else *)
Inductive tyk := TyIface (t : nat) | TyError | TyOther.
(* a Go type as far as the registry looks at it: a func or not, its parameters, its results *)
Record gotype := mkGt { gt_func : bool; gt_in : nat; gt_outs : list tyk }.
Definition is_iface_k (k : tyk) : bool := match k with TyOther => false | _ => true end.
Definition is_error_k (k : tyk) : bool := match k with TyError => true | _ => false end.

(* isFactoryType, as the code goes *)
Definition is_factory_type (t : gotype) : bool :=
  let proper := gt_func t && Nat.eqb (gt_in t) 0 &&
                (Nat.eqb (length (gt_outs t)) 1 || Nat.eqb (length (gt_outs t)) 2) in
  if negb proper then false
  else if negb (is_iface_k (nth 0 (gt_outs t) TyOther)) then false
  else if Nat.eqb (length (gt_outs t)) 1 then true
  else is_error_k (nth 1 (gt_outs t) TyOther).
(* FactoryPluginType *)
Definition factory_plugin_type (t : gotype) : option tyk :=
  if is_factory_type t then Some (nth 0 (gt_outs t) TyOther) else None.

(* specification: the two factory forms of the property - func() P and func() (P, error), P an interface *)
Definition factory_form (t : gotype) : option (tyk * bool) :=
  match t with
  | mkGt true 0 [p] => if is_iface_k p then Some (p, false) else None
  | mkGt true 0 [p; TyError] => if is_iface_k p then Some (p, true) else None
  | _ => None
  end.

(* Registry.LookupFactory / Registry.NewFactory by requested type, on a registry holding [content] *)
Definition plugin_type_no (k : tyk) : option nat := match k with TyIface t => Some t | _ => None end.
Definition lookup_factory (content : list (nat * list nat)) (t : gotype) : bool :=
  is_factory_type t &&
  match plugin_type_no (nth 0 (gt_outs t) TyOther) with
  | Some p => existsb (fun e => Nat.eqb (fst e) p) content
  | None => false        (* nothing is ever registered for `error` here *)
  end.
Inductive freq := FqPanic | FqLookupErr | FqReaches (p : nat) (we : bool).
Definition new_factory_request (content : list (nat * list nat)) (t : gotype) (n : nat) : freq :=
  if negb (is_factory_type t) then FqPanic      (* expect(isFactoryType(factoryType), ...) *)
  else match plugin_type_no (nth 0 (gt_outs t) TyOther) with
       | Some p => match reg_get content p n with
                   | Some _ => FqLookupErr
                   | None => FqReaches p (Nat.eqb (length (gt_outs t)) 2)
                   end
       | None => FqLookupErr
       end.
