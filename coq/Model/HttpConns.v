(* Model for the keep-alive / connection sentence of property C09: which http client an instance's gun shoots
   through (engine warm-up -> BaseGun.prepareClientPool -> BaseGun.Bind), and how many connections the clients'
   transports open towards a target that keeps connections open.  Executable definitions only.

   Code read:
     components/guns/http/base.go  prepareClientPool : nil pool unless shared-client.enabled; client-number < 1 raised to 1;
                                   Bind              : b.Client = pool.Next() iff the warm-up's pool is not nil
     core/clientpool/pool.go       Next              : i := counter.Add(1); pool[i % len(pool)]; zero value for an empty pool
     core/engine/engine.go         warmUpGun         : ONE extra gun per pool runs WarmUp; its result is handed to every instance's Bind
   net/http's Transport (modelled, not verified; the correspondence run compares it on every case): a request takes the
   most recently parked idle connection of its client's transport, or dials a new one; a finished request (body read to
   EOF and closed, which C09_keepalive_gun_side_partial states for Shoot) parks its connection unless keep-alives are
   disabled or max-idle-conns-per-host connections are parked already, in which case the connection is closed. *)
From Coq Require Import List Arith ZArith Bool.
Import ListNotations.

(* ---- the shared-client block of the gun configuration (`enabled`, `client-number`: a Go int, may be <= 0) *)
Record shared_cfg := { sc_enabled : bool; sc_number : Z }.

(* prepareClientPool: None = the nil pool (per-instance clients), Some m = a pool of m clients *)
Definition prepare_pool (c : shared_cfg) : option nat :=
  if sc_enabled c
  then Some (if (sc_number c <? 1)%Z then 1%nat else Z.to_nat (sc_number c))
  else None.

Inductive client := COwn (gun : nat) | CPool (slot : nat) | CNil.

Definition client_eqb (a b : client) : bool :=
  match a, b with
  | COwn i, COwn j => Nat.eqb i j
  | CPool i, CPool j => Nat.eqb i j
  | CNil, CNil => true
  | _, _ => false
  end.

(* Bind of the k-th gun that is bound in a pool (k = 0,1,...; instances are numbered in the order of their Bind, which
   is also the order of the pool counter's Add(1)): own client built by NewBaseGun, replaced by Next() for a non-nil pool *)
Definition client_of (pool : option nat) (k : nat) : client :=
  match pool with
  | None => COwn k
  | Some 0 => CNil                          (* Next() on an empty pool: the zero value *)
  | Some m => CPool (Nat.modulo (S k) m)
  end.

Definition instance_clients (c : shared_cfg) (n : nat) : list client := map (client_of (prepare_pool c)) (seq 0 n).

Fixpoint distinct_clients (l : list client) : list client :=
  match l with
  | [] => []
  | x :: r => if existsb (client_eqb x) r then distinct_clients r else x :: distinct_clients r
  end.

(* ---- transports towards one target *)
Inductive ev := Begin (inst : nat) | End (inst : nat).
Definition ev_inst (e : ev) : nat := match e with Begin i => i | End i => i end.
Definition is_begin (e : ev) : bool := match e with Begin _ => true | End _ => false end.

Record tstate := {
  t_idle  : client -> list nat;        (* parked connections of each client's transport, most recent first *)
  t_busy  : list (nat * nat);          (* (instance, connection) of the requests in flight *)
  t_log   : list (nat * nat);          (* (instance, connection) of every request so far, latest first *)
  t_dials : nat }.                     (* connections opened so far = next connection id = what the target counts *)

Definition t_init : tstate := {| t_idle := fun _ => []; t_busy := []; t_log := []; t_dials := 0 |}.

Definition upd (f : client -> list nat) (c : client) (v : list nat) : client -> list nat :=
  fun c' => if client_eqb c' c then v else f c'.

Fixpoint busy_find (i : nat) (b : list (nat * nat)) : option nat :=
  match b with
  | [] => None
  | (j, x) :: r => if Nat.eqb j i then Some x else busy_find i r
  end.

Fixpoint busy_remove (i : nat) (b : list (nat * nat)) : list (nat * nat) :=
  match b with
  | [] => []
  | (j, x) :: r => if Nat.eqb j i then r else (j, x) :: busy_remove i r
  end.

Section Transport.
Variable cl : nat -> client.       (* client of each instance *)
Variable keepalive : bool.         (* not disable-keep-alives *)
Variable max_idle : nat.           (* max-idle-conns-per-host as net/http applies it (default 2) *)

(* None = not a history: an instance shoots sequentially (Begin while in flight / End without a request cannot happen) *)
Definition t_step (st : tstate) (e : ev) : option tstate :=
  match e with
  | Begin i =>
      match busy_find i (t_busy st) with
      | Some _ => None
      | None =>
          match t_idle st (cl i) with
          | x :: rest =>
              Some {| t_idle := upd (t_idle st) (cl i) rest; t_busy := (i, x) :: t_busy st;
                      t_log := (i, x) :: t_log st; t_dials := t_dials st |}
          | [] =>
              Some {| t_idle := t_idle st; t_busy := (i, t_dials st) :: t_busy st;
                      t_log := (i, t_dials st) :: t_log st; t_dials := S (t_dials st) |}
          end
      end
  | End i =>
      match busy_find i (t_busy st) with
      | None => None
      | Some x =>
          let parked := t_idle st (cl i) in
          Some {| t_idle := if keepalive && Nat.ltb (length parked) max_idle
                            then upd (t_idle st) (cl i) (x :: parked) else t_idle st;
                  t_busy := busy_remove i (t_busy st); t_log := t_log st; t_dials := t_dials st |}
      end
  end.

Fixpoint t_run (st : tstate) (h : list ev) : option tstate :=
  match h with
  | [] => Some st
  | e :: r => match t_step st e with Some st' => t_run st' r | None => None end
  end.
End Transport.

Definition requests_of (h : list ev) : nat := length (filter is_begin h).

(* ---- the connection-count specification the correspondence run judges the target's count with:
   keep-alives on + per-instance clients: no more connections than instances; keep-alives on + shared pool: the
   property is silent (at most one connection per request); keep-alives off: exactly one connection per request *)
Definition conn_ok (keepalive shared : bool) (instances requests conns : nat) : bool :=
  if keepalive
  then (if shared then Nat.leb conns requests else Nat.leb conns instances)
  else Nat.eqb conns requests.

(* the client-identity specification: per-instance clients (pairwise distinct) unless the shared client is ENABLED,
   whatever client-number says; with it, no more clients than max 1 client-number *)
Definition clients_ok (c : shared_cfg) (instances distinct : nat) : bool :=
  if sc_enabled c
  then Nat.leb distinct (Nat.max 1 (Z.to_nat (sc_number c)))
  else Nat.eqb distinct instances.

(* ---- scripted histories (case kind `hist` of the correspondence run: the real guns + transports are driven event by
   event and compared with t_run exactly).  max-idle-conns-per-host as net/http reads it: 0 = DefaultMaxIdleConnsPerHost (2) *)
Definition eff_max_idle (cfg : Z) : nat := if (cfg =? 0)%Z then 2%nat else Z.to_nat cfg.

(* every two requests of one instance went over the same connection *)
Definition log_one_conn (l : list (nat * nat)) : bool :=
  forallb (fun p => forallb (fun q => negb (Nat.eqb (fst p) (fst q)) || Nat.eqb (snd p) (snd q)) l) l.

(* judge of a scripted history: connection count, every request logged once, and (keep-alives on, per-instance clients)
   one connection per instance *)
Definition hist_ok (keepalive shared : bool) (instances requests dials : nat) (log : list (nat * nat)) : bool :=
  conn_ok keepalive shared instances requests dials
  && Nat.eqb (length log) requests
  && (if keepalive && negb shared then log_one_conn log else true).
