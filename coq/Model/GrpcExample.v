(* Concrete oracles for the example service (examples/grpc/server, package target) used by the
   correspondence run of C20/C11: payload values, proto3-JSON interpretation restricted to
   string / int64 fields, Go's float64 round trip of JSON numbers, a flat JSON object reader
   for rendered scenario payloads, the text/template subset the cases use, and the drivers
   that replay a whole case.  Executable definitions only. *)
From Coq Require Import List NArith ZArith Bool.
From PV Require Import Model.GrpcCall.
Import ListNotations.

(* ---------- payload values ---------- *)

Inductive pval :=
| PStr (s : gbytes)
| PInt (z : Z)
| PReal (twice : Z)      (* the literal  twice/2  written d.0 or d.5 *)
| PBool (b : bool)
| PNull
| PObj                   (* {} *)
| PBad.                  (* a number json.Marshal prints in exponent form: never fits *)

Definition fields := list (gbytes * pval).

Record fdesc := mkF { fd_name : gbytes; fd_json : gbytes; fd_num : N; fd_int : bool }.
Definition desc_c := list fdesc.

Inductive mval := MStr (s : gbytes) | MInt (z : Z).
Definition msg_c := list (gbytes * mval).    (* populated fields in field-number order *)

Definition int64_min : Z := -9223372036854775808.
Definition int64_max : Z := 9223372036854775807.
Definition in_int64 (z : Z) : bool := Z.leb int64_min z && Z.leb z int64_max.

(* decimal text -> Z : optional '-', at least one digit, digits only *)
Fixpoint dec_digits (acc : Z) (s : gbytes) : option Z :=
  match s with
  | [] => Some acc
  | c :: r => if N.leb 48 c && N.leb c 57 then dec_digits (10 * acc + Z.of_N (c - 48)) r else None
  end.
Definition parse_dec (s : gbytes) : option Z :=
  match s with
  | [] => None
  | 45%N :: [] => None
  | 45%N :: r => match dec_digits 0 r with Some z => Some (- z)%Z | None => None end
  | _ => dec_digits 0 s
  end.

Fixpoint find_field (d : desc_c) (k : gbytes) : option fdesc :=
  match d with
  | [] => None
  | f :: r => if gbytes_eqb k (fd_name f) || gbytes_eqb k (fd_json f) then Some f else find_field r k
  end.

(* value of one JSON member against its field: None = does not fit; Some None = unset (null) *)
Definition fit_value (f : fdesc) (v : pval) : option (option mval) :=
  match v with
  | PNull => Some None
  | PStr s =>
      if fd_int f then
        match parse_dec s with
        | Some z => if in_int64 z then Some (Some (MInt z)) else None
        | None => None
        end
      else Some (Some (MStr s))
  | PInt z => if fd_int f then (if in_int64 z then Some (Some (MInt z)) else None) else None
  | PReal h =>
      if fd_int f then
        (if Z.even h then (if in_int64 (h / 2) then Some (Some (MInt (h / 2))) else None) else None)
      else None
  | PBool _ | PObj | PBad => None
  end.

(* assignments field number -> value, later members override earlier ones *)
Fixpoint assign (d : desc_c) (fs : fields) (acc : list (N * mval)) : option (list (N * mval)) :=
  match fs with
  | [] => Some acc
  | (k, v) :: r =>
      match find_field d k with
      | None => None
      | Some f =>
          match fit_value f v with
          | None => None
          | Some None => assign d r acc
          | Some (Some m) => assign d r ((fd_num f, m) :: acc)
          end
      end
  end.

Fixpoint assoc_n (l : list (N * mval)) (n : N) : option mval :=
  match l with
  | [] => None
  | (k, v) :: r => if N.eqb k n then Some v else assoc_n r n
  end.

Definition is_default (m : mval) : bool :=
  match m with MStr [] => true | MInt 0%Z => true | _ => false end.

(* proto3: a field holding its default value is not populated. [d] lists fields by number. *)
Fixpoint build_msg (d : desc_c) (a : list (N * mval)) : msg_c :=
  match d with
  | [] => []
  | f :: r =>
      match assoc_n a (fd_num f) with
      | Some m => if is_default m then build_msg r a else (fd_name f, m) :: build_msg r a
      | None => build_msg r a
      end
  end.

(* THE SPECIFICATION of "the JSON payload interpreted against the input type" *)
Definition interp (d : desc_c) (fs : fields) : option msg_c :=
  match assign d fs [] with
  | Some a => Some (build_msg d a)
  | None => None
  end.

(* ---------- Go: numbers decoded into interface{} are float64, json.Marshal prints them ---------- *)

Definition two53 : Z := 9007199254740992.

(* nearest float64 (ties to even) of an integer *)
Definition f64_round (z : Z) : Z :=
  let a := Z.abs z in
  if Z.ltb a two53 then z
  else
    let sh := (Z.log2 a - 52)%Z in
    let q := Z.shiftr a sh in
    let r := (a - Z.shiftl q sh)%Z in
    let half := Z.shiftl 1 (sh - 1) in
    let q' := if Z.gtb r half || (Z.eqb r half && Z.odd q) then (q + 1)%Z else q in
    (Z.sgn z * Z.shiftl q' sh)%Z.

(* strconv.FormatFloat(float64(z), 'f', -1, 64) read back as an integer: the SHORTEST decimal
   that rounds to the same float64 (Go standard library; an oracle). None = the number is
   printed in exponent form (|x| >= 1e21), which the codec rejects for an integer field.
   It is consulted only for integers that are not exactly representable. *)
Section Reencode.
  Variable shortest_dec : Z -> option Z.

  Definition reencode_int (z : Z) : pval :=
    if Z.ltb (Z.abs z) two53 then PInt z
    else match shortest_dec z with Some r => PInt r | None => PBad end.

  Definition reencode_val (v : pval) : pval :=
    match v with
    | PInt z => reencode_int z
    | PReal h => if Z.even h then reencode_int (h / 2) else PReal h
    | _ => v
    end.

  (* provider decode into map[string]interface{} + json.Marshal in the gun *)
  Definition reencode_c (fs : fields) : fields := map (fun kv => (fst kv, reencode_val (snd kv))) fs.
End Reencode.

(* guard of the partial theorem: every integer literal is exactly representable *)
Definition val_small (v : pval) : bool :=
  match v with
  | PInt z => Z.ltb (Z.abs z) two53
  | PReal h => Z.ltb (Z.abs (h / 2)) two53
  | _ => true
  end.
Definition fields_small (fs : fields) : bool := forallb (fun kv => val_small (snd kv)) fs.

(* ---------- the example service ---------- *)

Definition b_name : gbytes := [110;97;109;101]%N.
Definition b_login : gbytes := [108;111;103;105;110]%N.
Definition b_pass : gbytes := [112;97;115;115]%N.
Definition b_token : gbytes := [116;111;107;101;110]%N.
Definition b_user_id : gbytes := [117;115;101;114;95;105;100]%N.
Definition b_userId : gbytes := [117;115;101;114;73;100]%N.
Definition b_item_id : gbytes := [105;116;101;109;95;105;100]%N.
Definition b_itemId : gbytes := [105;116;101;109;73;100]%N.

Definition d_hello : desc_c := [mkF b_name b_name 1 false].
Definition d_auth : desc_c := [mkF b_login b_login 1 false; mkF b_pass b_pass 2 false].
Definition d_list : desc_c := [mkF b_token b_token 1 false; mkF b_user_id b_userId 2 true].
Definition d_order : desc_c := [mkF b_token b_token 1 false; mkF b_user_id b_userId 2 true; mkF b_item_id b_itemId 3 true].
Definition d_empty : desc_c := [].

(* "target.TargetService." *)
Definition b_prefix : gbytes :=
  [116;97;114;103;101;116;46;84;97;114;103;101;116;83;101;114;118;105;99;101;46]%N.
Definition example_table : mtable desc_c :=
  [ (b_prefix ++ [72;101;108;108;111]%N, d_hello);
    (b_prefix ++ [65;117;116;104]%N, d_auth);
    (b_prefix ++ [76;105;115;116]%N, d_list);
    (b_prefix ++ [79;114;100;101;114]%N, d_order);
    (b_prefix ++ [83;116;97;116;115]%N, d_empty);
    (b_prefix ++ [82;101;115;101;116]%N, d_empty) ].

(* metadata on the wire: gRPC lower-cases the keys (HTTP/2 header names) *)
Definition lower_byte (c : N) : N := if N.leb 65 c && N.leb c 90 then (c + 32)%N else c.
Definition wire_meta (m : gmeta) : gmeta := map (fun kv => (map lower_byte (fst kv), snd kv)) m.

(* ---------- flat JSON object reader (rendered scenario payloads) ---------- *)

Inductive jstate :=
| J0                                   (* before '{' *)
| JKeyOrEnd (first : bool)             (* expecting the opening quote of a key, or '}' when allowed *)
| JKey (acc : gbytes)
| JColon (k : gbytes)
| JVal (k : gbytes)
| JStr (k : gbytes) (acc : gbytes)
| JNum (k : gbytes) (acc : gbytes)
| JWord (k : gbytes) (acc : gbytes)
| JAfter
| JEnd
| JFail.

Definition is_ws (c : N) : bool := N.eqb c 32 || N.eqb c 10 || N.eqb c 13 || N.eqb c 9.
Definition is_digit (c : N) : bool := N.leb 48 c && N.leb c 57.
Definition is_alpha (c : N) : bool := N.leb 97 c && N.leb c 122.

Definition word_val (w : gbytes) : option pval :=
  if gbytes_eqb w [116;114;117;101]%N then Some (PBool true)
  else if gbytes_eqb w [102;97;108;115;101]%N then Some (PBool false)
  else if gbytes_eqb w [110;117;108;108]%N then Some PNull
  else None.

Definition num_val (w : gbytes) : option pval :=
  match parse_dec w with Some z => Some (PInt z) | None => None end.

(* close a bare token (number / word) on a delimiter *)
Definition close_tok (st : jstate) : option (gbytes * pval) :=
  match st with
  | JNum k acc => match num_val (rev acc) with Some v => Some (k, v) | None => None end
  | JWord k acc => match word_val (rev acc) with Some v => Some (k, v) | None => None end
  | _ => None
  end.

Fixpoint jscan (st : jstate) (out : fields) (s : gbytes) : option fields :=
  match s with
  | [] => match st with JEnd => Some (rev out) | _ => None end
  | c :: r =>
      match st with
      | J0 => if is_ws c then jscan J0 out r else if N.eqb c 123 then jscan (JKeyOrEnd true) out r else None
      | JKeyOrEnd first =>
          if is_ws c then jscan st out r
          else if N.eqb c 34 then jscan (JKey []) out r
          else if N.eqb c 125 && first then jscan JEnd out r
          else None
      | JKey acc =>
          if N.eqb c 34 then jscan (JColon (rev acc)) out r
          else if N.eqb c 92 then None
          else jscan (JKey (c :: acc)) out r
      | JColon k => if is_ws c then jscan st out r else if N.eqb c 58 then jscan (JVal k) out r else None
      | JVal k =>
          if is_ws c then jscan st out r
          else if N.eqb c 34 then jscan (JStr k []) out r
          else if is_digit c || N.eqb c 45 then jscan (JNum k [c]) out r
          else if is_alpha c then jscan (JWord k [c]) out r
          else None
      | JStr k acc =>
          if N.eqb c 34 then jscan JAfter ((k, PStr (rev acc)) :: out) r
          else if N.eqb c 92 then None
          else jscan (JStr k (c :: acc)) out r
      | JNum k acc =>
          if is_digit c then jscan (JNum k (c :: acc)) out r
          else
            match close_tok st with
            | None => None
            | Some kv =>
                if is_ws c then jscan JAfter (kv :: out) r
                else if N.eqb c 44 then jscan (JKeyOrEnd false) (kv :: out) r
                else if N.eqb c 125 then jscan JEnd (kv :: out) r
                else None
            end
      | JWord k acc =>
          if is_alpha c then jscan (JWord k (c :: acc)) out r
          else
            match close_tok st with
            | None => None
            | Some kv =>
                if is_ws c then jscan JAfter (kv :: out) r
                else if N.eqb c 44 then jscan (JKeyOrEnd false) (kv :: out) r
                else if N.eqb c 125 then jscan JEnd (kv :: out) r
                else None
            end
      | JAfter =>
          if is_ws c then jscan st out r
          else if N.eqb c 44 then jscan (JKeyOrEnd false) out r
          else if N.eqb c 125 then jscan JEnd out r
          else None
      | JEnd => if is_ws c then jscan JEnd out r else None
      | JFail => None
      end
  end.

Definition parse_obj (s : gbytes) : option fields := jscan J0 [] s.

(* UnmarshalJSON of a rendered payload text against a descriptor *)
Definition fits_text_c (d : desc_c) (text : gbytes) : option msg_c :=
  match parse_obj text with
  | Some fs => interp d fs
  | None => None
  end.

(* ---------- the text/template subset of the cases ---------- *)

Inductive tvar := VToken | VId | VOther.
Inductive chunk := CLit (s : gbytes) | CVar (v : tvar).
Definition tmpl_c := list chunk.
(* variables of a step: the user picked by the `prepare` preprocessor of this shot, if any *)
Definition vars_c := option (gbytes * gbytes).

Fixpoint ends_with (s suf : gbytes) : bool :=
  if gbytes_eqb s suf then true
  else match s with [] => false | _ :: r => ends_with r suf end.

Definition suf_token : gbytes := [46;117;46;116;111;107;101;110]%N.   (* ".u.token" *)
Definition suf_id : gbytes := [46;117;46;105;100]%N.                  (* ".u.id" *)

Definition classify (path : gbytes) : tvar :=
  if ends_with path suf_token then VToken else if ends_with path suf_id then VId else VOther.

Definition lit_chunk (acc : gbytes) : list chunk := match acc with [] => [] | _ => [CLit (rev acc)] end.

(* scan for {{ … }} ; [skip] drops the second byte of a two-byte delimiter *)
Fixpoint tscan (skip : bool) (inside : bool) (acc : gbytes) (s : gbytes) : option tmpl_c :=
  match s with
  | [] => if inside then None else Some (lit_chunk acc)
  | c :: r =>
      if skip then tscan false inside acc r
      else if inside then
        match r with
        | c2 :: _ =>
            if N.eqb c 125 && N.eqb c2 125 then
              match tscan true false [] r with
              | Some rest => Some (CVar (classify (rev acc)) :: rest)
              | None => None
              end
            else tscan false true (c :: acc) r
        | [] => None
        end
      else
        match r with
        | c2 :: _ =>
            if N.eqb c 123 && N.eqb c2 123 then
              match tscan true true [] r with
              | Some rest => Some (lit_chunk acc ++ rest)
              | None => None
              end
            else tscan false false (c :: acc) r
        | [] => Some (lit_chunk (c :: acc))
        end
  end.

Definition parse_t_c (text : gbytes) : option tmpl_c := tscan false false [] text.

Definition no_value : gbytes := [60;110;111;32;118;97;108;117;101;62]%N.   (* "<no value>" *)

Fixpoint exec_t_c (t : tmpl_c) (v : vars_c) : option gbytes :=
  match t with
  | [] => Some []
  | CLit s :: r => match exec_t_c r v with Some x => Some (s ++ x) | None => None end
  | CVar VToken :: r =>
      match v, exec_t_c r v with Some (tok, _), Some x => Some (tok ++ x) | _, _ => None end
  | CVar VId :: r =>
      match v, exec_t_c r v with Some (_, id), Some x => Some (id ++ x) | _, _ => None end
  | CVar VOther :: r =>
      (* a path that names nothing in the variables (a step that has not run, a key that does not exist):
         the variables are maps, text/template prints "<no value>" for it — it is not an error *)
      match exec_t_c r v with Some x => Some (no_value ++ x) | None => None end
  end.

(* ---------- replaying a grpc/json case ---------- *)

Section JsonCase.
  Variable shortest_dec : Z -> option Z.
  Variable code_of_status : N -> N.
  Variable respond : sent msg_c -> N.

  Definition entry_c := entry fields.
  Definition res_c := shot_result msg_c.

  Definition mk_guns (n : nat) (timeout : Z) : list (gun desc_c) :=
    repeat (mkGun desc_c example_table timeout) n.

  (* entry j goes to instance j mod n *)
  Fixpoint round_robin (n : nat) (j : nat) (es : list entry_c) : list (nat * entry_c) :=
    match es with
    | [] => []
    | e :: r => (Nat.modulo j n, e) :: round_robin n (S j) r
    end.

  (* the code-shaped model: guns threaded through, Go number round trip *)
  Definition json_model (ninst : nat) (timeout : Z) (es : list entry_c) : list res_c :=
    snd (run_instances desc_c msg_c fields (reencode_c shortest_dec) interp code_of_status respond
           (mk_guns ninst timeout) (round_robin ninst 0 es)).

  (* the specification: every entry on its own, payload interpreted exactly *)
  Definition json_spec (timeout : Z) (es : list entry_c) : list res_c :=
    map (spec_result desc_c msg_c fields (fun p => p) interp code_of_status respond example_table timeout) es.
End JsonCase.

(* ---------- replaying a scenario case ---------- *)

Record cdef := mkDef { cd_name : gbytes; cd_tag : gbytes; cd_call : gbytes; cd_meta : gmeta; cd_payload : gbytes; cd_pp : bool }.

Section ScenCase.
  Variable code_of_status : N -> N.
  Variable respond : sent msg_c -> N.

  Definition step_of (i : nat) (d : cdef) : step := mkStep (cd_name d) (cd_tag d) (cd_call d) i (cd_payload d).

  Fixpoint steps_of (defs : list cdef) (idx : list nat) : list (step * bool) :=
    match idx with
    | [] => []
    | i :: r =>
        match nth_error defs i with
        | Some d => (step_of i d, cd_pp d) :: steps_of defs r
        | None => steps_of defs r
        end
    end.

  (* variables of every step of one shot, given the [next] counter at its start: a step with
     the `prepare` preprocessor picks users[ctr mod len] and advances the counter *)
  Fixpoint with_vars (users : list (gbytes * gbytes)) (ctr : nat) (cur : vars_c) (sts : list (step * bool))
    : list (step * vars_c) :=
    match sts with
    | [] => []
    | (st, pp) :: r =>
        if pp then
          let u := nth_error users (Nat.modulo ctr (length users)) in
          (st, u) :: with_vars users (S ctr) u r
        else (st, cur) :: with_vars users ctr cur r
    end.

  Fixpoint count_pp (sts : list (step * bool)) : nat :=
    match sts with [] => 0 | (_, pp) :: r => (if pp then 1 else 0) + count_pp r end.

  Definition outs := list (outcome msg_c).

  (* code-shaped: per-instance guns with their template caches over the shared heap *)
  Fixpoint scen_model (users : list (gbytes * gbytes)) (defs : list cdef) (scens : list (gbytes * list nat))
           (h : heap) (guns : list (sgun desc_c tmpl_c)) (ctr : nat) (j : nat) (order : list nat)
    : heap * list outs :=
    match order with
    | [] => (h, [])
    | inst :: rest =>
        match nth_error scens (Nat.modulo j (length scens)), nth_error guns inst with
        | Some (sname, idx), Some g =>
            let sts := steps_of defs idx in
            let '(h1, g1, os) :=
              shoot_scenario desc_c msg_c tmpl_c vars_c parse_t_c exec_t_c fits_text_c h g sname
                (with_vars users ctr None sts) in
            let guns1 := firstn inst guns ++ g1 :: skipn (S inst) guns in
            let ctr1 := ctr + count_pp (firstn (length os) sts) in
            let '(h2, res) := scen_model users defs scens h1 guns1 ctr1 (S j) rest in
            (h2, os :: res)
        | _, _ => let '(h2, res) := scen_model users defs scens h guns ctr (S j) rest in (h2, [] :: res)
        end
    end.

  Definition spec_steps (timeout : Z) (configured : heap) (sts : list (step * vars_c)) : outs :=
    spec_scenario desc_c msg_c tmpl_c vars_c parse_t_c exec_t_c fits_text_c example_table timeout configured sts.

  (* specification: every shot rendered from the configured definitions *)
  Fixpoint scen_spec (users : list (gbytes * gbytes)) (defs : list cdef) (scens : list (gbytes * list nat))
           (timeout : Z) (configured : heap) (ctr : nat) (j : nat) (order : list nat) : list outs :=
    match order with
    | [] => []
    | _ :: rest =>
        match nth_error scens (Nat.modulo j (length scens)) with
        | Some (_, idx) =>
            let sts := steps_of defs idx in
            let os := spec_steps timeout configured (with_vars users ctr None sts) in
            os :: scen_spec users defs scens timeout configured (ctr + count_pp (firstn (length os) sts)) (S j) rest
        | None => [] :: scen_spec users defs scens timeout configured ctr (S j) rest
        end
    end.

  Definition heap_of (defs : list cdef) : heap := map cd_meta defs.
  Definition sguns_of (n : nat) (timeout : Z) : list (sgun desc_c tmpl_c) :=
    repeat (mkSGun desc_c tmpl_c example_table timeout []) n.

  Definition out_code (o : outcome msg_c) : N := scode msg_c code_of_status respond o.
End ScenCase.
