(* Concurrent semantics of a TREE of compositeSchedules (core/schedule/composite.go): composites
   whose children are themselves composites, to any depth, every composite with its own RWMutex.

   Model/SchedConc.v describes ONE composite over atomic children: the read-lock section with
   its single child call is one atomic step.  Here a child call made under a read lock is NOT
   atomic when the child is a composite: it is itself a sequence of that child's own sections,
   interleaved with the steps of all other threads.

   Thread-local control: one pc per nesting level ([npc]):
     QIdle        not inside this composite's operation (about to (re)start it)
     QIn q        holds this composite's READ lock, between "RLock" and "RUnlock" of Next / Left;
                  q is the pc of the operation in progress on scheds[0] (Next inside Next, Left
                  inside Left)
     QN1 tx k     Next: read section left with !ok, k = len(scheds) seen; wants the WRITE lock
     QL1 k        Left: read section left with left = 0 and unknown remainder; wants the WRITE lock
   Because every child is reached through scheds[0] of its parent, all threads are on the path of
   heads, and the lock state of the composite at depth d is determined by the pcs: its readers
   are the threads whose pc starts with more than d [QIn]s.

   Steps ([nsec], one step of one thread; [others] = the largest number of leading QIn among the
   pcs of the OTHER threads, counted from the composite the step looks at):
     QIdle, head is a composite   RLock: pc becomes QIn QIdle (for Left: leftAfter[0] must exist)
     QIdle, head is a leaf        the whole read section of Model/SchedConc.v (sec_next0 / sec_left0):
                                  RLock; one atomic leaf operation; RUnlock
     QIn q                        one step of the child operation (recursively); when that step
                                  makes the child operation RETURN, the rest of the read section
                                  runs in the same step ([next0_exit]: started = true, len(scheds),
                                  RUnlock, decision; [left0_exit]: the arithmetic of Left), which may
                                  in turn return to the enclosing composite, and so on
     QN1 / QL1                    the write section of Model/SchedConc.v (sec_next1 / sec_left1),
                                  enabled only when others = 0, i.e. when NO other thread holds
                                  this composite's read lock: that is what sync.RWMutex guarantees.
                                  No other thread is then anywhere below this composite, so the
                                  child calls made inside the write section (Start, Next) run alone;
                                  they are the sequential s_start / s_next of Model/SchedTree.v
                                  (Proofs/SchedNestedSolo.v proves that a solo run of the nested
                                  steps gives exactly the result and the tree of s_next / s_left).
   A read lock is never refused: write sections are atomic steps, so no write lock is held
   between steps.  Blocking is the absence of a step ([nsec] = None).

   Modelling decisions inherited from Model/SchedConc.v (design/C02.md): one clock read per step;
   the atomic flag [started] of a composite is set in the step in which its head gets started
   (Go stores it a little later, before RUnlock) and read in the step that ends the read section
   of Left (Go loads it just after RUnlock): the flag of every composite on the path is updated
   by [cs || sflag h'] / [true] on the way up.
   Executable definitions only. *)
From Coq Require Import List ZArith Bool Arith.
From PV Require Import Model.SchedTree Model.SchedConc.
Import ListNotations.
Local Open Scope Z_scope.

Inductive npc : Type :=
| QIdle
| QN1 (tx : Z) (k : nat)
| QL1 (k : nat)
| QIn (q : npc).

Inductive nout : Type :=
| NGoto (q : npc)
| NRetN (t : Z) (ok : bool)
| NRetL (k : Z).

Definition lift_pc (p : pc) : npc :=
  match p with PIdle => QIdle | N1 tx k => QN1 tx k | L1 k => QL1 k end.
Definition lift_out (o : outcome) : nout :=
  match o with Goto p => NGoto (lift_pc p) | RetN t ok => NRetN t ok | RetL k => NRetL k end.
Definition lift_res (r : res (sched * outcome)) : res (sched * nout) :=
  match r with Ok (c, o) => Ok (c, lift_out o) | Panic k => Panic k | OutOfFuel => OutOfFuel end.

Definition is_comp (s : sched) : bool := match s with Comp _ _ _ => true | _ => false end.

(* "has been started": the start of a leaf, the [started] flag of a composite *)
Definition sflag (s : sched) : bool :=
  match s with
  | DoAt _ _ _ _ (Some _) => true
  | Unlim _ (Some _) => true
  | Comp _ _ cs => cs
  | _ => false
  end.

(* number of read locks held = number of leading QIn *)
Fixpoint depth_in (q : npc) : nat := match q with QIn q1 => S (depth_in q1) | _ => 0%nat end.

(* the rest of the read section of Next once scheds[0].Next() has returned (tx, ok) and left the
   head as h': started = true; len(scheds); RUnlock; the decision *)
Definition next0_exit (h' : sched) (r : list sched) (la : list Z) (tx : Z) (ok : bool) : sched * nout :=
  let c' := Comp (h' :: r) la true in
  if ok then (c', NRetN tx true)
  else if (length (h' :: r) =? 1)%nat then (c', NRetN tx false)
  else (c', NGoto (QN1 tx (length (h' :: r)))).

(* the rest of the read section of Left once scheds[0].Left() has returned lft *)
Definition left0_exit (h' : sched) (r : list sched) (la : list Z) (cs : bool) (lft : Z) : res (sched * nout) :=
  match la with
  | [] => Panic PIndex
  | la0 :: _ =>
      let c' := Comp (h' :: r) la cs in
      let k := length (h' :: r) in
      if (k =? 1)%nat then Ok (c', NRetL lft)
      else if lft =? 0 then
        if 0 <=? la0 then Ok (c', NRetL la0)
        else if negb cs then Ok (c', NRetL (-1))
        else Ok (c', NGoto (QL1 k))
      else if (lft <? 0) || (la0 <? 0) then Ok (c', NRetL (-1))
      else Ok (c', NRetL (lft + la0))
  end.

(* one step of a thread whose current operation is [o] (ONext / OLeft) and whose pc at the
   composite [c] is [q]; None = no step (blocked on the write lock, or nothing to do) *)
Fixpoint nsec (fuel : nat) (now : Z) (o : op) (others : nat) (q : npc) (c : sched) {struct q}
  : option (res (sched * nout)) :=
  match c with
  | Comp (h :: r) la cs =>
      match q with
      | QIdle =>
          match o with
          | ONext =>
              if is_comp h then Some (Ok (c, NGoto (QIn QIdle)))
              else Some (lift_res (sec_next0 fuel now c))
          | OLeft =>
              if is_comp h then
                match la with [] => Some (Panic PIndex) | _ :: _ => Some (Ok (c, NGoto (QIn QIdle))) end
              else Some (lift_res (sec_left0 fuel now c))
          | OStart _ => None
          end
      | QIn q1 =>
          match nsec fuel now o (pred others) q1 h with
          | None => None
          | Some (Ok (h', NGoto q1')) => Some (Ok (Comp (h' :: r) la (cs || sflag h'), NGoto (QIn q1')))
          | Some (Ok (h', NRetN tx ok)) => Some (Ok (next0_exit h' r la tx ok))
          | Some (Ok (h', NRetL lft)) => Some (left0_exit h' r la cs lft)
          | Some (Panic k) => Some (Panic k)
          | Some OutOfFuel => Some OutOfFuel
          end
      | QN1 tx k =>
          match o with
          | ONext => if (others =? 0)%nat then Some (lift_res (sec_next1 fuel now c tx k)) else None
          | _ => None
          end
      | QL1 k =>
          match o with
          | OLeft => if (others =? 0)%nat then Some (lift_res (sec_left1 fuel now c k)) else None
          | _ => None
          end
      end
  | _ => Some (Panic PIndex)
  end.

(* ---------------------------------------------------------------- threads *)
Record nthread : Type := { n_pc : npc; n_todo : list op; n_hist : list obs }.

Definition all_depth (ths : list nthread) : nat :=
  fold_right (fun th a => Nat.max (depth_in (n_pc th)) a) 0%nat ths.

(* the deepest read lock held by a thread other than thread i *)
Fixpoint others_depth (i : nat) (ths : list nthread) : nat :=
  match ths, i with
  | [], _ => 0%nat
  | _ :: r, O => all_depth r
  | th :: r, S j => Nat.max (depth_in (n_pc th)) (others_depth j r)
  end.

Definition nthread_section (fuel : nat) (now : Z) (c : sched) (others : nat) (th : nthread)
  : option (res (sched * nout)) :=
  match n_todo th with
  | [] => None
  | OStart _ :: _ => None
  | o :: _ => nsec fuel now o others (n_pc th) c
  end.

Definition nthread_after (th : nthread) (out : nout) : nthread :=
  match out with
  | NGoto q => {| n_pc := q; n_todo := n_todo th; n_hist := n_hist th |}
  | NRetN t ok => {| n_pc := QIdle; n_todo := tl (n_todo th); n_hist := n_hist th ++ [RNext t ok] |}
  | NRetL k => {| n_pc := QIdle; n_todo := tl (n_todo th); n_hist := n_hist th ++ [RLeft k] |}
  end.

Record ngstate : Type := { ng_c : sched; ng_lo : Z; ng_threads : list nthread }.

(* one step of the whole system: any thread that is not blocked, any clock value not before the
   last one *)
Inductive ngstep (fuel : nat) : ngstate -> ngstate -> Prop :=
| ngstep_intro g i th now c' out :
    nth_error (ng_threads g) i = Some th -> ng_lo g <= now ->
    nthread_section fuel now (ng_c g) (others_depth i (ng_threads g)) th = Some (Ok (c', out)) ->
    ngstep fuel g {| ng_c := c'; ng_lo := now; ng_threads := upd i (nthread_after th out) (ng_threads g) |}.

(* a step that panics or runs out of fuel *)
Definition ngstuck (fuel : nat) (g : ngstate) : Prop :=
  exists i th now, nth_error (ng_threads g) i = Some th /\ ng_lo g <= now /\
    match nthread_section fuel now (ng_c g) (others_depth i (ng_threads g)) th with
    | Some (Ok _) | None => False
    | Some _ => True
    end.
