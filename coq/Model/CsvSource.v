(* Model of the `file/csv` variable source of the scenario providers (property C15:
   "renders URI, headers and body from data-source variables").  Executable definitions only.

   Anchors:
     components/providers/scenario/vs/vs_csv.go  readCsv (options delimiter, fields, ignore_first_line)
     encoding/csv Reader.Read for the UNQUOTED fragment: lines end at "\n" (a "\r" before it is
       dropped), empty lines are skipped, a record is the line split at the Comma rune, the first
       record fixes the number of fields (FieldsPerRecord = 0), Comma must be a valid delimiter.

   Modelling restrictions (explicit outcome CsvUnmodelled, excluded by hypothesis in the theorems,
   never generated): a line containing a double quote (quoted fields), a delimiter byte >= 128
   (`rune(delimiter[0])` of a multi-byte character is not that character). *)
From Coq Require Import List NArith Bool.
From PV Require Import Lib.Decimal Model.Scenario.
Import ListNotations.

Definition c_nl : N := 10.
Definition c_cr : N := 13.
Definition c_quote : N := 34.

(* readLine: "\r\n" -> "\n"; a trailing "\r" before EOF is dropped as well *)
Definition strip_cr (l : bytes) : bytes :=
  match rev l with
  | c :: r => if N.eqb c c_cr then rev r else l
  | [] => l
  end.

Definition is_nil (l : bytes) : bool := match l with [] => true | _ => false end.

(* the lines that yield a record *)
Definition csv_lines (file : bytes) : list bytes :=
  filter (fun l => negb (is_nil l)) (map strip_cr (split c_nl file)).

(* encoding/csv validDelim for a rune < 128 *)
Definition valid_delim (c : N) : bool :=
  negb (N.eqb c 0) && negb (N.eqb c c_quote) && negb (N.eqb c c_cr) && negb (N.eqb c c_nl).

Inductive csv_rd := RdErr | RdUnmodelled | RdOk (recs : list (list bytes)).

(* Reader.Read until EOF; [want] = FieldsPerRecord once the first record was read *)
Fixpoint read_records (comma : N) (want : option nat) (lines : list bytes) : csv_rd :=
  match lines with
  | [] => RdOk []
  | l :: rest =>
      if existsb (N.eqb c_quote) l then RdUnmodelled
      else
        let rc := split comma l in
        let go :=
            match read_records comma (Some (match want with Some n => n | None => length rc end)) rest with
            | RdOk recs => RdOk (rc :: recs)
            | e => e
            end in
        match want with
        | Some n => if Nat.eqb n (length rc) then go else RdErr     (* ErrFieldCount *)
        | None => go
        end
  end.

(* strings.Replace(f, " ", "_", -1) *)
Definition under (f : bytes) : bytes := map (fun c => if N.eqb c 32 then 95%N else c) f.

(* row[field] = value on a Go map: a later duplicate field name overwrites *)
Definition csv_row := list (bytes * bytes).
Fixpoint row_set (row : csv_row) (k v : bytes) : csv_row :=
  match row with
  | [] => [(k, v)]
  | (k', v') :: r => if beq k' k then (k', v) :: r else (k', v') :: row_set r k v
  end.

(* the loop over fields: an empty name is the ordinal number, a record shorter than the field list
   gives empty strings *)
Fixpoint mk_row (fields : list bytes) (i : N) (rc : list bytes) (acc : csv_row) : csv_row :=
  match fields with
  | [] => acc
  | f :: fs =>
      let name := match f with [] => dec_N i | _ => f end in
      let v := match rc with [] => [] | x :: _ => x end in
      mk_row fs (N.succ i) (tl rc) (row_set acc name v)
  end.

(* the record loop of readCsv *)
Fixpoint rows_go (fields : list bytes) (ignore : bool) (recs : list (list bytes)) : list csv_row :=
  match recs with
  | [] => []
  | rc :: rest =>
      let fields' := match fields with [] => map under rc | _ => fields end in
      if ignore then rows_go fields' false rest
      else mk_row fields' 0 rc [] :: rows_go fields' false rest
  end.

Record csv_opts := { co_delim : bytes; co_fields : list bytes; co_ignore : bool }.

Inductive csv_res := CsvErr | CsvUnmodelled | CsvOk (rows : list csv_row).

(* `if delimiter != "" { reader.Comma = rune(delimiter[0]) }`, default ',' *)
Definition comma_of (d : bytes) : N := match d with [] => 44%N | c :: _ => c end.

Definition read_csv_with (comma : N) (o : csv_opts) (file : bytes) : csv_res :=
  if N.leb 128 comma then CsvUnmodelled
  else if negb (valid_delim comma) then CsvErr
  else match read_records comma None (csv_lines file) with
       | RdOk recs => CsvOk (rows_go (map under (co_fields o)) (co_ignore o) recs)
       | RdErr => CsvErr
       | RdUnmodelled => CsvUnmodelled
       end.

(* the code *)
Definition read_csv (o : csv_opts) (file : bytes) : csv_res :=
  read_csv_with (comma_of (co_delim o)) o file.

(* contrast (not the code): the delimiter option is trimmed before it is applied *)
Definition read_csv_trimmed (o : csv_opts) (file : bytes) : csv_res :=
  read_csv_with (comma_of (trim (co_delim o))) o file.

(* ---- specification side: the file as its author sees it ---- *)

(* cells of one line joined by the delimiter *)
Fixpoint join_cells (d : N) (cells : list bytes) : bytes :=
  match cells with
  | [] => []
  | [c] => c
  | c :: r => c ++ d :: join_cells d r
  end.

Definition print_csv (d : N) (lines : list (list bytes)) : bytes :=
  concat (map (fun l => join_cells d l ++ [c_nl]) lines).

(* what the source must hold: the field names are the `fields` option, else the cells of the first
   line (blanks written as underscores); with ignore_first_line the first line is not a row; row r
   maps the j-th name to the j-th cell of its line *)
Definition csv_spec (fields : list bytes) (ignore : bool) (lines : list (list bytes)) : list csv_row :=
  let names := match fields with
               | [] => match lines with h :: _ => map under h | [] => [] end
               | _ => map under fields
               end in
  map (fun l => mk_row names 0 l []) (if ignore then tl lines else lines).

(* a cell the unquoted fragment can carry with delimiter d *)
Definition clean_cell (d : N) (c : bytes) : bool :=
  forallb (fun x => negb (N.eqb x d) && negb (N.eqb x c_nl) && negb (N.eqb x c_cr) && negb (N.eqb x c_quote)) c.

(* a line of w cells that does not print as an empty line *)
Definition line_ok (d : N) (w : nat) (l : list bytes) : bool :=
  Nat.eqb (length l) w && forallb (clean_cell d) l && negb (is_nil (join_cells d l)).

Definition row_get (r : csv_row) (k : bytes) : option bytes := assoc r k.
