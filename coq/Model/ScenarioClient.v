(* Model of the HTTP client of the scenario guns with respect to redirects (property C15: "executes the
   scenario's requests in the listed order with the stated multiplicities", values "captured by earlier
   steps' postprocessors").  Executable definitions only.

   Anchors:
     components/guns/http/client.go  NewRedirectingClient: redirect = false -> noRedirectClient (Do =
       http.Transport.RoundTrip: one request, the answer as it is), redirect = true -> redirectClient
       (http.Client.Do: a 301/302/303/307/308 answer with a Location header is followed, at most 10 times)
     components/guns/http/client.go  DefaultClientConfig (Redirect: false), the defaults the http/scenario
       and http2/scenario guns are registered with (components/guns/http_scenario/import.go)

   The target is any function from (arrival number, path) to an answer. *)
From Coq Require Import List NArith ZArith Bool.
From PV Require Import Model.Scenario.
Import ListNotations.

Record answer := { an_status : Z; an_location : option bytes }.

Definition is_redirect (st : Z) : bool :=
  (Z.eqb st 301 || Z.eqb st 302 || Z.eqb st 303 || Z.eqb st 307 || Z.eqb st 308)%bool.

Inductive do_res := DoAnswer (a : answer) | DoTooManyRedirects.

Section Client.
  Variable target : nat -> bytes -> answer.

  (* Client.Do for a request sent as the target's k-th arrival: the requests the target receives, what the
     step gets, the next arrival number.  [fuel] = redirects the client is still willing to follow. *)
  Fixpoint client_do (follow : bool) (fuel : nat) (k : nat) (path : bytes) : list bytes * do_res * nat :=
    let a := target k path in
    if (follow && is_redirect (an_status a))%bool then
      match an_location a with
      | Some loc =>
          match fuel with
          | O => ([path], DoTooManyRedirects, S k)
          | S f => let '(arr, r, k') := client_do follow f (S k) loc in (path :: arr, r, k')
          end
      | None => ([path], DoAnswer a, S k)
      end
    else ([path], DoAnswer a, S k).

  Definition go_redirect_limit : nat := 10.

  (* the steps of a shot whose steps all reach the client, one after the other *)
  Fixpoint run_steps (follow : bool) (k : nat) (paths : list bytes) : list bytes * list do_res :=
    match paths with
    | [] => ([], [])
    | p :: ps =>
        let '(arr, r, k') := client_do follow go_redirect_limit k p in
        let '(arrs, rs) := run_steps follow k' ps in
        (arr ++ arrs, r :: rs)
    end.

  (* specification: the target receives the listed requests, each step gets the answer to ITS request *)
  Fixpoint spec_steps (k : nat) (paths : list bytes) : list bytes * list do_res :=
    match paths with
    | [] => ([], [])
    | p :: ps => let '(arrs, rs) := spec_steps (S k) ps in (p :: arrs, DoAnswer (target k p) :: rs)
    end.
End Client.
