(* C02: load profiles as the CONFIGURATION states them, compiled to the schedule trees of
   Model/SchedTree.v.

   Model/SchedTree.v takes a doAtSchedule leaf with an abstract offset function; the theorems about
   order ("times never decrease", "every token of a part lies inside the part's window") assume
   the offsets well behaved (Proofs/SchedTreeSpec.v [leaf_ok]).  Here the leaves are the ones the
   constructors of core/schedule really make: the count and the offset formula of
   NewConst / NewLine / NewOnce / the NewStep loop in exact arithmetic, i.e. Model/Sched.v [leaf]
   (whose formulas are re-read from const.go / line.go / once.go / step.go on every run,
   Gen/Sched_bridge.v).  The count comes from one formula (NewLine: the integral of the rate) and
   the offsets from another (lineDoAt: the inverse of that integral); the order clauses of C02
   hold only because the two agree, which is what Proofs/SchedProfileTreeProofs.v proves for every
   valid configuration.

   Executable definitions only. *)
From Coq Require Import List ZArith QArith Bool.
From PV Require Import Model.Sched Model.SchedTree.
Import ListNotations.
Local Open Scope Z_scope.

(* a schedule configuration: the `type:` values of the schedule plugins *)
Inductive pcfg : Type :=
| PRate (p : profile)                         (* const / line / step / once *)
| PUnlimited (d : Z)                          (* unlimited, d ns *)
| PInstStep (from to step : nat) (d : Z)      (* instance_step *)
| PComposite (l : list pcfg).                 (* composite / a list of schedules *)

(* The doAtSchedule made from (n, duration, doAt).  doAt of Model/Sched.v is partial (None = the
   float64 expression is NaN, whose conversion to time.Duration is not a time): a leaf one of whose
   first n offsets is undefined is not compiled at all ([leaf_defined]); [off_total] is only ever
   applied below n of a defined leaf. *)
Definition off_total (l : leaf) (k : nat) : Z :=
  match l_at l (Z.of_nat k) with Some x => x | None => 0 end.

Definition leaf_defined (l : leaf) : bool :=
  forallb (fun k => match l_at l (Z.of_nat k) with Some _ => true | None => false end)
          (seq 0 (Z.to_nat (l_n l))).

(* NewDoAtSchedule(duration, n, doAt); a count n <= 0 never hands out a token *)
Definition cfg_of_leaf (l : leaf) : cfg := CDoAt (Z.to_nat (l_n l)) (l_dur l) (off_total l).

(* const, line, once: the single leaf; step: NewComposite of the levels' const leaves
   (NewComposite of one schedule is that schedule, of none NewOnce(0): Model/SchedTree.v build) *)
Definition compile_rate (p : profile) : option cfg :=
  match leaves p with
  | None => None                               (* the NewStep loop ran out of fuel *)
  | Some ls =>
      if forallb leaf_defined ls then
        match p with
        | PStep _ _ _ _ => Some (CComp (map cfg_of_leaf ls))
        | _ => match ls with [l] => Some (cfg_of_leaf l) | _ => None end
        end
      else None
  end.

Fixpoint all_some {A} (l : list (option A)) : option (list A) :=
  match l with
  | [] => Some []
  | None :: _ => None
  | Some x :: r => match all_some r with Some r' => Some (x :: r') | None => None end
  end.

Fixpoint compile (pc : pcfg) : option cfg :=
  match pc with
  | PRate p => compile_rate p
  | PUnlimited d => Some (CUnlim d)
  | PInstStep f t s d => Some (instance_step f t s d)
  | PComposite l => option_map CComp (all_some (map compile l))
  end.

(* what config validation accepts (Model/Sched.v [valid] for the rate profiles; durations of the
   other two kinds are time.Durations parsed from the configuration, never negative) *)
Fixpoint pvalid (pc : pcfg) : Prop :=
  match pc with
  | PRate p => valid p
  | PUnlimited d => 0 <= d
  | PInstStep _ _ _ d => 0 <= d
  | PComposite l => fold_right (fun x acc => pvalid x /\ acc) True l
  end.

(* an item of the token stream lies in the window [lo, hi] *)
Definition item_in (lo hi : Z) (x : item) : Prop :=
  match x with
  | IT t => lo <= t <= hi
  | IW s g => lo <= s /\ s <= g /\ g <= hi
  end.
