(* Property C10, round 7: a pool run through the engine, seen from the samples' side.

   "Each fired request produces exactly one sample" ends, for the user, in the results: between
   Aggregator.Report and the results stands the LIFE TIME of the aggregator, and that is decided by
   core/engine/engine.go: provider and aggregator run under runCtx; the start loop under
   instanceStartCtx (a child); runAwaitHandle.awaitRun receives the start result and the run results
   of the instances and calls
     - instanceStartCancel()  when an instance comes back "out of ammo" while instances are still
                              being started (re-read from the source: translate awaitrun, Gen/AwaitRunGen.v),
     - runCancel()            in checkAllInstancesAreFinished: start awaited and awaited >= started.
   The aggregator (phout: Run) writes what is queued, and when its context is done drains the queue,
   flushes and returns; a sample reported after that is never written.

   Executable definitions only.  Everything the Go runtime chooses (which goroutine moves, which ready
   arm of a select fires, how long the target takes) is the order of the events of a trace.  Not in
   the model: the run is not cancelled from outside and no component fails (then the run is aborted
   and the property does not speak of the requests in flight); the bounded capacity of the queue (it
   only restricts the traces: Model/ReportQueue.v, C10_one_line_per_request). *)
From Coq Require Import List Arith Bool.
From PV Require Import Lib.Table Model.Sample Model.Shoot Model.ShootRun.
Import ListNotations.

(* what instance.Run returned *)
Inductive ires := IrOutOfAmmo | IrNil | IrCtx.

Inductive ist :=
| IIdle                 (* between two shots: waiting for its schedule / the provider *)
| IFlight (s : shot)    (* inside Gun.Shoot with an acquired ammo: its requests are (being) fired *)
| IReturned (r : ires)  (* instance.Run has returned, the result is in runRes *)
| IAwaited.             (* the await loop has received the result *)

(* the world outside the await loop *)
Record eworld := {
  w_ammo : list shot;      (* what the provider still has to deliver, in order *)
  w_tostart : nat;         (* tokens left in the startup schedule *)
  w_insts : list ist;      (* the instances started so far *)
  w_fired : list shot;     (* ghost: the shots begun (their requests are fired), in order *)
  w_reported : list shot   (* ghost: the shots whose samples have been handed to Report, in order *)
}.

(* runAwaitHandle + the two cancel functions *)
Record ectl := {
  c_start_cancelled : bool;  (* instanceStartCancel() has been called *)
  c_run_cancelled : bool;    (* runCancel() has been called *)
  c_start_awaited : bool;    (* ah.startRes == nil, i.e. isStartFinished() *)
  c_started : nat;           (* ah.startedInstances *)
  c_awaited : nat            (* ah.awaitedInstances *)
}.

(* the aggregator *)
Record eaggr := {
  a_running : bool;          (* Aggregator.Run has not returned *)
  a_sink : list sample;      (* reported, not yet written *)
  a_lines : list sample      (* the results *)
}.

Record estate := { e_w : eworld; e_c : ectl; e_a : eaggr }.

Definition einit (ammo : list shot) (tostart : nat) : estate :=
  {| e_w := {| w_ammo := ammo; w_tostart := tostart; w_insts := []; w_fired := []; w_reported := [] |};
     e_c := {| c_start_cancelled := false; c_run_cancelled := false; c_start_awaited := false; c_started := 0; c_awaited := 0 |};
     e_a := {| a_running := true; a_sink := []; a_lines := [] |} |}.

Inductive eev :=
| EStart               (* the start loop's waiter hands out a token: a new instance runs.  A select with the
                          timer and ctx.Done() both ready may take either: allowed until the loop's result is awaited *)
| ESchedFin            (* the shared RPS schedule has finished: its callback cancels the instance start *)
| EProvStop            (* the provider sees runCtx done and stops delivering *)
| EAcquire (i : nat)   (* instance i asks the provider: an ammo -> Shoot begins; nothing left -> "out of ammo" *)
| ESchedEnd (i : nat)  (* the schedule of instance i has ended: Run returns nil *)
| ECtxDone (i : nat)   (* instance i sees runCtx done: Run returns the context error *)
| EReport (i : nat)    (* the shot of instance i ends: its samples are handed to Aggregator.Report *)
| EWrite               (* the aggregator takes the oldest queued sample and writes it *)
| EAggrStop            (* the aggregator sees its context done: drains the queue, flushes, returns *)
| EStartRes            (* the await loop receives the result of the start loop *)
| EAwait (i : nat).    (* the await loop receives the run result of instance i *)

Fixpoint upd {A : Type} (i : nat) (v : A) (l : list A) : list A :=
  match l, i with
  | [], _ => []
  | _ :: r, O => v :: r
  | x :: r, S j => x :: upd j v r
  end.

Definition flight1 (s : ist) : list shot := match s with IFlight x => [x] | _ => [] end.
Definition inflight (l : list ist) : list shot := flat_map flight1 l.
Definition aw1 (s : ist) : nat := match s with IAwaited => 1 | _ => 0 end.
Fixpoint count_awaited (l : list ist) : nat := match l with [] => 0 | s :: r => aw1 s + count_awaited r end.

Definition set_insts (w : eworld) (l : list ist) : eworld :=
  {| w_ammo := w_ammo w; w_tostart := w_tostart w; w_insts := l; w_fired := w_fired w; w_reported := w_reported w |}.

(* the two cancel functions of the run handle *)
Inductive cancel_call := CcStart | CcRun.
Definition apply_cancel (c : ectl) (k : cancel_call) : ectl :=
  match k with
  | CcStart => {| c_start_cancelled := true; c_run_cancelled := c_run_cancelled c; c_start_awaited := c_start_awaited c;
                  c_started := c_started c; c_awaited := c_awaited c |}
  | CcRun => {| c_start_cancelled := c_start_cancelled c; c_run_cancelled := true; c_start_awaited := c_start_awaited c;
                c_started := c_started c; c_awaited := c_awaited c |}
  end.

(* checkAllInstancesAreFinished *)
Definition check_all (c : ectl) : ectl :=
  if c_start_awaited c && (c_started c <=? c_awaited c)
  then {| c_start_cancelled := c_start_cancelled c; c_run_cancelled := true; c_start_awaited := c_start_awaited c;
          c_started := c_started c; c_awaited := c_awaited c |}
  else c.

(* the "out of ammo" branch of awaitRun: `if !ah.isStartFinished() { CALLS }`.  [ooa] = CALLS, the cancel functions
   called there; engine.go has [engine_ooa]: only the instance start is cancelled. *)
Definition on_out_of_ammo (ooa : list cancel_call) (c : ectl) : ectl :=
  if c_start_awaited c then c else fold_left apply_cancel ooa c.
Definition engine_ooa : list cancel_call := [CcStart].
Definition no_run_cancel (ooa : list cancel_call) : bool :=
  forallb (fun k => match k with CcStart => true | CcRun => false end) ooa.

Definition estep (ooa : list cancel_call) (st : estate) (e : eev) : option estate :=
  let w := e_w st in let c := e_c st in let a := e_a st in
  match e with
  | EStart =>
      if negb (c_start_awaited c) && (0 <? w_tostart w)
      then Some {| e_w := {| w_ammo := w_ammo w; w_tostart := w_tostart w - 1; w_insts := w_insts w ++ [IIdle];
                             w_fired := w_fired w; w_reported := w_reported w |}; e_c := c; e_a := a |}
      else None
  | ESchedFin =>
      Some {| e_w := w; e_a := a;
              e_c := {| c_start_cancelled := true; c_run_cancelled := c_run_cancelled c; c_start_awaited := c_start_awaited c;
                        c_started := c_started c; c_awaited := c_awaited c |} |}
  | EProvStop =>
      if c_run_cancelled c
      then Some {| e_w := {| w_ammo := []; w_tostart := w_tostart w; w_insts := w_insts w;
                             w_fired := w_fired w; w_reported := w_reported w |}; e_c := c; e_a := a |}
      else None
  | EAcquire i =>
      match nth_error (w_insts w) i with
      | Some IIdle =>
          match w_ammo w with
          | s :: r =>
              Some {| e_w := {| w_ammo := r; w_tostart := w_tostart w; w_insts := upd i (IFlight s) (w_insts w);
                                w_fired := w_fired w ++ [s]; w_reported := w_reported w |}; e_c := c; e_a := a |}
          | [] => Some {| e_w := set_insts w (upd i (IReturned IrOutOfAmmo) (w_insts w)); e_c := c; e_a := a |}
          end
      | _ => None
      end
  | ESchedEnd i =>
      match nth_error (w_insts w) i with
      | Some IIdle => Some {| e_w := set_insts w (upd i (IReturned IrNil) (w_insts w)); e_c := c; e_a := a |}
      | _ => None
      end
  | ECtxDone i =>
      match nth_error (w_insts w) i with
      | Some IIdle =>
          if c_run_cancelled c
          then Some {| e_w := set_insts w (upd i (IReturned IrCtx) (w_insts w)); e_c := c; e_a := a |}
          else None
      | _ => None
      end
  | EReport i =>
      match nth_error (w_insts w) i with
      | Some (IFlight s) =>
          Some {| e_w := {| w_ammo := w_ammo w; w_tostart := w_tostart w; w_insts := upd i IIdle (w_insts w);
                            w_fired := w_fired w; w_reported := w_reported w ++ [s] |};
                  e_c := c;
                  e_a := {| a_running := a_running a; a_sink := a_sink a ++ shot_reports s; a_lines := a_lines a |} |}
      | _ => None
      end
  | EWrite =>
      if a_running a then
        match a_sink a with
        | x :: r => Some {| e_w := w; e_c := c; e_a := {| a_running := true; a_sink := r; a_lines := a_lines a ++ [x] |} |}
        | [] => None
        end
      else None
  | EAggrStop =>
      if a_running a && c_run_cancelled c
      then Some {| e_w := w; e_c := c; e_a := {| a_running := false; a_sink := []; a_lines := a_lines a ++ a_sink a |} |}
      else None
  | EStartRes =>
      if negb (c_start_awaited c) && (c_start_cancelled c || c_run_cancelled c || (w_tostart w =? 0))
      then Some {| e_w := w; e_a := a;
                   e_c := check_all {| c_start_cancelled := c_start_cancelled c; c_run_cancelled := c_run_cancelled c;
                                       c_start_awaited := true; c_started := length (w_insts w); c_awaited := c_awaited c |} |}
      else None
  | EAwait i =>
      match nth_error (w_insts w) i with
      | Some (IReturned r) =>
          let c1 := {| c_start_cancelled := c_start_cancelled c; c_run_cancelled := c_run_cancelled c;
                       c_start_awaited := c_start_awaited c; c_started := c_started c; c_awaited := S (c_awaited c) |} in
          let c2 := match r with IrOutOfAmmo => on_out_of_ammo ooa c1 | _ => c1 end in
          Some {| e_w := set_insts w (upd i IAwaited (w_insts w)); e_c := check_all c2; e_a := a |}
      | _ => None
      end
  end.

Fixpoint erun (ooa : list cancel_call) (st : estate) (evs : list eev) : option estate :=
  match evs with
  | [] => Some st
  | e :: r => match estep ooa st e with Some st' => erun ooa st' r | None => None end
  end.

(* the run is over: the pool's await loop has everything but provider/aggregator, the aggregator has returned *)
Definition eover (st : estate) : bool :=
  negb (a_running (e_a st)) && c_start_awaited (e_c st) && (c_started (e_c st) <=? c_awaited (e_c st)).

(* requests fired in a run *)
Definition fired_requests (st : estate) : nat := fold_right (fun s n => shot_requests s + n) 0 (w_fired (e_w st)).

(* a complete trace for the harness' prediction, that of a SLOW target: all [n] instances are started; in every
   round every idle instance asks the provider, the await loop takes the results that are there (and the
   aggregator stops if its context is done by then), and only then do the shots in flight end.  Events that
   cannot happen at their turn are skipped ([erun_skip]). *)
Definition slow_round (n : nat) : list eev :=
  map EAcquire (seq 0 n) ++ map EAwait (seq 0 n) ++ [EStartRes; EAggrStop] ++ map EReport (seq 0 n)
  ++ [EProvStop] ++ map ECtxDone (seq 0 n).
Fixpoint slow_rounds (n k : nat) : list eev :=
  match k with O => [] | S k' => slow_round n ++ slow_rounds n k' end.
Definition slow_trace (n k : nat) : list eev :=
  repeat EStart n ++ slow_rounds n k ++ map EAwait (seq 0 n) ++ [EStartRes; EAggrStop].

Fixpoint erun_skip (v : list cancel_call) (st : estate) (evs : list eev) : estate :=
  match evs with
  | [] => st
  | e :: r => match estep v st e with Some st' => erun_skip v st' r | None => erun_skip v st r end
  end.

(* the results of a pool of [length shots + 1] instances shooting [shots] at a slow target *)
Definition slow_run_lines (v : list cancel_call) (shots : list shot) : list sample :=
  a_lines (e_a (erun_skip v (einit shots (S (length shots))) (slow_trace (S (length shots)) 2))).
Definition slow_run_over (v : list cancel_call) (shots : list shot) : bool :=
  eover (erun_skip v (einit shots (S (length shots))) (slow_trace (S (length shots)) 2)).
