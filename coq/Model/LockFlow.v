(* Lock flow of the functions on the dial path that guard shared state with a sync.(RW)Mutex
   (lib/netutil SimpleDNSCache.Get / Add: the process-wide DNS cache every new connection of every http-family
   gun goes through when the target could not be pre-resolved).  Property C19 says a refused or closed connection
   costs a failed sample and the instance goes on; a function that can return with the mutex held turns the first
   retry into a silent stall of every instance.

   harness/cmd/translate lockflow re-reads the functions from /repo on every run and emits their control-flow
   skeleton in the syntax below (Gen/LockFlowGen.v); Gen/LockFlow_bridge.v evaluates [lf_check] on it.

   Executable definitions only. *)
From Coq Require Import List String Bool Arith.
Import ListNotations.

Inductive lk_ev := EvLock | EvUnlock | EvRLock | EvRUnlock.

(* control-flow skeleton of one Go function with respect to ONE mutex *)
Inductive lstmt :=
| LSkip                         (* statements that do not touch the mutex and fall through *)
| LEv (e : lk_ev)               (* m.Lock() / m.Unlock() / m.RLock() / m.RUnlock() *)
| LDefer (e : lk_ev)            (* defer m.Unlock() ...: runs when the function exits, last deferred first *)
| LSeq (a b : lstmt)
| LIf (t e : lstmt)             (* if / switch: either branch may run, whatever the condition *)
| LLoop (body : lstmt)          (* for / range: any number of iterations *)
| LReturn                       (* return, or an explicit panic(...): the function exits, deferred calls run *)
| LUnsupported.                 (* anything the translator cannot describe (goto, lock calls inside closures ...) *)

(* one way through a function: events in order, whether it ended in return, deferred events (most recent first) *)
Record lpath := { lp_evs : list lk_ev; lp_ret : bool; lp_defers : list lk_ev }.
Definition lp_trace (p : lpath) : list lk_ev := lp_evs p ++ lp_defers p.

Fixpoint no_lock (s : lstmt) : bool :=
  match s with
  | LSkip | LReturn => true
  | LEv _ | LDefer _ | LUnsupported => false
  | LSeq a b | LIf a b => no_lock a && no_lock b
  | LLoop b => no_lock b
  end.

Definition seq_path (pa pb : lpath) : lpath :=
  if lp_ret pa then pa
  else {| lp_evs := lp_evs pa ++ lp_evs pb; lp_ret := lp_ret pb; lp_defers := lp_defers pb ++ lp_defers pa |}.

(* every way through the function; None = not describable.  A loop is accepted only when its body does not touch the
   mutex at all (then it contributes nothing but a possible return). *)
Fixpoint paths (s : lstmt) : option (list lpath) :=
  match s with
  | LSkip => Some [ {| lp_evs := []; lp_ret := false; lp_defers := [] |} ]
  | LEv e => Some [ {| lp_evs := [e]; lp_ret := false; lp_defers := [] |} ]
  | LDefer e => Some [ {| lp_evs := []; lp_ret := false; lp_defers := [e] |} ]
  | LSeq a b =>
      match paths a, paths b with
      | Some pa, Some pb => Some (flat_map (fun x => map (seq_path x) pb) pa)
      | _, _ => None
      end
  | LIf t e =>
      match paths t, paths e with
      | Some pt, Some pe => Some (pt ++ pe)
      | _, _ => None
      end
  | LLoop b =>
      if no_lock b
      then Some [ {| lp_evs := []; lp_ret := false; lp_defers := [] |}; {| lp_evs := []; lp_ret := true; lp_defers := [] |} ]
      else None
  | LReturn => Some [ {| lp_evs := []; lp_ret := true; lp_defers := [] |} ]
  | LUnsupported => None
  end.

(* what a goroutine holds of the mutex *)
Inductive hold := HFree | HWrite | HRead.

(* a trace is well bracketed from mode [h]: acquires only when free (a second Lock/RLock of the same goroutine
   self-deadlocks), releases only what it holds, and ends FREE *)
Fixpoint trace_ok (h : hold) (t : list lk_ev) : bool :=
  match t with
  | [] => match h with HFree => true | _ => false end
  | e :: r =>
      match h, e with
      | HFree, EvLock => trace_ok HWrite r
      | HFree, EvRLock => trace_ok HRead r
      | HWrite, EvUnlock => trace_ok HFree r
      | HRead, EvRUnlock => trace_ok HFree r
      | _, _ => false
      end
  end.

(* the check evaluated on the translated source: every way through the function takes and releases the mutex in
   pairs and leaves it free *)
Definition lf_check (s : lstmt) : bool :=
  match paths s with
  | Some ps => forallb (fun p => trace_ok HFree (lp_trace p)) ps
  | None => false
  end.

(* ---------- the mutex itself and goroutines running traces against it ---------- *)
Record rwst := { rw_w : bool; rw_r : nat }.
Definition rw_free : rwst := {| rw_w := false; rw_r := 0 |}.

Inductive ev_res :=
| EvGo (s : rwst)
| EvBlocked          (* the goroutine waits *)
| EvFatal.           (* "fatal error: sync: Unlock of unlocked RWMutex": the process dies *)

Definition rw_do (s : rwst) (e : lk_ev) : ev_res :=
  match e with
  | EvLock => if rw_w s || negb (rw_r s =? 0) then EvBlocked else EvGo {| rw_w := true; rw_r := 0 |}
  | EvRLock => if rw_w s then EvBlocked else EvGo {| rw_w := false; rw_r := S (rw_r s) |}
  | EvUnlock => if rw_w s then EvGo {| rw_w := false; rw_r := rw_r s |} else EvFatal
  | EvRUnlock => match rw_r s with S k => EvGo {| rw_w := rw_w s; rw_r := k |} | O => EvFatal end
  end.

(* the system: the mutex and what every goroutine still has to do *)
Definition sys := (rwst * list (list lk_ev))%type.

Fixpoint set_nth {A} (n : nat) (x : A) (l : list A) : list A :=
  match l, n with
  | [], _ => []
  | _ :: r, O => x :: r
  | y :: r, S k => y :: set_nth k x r
  end.

(* goroutine i makes its next event; None: it is finished, blocked, or the event is fatal *)
Definition sys_step (i : nat) (st : sys) : option sys :=
  match nth_error (snd st) i with
  | Some (e :: r) => match rw_do (fst st) e with
                     | EvGo s' => Some (s', set_nth i r (snd st))
                     | _ => None
                     end
  | _ => None
  end.

Definition all_done (st : sys) : bool := forallb (fun t => match t with [] => true | _ => false end) (snd st).

(* somebody's next event would kill the process *)
Definition some_fatal (st : sys) : bool :=
  existsb (fun t => match t with e :: _ => match rw_do (fst st) e with EvFatal => true | _ => false end | [] => false end) (snd st).

(* run with a schedule (which goroutine moves next); a scheduled goroutine that cannot move is skipped *)
Fixpoint sys_run (sched : list nat) (st : sys) : sys :=
  match sched with
  | [] => st
  | i :: r => match sys_step i st with Some st' => sys_run r st' | None => sys_run r st end
  end.
