(* Model of the schedule token contract (property C02).

   Code modelled (all in /repo/core/schedule unless noted):
     do_at.go        doAtSchedule  (atomic counter i, start set once)
     unlilmited.go   unlimitedSchedule (clock driven)
     start_sync.go   MarkStarted panics on a second start
     composite.go    NewComposite / Start / Next / Left / startNext
     instance_step.go NewInstanceStep
     core/coreutil/schedule.go  callbackOnFinishSchedule

   Time is Z nanoseconds.  The wall clock is an input ([now]) of every operation.
   A DoAt leaf carries an abstract offset function [at_ : nat -> Z] (the formulas of
   once/const/line are property C01's business; here they are only assumed
   non-decreasing and bounded by the duration, see Proofs/SchedTreeProofs.v [leaf_ok]).

   Executable definitions only; proofs are in Proofs/SchedTree*.v. *)
From Coq Require Import List ZArith Bool Arith.
Import ListNotations.
Local Open Scope Z_scope.

Inductive pkind : Type :=
| PStarted          (* start_sync.go: "schedule is already started" *)
| PNotFinished      (* composite.go Left: "current schedule is not finished" *)
| PIndex.           (* index out of range (s.scheds[0] / s.leftAfter[0] of an empty slice) *)

Inductive res (A : Type) : Type :=
| Ok (a : A)
| Panic (k : pkind) (* a Go panic *)
| OutOfFuel.        (* recursion budget exhausted; excluded by a proved bound *)
Arguments Ok {A} a.
Arguments Panic {A} k.
Arguments OutOfFuel {A}.

Definition bind {A B} (r : res A) (f : A -> res B) : res B :=
  match r with Ok a => f a | Panic k => Panic k | OutOfFuel => OutOfFuel end.
Notation "'do' x <- r ;; k" := (bind r (fun x => k)) (at level 200, x pattern, r at level 100, k at level 200).

(* A schedule with its mutable state.
   DoAt n dur at i st : doAtSchedule{n, duration, doAt} with counter i and start (None = not started)
   Unlim dur fin      : unlimitedSchedule{duration}; fin = Some f once started (finish = start+dur)
   Comp l la cs       : compositeSchedule{scheds = l, leftAfter = la, started = cs} *)
Inductive sched : Type :=
| DoAt (n : nat) (dur : Z) (at_ : nat -> Z) (i : nat) (st : option Z)
| Unlim (dur : Z) (fin : option Z)
| Comp (l : list sched) (la : list Z) (cs : bool).

(* ---------------------------------------------------------------- Start *)
(* doAtSchedule.Start / unlimitedSchedule.Start: MarkStarted panics when already started.
   compositeSchedule.Start: s.scheds[0].Start(startAt). *)
Fixpoint s_start (t : Z) (s : sched) : res sched :=
  match s with
  | DoAt n d a i None => Ok (DoAt n d a i (Some t))
  | DoAt _ _ _ _ (Some _) => Panic PStarted
  | Unlim d None => Ok (Unlim d (Some (t + d)))
  | Unlim _ (Some _) => Panic PStarted
  | Comp [] _ _ => Panic PIndex
  | Comp (h :: r) la _ => do h' <- s_start t h ;; Ok (Comp (h' :: r) la true)
  end.

(* ---------------------------------------------------------------- Next *)
(* Sequential semantics of Next, following the Go control flow.  Every recursive call
   (child call or "return s.Next()" retry) costs one unit of fuel. *)
Fixpoint s_next (fuel : nat) (now : Z) (s : sched) : res (sched * Z * bool) :=
  match fuel with
  | O => OutOfFuel
  | S f =>
    match s with
    | DoAt n d a i st =>
        (* startOnce.Do(start = now) ; i := s.i.Inc()-1 *)
        let st' := match st with Some x => x | None => now end in
        if (i <? n)%nat then Ok (DoAt n d a (S i) (Some st'), st' + a i, true)
        else Ok (DoAt n d a (S i) (Some st'), st' + d, false)
    | Unlim d fin =>
        let fin' := match fin with Some x => x | None => now + d end in
        (* while the start (finish - duration) is in the future the start time is answered *)
        if now <? fin' then Ok (Unlim d (Some fin'), Z.max now (fin' - d), true)
        else Ok (Unlim d (Some fin'), fin', false)
    | Comp [] _ _ => Panic PIndex
    | Comp (h :: r) la _ =>
        (* read lock: tx, ok = s.scheds[0].Next(); started = true *)
        do x <- s_next f now h ;;
        let '(h', tx, ok) := x in
        if ok then Ok (Comp (h' :: r) la true, tx, true)
        else
          match r with
          | [] => Ok (Comp [h'] la true, tx, false)      (* schedsLeft == 1 *)
          | h2 :: r2 =>
              (* write lock; sequentially nobody shifted before us: s.startNext(tx) *)
              do h2s <- s_start tx h2 ;;
              do y <- s_next f now h2s ;;
              let '(h2', tx2, ok2) := y in
              let c' := Comp (h2' :: r2) (tl la) true in
              (* schedsLeftNow is the length BEFORE the shift, so this is just !ok *)
              if negb ok2 && (1 <? length (h :: r))%nat
              then s_next f now c'                        (* "Okay, just retry." *)
              else Ok (c', tx2, ok2)
          end
    end
  end.

(* ---------------------------------------------------------------- Left *)
(* composite.go Left() (after fixes 8a0c3cf: unknown remainder => -1, and 593ffeb: no shift
   before the composite has been started). *)
Fixpoint s_left (fuel : nat) (now : Z) (s : sched) : res (sched * Z) :=
  match fuel with
  | O => OutOfFuel
  | S f =>
    match s with
    | DoAt n d a i st => Ok (s, Z.of_nat (n - i))        (* max(0, n - i) *)
    | Unlim d None => Ok (s, -1)
    | Unlim d (Some fin) => Ok (s, if now <? fin then -1 else 0)
    | Comp [] _ _ => Panic PIndex
    | Comp (h :: r) la cs =>
        match la with
        | [] => Panic PIndex
        | leftAfter :: la' =>
            do x <- s_left f now h ;;
            let '(h', lft) := x in
            match r with
            | [] => Ok (Comp [h'] la cs, lft)
            | h2 :: r2 =>
                if lft =? 0 then
                  if 0 <=? leftAfter then Ok (Comp (h' :: r) la cs, leftAfter)
                  else if negb cs then Ok (Comp (h' :: r) la cs, -1)   (* not started: must not shift *)
                  else
                    (* write lock, len unchanged: Next on the head must fail, then shift *)
                    do y <- s_next f now h' ;;
                    let '(h'', fin, ok) := y in
                    if ok then Panic PNotFinished          (* "current schedule is not finished" *)
                    else
                      do h2s <- s_start fin h2 ;;
                      s_left f now (Comp (h2s :: r2) la' cs)
                else if (lft <? 0) || (leftAfter <? 0) then Ok (Comp (h' :: r) la cs, -1)
                else Ok (Comp (h' :: r) la cs, lft + leftAfter)
            end
        end
    end
  end.

(* ---------------------------------------------------------------- NewComposite *)
Definition once (n : nat) : sched := DoAt n 0 (fun _ => 0) 0%nat None.

(* the loop "for i := len-1 .. 0": returns (children after their Left() calls, leftAfter,
   unknown, leftAccumulator) *)
Fixpoint nc_loop (fuel : nat) (now : Z) (l : list sched) : res (list sched * list Z * bool * Z) :=
  match l with
  | [] => Ok ([], [], false, 0)
  | x :: r =>
      do y <- nc_loop fuel now r ;;
      let '(r', la, unk, acc) := y in
      do z <- s_left fuel now x ;;
      let '(x', sl) := z in
      let unk' := if sl <? 0 then true else unk in
      let acc1 := if sl <? 0 then -1 else acc in
      let acc2 := if unk' then acc1 else acc1 + sl in
      Ok (x' :: r', acc :: la, unk', acc2)
  end.

Definition new_composite (fuel : nat) (now : Z) (l : list sched) : res sched :=
  match l with
  | [] => Ok (once 0)
  | [x] => Ok x
  | _ => do y <- nc_loop fuel now l ;;
         let '(l', la, _, _) := y in Ok (Comp l' la false)
  end.

(* Configurations (what the constructors are given) and the tree they build. *)
Inductive cfg : Type :=
| CDoAt (n : nat) (dur : Z) (at_ : nat -> Z)
| CUnlim (dur : Z)
| CComp (l : list cfg).

Fixpoint size_cfg (c : cfg) : nat :=
  match c with
  | CComp l => S (fold_right (fun x a => size_cfg x + a)%nat 0%nat l)
  | _ => 1%nat
  end.

Fixpoint build (fuel : nat) (now : Z) (c : cfg) : res sched :=
  match c with
  | CDoAt n d a => Ok (DoAt n d a 0 None)
  | CUnlim d => Ok (Unlim d None)
  | CComp l =>
      do l' <- (fix go (l : list cfg) : res (list sched) :=
                  match l with
                  | [] => Ok []
                  | x :: r => do x' <- build fuel now x ;; do r' <- go r ;; Ok (x' :: r')
                  end) l ;;
      new_composite fuel now l'
  end.

(* instance_step.go: once(from), then (const(0,dur), once(step)) for i = from+step; i <= to; i += step.
   [k] = number of loop iterations, computed by [istep_iters]. *)
Fixpoint istep_parts (k : nat) (step : nat) (dur : Z) : list cfg :=
  match k with
  | O => []
  | S k' => CDoAt 0 dur (fun _ => 0) :: CDoAt step 0 (fun _ => 0) :: istep_parts k' step dur
  end.
Definition istep_iters (from to step : nat) : nat :=
  if (step =? 0)%nat then 0%nat else ((to - from) / step)%nat.
Definition instance_step (from to step : nat) (dur : Z) : cfg :=
  CComp (CDoAt from 0 (fun _ => 0) :: istep_parts (istep_iters from to step) step dur).

(* ---------------------------------------------------------------- sizes (fuel) *)
Fixpoint size (s : sched) : nat :=
  match s with
  | Comp l _ _ => S (fold_right (fun x a => size x + a)%nat 0%nat l)
  | _ => 1%nat
  end.

(* ---------------------------------------------------------------- flattening *)
Definition unknown_part (x : sched) : bool :=
  match x with Unlim _ _ => true | _ => false end.

Fixpoint flatten (s : sched) : list sched :=
  match s with
  | Comp l _ _ => flat_map flatten l
  | _ => [s]
  end.
Fixpoint flatten_cfg (c : cfg) : list sched :=
  match c with
  | CDoAt n d a => [DoAt n d a 0 None]
  | CUnlim d => [Unlim d None]
  | CComp [] => [once 0]          (* NewComposite() = NewOnce(0) *)
  | CComp l => flat_map flatten_cfg l
  end.

(* ---------------------------------------------------------------- abstract token stream *)
Inductive item : Type :=
| IT (t : Z)        (* one token at time t *)
| IW (st fin : Z).  (* an unlimited window [st, fin): tokens max(now, st) while now < fin *)

(* remaining items of a flat state; [s] = start of the head when it is not started yet.
   Returns the items and the final finish time. *)
Fixpoint items_from (s : Z) (fl : list sched) : list item * Z :=
  match fl with
  | [] => ([], s)
  | DoAt n d a i st :: r =>
      let s0 := match st with Some x => x | None => s end in
      let '(its, f) := items_from (s0 + d) r in
      (map (fun k => IT (s0 + a k)) (seq i (n - i)) ++ its, f)
  | Unlim d fin :: r =>
      let f0 := match fin with Some f => f | None => s + d end in
      let '(its, f) := items_from f0 r in
      (IW (f0 - d) f0 :: its, f)
  | Comp _ _ _ :: r => items_from s r
  end.

(* abstract Next: first token in order; a window yields max(now, its start) while open and is left
   behind for good once closed; when nothing is left, the final finish time. *)
Fixpoint abs_next (now : Z) (fin : Z) (its : list item) : list item * Z * bool :=
  match its with
  | [] => ([], fin, false)
  | IT t :: r => (r, t, true)
  | IW s f :: r => if now <? f then (its, Z.max now s, true) else abs_next now fin r
  end.

Fixpoint drop_closed (now : Z) (its : list item) : list item :=
  match its with
  | IW _ f :: r => if now <? f then its else drop_closed now r
  | _ => its
  end.
Definition is_window (x : item) : bool := match x with IW _ _ => true | _ => false end.
(* abstract Left: number of tokens left, or -1 while a window is not closed (a window that
   has not been reached counts as not closed). *)
Definition abs_left (now : Z) (its : list item) : Z :=
  let l := drop_closed now its in
  if existsb is_window l then -1 else Z.of_nat (length l).

(* ---------------------------------------------------------------- op sequences *)
Inductive op : Type := OStart (t : Z) | ONext | OLeft.
Inductive obs : Type := RStart | RNext (t : Z) (ok : bool) | RLeft (k : Z) | RPanic (k : pkind) | RFuel.

(* run a sequence of (clock, op) on a tree; stops at the first panic *)
Fixpoint run_tree (fuel : nat) (s : sched) (ops : list (Z * op)) : list obs :=
  match ops with
  | [] => []
  | (now, o) :: r =>
      match o with
      | OStart t => match s_start t s with
                    | Ok s' => RStart :: run_tree fuel s' r
                    | Panic k => [RPanic k] | OutOfFuel => [RFuel] end
      | ONext => match s_next fuel now s with
                 | Ok (s', t, ok) => RNext t ok :: run_tree fuel s' r
                 | Panic k => [RPanic k] | OutOfFuel => [RFuel] end
      | OLeft => match s_left fuel now s with
                 | Ok (s', k) => RLeft k :: run_tree fuel s' r
                 | Panic k => [RPanic k] | OutOfFuel => [RFuel] end
      end
  end.

(* the same on the abstract stream (started at [t0] by OStart, or by the first Next) *)
Record astate := { a_started : bool; a_items : list item; a_fin : Z; a_flat : list sched }.

Definition a_init (fl : list sched) : astate :=
  {| a_started := false; a_items := []; a_fin := 0; a_flat := fl |}.
Definition a_start (t : Z) (a : astate) : astate :=
  let '(its, f) := items_from t (a_flat a) in
  {| a_started := true; a_items := its; a_fin := f; a_flat := a_flat a |}.

Fixpoint run_abs (a : astate) (ops : list (Z * op)) : list obs :=
  match ops with
  | [] => []
  | (now, o) :: r =>
      match o with
      | OStart t => if a_started a then [RPanic PStarted] else RStart :: run_abs (a_start t a) r
      | ONext =>
          let a1 := if a_started a then a else a_start now a in
          let '(its, t, ok) := abs_next now (a_fin a1) (a_items a1) in
          RNext t ok :: run_abs {| a_started := true; a_items := its; a_fin := a_fin a1; a_flat := a_flat a1 |} r
      | OLeft =>
          (* before the start: the static count of the configuration *)
          let its := if a_started a then a_items a else fst (items_from 0 (a_flat a)) in
          let k := if a_started a then abs_left now its
                   else if existsb is_window its then -1 else Z.of_nat (length its) in
          RLeft k :: run_abs a r
      end
  end.

(* ---------------------------------------------------------------- finish callback *)
(* core/coreutil/schedule.go: onFinishOnce.Do(onFinish) after a Next with !ok or a Left
   returning 0.  [cb_calls] counts the invocations of onFinish. *)
Record cbstate := { cb_done : bool; cb_calls : nat }.
Definition cb_init : cbstate := {| cb_done := false; cb_calls := 0 |}.
Definition cb_fire (c : cbstate) : cbstate :=
  if cb_done c then c else {| cb_done := true; cb_calls := S (cb_calls c) |}.
Definition cb_after_next (ok : bool) (c : cbstate) : cbstate := if ok then c else cb_fire c.
Definition cb_after_left (k : Z) (c : cbstate) : cbstate := if k =? 0 then cb_fire c else c.
