(* Model of the integer-literal reader behind confutil.castInt (lib/confutil/custom_tag_resolver.go):
   strconv.ParseInt(v, 0, bits) for the signed kinds (int, int8..int64, time.Duration, zapcore.Level) and
   strconv.ParseUint(v, 0, bits) for the unsigned ones (property C17, round 8).  Base 0: an optional sign, an
   optional base prefix (0b / 0o / 0x, or a leading 0 for octal), digits below the base, underscores only as
   separators between digits (or right after the prefix).  The magnitude is read into an unbounded Z, the range of the
   width is checked at the end: strconv's overflow cut-offs (ErrRange) are all inside "not representable".
   Executable definitions only. *)
From Coq Require Import List NArith ZArith Bool.
From PV Require Import Model.ConfigDecode.
Import ListNotations.
Local Open Scope N_scope.

Definition c_plus : N := 43. Definition c_minus : N := 45. Definition c_us : N := 95. Definition c_zero : N := 48.

(* strconv's digit value: '0'..'9', then letters of either case from 10 *)
Definition digit_val (c : N) : option N :=
  if (48 <=? c) && (c <=? 57) then Some (c - 48)
  else let l := lower_b c in
       if (97 <=? l) && (l <=? 122) then Some (l - 97 + 10) else None.

(* the digit loop of ParseUint with base0 = true: '_' is skipped and remembered; a byte that is not a digit below the
   base is a syntax error *)
Fixpoint lit_digits (base : N) (s : str) (acc : Z) (us : bool) : option (Z * bool) :=
  match s with
  | [] => Some (acc, us)
  | c :: r =>
      if c =? c_us then lit_digits base r acc true
      else match digit_val c with
           | Some d => if d <? base then lit_digits base r (acc * Z.of_N base + Z.of_N d)%Z us else None
           | None => None
           end
  end.

(* strconv.underscoreOK: what was seen last *)
Inductive saw := SawStart | SawDigit | SawUs | SawOther.

Fixpoint us_scan (hex : bool) (st : saw) (s : str) : bool :=
  match s with
  | [] => match st with SawUs => false | _ => true end
  | c :: r =>
      if ((48 <=? c) && (c <=? 57)) || (hex && (97 <=? lower_b c) && (lower_b c <=? 102)) then us_scan hex SawDigit r
      else if c =? c_us then (match st with SawDigit => us_scan hex SawUs r | _ => false end)
      else match st with SawUs => false | _ => us_scan hex SawOther r end
  end.

Definition is_prefix_letter (c : N) : bool :=
  let l := lower_b c in (l =? 98) || (l =? 111) || (l =? 120).

Definition underscore_ok (s : str) : bool :=
  let s := match s with c :: r => if (c =? c_minus) || (c =? c_plus) then r else s | [] => s end in
  match s with
  | z :: p :: r =>
      if (z =? c_zero) && is_prefix_letter p then us_scan (lower_b p =? 120) SawDigit r
      else us_scan false SawStart s
  | _ => us_scan false SawStart s
  end.

(* ParseUint(s, 0, _) without the width: base and digits *)
Definition lit_base (s : str) : option (N * str) :=
  match s with
  | [] => None
  | z :: r =>
      if z =? c_zero then
        match r with
        | p :: ((_ :: _) as r2) =>
            let l := lower_b p in
            if l =? 98 then Some (2, r2)
            else if l =? 111 then Some (8, r2)
            else if l =? 120 then Some (16, r2)
            else Some (8, r)
        | _ => Some (8, r)
        end
      else Some (10, s)
  end.

Definition parse_mag (s : str) : option Z :=
  match lit_base s with
  | None => None
  | Some (base, body) =>
      match lit_digits base body 0%Z false with
      | None => None
      | Some (m, us) => if us && negb (underscore_ok s) then None else Some m
      end
  end.

(* strconv.ParseUint(s, 0, bits) *)
Definition parse_uint (bits : N) (s : str) : option Z :=
  match parse_mag s with
  | Some m => if Z.ltb m (pow2 bits) then Some m else None
  | None => None
  end.

(* strconv.ParseInt(s, 0, bits) *)
Definition parse_int (bits : N) (s : str) : option Z :=
  match s with
  | [] => None
  | c :: r =>
      let neg := c =? c_minus in
      let body := if (c =? c_plus) || neg then r else s in
      match parse_mag body with
      | None => None
      | Some m =>
          if neg then (if Z.leb m (pow2 (bits - 1)) then Some (- m)%Z else None)
          else (if Z.ltb m (pow2 (bits - 1)) then Some m else None)
      end
  end.

(* the library-parser oracle of the decoder with its ParseInt / ParseUint answers replaced by the modelled reader *)
Definition orc_with_int (orc : okind -> str -> option Z) (k : okind) (s : str) : option Z :=
  match k with
  | OInt bits => parse_int bits s
  | OUint bits => parse_uint bits s
  | _ => orc k s
  end.

(* what confutil.castInt answers for a signed target of the given width: the value, or a refusal (the text then goes on
   to the text hooks / to mapstructure as a string) *)
Definition cast_int_text (bits : N) (s : str) : option Z := parse_int bits s.

(* the bytes an integer literal can be made of *)
Definition lit_char (c : N) : bool :=
  (c =? c_plus) || (c =? c_minus) || (c =? c_us) ||
  ((48 <=? c) && (c <=? 57)) || ((97 <=? lower_b c) && (lower_b c <=? 122)).

Definition dec_char (c : N) : bool := (c =? c_us) || ((48 <=? c) && (c <=? 57)).
