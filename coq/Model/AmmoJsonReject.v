(* C13: the http/json provider as a whole on a file whose JSON is fine but one of whose entries is
   not an entry (method that is not a token, host / uri that do not make a URL):
   - the executable SPECIFICATION of a well-formed entity [entity_okb];
   - provider.runFullScan around the decoder (Limit counts deliveries, the decoder has none);
   - decoders.protoDecoder.LoadAmmo (Scan with Passes = 1 until the first error) and
     provider.runPreloaded (cyclic replay from memory with Passes / Limit);
   - [json_provider]: construction (array form: readArray materialises every element) + Run.
   Executable definitions only; lemmas in Proofs/AmmoJsonRejectProofs.v. *)
From Coq Require Import List NArith ZArith Bool.
From PV Require Import Lib.AmmoBytes Lib.AmmoLines Model.AmmoCommon Model.AmmoJson.
Import ListNotations.
Local Open Scope N_scope.

(* how the file reads as JSON (encoding/json, oracle): a stream of objects ending cleanly or in a
   syntax error, or one array *)
Inductive jform := JFStream (e : jend) | JFArray.

Section JsonProvider.
  Variable url_parse : bytes -> option (bytes * bytes).

  (* SPECIFICATION: an entity is an entry when its method is empty or an HTTP token and
     "http://" ++ host ++ uri is a URL *)
  Definition entity_okb (d : entity) : bool :=
    valid_method (j_method d) && url_ok url_parse (HTTP_PREFIX ++ j_host d ++ j_uri d).

  Definition entities_okb (ds : list entity) : bool := forallb entity_okb ds.

  (* the well-formed entities in front of the first malformed one *)
  Fixpoint good_prefix (ds : list entity) : list entity :=
    match ds with
    | [] => []
    | d :: r => if entity_okb d then d :: good_prefix r else []
    end.

  (* provider.runFullScan: `if p.Limit != 0 && delivered >= p.Limit { return nil }` in front of
     every Scan *)
  Fixpoint fullscan_limit (n : nat) (rs : list (sres entry)) : list (sres entry) :=
    match n with
    | O => [SAmmoLimit]
    | S n' =>
        match rs with
        | SDeliver e :: r => SDeliver e :: fullscan_limit n' r
        | other => other
        end
    end.

  Definition fullscan (limit : N) (rs : list (sres entry)) : list (sres entry) :=
    if N.eqb limit 0 then rs else fullscan_limit (N.to_nat limit) rs.

  (* LoadAmmo: Passes := 1, Limit := 0; Scan until an error; ErrPassLimit is the good end *)
  Definition load_cfg : dcfg := {| c_limit := 0; c_passes := 1 |}.

  Fixpoint json_load (fuel : nat) (s : jstate) (acc : list entry) : sres entry + list entry :=
    match fuel with
    | O => inl SOutOfFuel
    | S f =>
        let '(r, s') := json_scan url_parse load_cfg s in
        match r with
        | SDeliver e => json_load f s' (e :: acc)
        | SPassLimit => inr (rev acc)
        | other => inl other
        end
    end.

  (* runPreloaded *)
  Fixpoint preloaded_run (k : nat) (c : dcfg) (es : list entry) (n : N) : list (sres entry) :=
    match k with
    | O => []
    | S k' =>
        match es with
        | [] => [SNoAmmo]
        | e0 :: _ =>
            let len := nlen es in
            if passes_hit c (n / len) then [SPassLimit]
            else if limit_hit c n then [SAmmoLimit]
            else SDeliver (nth (N.to_nat (n mod len)) es e0) :: preloaded_run k' c es (N.succ n)
        end
    end.

  (* None = the constructor fails; otherwise the deliveries and how Run ends, up to k Acquires *)
  Definition json_provider (preload : bool) (limit passes : N) (k : nat) (form : jform)
             (ents : list entity) : option (list (sres entry)) :=
    let c := {| c_limit := limit; c_passes := passes |} in
    let cd := {| c_limit := 0; c_passes := passes |} in
    match form with
    | JFArray =>
        match read_array url_parse ents with
        | None => None
        | Some es =>
            if preload then Some (preloaded_run k c es 0)
            else Some (fullscan limit (array_run k cd es 0 0))
        end
    | JFStream e =>
        if preload then
          Some (match json_load (S (S (length ents))) (json_init ents e) [] with
                | inl r => [r]
                | inr es => preloaded_run k c es 0
                end)
        else Some (fullscan limit (json_stream_decode url_parse cd k ents e))
    end.
End JsonProvider.
