(* Model of the path a reported sample takes through the phout aggregator
   (core/aggregator/netsample/phout.go) for property C04 ("... is not fired but REPORTED as a
   discarded sample"): Report is a send on a channel of capacity [cap] (sample-queue-size), Run
   receives the samples one by one and writes a line for each; when the pool is done Run drains
   what is left in the channel.  Executable definitions only.

   A history is a list of COMPLETED operations; an operation that cannot complete in a state
   (send on a full channel, receive from an empty one) is simply not the next event: the
   goroutine stays blocked until the state allows it ([qstep] = None). *)
From Coq Require Import List Arith Bool.
Import ListNotations.

Section Q.
Variable A : Type.

Inductive qev := QSend (x : A) | QRecv.

Record qstate := {
  q_buf : list A;       (* samples in the channel, oldest first *)
  q_written : list A;   (* lines written, in order *)
  q_dropped : list A    (* samples thrown away (never happens in the current tree) *)
}.
Definition qinit : qstate := {| q_buf := []; q_written := []; q_dropped := [] |}.

(* [qblocking]: Report(s) = `a.sink <- s` (current tree).  [qdropping]: a Report that gives up when
   the channel is full (select { case a.sink <- s: default: }) -- kept for the refutation. *)
Inductive qvariant := qblocking | qdropping.

Definition qstep (var : qvariant) (cap : nat) (s : qstate) (e : qev) : option qstate :=
  match e with
  | QSend x =>
      if length (q_buf s) <? cap then
        Some {| q_buf := q_buf s ++ [x]; q_written := q_written s; q_dropped := q_dropped s |}
      else
        match var with
        | qblocking =>
            (* full (or unbuffered) channel: the send completes only together with a receive of the
               writer; with cap = 0 that is a direct hand-over, otherwise the sender stays blocked *)
            match cap, q_buf s with
            | O, [] => Some {| q_buf := []; q_written := q_written s ++ [x]; q_dropped := q_dropped s |}
            | _, _ => None
            end
        | qdropping => Some {| q_buf := q_buf s; q_written := q_written s; q_dropped := q_dropped s ++ [x] |}
        end
  | QRecv =>
      match q_buf s with
      | [] => None
      | x :: r => Some {| q_buf := r; q_written := q_written s ++ [x]; q_dropped := q_dropped s |}
      end
  end.

Fixpoint qrun (var : qvariant) (cap : nat) (s : qstate) (evs : list qev) : option qstate :=
  match evs with
  | [] => Some s
  | e :: r => match qstep var cap s e with Some s' => qrun var cap s' r | None => None end
  end.

(* Run's exit: "Context is done, but we should read all data from sink" *)
Definition qdrain (s : qstate) : qstate :=
  {| q_buf := []; q_written := q_written s ++ q_buf s; q_dropped := q_dropped s |}.

Fixpoint sends (evs : list qev) : list A :=
  match evs with
  | [] => []
  | QSend x :: r => x :: sends r
  | QRecv :: r => sends r
  end.
End Q.

Arguments QSend {A}.
Arguments QRecv {A}.
Arguments q_buf {A}.
Arguments q_written {A}.
Arguments q_dropped {A}.
Arguments qinit {A}.
Arguments qstep {A}.
Arguments qrun {A}.
Arguments qdrain {A}.
Arguments sends {A}.

(* which variant a Report implementation is: exactly a plain send, or anything else (treated as
   one that may give up) *)
Definition report_variant (plain_send : bool) : qvariant := if plain_send then qblocking else qdropping.
