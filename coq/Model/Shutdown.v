(* Property C06, part c: when the aggregator's context is cancelled and when the process exits.
     core/engine/engine.go   instancePool.awaitRun / checkAllInstancesAreFinished / startInstances
     cli/cli.go              awaitPandoraTermination (signal branch, error branch, normal end)
   Two small event systems. Executable definitions only. *)
From Coq Require Import List Arith ZArith Bool.
From PV Require Import Gen.PhoutGen.
Import ListNotations.

(* ------------------------------------------------------------------------------------ *)
(* 1. One pool: instances report while they run; the await loop counts results and calls
      runCancel() (the aggregator's context) in checkAllInstancesAreFinished. *)

Record pool := {
  launched : nat;            (* instances started so far (ids 0 .. launched-1) *)
  start_sent : bool;         (* startInstances returned: no further launch *)
  started : option nat;      (* ah.startedInstances once the start result was awaited *)
  running : list nat;        (* launched instances that did not send their run result yet *)
  finished : nat;            (* run results sent *)
  awaited : nat;             (* ah.awaitedInstances *)
  run_cancelled : bool;      (* runCancel() was called: aggregator (and provider) context done *)
  late : nat                 (* history variable: Reports made after run_cancelled *)
}.

Definition pool_init : pool :=
  {| launched := 0; start_sent := false; started := None; running := []; finished := 0; awaited := 0;
     run_cancelled := false; late := 0 |}.

Inductive pev :=
| PLaunch                (* startInstances starts one more instance *)
| PStartSent             (* startInstances returns; its result is in startRes *)
| PAwaitStart            (* await loop: case res := <-ah.startRes ... checkAllInstancesAreFinished *)
| PReport (i : nat)      (* instance i's gun reports a sample *)
| PInstFinish (i : nat)  (* instance i's Run returned; result sent to runRes *)
| PAwaitRun              (* await loop: case res := <-ah.runRes ... checkAllInstancesAreFinished *)
| PExtCancel.            (* the pool's parent context is cancelled from outside (signal, other pool failed) *)

Definition mem (i : nat) (l : list nat) : bool := existsb (Nat.eqb i) l.
Definition remove_nat (i : nat) (l : list nat) : list nat := filter (fun j => negb (Nat.eqb i j)) l.

(* checkAllInstancesAreFinished: allFinished := isStartFinished() && awaited >= started *)
Definition check (p : pool) : pool :=
  match started p with
  | Some n =>
      if n <=? awaited p then
        {| launched := launched p; start_sent := start_sent p; started := started p; running := running p;
           finished := finished p; awaited := awaited p; run_cancelled := true; late := late p |}
      else p
  | None => p
  end.

(* [ext] = external cancellation is possible in this execution *)
Definition pstep (ext : bool) (p : pool) (e : pev) : option pool :=
  match e with
  | PLaunch =>
      if start_sent p then None
      else Some {| launched := S (launched p); start_sent := false; started := started p;
                   running := running p ++ [launched p]; finished := finished p; awaited := awaited p;
                   run_cancelled := run_cancelled p; late := late p |}
  | PStartSent =>
      if start_sent p then None
      else Some {| launched := launched p; start_sent := true; started := started p; running := running p;
                   finished := finished p; awaited := awaited p; run_cancelled := run_cancelled p; late := late p |}
  | PAwaitStart =>
      match start_sent p, started p with
      | true, None =>
          Some (check {| launched := launched p; start_sent := true; started := Some (launched p);
                         running := running p; finished := finished p; awaited := awaited p;
                         run_cancelled := run_cancelled p; late := late p |})
      | _, _ => None
      end
  | PReport i =>
      if mem i (running p) then
        Some {| launched := launched p; start_sent := start_sent p; started := started p; running := running p;
                finished := finished p; awaited := awaited p; run_cancelled := run_cancelled p;
                late := if run_cancelled p then S (late p) else late p |}
      else None
  | PInstFinish i =>
      if mem i (running p) then
        Some {| launched := launched p; start_sent := start_sent p; started := started p;
                running := remove_nat i (running p); finished := S (finished p); awaited := awaited p;
                run_cancelled := run_cancelled p; late := late p |}
      else None
  | PAwaitRun =>
      if awaited p <? finished p then
        Some (check {| launched := launched p; start_sent := start_sent p; started := started p;
                       running := running p; finished := finished p; awaited := S (awaited p);
                       run_cancelled := run_cancelled p; late := late p |})
      else None
  | PExtCancel =>
      if ext then
        Some {| launched := launched p; start_sent := start_sent p; started := started p; running := running p;
                finished := finished p; awaited := awaited p; run_cancelled := true; late := late p |}
      else None
  end.

Fixpoint prun (ext : bool) (p : pool) (h : list pev) : option pool :=
  match h with
  | [] => Some p
  | e :: r => match pstep ext p e with Some p' => prun ext p' r | None => None end
  end.

(* ------------------------------------------------------------------------------------ *)
(* 2. The process: cli + engine + the pools' aggregators, from start to exit. *)

Inductive exit_reason :=
| ExOk            (* Run returned nil: "Engine run successfully finished" *)
| ExInterrupted   (* signal branch: log.Fatal("Engine interrupted") *)
| ExFailed        (* error branch: pandora.Wait() returned, log.Fatal("Engine run failed...") *)
| ExTimeout       (* "Interrupt timeout exceeded" / "Engine tasks timeout exceeded." *)
| ExSignal2.      (* "Another signal received. Quiting." *)

Record proc := {
  sig : bool;               (* SIGINT/SIGTERM received by awaitPandoraTermination *)
  cancelled : bool;         (* gracefulShutdown(): the root context is cancelled *)
  run_ret : bool;           (* engine.Run returned after a cancel (ctx.Err()) or with an error *)
  run_ok : bool;            (* engine.Run returned nil *)
  run_failed : bool;        (* engine.Run returned a pool's error (no signal) *)
  pcancel : list bool;      (* per pool: runCancel() called (all instance results awaited) *)
  aggr_closed : list bool;  (* per pool: aggregator Run returned: drained, flushed, closed *)
  pool_done : list bool;    (* per pool: all four results awaited, onWaitDone called *)
  timed_out : bool;
  sig2 : bool;
  exited : option exit_reason
}.

Definition proc_init (pools : nat) : proc :=
  {| sig := false; cancelled := false; run_ret := false; run_ok := false; run_failed := false;
     pcancel := repeat false pools; aggr_closed := repeat false pools; pool_done := repeat false pools;
     timed_out := false; sig2 := false; exited := None |}.

Inductive cev :=
| CSignal
| CCancel
| CRunReturns            (* Run's select takes <-ctx.Done() *)
| CRunOk                 (* every pool.Run returned nil *)
| CRunFails              (* some pool failed: Run returns its error *)
| CInstancesDone (p : nat)
| CAggrClosed (p : nat)
| CPoolDone (p : nat)
| CTimeout
| CSignal2
| CExit (r : exit_reason).

Fixpoint set_true (p : nat) (l : list bool) : list bool :=
  match l, p with
  | [], _ => []
  | _ :: r, O => true :: r
  | b :: r, S p' => b :: set_true p' r
  end.

Definition get (p : nat) (l : list bool) : bool := nth p l false.
Definition all_true (l : list bool) : bool := forallb (fun b => b) l.

Definition upd (s : proc) (f : proc -> proc) : option proc := Some (f s).

(* The documented time budgets of the cli (bridged to the values read from cli/cli.go):
   CTimeout stands for "that long has elapsed since the failure / the signal". *)
Definition await_timeout_ns : Z := 3000000000.      (* failed run: "Awaiting started tasks", 3 s *)
Definition sigterm_timeout_ns : Z := 3000000000.    (* SIGTERM: 3 s *)
Definition sigint_timeout_ns : Z := 30000000000.    (* SIGINT: 30 s *)

(* [waits]: in the signal branch the cli waits for Engine.Wait() (all pools done) between
   receiving Run's result and log.Fatal. [fwaits]: the failed-run branch calls Engine.Wait()
   before its final log.Fatal. *)
Definition cstep (waits fwaits : bool) (s : proc) (e : cev) : option proc :=
  match exited s with
  | Some _ => None      (* the process is gone: nothing happens any more *)
  | None =>
    match e with
    | CSignal =>
        if sig s || run_ok s || run_failed s then None   (* the handler's select already took another branch *)
        else Some {| sig := true; cancelled := cancelled s; run_ret := run_ret s; run_ok := run_ok s; run_failed := run_failed s;
                     pcancel := pcancel s; aggr_closed := aggr_closed s; pool_done := pool_done s;
                     timed_out := timed_out s; sig2 := sig2 s; exited := None |}
    | CCancel =>
        if (sig s || run_failed s) && negb (cancelled s) then
          Some {| sig := sig s; cancelled := true; run_ret := run_ret s; run_ok := run_ok s; run_failed := run_failed s;
                  pcancel := pcancel s; aggr_closed := aggr_closed s; pool_done := pool_done s;
                  timed_out := timed_out s; sig2 := sig2 s; exited := None |}
        else None
    | CRunReturns =>
        if cancelled s && negb (run_ret s) && negb (run_ok s) && negb (run_failed s) then
          Some {| sig := sig s; cancelled := cancelled s; run_ret := true; run_ok := run_ok s; run_failed := run_failed s;
                  pcancel := pcancel s; aggr_closed := aggr_closed s; pool_done := pool_done s;
                  timed_out := timed_out s; sig2 := sig2 s; exited := None |}
        else None
    | CRunOk =>
        (* pool.Run returns nil only after its await goroutine closed awaitErr, i.e. after all
           four results (aggregator included) were awaited *)
        if all_true (pool_done s) && negb (run_ret s) && negb (run_ok s) && negb (run_failed s) && negb (sig s) then
          Some {| sig := sig s; cancelled := cancelled s; run_ret := run_ret s; run_ok := true; run_failed := run_failed s;
                  pcancel := pcancel s; aggr_closed := aggr_closed s; pool_done := pool_done s;
                  timed_out := timed_out s; sig2 := sig2 s; exited := None |}
        else None
    | CRunFails =>
        if negb (run_ret s) && negb (run_ok s) && negb (run_failed s) && negb (sig s) then
          Some {| sig := sig s; cancelled := cancelled s; run_ret := run_ret s; run_ok := run_ok s; run_failed := true;
                  pcancel := pcancel s; aggr_closed := aggr_closed s; pool_done := pool_done s;
                  timed_out := timed_out s; sig2 := sig2 s; exited := None |}
        else None
    | CInstancesDone p =>
        if (p <? length (pcancel s)) && negb (get p (pcancel s)) then
          Some {| sig := sig s; cancelled := cancelled s; run_ret := run_ret s; run_ok := run_ok s; run_failed := run_failed s;
                  pcancel := set_true p (pcancel s); aggr_closed := aggr_closed s; pool_done := pool_done s;
                  timed_out := timed_out s; sig2 := sig2 s; exited := None |}
        else None
    | CAggrClosed p =>
        (* the aggregator returns only after its context is done: root cancel or runCancel() *)
        if (p <? length (aggr_closed s)) && (cancelled s || get p (pcancel s)) && negb (get p (aggr_closed s)) then
          Some {| sig := sig s; cancelled := cancelled s; run_ret := run_ret s; run_ok := run_ok s; run_failed := run_failed s;
                  pcancel := pcancel s; aggr_closed := set_true p (aggr_closed s); pool_done := pool_done s;
                  timed_out := timed_out s; sig2 := sig2 s; exited := None |}
        else None
    | CPoolDone p =>
        if (p <? length (pool_done s)) && get p (aggr_closed s) && negb (get p (pool_done s)) then
          Some {| sig := sig s; cancelled := cancelled s; run_ret := run_ret s; run_ok := run_ok s; run_failed := run_failed s;
                  pcancel := pcancel s; aggr_closed := aggr_closed s; pool_done := set_true p (pool_done s);
                  timed_out := timed_out s; sig2 := sig2 s; exited := None |}
        else None
    | CTimeout =>
        if sig s || run_failed s then
          Some {| sig := sig s; cancelled := cancelled s; run_ret := run_ret s; run_ok := run_ok s; run_failed := run_failed s;
                  pcancel := pcancel s; aggr_closed := aggr_closed s; pool_done := pool_done s;
                  timed_out := true; sig2 := sig2 s; exited := None |}
        else None
    | CSignal2 =>
        if sig s then
          Some {| sig := sig s; cancelled := cancelled s; run_ret := run_ret s; run_ok := run_ok s; run_failed := run_failed s;
                  pcancel := pcancel s; aggr_closed := aggr_closed s; pool_done := pool_done s;
                  timed_out := timed_out s; sig2 := true; exited := None |}
        else None
    | CExit r =>
        let ok :=
          match r with
          | ExOk => run_ok s
          | ExInterrupted => sig s && cancelled s && run_ret s && (if waits then all_true (pool_done s) else true)
          | ExFailed => run_failed s && cancelled s && (if fwaits then all_true (pool_done s) else true)   (* pandora.Wait() returned *)
          | ExTimeout => timed_out s
          | ExSignal2 => sig2 s
          end in
        if ok then
          Some {| sig := sig s; cancelled := cancelled s; run_ret := run_ret s; run_ok := run_ok s; run_failed := run_failed s;
                  pcancel := pcancel s; aggr_closed := aggr_closed s; pool_done := pool_done s;
                  timed_out := timed_out s; sig2 := sig2 s; exited := Some r |}
        else None
    end
  end.

Fixpoint crun (waits fwaits : bool) (s : proc) (h : list cev) : option proc :=
  match h with
  | [] => Some s
  | e :: r => match cstep waits fwaits s e with Some s' => crun waits fwaits s' r | None => None end
  end.

(* what cli/cli.go does now (regenerated from the source on every run) *)
Definition cli_waits : bool := gen_cli_signal_waits.
Definition cli_failed_waits : bool := gen_cli_failed_waits.

(* an exit that is not forced by the interrupt timeout or by a second signal *)
Definition orderly (r : exit_reason) : bool :=
  match r with ExTimeout | ExSignal2 => false | _ => true end.
