(* Property C18, "components configured with the registered defaults overlaid by the user's
   settings", for config structs whose fields are not only scalars: a field may be a number, a
   map (string -> number), a slice of numbers, a nested struct of numbers or a pointer to one, and the registered
   default may hold NON-EMPTY maps / slices / nested structs.  The fill that pluginconfig.parseConf
   builds decodes the section's keys into the config the registry made from the default
   (config.Decode: mapstructure with ErrorUnused = true, ZeroFields = FALSE, WeaklyTypedInput = false):
     - a field whose key is absent from the section is left as the default made it;
     - a key with a nil value (yaml `key:`) leaves the field as it is;
     - a map field is written key by key INTO the default's map: the default's other keys stay;
     - a nested struct is decoded field by field INTO the default's struct;
     - a slice of numbers is replaced by the section's list;
     - a key that names no field (also inside a nested struct), or a value of the wrong kind, is a
       config error.
   Second part: registered names.  A registry holds, per plugin type, the constructors under the
   names they were registered with - byte strings, compared exactly; the config hooks hand the
   value of the section's type key to the lookup as it is.

   Executable definitions only. *)
From Coq Require Import List Arith Bool NArith.
Import ListNotations.

Definition key := N.                          (* a field name / a map key, interned *)
Definition amap := list (key * N).

Fixpoint alookup {A} (k : key) (m : list (key * A)) : option A :=
  match m with
  | [] => None
  | (k', v) :: r => if N.eqb k k' then Some v else alookup k r
  end.
Definition has_key {A} (k : key) (m : list (key * A)) : bool := existsb (fun kv => N.eqb k (fst kv)) m.

(* a field of a config struct, with its current content; FSub = nested struct: its fields in
   declaration order *)
Inductive fval := FNum (n : N) | FMap (m : amap) | FList (l : list N) | FSub (s : amap)
  | FPtr (isnil : bool) (s : amap).   (* pointer to a nested struct; nil: s holds the zero values a fresh one would have *)
Definition cfg := list (key * fval).          (* the struct: fields in declaration order *)

(* a value of the section: nil, a number, a map (values: numbers or nil), a list of numbers *)
Inductive uval := UNull | UNum (n : N) | UMap (m : list (key * option N)) | UList (l : list N).
Definition sect := list (key * uval).         (* the section without its type key *)

(* ---------- the decoder, as the code goes (ZeroFields = false) ---------- *)

(* valMap.SetMapIndex(k, v) on the EXISTING map *)
Fixpoint aset (k : key) (v : N) (m : amap) : amap :=
  match m with
  | [] => [(k, v)]
  | (k', v') :: r => if N.eqb k k' then (k, v) :: r else (k', v') :: aset k v r
  end.
(* decodeMapFromMap: every key of the data is decoded into a fresh element (nil leaves it zero)
   and stored into the map that is already there *)
Definition dec_map (dm : amap) (um : list (key * option N)) : amap :=
  fold_right (fun kv acc => aset (fst kv) (match snd kv with Some v => v | None => 0%N end) acc) dm um.
(* decodeStructFromMap on a nested struct: every field takes the value under its name (nil: left
   alone); keys that name no field are counted (ErrorUnused) *)
Definition unused_keys {A B} (fields : list (key * A)) (data : list (key * B)) : nat :=
  length (filter (fun kv => negb (has_key (fst kv) fields)) data).
Definition dec_sub (ds : amap) (um : list (key * option N)) : amap * nat :=
  (map (fun fv => (fst fv, match alookup (fst fv) um with Some (Some v) => v | _ => snd fv end)) ds,
   unused_keys ds um).

(* decode of one value into one field: None = "expected a map / a number / an array" *)
Definition dec_field (cur : fval) (u : uval) : option (fval * nat) :=
  match u, cur with
  | UNull, _ => Some (cur, 0)
  | UNum n, FNum _ => Some (FNum n, 0)
  | UMap um, FMap dm => Some (FMap (dec_map dm um), 0)
  | UMap um, FSub ds => Some (FSub (fst (dec_sub ds um)), snd (dec_sub ds um))
  (* decodePtr: a nil pointer gets a fresh struct, a non-nil one is decoded into (ZeroFields = false) *)
  | UMap um, FPtr _ ds => Some (FPtr false (fst (dec_sub ds um)), snd (dec_sub ds um))
  | UList ul, FList _ => Some (FList ul, 0)
  | _, _ => None
  end.

(* the struct: the written fields, the unused keys met below, whether a value had the wrong kind *)
Fixpoint dec_fields (fs : cfg) (sec : sect) : cfg * nat * bool :=
  match fs with
  | [] => ([], 0, false)
  | (f, cur) :: r =>
      let '(r', n, bad) := dec_fields r sec in
      match alookup f sec with
      | None => ((f, cur) :: r', n, bad)
      | Some u => match dec_field cur u with
                  | Some (v, k) => ((f, v) :: r', k + n, bad)
                  | None => ((f, cur) :: r', n, true)
                  end
      end
  end.
Definition dec_cfg (fs : cfg) (sec : sect) : option cfg :=
  let '(r, n, bad) := dec_fields fs sec in
  if bad || negb (Nat.eqb (n + unused_keys fs sec) 0) then None else Some r.

Definition ovl_some {A} (x : option A) : bool := match x with Some _ => true | None => false end.

(* ---------- specification, stated without following the code ---------- *)

(* a value fits a field *)
Definition fits (cur : fval) (u : uval) : bool :=
  match u, cur with
  | UNull, _ => true
  | UNum _, FNum _ => true
  | UMap _, FMap _ => true
  | UList _, FList _ => true
  | UMap um, FSub ds => forallb (fun kv => has_key (fst kv) ds) um
  | UMap um, FPtr _ ds => forallb (fun kv => has_key (fst kv) ds) um
  | _, _ => false
  end.
(* the settings are acceptable: every key names a field, every field's setting fits it *)
Definition ovl_accepted_b (fs : cfg) (sec : sect) : bool :=
  forallb (fun kv => has_key (fst kv) fs) sec &&
  forallb (fun fv => match alookup (fst fv) sec with Some u => fits (snd fv) u | None => true end) fs.

(* what a key of a map field must hold afterwards: the section's value where the section's map has
   the key, the default's otherwise *)
Definition map_expect (dm : amap) (um : list (key * option N)) (k : key) : option N :=
  match alookup k um with
  | Some (Some v) => Some v
  | Some None => Some 0%N
  | None => alookup k dm
  end.
Definition optN_eqb (a b : option N) : bool :=
  match a, b with Some x, Some y => N.eqb x y | None, None => true | _, _ => false end.
Definition map_agrees_b (dm : amap) (um : list (key * option N)) (ob : amap) : bool :=
  forallb (fun k => optN_eqb (alookup k ob) (map_expect dm um k)) (map fst dm ++ map fst um ++ map fst ob).
(* a nested struct: field by field *)
Definition sub_expect (ds : amap) (um : list (key * option N)) : amap :=
  map (fun fv => (fst fv, match alookup (fst fv) um with Some (Some v) => v | _ => snd fv end)) ds.
Fixpoint listN_eqb (a b : list N) : bool :=
  match a, b with
  | [], [] => true
  | x :: a', y :: b' => N.eqb x y && listN_eqb a' b'
  | _, _ => false
  end.
Fixpoint amap_eqb (a b : amap) : bool :=
  match a, b with
  | [], [] => true
  | (k, x) :: a', (k', y) :: b' => N.eqb k k' && N.eqb x y && amap_eqb a' b'
  | _, _ => false
  end.
(* one field of a product's config against the default's field and the section's value for it *)
Definition val_agrees_b (cur : fval) (u : uval) (ob : fval) : bool :=
  match cur, ob with
  | FNum d, FNum x => N.eqb x (match u with UNum n => n | _ => d end)
  | FList d, FList x => listN_eqb x (match u with UList l => l | _ => d end)
  | FMap d, FMap x => map_agrees_b d (match u with UMap um => um | _ => [] end) x
  | FSub d, FSub x => amap_eqb x (sub_expect d (match u with UMap um => um | _ => [] end))
  | FPtr dn d, FPtr xn x =>
      match u with
      | UMap um => negb xn && amap_eqb x (sub_expect d um)
      | _ => Bool.eqb dn xn && (xn || amap_eqb x d)      (* untouched: still nil, or the default's struct *)
      end
  | _, _ => false
  end.
(* a product's config = the registered default overlaid by the settings *)
Fixpoint cfg_agrees_b (fs : cfg) (sec : sect) (ob : cfg) : bool :=
  match fs, ob with
  | [], [] => true
  | (f, cur) :: fr, (g, x) :: orr =>
      N.eqb f g && val_agrees_b cur (match alookup f sec with Some u => u | None => UNull end) x &&
      cfg_agrees_b fr sec orr
  | _, _ => false
  end.

(* ---------- registered names ---------- *)
Definition pname := list N.                   (* a name: its bytes *)
Fixpoint pname_eqb (a b : pname) : bool :=
  match a, b with
  | [], [] => true
  | x :: a', y :: b' => N.eqb x y && pname_eqb a' b'
  | _, _ => false
  end.
(* the names registered for one plugin type with the entry (which constructor + default) of each *)
Definition nreg := list (pname * nat).
Fixpoint nlookup (r : nreg) (n : pname) : option nat :=
  match r with
  | [] => None
  | (m, e) :: r' => if pname_eqb n m then Some e else nlookup r' n
  end.
(* Registry.Register: the empty name and a name already there are refused (panic) *)
Definition nregister (r : nreg) (n : pname) (e : nat) : option nreg :=
  match n with
  | [] => None
  | _ => match nlookup r n with Some _ => None | None => Some (r ++ [(n, e)]) end
  end.
Fixpoint nregister_all (r : nreg) (l : list (pname * nat)) : option nreg :=
  match l with
  | [] => Some r
  | (n, e) :: l' => match nregister r n e with Some r' => nregister_all r' l' | None => None end
  end.
(* creation by name: through the hooks (parseConf: the string under the type key, as it is; the
   empty string is refused) or by Registry.New / NewFactory directly *)
Inductive nres := NEmpty | NUnknown | NReaches (e : nat).
Definition hook_name (v : pname) : option pname := match v with [] => None | _ => Some v end.
Definition create_named (r : nreg) (v : pname) : nres :=
  match hook_name v with
  | None => NEmpty
  | Some n => match nlookup r n with Some e => NReaches e | None => NUnknown end
  end.
(* specification: the entry reached is the one registered under exactly these bytes *)
Definition named_spec_b (l : list (pname * nat)) (v : pname) (res : nres) : bool :=
  match res with
  | NEmpty => match v with [] => true | _ => false end
  | NUnknown => negb (existsb (fun ne => pname_eqb v (fst ne)) l) && match v with [] => false | _ => true end
  | NReaches e => existsb (fun ne => pname_eqb v (fst ne) && Nat.eqb e (snd ne)) l && match v with [] => false | _ => true end
  end.
