(* Model of what the plugin registry makes of a registered constructor's results when it builds the factory
   the engine calls (property C05, "if ... gun ... creation ..., schedule creation ... fails, the run returns an
   error that carries that cause"; InstancePoolConfig.NewGun / NewRPSSchedule are such factories):
   core/plugin/constructor.go

     pluginConstructor.NewFactory / factoryConstructor.NewFactory:
       if <the registered func has the requested factory type> { return it as it is }
       MakeFunc(factoryType, func(in) {
         maybeConf, err = getMaybeConf()                         (constructors of plugins, when a config is required)
         if err != nil { numOut 1: panic(err); numOut 2: return [Zero(pluginType), err] }
         out := c.newPlugin.Call(maybeConf)
         return convertFactoryOutParams(c.pluginType, factoryType.NumOut(), out) })

     convertFactoryOutParams(pluginType, numOut, out):
       switch numOut { case 1, 2: default: panic("unexpeced out params num") }
       if out[0].Type() != pluginType { impl := out[0]; out[0] = reflect.New(pluginType).Elem(); out[0].Set(impl) }
       if len(out) < numOut { out = append(out, reflect.Zero(errorType)) }
       if numOut < len(out) { if !out[1].IsNil() { panic(out[1].Interface()) }; out = out[:1] }
       return out

   The three guarded statements are a parameter ([cvprog]); the tree's are re-read from the source
   (Gen/PlugConvGen.v).  Executable definitions only. *)
From Coq Require Import List Arith Bool.
Import ListNotations.

(* a reflect.Value among the results of a call: the implementation (concrete type), the plugin interface, an error *)
Inductive pval :=
| VImpl (isnil : bool)
| VPlug (isnil : bool)        (* isnil: the object inside is nil *)
| VErr (e : option nat).      (* None = nil error *)

Inductive cvguard := GFirstNotPlugin | GLenLtNumOut | GNumOutLtLen.

Inductive cvstep :=
| CvWrapFirst       (* impl := out[0]; out[0] = reflect.New(pluginType).Elem(); out[0].Set(impl) *)
| CvRebuild         (* impl := out[0]; out = []reflect.Value{reflect.New(pluginType).Elem()}; out[0].Set(impl) *)
| CvAppendNilErr    (* out = append(out, reflect.Zero(errorType)) *)
| CvTrimOrPanic.    (* if !out[1].IsNil() { panic(out[1].Interface()) }; out = out[:1] *)

Definition cvprog := list (cvguard * cvstep).

(* core/plugin/constructor.go as it is *)
Definition tree_cvprog : cvprog :=
  [(GFirstNotPlugin, CvWrapFirst); (GLenLtNumOut, CvAppendNilErr); (GNumOutLtLen, CvTrimOrPanic)].

Inductive cvres :=
| CvOut (out : list pval)
| CvPanic (e : nat)      (* panic carrying the constructor's error *)
| CvCrash.               (* a Go run-time panic: index out of range, "unexpected out params num", Set of a wrong type *)

Definition cv_guard (g : cvguard) (numOut : nat) (out : list pval) : option bool :=
  match g with
  | GFirstNotPlugin => match out with VImpl _ :: _ => Some true | VPlug _ :: _ => Some false | _ => None end
  | GLenLtNumOut => Some (length out <? numOut)
  | GNumOutLtLen => Some (numOut <? length out)
  end.

Definition cv_step (s : cvstep) (out : list pval) : cvres :=
  match s with
  | CvWrapFirst => match out with VImpl n :: r => CvOut (VPlug n :: r) | _ => CvCrash end
  | CvRebuild => match out with VImpl n :: _ => CvOut [VPlug n] | _ => CvCrash end
  | CvAppendNilErr => CvOut (out ++ [VErr None])
  | CvTrimOrPanic =>
      match out with
      | v :: VErr None :: _ => CvOut [v]
      | _ :: VErr (Some e) :: _ => CvPanic e
      | _ => CvCrash
      end
  end.

Fixpoint cv_exec (prog : cvprog) (numOut : nat) (out : list pval) : cvres :=
  match prog with
  | [] => CvOut out
  | (g, s) :: r =>
      match cv_guard g numOut out with
      | None => CvCrash
      | Some false => cv_exec r numOut out
      | Some true => match cv_step s out with CvOut out' => cv_exec r numOut out' | bad => bad end
      end
  end.

Definition cv_convert (prog : cvprog) (numOut : nat) (out : list pval) : cvres :=
  match numOut with
  | 1 | 2 => cv_exec prog numOut out
  | _ => CvCrash
  end.

(* what a call of the factory gives its caller *)
Inductive fres :=
| FrOk (objnil : bool)
| FrErr (e : nat)
| FrPanic (e : nat)
| FrCrash.

Definition fres_of (numOut : nat) (r : cvres) : fres :=
  match r with
  | CvPanic e => FrPanic e
  | CvCrash => FrCrash
  | CvOut out =>
      match numOut, out with
      | 1, [VPlug n] => FrOk n
      | 2, [VPlug n; VErr None] => FrOk n
      | 2, [VPlug _; VErr (Some e)] => FrErr e
      | _, _ => FrCrash
      end
  end.

(* one call of the factory built by NewFactory: [direct] = the registered func already has the factory's type;
   [conf] = Some e: filling the config failed with e; [out] = what the registered constructor returns *)
Definition factory_call (prog : cvprog) (numOut : nat) (direct : bool) (conf : option nat) (out : list pval) : fres :=
  if direct then fres_of numOut (CvOut out)
  else match conf with
       | Some e => match numOut with 1 => FrPanic e | 2 => FrErr e | _ => FrCrash end
       | None => fres_of numOut (cv_convert prog numOut out)
       end.

(* ---- specification side ---- *)

(* the results a registered constructor can have (expectPluginConstructor): the implementation or the plugin
   interface, optionally followed by an error *)
Definition wf_out (out : list pval) : bool :=
  match out with
  | [VImpl _] | [VPlug _] | [VImpl _; VErr _] | [VPlug _; VErr _] => true
  | _ => false
  end.

(* ... of a func that has the factory's own type *)
Definition wf_direct (numOut : nat) (out : list pval) : bool :=
  match numOut, out with
  | 1, [VPlug _] | 2, [VPlug _; VErr _] => true
  | _, _ => false
  end.

Definition ctor_err (out : list pval) : option nat :=
  match out with [_; VErr e] => e | _ => None end.

Definition ctor_objnil (out : list pval) : bool :=
  match out with (VImpl n | VPlug n) :: _ => n | _ => true end.

(* the creation failed: the config could not be filled, or the constructor returned an error *)
Definition creation_error (conf : option nat) (out : list pval) : option nat :=
  match conf with Some e => Some e | None => ctor_err out end.

(* a failed creation reaches the caller with its cause: as the factory's error, or (a factory type without an error
   result) as a panic carrying it; a creation that did not fail gives the object *)
Definition factory_spec (numOut : nat) (conf : option nat) (out : list pval) : fres :=
  match creation_error conf out with
  | Some e => if numOut =? 2 then FrErr e else FrPanic e
  | None => FrOk (ctor_objnil out)
  end.

Definition fres_failed (r : fres) : bool := match r with FrOk _ => false | _ => true end.
